package main

// c41-facts <overlay/reuse.go> <overlay/reaper.go> <overlay/transport.go> : print Gen.lean — the cache-status
//                                  snapshot and the decision tree of QUIC.reuseConnection, what QUIC.reapPeer does
//                                  with the cache entry, and which connections get a close-watcher that calls reapPeer
//                                  once reuseConnection returned (QUIC.handleIncoming / QUIC.handleOutgoing),
//                                  translated mechanically from the Go AST.
// c41-lines <overlay/reuse.go> <overlay/reaper.go> <overlay/transport.go> : print the same functions as exhaustive
//                                  tables (one row per input) for the harness: `snap <cached> <cdir> <dir> => <state>,<dir>`,
//                                  `leaf <ps> <pd> <cached> <cdir> <dir> <rc> <rcdir> => <act>`,
//                                  `reap <loaded> => del=…,closeCached=…,closeTrigger=…` and
//                                  `watch <dir> <reused> => returned=…,negotiated=…`.
//
// Supported shape (anything else aborts with a non-zero exit, which ./check reports as a broken obligation):
//   snapshot: the `if cached {…} else {…}` that follows `cache, cached := t.cachedConnections.Load(qKey)`;
//             assignments to negotiation.CacheState / negotiation.CacheDirection, nested ifs on
//             `cache.direction ==/!= directionX`, `dir ==/!= directionX`, `cached`, `!cached`.
//   decision: the `switch negotiation.CacheState` that follows `unlock := t.cachedMutex.Lock(qKey)`;
//             nested switches on negotiation.CacheState / negotiation.CacheDirection, ifs as above,
//             `cache, cached = t.cachedConnections.Load(qKey)` (re-load; also as the init statement of an if:
//             `if cache, cached = t.cachedConnections.Load(qKey); <cond> {…}`), `fresh.quic.CloseWithError(…)`,
//             `cache.quic.CloseWithError(…)`, `t.cachedConnections.Store(qKey, fresh|cache)`,
//             `t.cachedConnections.Delete(qKey)`, `return <cache|fresh|nil>, <bool>, <nil|wrapReuseError(…)|other>`.
//   reapPeer: `qKey := t.makeCachedKey(peer)`, `unlock := t.cachedMutex.Lock(qKey)` + `defer unlock()` (every cache
//             access must come after it), `x, ok := t.cachedConnections.LoadAndDelete(qKey)` / `….Load(qKey)`,
//             `t.cachedConnections.Delete(qKey)`, `if ok {…} else {…}` / `if !ok`, `x.quic.CloseWithError(…)` (only
//             where ok is known to be true: x is a nil pointer otherwise), `<q>.CloseWithError(…)` on the connection
//             parameter, logging and the RTT bookkeeping (`t.rttMap.Delete`, `if t.RTTRecorder != nil {…}`), `return`.
//             Facts per path: is the peer's cache entry gone afterwards (del), is the connection of the entry that was
//             CACHED closed (closeCached), is the connection that triggered the reap closed (closeTrigger).
//   handleIncoming / handleOutgoing (overlay/transport.go): everything up to and including
//             `c, reused, err := t.reuseConnection(ctx, q, stream, directionX)` + `if err != nil { return nil, err }`
//             may not start a goroutine nor call handlePeer / reapPeer; after it: ifs (with else / else-if, no init
//             statement) over `reused`, `!reused`, `c.quic ==/!= q`, `&&`, `||`; `t.handlePeer(ctx, <c.quic|q>, c.peer,
//             directionX)` (handlePeer itself must contain the close-watcher `go func(…){ <-q.Context().Done(); …;
//             t.reapPeer(q, peer) }(q)`); a bare close-watcher `go func(<params>) { <-x.Context().Done(); <logging>;
//             t.reapPeer(x, <peer>) }(<c.quic|q>, …)`; `return c.quic, nil`. Facts per (dir, reused): does the
//             connection reuseConnection RETURNED get a close-watcher that reaps (returned), does the NEGOTIATED
//             connection q get one although another connection was returned (negotiated).
//   After the re-load `cached` means rc (does the re-load find an entry) and `cache.direction` means rcdir (the
//   direction of the entry found by the re-load). `cache` is a nil pointer when the re-load finds nothing, so
//   rcdir may only be read where rc = true is established: on the right of `cached && …` or inside the
//   then-branch of an `if` whose condition implies `cached`; anything else aborts.

import (
	"fmt"
	"go/ast"
	"go/parser"
	"go/token"
	"os"
	"strings"
)

type c41Env struct {
	ps, pd           string // peer status: cached|fresh, incoming|outgoing
	cached           bool
	cdir, dir        string
	rc               bool   // result of the re-load
	rcdir            string // direction of the entry found by the re-load (meaningful only when rc)
	reloaded         bool
	closeF, closeC   bool
	store            string // "", fresh, cache
	del              bool
	snapState, snapD string
}

// node of the translated tree
type c41Node struct {
	kind   string // if | matchState | matchDir | leaf | snapleaf
	cond   string // lean condition text for `if`
	condFn func(e *c41Env) bool
	a, b   *c41Node // then/else ; cached/fresh ; incoming/outgoing
	leaf   string   // lean text of the leaf
	leafFn func(e *c41Env) string
}

func c41Fail(fset *token.FileSet, n ast.Node, msg string) {
	fmt.Fprintf(os.Stderr, "c41-facts: %s: unsupported: %s\n", fset.Position(n.Pos()), msg)
	os.Exit(1)
}

func c41Sel(e ast.Expr) string {
	switch x := e.(type) {
	case *ast.Ident:
		return x.Name
	case *ast.SelectorExpr:
		return c41Sel(x.X) + "." + x.Sel.Name
	case *ast.ParenExpr:
		return c41Sel(x.X)
	}
	return "?"
}

type c41Ctx struct {
	fset *token.FileSet
}

// does the condition being true imply that the identifier `cached` is true?
func c41ImpliesCached(e ast.Expr) bool {
	switch x := e.(type) {
	case *ast.ParenExpr:
		return c41ImpliesCached(x.X)
	case *ast.Ident:
		return x.Name == "cached"
	case *ast.BinaryExpr:
		if x.Op == token.LAND {
			return c41ImpliesCached(x.X) || c41ImpliesCached(x.Y)
		}
		if x.Op == token.LOR {
			return c41ImpliesCached(x.X) && c41ImpliesCached(x.Y)
		}
	}
	return false
}

// condition → (lean text, evaluator). `reloaded` selects which `cached` / `cache` variables are meant (the
// snapshot's or the re-load's); `rcKnown` = the re-loaded `cached` is known to be true where e is evaluated.
func (c *c41Ctx) cond(e ast.Expr, reloaded, rcKnown bool) (string, func(*c41Env) bool) {
	switch x := e.(type) {
	case *ast.ParenExpr:
		return c.cond(x.X, reloaded, rcKnown)
	case *ast.Ident:
		if x.Name == "cached" {
			if reloaded {
				return "rc = true", func(e *c41Env) bool { return e.rc }
			}
			return "cached = true", func(e *c41Env) bool { return e.cached }
		}
	case *ast.UnaryExpr:
		if x.Op == token.NOT {
			t, f := c.cond(x.X, reloaded, rcKnown)
			return "¬ (" + t + ")", func(e *c41Env) bool { return !f(e) }
		}
	case *ast.BinaryExpr:
		if x.Op == token.EQL || x.Op == token.NEQ {
			l, r := c41Sel(x.X), c41Sel(x.Y)
			if strings.HasPrefix(l, "direction") {
				l, r = r, l
			}
			var v string
			var get func(*c41Env) string
			switch l {
			case "cache.direction":
				if reloaded {
					if !rcKnown {
						c41Fail(c.fset, e, "cache.direction after the re-load where `cached` is not known to be true (nil entry)")
					}
					v, get = "rcdir", func(e *c41Env) string { return e.rcdir }
				} else {
					v, get = "cdir", func(e *c41Env) string { return e.cdir }
				}
			case "dir":
				v, get = "dir", func(e *c41Env) string { return e.dir }
			default:
				c41Fail(c.fset, e, "comparison of "+l)
			}
			var want string
			switch r {
			case "directionIncoming":
				want = "incoming"
			case "directionOutgoing":
				want = "outgoing"
			default:
				c41Fail(c.fset, e, "comparison with "+r)
			}
			if x.Op == token.EQL {
				return v + " = Dir." + want, func(e *c41Env) bool { return get(e) == want }
			}
			return "¬ (" + v + " = Dir." + want + ")", func(e *c41Env) bool { return get(e) != want }
		}
		if x.Op == token.LAND || x.Op == token.LOR {
			lt, lf := c.cond(x.X, reloaded, rcKnown)
			// Go evaluates the right operand of && only when the left one is true
			rt, rf := c.cond(x.Y, reloaded, rcKnown || (x.Op == token.LAND && reloaded && c41ImpliesCached(x.X)))
			if x.Op == token.LAND {
				return "(" + lt + ") ∧ (" + rt + ")", func(e *c41Env) bool { return lf(e) && rf(e) }
			}
			return "(" + lt + ") ∨ (" + rt + ")", func(e *c41Env) bool { return lf(e) || rf(e) }
		}
	}
	c41Fail(c.fset, e, "condition")
	return "", nil
}

type c41Acc struct {
	reloaded, closeF, closeC, del bool
	rcKnown                       bool // after the re-load: `cached` is known to be true on this path
	store                         string
	snapState, snapDir            string
}

func c41ProtoConst(s string) (string, string) {
	switch s {
	case "protocol.Connection_CACHED":
		return "state", "cached"
	case "protocol.Connection_FRESH":
		return "state", "fresh"
	case "protocol.Connection_INCOMING":
		return "dir", "incoming"
	case "protocol.Connection_OUTGOING":
		return "dir", "outgoing"
	}
	return "", ""
}

func c41B(b bool) string {
	if b {
		return "true"
	}
	return "false"
}

// `cache, cached <=|:=> t.cachedConnections.Load(qKey)`
func c41IsReload(x *ast.AssignStmt) bool {
	if len(x.Lhs) == 2 && c41Sel(x.Lhs[0]) == "cache" && c41Sel(x.Lhs[1]) == "cached" && len(x.Rhs) == 1 {
		if call, ok := x.Rhs[0].(*ast.CallExpr); ok && c41Sel(call.Fun) == "t.cachedConnections.Load" {
			return len(call.Args) == 1 && c41Sel(call.Args[0]) == "qKey"
		}
	}
	return false
}

// decision statements → tree
func (c *c41Ctx) dec(stmts []ast.Stmt, acc c41Acc) *c41Node {
	for i, s := range stmts {
		rest := stmts[i+1:]
		switch x := s.(type) {
		case *ast.EmptyStmt:
			continue
		case *ast.AssignStmt:
			if c41IsReload(x) {
				if x.Tok != token.ASSIGN { // `:=` would declare new variables that shadow the snapshot's only up to the end of the block
					c41Fail(c.fset, s, "re-load that declares new variables (:=)")
				}
				acc.reloaded = true
				acc.rcKnown = false
				continue
			}
			c41Fail(c.fset, s, "assignment")
		case *ast.ExprStmt:
			call, ok := x.X.(*ast.CallExpr)
			if !ok {
				c41Fail(c.fset, s, "expression statement")
			}
			switch c41Sel(call.Fun) {
			case "fresh.quic.CloseWithError":
				acc.closeF = true
			case "cache.quic.CloseWithError":
				acc.closeC = true
			case "t.cachedConnections.Store":
				if len(call.Args) != 2 || (c41Sel(call.Args[1]) != "fresh" && c41Sel(call.Args[1]) != "cache") {
					c41Fail(c.fset, s, "Store argument")
				}
				acc.store = c41Sel(call.Args[1])
			case "t.cachedConnections.Delete":
				acc.del = true
			default:
				if strings.HasPrefix(c41Sel(call.Fun), "t.Logger.") {
					continue
				}
				c41Fail(c.fset, s, "call "+c41Sel(call.Fun))
			}
			continue
		case *ast.IfStmt:
			if x.Init != nil {
				// `if cache, cached = t.cachedConnections.Load(qKey); <cond> {…} else {…}`: the re-load as the init
				// statement of the if. With `=` (no new variables) it is the statement followed by the plain if.
				as, ok := x.Init.(*ast.AssignStmt)
				if !ok || as.Tok != token.ASSIGN || !c41IsReload(as) {
					c41Fail(c.fset, s, "if with an init statement other than the re-load `cache, cached = t.cachedConnections.Load(qKey)`")
				}
				plain := *x
				plain.Init = nil
				return c.dec(append([]ast.Stmt{as, &plain}, rest...), acc)
			}
			txt, fn := c.cond(x.Cond, acc.reloaded, acc.rcKnown)
			thenAcc := acc
			if acc.reloaded && c41ImpliesCached(x.Cond) {
				thenAcc.rcKnown = true
			}
			thenN := c.dec(append(append([]ast.Stmt{}, x.Body.List...), rest...), thenAcc)
			var elseStmts []ast.Stmt
			switch e := x.Else.(type) {
			case nil:
			case *ast.BlockStmt:
				elseStmts = e.List
			case *ast.IfStmt:
				elseStmts = []ast.Stmt{e}
			}
			elseN := c.dec(append(append([]ast.Stmt{}, elseStmts...), rest...), acc)
			return &c41Node{kind: "if", cond: txt, condFn: fn, a: thenN, b: elseN}
		case *ast.SwitchStmt:
			if x.Init != nil || x.Tag == nil {
				c41Fail(c.fset, s, "switch without tag")
			}
			tag := c41Sel(x.Tag)
			var kind, v1, v2 string
			switch tag {
			case "negotiation.CacheState":
				kind, v1, v2 = "matchState", "cached", "fresh"
			case "negotiation.CacheDirection":
				kind, v1, v2 = "matchDir", "incoming", "outgoing"
			default:
				c41Fail(c.fset, s, "switch on "+tag)
			}
			n := &c41Node{kind: kind}
			for _, cc := range x.Body.List {
				clause := cc.(*ast.CaseClause)
				if clause.List == nil { // default: values outside the two-valued model enums; must not fall through
					c.dec(append(append([]ast.Stmt{}, clause.Body...), rest...), acc)
					continue
				}
				for _, v := range clause.List {
					_, val := c41ProtoConst(c41Sel(v))
					sub := c.dec(append(append([]ast.Stmt{}, clause.Body...), rest...), acc)
					switch val {
					case v1:
						n.a = sub
					case v2:
						n.b = sub
					default:
						c41Fail(c.fset, v, "case value "+c41Sel(v))
					}
				}
			}
			if n.a == nil || n.b == nil {
				// a missing case falls out of the switch: continue with the statements after it
				fall := c.dec(rest, acc)
				if n.a == nil {
					n.a = fall
				}
				if n.b == nil {
					n.b = fall
				}
			}
			return n
		case *ast.ReturnStmt:
			if len(x.Results) != 3 {
				c41Fail(c.fset, s, "return arity")
			}
			var ret string
			switch c41Sel(x.Results[0]) {
			case "cache":
				ret = "cache"
			case "fresh":
				ret = "fresh"
			case "nil":
				ret = "none"
			default:
				c41Fail(c.fset, s, "returned connection")
			}
			reused := c41Sel(x.Results[1])
			if reused != "true" && reused != "false" {
				c41Fail(c.fset, s, "returned reused flag")
			}
			errk := "other"
			if c41Sel(x.Results[2]) == "nil" {
				errk = "nil"
			} else if call, ok := x.Results[2].(*ast.CallExpr); ok && c41Sel(call.Fun) == "wrapReuseError" {
				errk = "retry"
			}
			a := acc
			leaf := fmt.Sprintf("{ reload := %s, closeFresh := %s, closeCache := %s, store := Store.%s, del := %s, ret := Ret.%s, reused := %s, err := ErrK.%s }",
				c41B(a.reloaded), c41B(a.closeF), c41B(a.closeC), map[string]string{"": "no", "fresh": "fresh", "cache": "cache"}[a.store],
				c41B(a.del), ret, reused, errk)
			row := fmt.Sprintf("reload=%s,closeFresh=%s,closeCache=%s,store=%s,del=%s,ret=%s,reused=%s,err=%s",
				c41B(a.reloaded), c41B(a.closeF), c41B(a.closeC), map[string]string{"": "no", "fresh": "fresh", "cache": "cache"}[a.store],
				c41B(a.del), ret, reused, errk)
			return &c41Node{kind: "leaf", leaf: leaf, leafFn: func(*c41Env) string { return row }}
		default:
			c41Fail(c.fset, s, fmt.Sprintf("statement %T", s))
		}
	}
	c41Fail(c.fset, stmts0(stmts), "path without return")
	return nil
}

func stmts0(s []ast.Stmt) ast.Node {
	if len(s) > 0 {
		return s[len(s)-1]
	}
	return &ast.BadStmt{}
}

// snapshot statements → tree
func (c *c41Ctx) snap(stmts []ast.Stmt, acc c41Acc) *c41Node {
	for i, s := range stmts {
		rest := stmts[i+1:]
		switch x := s.(type) {
		case *ast.AssignStmt:
			if len(x.Lhs) == 1 && len(x.Rhs) == 1 {
				k, v := c41ProtoConst(c41Sel(x.Rhs[0]))
				switch c41Sel(x.Lhs[0]) {
				case "negotiation.CacheState":
					if k == "state" {
						acc.snapState = v
						continue
					}
				case "negotiation.CacheDirection":
					if k == "dir" {
						acc.snapDir = v
						continue
					}
				}
			}
			c41Fail(c.fset, s, "snapshot assignment")
		case *ast.IfStmt:
			txt, fn := c.cond(x.Cond, false, false)
			thenN := c.snap(append(append([]ast.Stmt{}, x.Body.List...), rest...), acc)
			var elseStmts []ast.Stmt
			switch e := x.Else.(type) {
			case nil:
			case *ast.BlockStmt:
				elseStmts = e.List
			case *ast.IfStmt:
				elseStmts = []ast.Stmt{e}
			}
			elseN := c.snap(append(append([]ast.Stmt{}, elseStmts...), rest...), acc)
			return &c41Node{kind: "if", cond: txt, condFn: fn, a: thenN, b: elseN}
		default:
			c41Fail(c.fset, s, fmt.Sprintf("snapshot statement %T", s))
		}
	}
	if acc.snapState == "" || acc.snapDir == "" {
		c41Fail(c.fset, stmts0(stmts), "snapshot path leaves CacheState/CacheDirection unset (UNKNOWN)")
	}
	st, d := acc.snapState, acc.snapDir
	return &c41Node{kind: "leaf", leaf: "(CState." + st + ", Dir." + d + ")", leafFn: func(*c41Env) string { return st + "," + d }}
}

func (n *c41Node) lean(ind string) string {
	switch n.kind {
	case "leaf":
		return ind + n.leaf
	case "if":
		return ind + "if " + n.cond + " then\n" + n.a.lean(ind+"  ") + "\n" + ind + "else\n" + n.b.lean(ind+"  ")
	case "matchState":
		return ind + "match ps with\n" + ind + "| CState.cached =>\n" + n.a.lean(ind+"    ") + "\n" + ind + "| CState.fresh =>\n" + n.b.lean(ind+"    ")
	case "matchDir":
		return ind + "match pd with\n" + ind + "| Dir.incoming =>\n" + n.a.lean(ind+"    ") + "\n" + ind + "| Dir.outgoing =>\n" + n.b.lean(ind+"    ")
	}
	return "?"
}

func (n *c41Node) eval(e *c41Env) string {
	switch n.kind {
	case "leaf":
		return n.leafFn(e)
	case "if":
		if n.condFn(e) {
			return n.a.eval(e)
		}
		return n.b.eval(e)
	case "matchState":
		if e.ps == "cached" {
			return n.a.eval(e)
		}
		return n.b.eval(e)
	case "matchDir":
		if e.pd == "incoming" {
			return n.a.eval(e)
		}
		return n.b.eval(e)
	}
	return "?"
}

func c41Trees(path string) (*c41Node, *c41Node) {
	fset := token.NewFileSet()
	f, err := parser.ParseFile(fset, path, nil, 0)
	if err != nil {
		fmt.Fprintln(os.Stderr, "c41-facts:", err)
		os.Exit(1)
	}
	c := &c41Ctx{fset: fset}
	var fn *ast.FuncDecl
	for _, d := range f.Decls {
		if fd, ok := d.(*ast.FuncDecl); ok && fd.Name.Name == "reuseConnection" {
			fn = fd
		}
	}
	if fn == nil {
		fmt.Fprintln(os.Stderr, "c41-facts: func reuseConnection not found")
		os.Exit(1)
	}
	var snapN, decN *c41Node
	list := fn.Body.List
	for i, s := range list {
		as, ok := s.(*ast.AssignStmt)
		if !ok || len(as.Rhs) != 1 {
			continue
		}
		call, ok := as.Rhs[0].(*ast.CallExpr)
		if !ok {
			continue
		}
		switch c41Sel(call.Fun) {
		case "t.cachedConnections.Load":
			// must sit between RLock and rUnlock(): previous statement takes the read lock, the if follows, then rUnlock()
			if i == 0 || i+2 >= len(list) {
				c41Fail(fset, s, "position of the snapshot load")
			}
			prev, ok1 := list[i-1].(*ast.AssignStmt)
			if !ok1 || len(prev.Rhs) != 1 {
				c41Fail(fset, s, "snapshot load not preceded by RLock")
			}
			if pc, ok := prev.Rhs[0].(*ast.CallExpr); !ok || c41Sel(pc.Fun) != "t.cachedMutex.RLock" {
				c41Fail(fset, s, "snapshot load not preceded by t.cachedMutex.RLock")
			}
			ifs, ok2 := list[i+1].(*ast.IfStmt)
			if !ok2 {
				c41Fail(fset, list[i+1], "snapshot load not followed by if")
			}
			if es, ok := list[i+2].(*ast.ExprStmt); !ok || c41Sel(es.X.(*ast.CallExpr).Fun) != "rUnlock" {
				c41Fail(fset, list[i+2], "snapshot if not followed by rUnlock()")
			}
			snapN = c.snap([]ast.Stmt{ifs}, c41Acc{})
		case "t.cachedMutex.Lock":
			// `unlock := t.cachedMutex.Lock(qKey)`, `defer unlock()`, then the decision statements to the end
			j := i + 1
			if j < len(list) {
				if _, ok := list[j].(*ast.DeferStmt); ok {
					j++
				} else {
					c41Fail(fset, list[j], "Lock not followed by defer unlock()")
				}
			}
			decN = c.dec(list[j:], c41Acc{})
		}
	}
	if snapN == nil || decN == nil {
		fmt.Fprintln(os.Stderr, "c41-facts: snapshot or decision block not found")
		os.Exit(1)
	}
	return snapN, decN
}

// ---------- reapPeer (overlay/reaper.go) ----------

type c41ReapAcc struct {
	locked               bool
	entryVar, loadedVar  string
	loadedKnown          bool // on this path the loaded flag is known to be true
	del, closeC, closeTr bool
}

type c41ReapCtx struct {
	fset  *token.FileSet
	qName string // name of the *quic.Conn parameter: the connection that triggered the reap
}

func (c *c41ReapCtx) leaf(a c41ReapAcc) *c41Node {
	lean := fmt.Sprintf("{ del := %s, closeCached := %s, closeTrigger := %s }", c41B(a.del), c41B(a.closeC), c41B(a.closeTr))
	row := fmt.Sprintf("del=%s,closeCached=%s,closeTrigger=%s", c41B(a.del), c41B(a.closeC), c41B(a.closeTr))
	return &c41Node{kind: "leaf", leaf: lean, leafFn: func(*c41Env) string { return row }}
}

// only the RTT bookkeeping may sit in the body of `if t.RTTRecorder != nil`
func (c *c41ReapCtx) rttOnly(b *ast.BlockStmt) {
	for _, s := range b.List {
		es, ok := s.(*ast.ExprStmt)
		if ok {
			if call, ok := es.X.(*ast.CallExpr); ok && (strings.HasPrefix(c41Sel(call.Fun), "t.RTTRecorder.") || strings.HasPrefix(c41Sel(call.Fun), "t.rttMap.") || strings.HasPrefix(c41Sel(call.Fun), "t.Logger.")) {
				continue
			}
		}
		c41Fail(c.fset, s, "statement inside the RTTRecorder block of reapPeer")
	}
}

func (c *c41ReapCtx) walk(stmts []ast.Stmt, acc c41ReapAcc) *c41Node {
	for i, s := range stmts {
		rest := stmts[i+1:]
		switch x := s.(type) {
		case *ast.EmptyStmt:
			continue
		case *ast.DeferStmt:
			if c41Sel(x.Call.Fun) == "unlock" && acc.locked {
				continue
			}
			c41Fail(c.fset, s, "defer in reapPeer")
		case *ast.AssignStmt:
			if len(x.Rhs) != 1 {
				c41Fail(c.fset, s, "reapPeer assignment")
			}
			call, ok := x.Rhs[0].(*ast.CallExpr)
			if !ok {
				c41Fail(c.fset, s, "reapPeer assignment")
			}
			switch c41Sel(call.Fun) {
			case "t.makeCachedKey":
				continue
			case "t.cachedMutex.Lock":
				if len(x.Lhs) != 1 || c41Sel(x.Lhs[0]) != "unlock" || i+1 >= len(stmts) {
					c41Fail(c.fset, s, "reapPeer: Lock must be `unlock := t.cachedMutex.Lock(qKey)` followed by `defer unlock()`")
				}
				if d, ok := stmts[i+1].(*ast.DeferStmt); !ok || c41Sel(d.Call.Fun) != "unlock" {
					c41Fail(c.fset, s, "reapPeer: Lock not followed by defer unlock()")
				}
				acc.locked = true
				continue
			case "t.cachedConnections.LoadAndDelete", "t.cachedConnections.Load":
				if !acc.locked {
					c41Fail(c.fset, s, "reapPeer reads the cache outside the key's Lock")
				}
				if len(x.Lhs) != 2 {
					c41Fail(c.fset, s, "reapPeer cache load")
				}
				acc.entryVar, acc.loadedVar = c41Sel(x.Lhs[0]), c41Sel(x.Lhs[1])
				acc.loadedKnown = false
				if acc.loadedVar == "_" {
					c41Fail(c.fset, s, "reapPeer cache load without the found flag")
				}
				if c41Sel(call.Fun) == "t.cachedConnections.LoadAndDelete" {
					acc.del = true
				}
				continue
			}
			c41Fail(c.fset, s, "reapPeer assignment from "+c41Sel(call.Fun))
		case *ast.ExprStmt:
			call, ok := x.X.(*ast.CallExpr)
			if !ok {
				c41Fail(c.fset, s, "reapPeer expression statement")
			}
			fn := c41Sel(call.Fun)
			switch {
			case strings.HasPrefix(fn, "t.Logger."), strings.HasPrefix(fn, "t.rttMap."), strings.HasPrefix(fn, "t.RTTRecorder."):
				continue
			case fn == "t.cachedConnections.Delete":
				if !acc.locked {
					c41Fail(c.fset, s, "reapPeer changes the cache outside the key's Lock")
				}
				acc.del = true
				continue
			case acc.entryVar != "" && acc.entryVar != "_" && fn == acc.entryVar+".quic.CloseWithError":
				if !acc.loadedKnown {
					c41Fail(c.fset, s, "reapPeer closes the loaded entry where it is not known to exist (nil entry)")
				}
				acc.closeC = true
				continue
			case fn == c.qName+".CloseWithError":
				acc.closeTr = true
				continue
			}
			c41Fail(c.fset, s, "reapPeer call "+fn)
		case *ast.IfStmt:
			if x.Init != nil {
				c41Fail(c.fset, s, "reapPeer if with init")
			}
			var elseStmts []ast.Stmt
			switch e := x.Else.(type) {
			case nil:
			case *ast.BlockStmt:
				elseStmts = e.List
			case *ast.IfStmt:
				elseStmts = []ast.Stmt{e}
			}
			if be, ok := x.Cond.(*ast.BinaryExpr); ok && be.Op == token.NEQ && c41Sel(be.X) == "t.RTTRecorder" && c41Sel(be.Y) == "nil" && x.Else == nil {
				c.rttOnly(x.Body)
				continue
			}
			neg := false
			cond := x.Cond
			if u, ok := cond.(*ast.UnaryExpr); ok && u.Op == token.NOT {
				neg, cond = true, u.X
			}
			if acc.loadedVar == "" || c41Sel(cond) != acc.loadedVar {
				c41Fail(c.fset, s, "reapPeer condition")
			}
			yes, no := acc, acc
			yes.loadedKnown = true
			thenStmts, otherStmts := x.Body.List, elseStmts
			if neg {
				thenStmts, otherStmts = elseStmts, x.Body.List
			}
			a := c.walk(append(append([]ast.Stmt{}, thenStmts...), rest...), yes)
			b := c.walk(append(append([]ast.Stmt{}, otherStmts...), rest...), no)
			return &c41Node{kind: "if", cond: "loaded = true", condFn: func(e *c41Env) bool { return e.rc }, a: a, b: b}
		case *ast.ReturnStmt:
			if len(x.Results) != 0 {
				c41Fail(c.fset, s, "reapPeer return with values")
			}
			return c.leaf(acc)
		default:
			c41Fail(c.fset, s, fmt.Sprintf("reapPeer statement %T", s))
		}
	}
	return c.leaf(acc)
}

// the facts of reapPeer as a tree over `loaded` (is an entry cached for the peer when reapPeer holds the lock)
func c41ReapTree(path string) *c41Node {
	fset := token.NewFileSet()
	f, err := parser.ParseFile(fset, path, nil, 0)
	if err != nil {
		fmt.Fprintln(os.Stderr, "c41-facts:", err)
		os.Exit(1)
	}
	for _, d := range f.Decls {
		fd, ok := d.(*ast.FuncDecl)
		if !ok || fd.Name.Name != "reapPeer" || fd.Body == nil {
			continue
		}
		c := &c41ReapCtx{fset: fset}
		for _, p := range fd.Type.Params.List {
			if st, ok := p.Type.(*ast.StarExpr); ok && c41Sel(st.X) == "quic.Conn" && len(p.Names) == 1 {
				c.qName = p.Names[0].Name
			}
		}
		if c.qName == "" {
			c41Fail(fset, fd, "reapPeer has no *quic.Conn parameter")
		}
		n := c.walk(fd.Body.List, c41ReapAcc{})
		if n.kind == "leaf" { // no branch on the found flag: the same facts whether or not an entry is cached
			n = &c41Node{kind: "if", cond: "loaded = true", condFn: func(e *c41Env) bool { return e.rc }, a: n, b: n}
		}
		return n
	}
	fmt.Fprintln(os.Stderr, "c41-facts: func reapPeer not found in "+path)
	os.Exit(1)
	return nil
}


// ---------- close-watchers started by handleIncoming / handleOutgoing (overlay/transport.go) ----------

type c41WatchRow struct{ returned, negotiated bool }

type c41WatchCtx struct {
	fset    *token.FileSet
	qName   string // the *quic.Conn parameter: the negotiated connection
	cName   string // the *nodeConnection reuseConnection returned
	rName   string // the reused flag
	dirName string // directionIncoming / directionOutgoing
}

// what a connection expression denotes: "returned" (c.quic), "negotiated" (q), "" (anything else)
func (c *c41WatchCtx) connOf(e ast.Expr) string {
	switch c41Sel(e) {
	case c.cName + ".quic":
		return "returned"
	case c.qName:
		return "negotiated"
	}
	return ""
}

func (c *c41WatchCtx) cond(e ast.Expr, reused, same bool) bool {
	switch x := e.(type) {
	case *ast.ParenExpr:
		return c.cond(x.X, reused, same)
	case *ast.Ident:
		if x.Name == c.rName {
			return reused
		}
	case *ast.UnaryExpr:
		if x.Op == token.NOT {
			return !c.cond(x.X, reused, same)
		}
	case *ast.BinaryExpr:
		switch x.Op {
		case token.LAND:
			return c.cond(x.X, reused, same) && c.cond(x.Y, reused, same)
		case token.LOR:
			return c.cond(x.X, reused, same) || c.cond(x.Y, reused, same)
		case token.EQL, token.NEQ:
			a, b := c.connOf(x.X), c.connOf(x.Y)
			if a != "" && b != "" && a != b {
				return same == (x.Op == token.EQL)
			}
		}
	}
	c41Fail(c.fset, e, "condition after reuseConnection in handleIncoming/handleOutgoing")
	return false
}

// `go func(<params>) { <-x.Context().Done(); <logging>; t.reapPeer(x, …) }(<args>)`: which connection is watched
func (c *c41WatchCtx) watcher(g *ast.GoStmt) string {
	fl, ok := g.Call.Fun.(*ast.FuncLit)
	if !ok {
		c41Fail(c.fset, g, "go statement that is not a close-watcher literal")
	}
	bind := map[string]string{c.qName: "negotiated"} // captured names
	pi := 0
	for _, p := range fl.Type.Params.List {
		for _, n := range p.Names {
			if pi < len(g.Call.Args) {
				if k := c.connOf(g.Call.Args[pi]); k != "" {
					bind[n.Name] = k
				} else {
					delete(bind, n.Name)
				}
			}
			pi++
		}
	}
	connOf := func(e ast.Expr) string {
		if k := c.connOf(e); k == "returned" {
			return k
		}
		if id, ok := e.(*ast.Ident); ok {
			return bind[id.Name]
		}
		return ""
	}
	body := fl.Body.List
	if len(body) < 2 {
		c41Fail(c.fset, g, "close-watcher body")
	}
	waited := ""
	if es, ok := body[0].(*ast.ExprStmt); ok {
		if u, ok := es.X.(*ast.UnaryExpr); ok && u.Op == token.ARROW {
			if d, ok := u.X.(*ast.CallExpr); ok && len(d.Args) == 0 {
				if sel, ok := d.Fun.(*ast.SelectorExpr); ok && sel.Sel.Name == "Done" {
					if cc, ok := sel.X.(*ast.CallExpr); ok && len(cc.Args) == 0 {
						if s2, ok := cc.Fun.(*ast.SelectorExpr); ok && s2.Sel.Name == "Context" {
							waited = connOf(s2.X)
						}
					}
				}
			}
		}
	}
	if waited == "" {
		c41Fail(c.fset, body[0], "a goroutine started after reuseConnection must first wait for `<-<conn>.Context().Done()`")
	}
	reaps := false
	for _, s := range body[1:] {
		var ce *ast.CallExpr
		if es, ok := s.(*ast.ExprStmt); ok {
			ce, _ = es.X.(*ast.CallExpr)
		}
		if ce == nil {
			c41Fail(c.fset, s, "statement in a close-watcher goroutine")
		}
		fn := c41Sel(ce.Fun)
		switch {
		case fn == "t.reapPeer":
			if len(ce.Args) != 2 || connOf(ce.Args[0]) != waited {
				c41Fail(c.fset, s, "reapPeer in a close-watcher must be called for the connection it waited for")
			}
			reaps = true
		case strings.HasPrefix(fn, "t.Logger.") || strings.HasPrefix(fn, "l."):
		default:
			c41Fail(c.fset, s, "call in a close-watcher goroutine")
		}
	}
	if !reaps {
		c41Fail(c.fset, g, "close-watcher that does not call reapPeer")
	}
	return waited
}

// the statements after the error check of reuseConnection, for one (reused, c.quic == q) valuation: the watched set
func (c *c41WatchCtx) walk(stmts []ast.Stmt, reused, same bool, w map[string]bool) (returned bool) {
	for _, s := range stmts {
		switch x := s.(type) {
		case *ast.IfStmt:
			if x.Init != nil {
				c41Fail(c.fset, x, "if with init statement after reuseConnection")
			}
			if c.cond(x.Cond, reused, same) {
				if c.walk(x.Body.List, reused, same, w) {
					return true
				}
			} else if x.Else != nil {
				switch e := x.Else.(type) {
				case *ast.BlockStmt:
					if c.walk(e.List, reused, same, w) {
						return true
					}
				case *ast.IfStmt:
					if c.walk([]ast.Stmt{e}, reused, same, w) {
						return true
					}
				}
			}
		case *ast.ExprStmt:
			call, ok := x.X.(*ast.CallExpr)
			if !ok || c41Sel(call.Fun) != "t.handlePeer" || len(call.Args) != 4 {
				c41Fail(c.fset, s, "statement after reuseConnection in handleIncoming/handleOutgoing")
			}
			k := c.connOf(call.Args[1])
			if k == "" || c41Sel(call.Args[2]) != c.cName+".peer" || c41Sel(call.Args[3]) != c.dirName {
				c41Fail(c.fset, s, "handlePeer arguments")
			}
			w[k] = true
		case *ast.GoStmt:
			w[c.watcher(x)] = true
		case *ast.ReturnStmt:
			if len(x.Results) != 2 || c.connOf(x.Results[0]) != "returned" || c41Sel(x.Results[1]) != "nil" {
				c41Fail(c.fset, s, "return after reuseConnection (expected `return c.quic, nil`)")
			}
			return true
		default:
			c41Fail(c.fset, s, "statement after reuseConnection in handleIncoming/handleOutgoing")
		}
	}
	return false
}

// does the node start a goroutine or call handlePeer / reapPeer?
func c41Spawns(n ast.Node, goToo bool) (found ast.Node) {
	ast.Inspect(n, func(m ast.Node) bool {
		switch x := m.(type) {
		case *ast.GoStmt:
			if goToo {
				found = x
			}
		case *ast.CallExpr:
			if fn := c41Sel(x.Fun); fn == "t.handlePeer" || fn == "t.reapPeer" {
				found = x
			}
		}
		return found == nil
	})
	return
}

// handlePeer must start the close-watcher that reaps the connection it is given
func c41CheckHandlePeer(fset *token.FileSet, fd *ast.FuncDecl) {
	qName := ""
	for _, p := range fd.Type.Params.List {
		if st, ok := p.Type.(*ast.StarExpr); ok && c41Sel(st.X) == "quic.Conn" && len(p.Names) == 1 {
			qName = p.Names[0].Name
		}
	}
	if qName == "" {
		c41Fail(fset, fd, "handlePeer has no *quic.Conn parameter")
	}
	c := &c41WatchCtx{fset: fset, qName: qName, cName: "\x00"}
	n := 0
	for _, s := range fd.Body.List {
		if g, ok := s.(*ast.GoStmt); ok {
			if _, lit := g.Call.Fun.(*ast.FuncLit); lit {
				if c.watcher(g) != "negotiated" {
					c41Fail(fset, g, "handlePeer's close-watcher does not watch its connection")
				}
				n++
				continue
			}
			if f := c41Spawns(g.Call, false); f != nil {
				c41Fail(fset, f, "reapPeer / handlePeer started directly by handlePeer")
			}
			continue
		}
		if f := c41Spawns(s, false); f != nil {
			c41Fail(fset, f, "reapPeer / handlePeer call in handlePeer outside its close-watcher")
		}
	}
	if n != 1 {
		c41Fail(fset, fd, fmt.Sprintf("handlePeer starts %d close-watchers that reap (expected 1)", n))
	}
}

// rows[dir][reused]
func c41WatchFacts(path string) map[string]map[bool]c41WatchRow {
	fset := token.NewFileSet()
	f, err := parser.ParseFile(fset, path, nil, 0)
	if err != nil {
		fmt.Fprintln(os.Stderr, "c41-facts:", err)
		os.Exit(1)
	}
	out := map[string]map[bool]c41WatchRow{}
	want := map[string]string{"handleIncoming": "directionIncoming", "handleOutgoing": "directionOutgoing"}
	sawHandlePeer := false
	for _, d := range f.Decls {
		fd, ok := d.(*ast.FuncDecl)
		if !ok || fd.Body == nil {
			continue
		}
		if fd.Name.Name == "handlePeer" {
			c41CheckHandlePeer(fset, fd)
			sawHandlePeer = true
			continue
		}
		dirConst, ok := want[fd.Name.Name]
		if !ok {
			// reapPeer is called by the close-watchers and by reaper() only
			if fd.Name.Name != "reaper" {
				ast.Inspect(fd.Body, func(m ast.Node) bool {
					if call, ok := m.(*ast.CallExpr); ok && c41Sel(call.Fun) == "t.reapPeer" {
						c41Fail(fset, call, "reapPeer called from "+fd.Name.Name)
					}
					return true
				})
			}
			continue
		}
		c := &c41WatchCtx{fset: fset, dirName: dirConst}
		for _, p := range fd.Type.Params.List {
			if st, ok := p.Type.(*ast.StarExpr); ok && c41Sel(st.X) == "quic.Conn" && len(p.Names) == 1 {
				c.qName = p.Names[0].Name
			}
		}
		if c.qName == "" {
			c41Fail(fset, fd, fd.Name.Name+" has no *quic.Conn parameter")
		}
		list := fd.Body.List
		at := -1
		for i, s := range list {
			as, ok := s.(*ast.AssignStmt)
			if ok && len(as.Rhs) == 1 && len(as.Lhs) == 3 {
				if call, ok := as.Rhs[0].(*ast.CallExpr); ok && c41Sel(call.Fun) == "t.reuseConnection" {
					if len(call.Args) != 4 || c41Sel(call.Args[1]) != c.qName || c41Sel(call.Args[3]) != dirConst {
						c41Fail(fset, s, "reuseConnection arguments in "+fd.Name.Name)
					}
					c.cName, c.rName = c41Sel(as.Lhs[0]), c41Sel(as.Lhs[1])
					at = i
					break
				}
			}
			if f := c41Spawns(s, true); f != nil {
				c41Fail(fset, f, "goroutine / handlePeer / reapPeer before reuseConnection in "+fd.Name.Name)
			}
		}
		if at < 0 || at+1 >= len(list) {
			c41Fail(fset, fd, "no `c, reused, err := t.reuseConnection(…)` in "+fd.Name.Name)
		}
		// the error check: `if err != nil { return nil, err }`
		chk, ok := list[at+1].(*ast.IfStmt)
		okChk := ok && chk.Init == nil && chk.Else == nil && len(chk.Body.List) == 1
		if okChk {
			be, ok := chk.Cond.(*ast.BinaryExpr)
			rs, ok2 := chk.Body.List[0].(*ast.ReturnStmt)
			okChk = ok && ok2 && be.Op == token.NEQ && c41Sel(be.X) == "err" && c41Sel(be.Y) == "nil" &&
				len(rs.Results) == 2 && c41Sel(rs.Results[0]) == "nil"
		}
		if !okChk {
			c41Fail(fset, list[at+1], "reuseConnection not followed by `if err != nil { return nil, err }`")
		}
		dir := "incoming"
		if dirConst == "directionOutgoing" {
			dir = "outgoing"
		}
		out[dir] = map[bool]c41WatchRow{}
		for _, reused := range []bool{true, false} {
			var rows [2]c41WatchRow
			for k, same := range []bool{true, false} {
				w := map[string]bool{}
				if !c.walk(list[at+2:], reused, same, w) {
					c41Fail(fset, fd, fd.Name.Name+" does not end with `return c.quic, nil`")
				}
				if same { // q IS the returned connection
					rows[k] = c41WatchRow{returned: w["returned"] || w["negotiated"]}
				} else {
					rows[k] = c41WatchRow{returned: w["returned"], negotiated: w["negotiated"]}
				}
			}
			if rows[0].returned != rows[1].returned {
				c41Fail(fset, fd, "whether the returned connection gets a close-watcher depends on `c.quic == q`")
			}
			out[dir][reused] = rows[1]
		}
	}
	if len(out) != 2 || !sawHandlePeer {
		fmt.Fprintln(os.Stderr, "c41-facts: handleIncoming / handleOutgoing / handlePeer not found in "+path)
		os.Exit(1)
	}
	return out
}

func c41WatchLean(rows map[string]map[bool]c41WatchRow) string {
	leaf := func(r c41WatchRow) string {
		return fmt.Sprintf("{ returned := %s, negotiated := %s }", c41B(r.returned), c41B(r.negotiated))
	}
	var b strings.Builder
	b.WriteString("  match dir with\n")
	for _, d := range []string{"incoming", "outgoing"} {
		fmt.Fprintf(&b, "  | Dir.%s =>\n      if reused = true then\n        %s\n      else\n        %s\n", d, leaf(rows[d][true]), leaf(rows[d][false]))
	}
	return b.String()
}

func c41Args(args []string) (string, string, string) {
	if len(args) != 3 {
		fmt.Fprintln(os.Stderr, "c41-facts: usage: c41-facts|c41-lines <overlay/reuse.go> <overlay/reaper.go> <overlay/transport.go>")
		os.Exit(2)
	}
	return args[0], args[1], args[2]
}

func init() {
	factCmds["c41-facts"] = func(args []string) {
		reuse, reaper, transport := c41Args(args)
		snapN, decN := c41Trees(reuse)
		reapN := c41ReapTree(reaper)
		watchRows := c41WatchFacts(transport)
		fmt.Print(`/- GENERATED by extract c41-facts from overlay/reuse.go (func reuseConnection), overlay/reaper.go
(func reapPeer) and overlay/transport.go (func handleIncoming / handleOutgoing / handlePeer). Do not edit. -/
namespace Gen.C41

inductive Dir where
  | incoming | outgoing
deriving DecidableEq, Repr

inductive CState where
  | cached | fresh
deriving DecidableEq, Repr

inductive Ret where
  | cache | fresh | none
deriving DecidableEq, Repr

inductive Store where
  | no | fresh | cache
deriving DecidableEq, Repr

inductive ErrK where
  | nil | retry | other
deriving DecidableEq, Repr

structure Act where
  reload : Bool
  closeFresh : Bool
  closeCache : Bool
  store : Store
  del : Bool
  ret : Ret
  reused : Bool
  err : ErrK
deriving DecidableEq, Repr

/-- the cache status a peer sends (taken under RLock): cached/cdir = own cache entry, dir = this connection -/
def snapshot (cached : Bool) (cdir dir : Dir) : CState × Dir :=
`)
		fmt.Println(snapN.lean("  "))
		fmt.Print(`
set_option linter.unusedVariables false in
/-- the decision taken under Lock: ps/pd = status received from the peer, cached/cdir = the snapshot,
dir = this connection, rc = whether the re-load finds an entry, rcdir = the direction of the entry found by
the re-load (meaningful only when rc = true) -/
def decide (ps : CState) (pd : Dir) (cached : Bool) (cdir dir : Dir) (rc : Bool) (rcdir : Dir) : Act :=
`)
		fmt.Println(decN.lean("  "))
		fmt.Print(`
/-- what reapPeer does (facts of overlay/reaper.go) -/
structure ReapAct where
  del : Bool
  closeCached : Bool
  closeTrigger : Bool
deriving DecidableEq, Repr

/-- reapPeer under the key's Lock: loaded = an entry is cached for the peer at that moment; del = the entry is gone
afterwards, closeCached = the connection of the entry that was cached is closed, closeTrigger = the connection
that triggered the reap is closed -/
def reap (loaded : Bool) : ReapAct :=
`)
		fmt.Println(reapN.lean("  "))
		fmt.Print(`
/-- the close-watchers (goroutines that wait for a connection to be closed and then call reapPeer for it) that
handleIncoming / handleOutgoing start once reuseConnection returned without error (facts of overlay/transport.go) -/
structure WatchAct where
  returned : Bool
  negotiated : Bool
deriving DecidableEq, Repr

/-- dir = handleIncoming / handleOutgoing, reused = the flag reuseConnection returned; returned = the connection
reuseConnection returned gets a close-watcher (handlePeer), negotiated = the connection that was negotiated gets one
although ANOTHER connection was returned -/
def watch (dir : Dir) (reused : Bool) : WatchAct :=
`)
		fmt.Print(c41WatchLean(watchRows))
		fmt.Print("\nend Gen.C41\n")
	}
	factCmds["c41-lines"] = func(args []string) {
		reuse, reaper, transport := c41Args(args)
		snapN, decN := c41Trees(reuse)
		reapN := c41ReapTree(reaper)
		watchRows := c41WatchFacts(transport)
		defer func() {
			for _, loaded := range []bool{true, false} {
				fmt.Printf("reap %s => %s\n", c41B(loaded), reapN.eval(&c41Env{rc: loaded}))
			}
			for _, d := range []string{"incoming", "outgoing"} {
				for _, reused := range []bool{true, false} {
					w := watchRows[d][reused]
					fmt.Printf("watch %s %s => returned=%s,negotiated=%s\n", d, c41B(reused), c41B(w.returned), c41B(w.negotiated))
				}
			}
		}()
		bs := []bool{true, false}
		ds := []string{"incoming", "outgoing"}
		for _, cached := range bs {
			for _, cdir := range ds {
				for _, dir := range ds {
					e := &c41Env{cached: cached, cdir: cdir, dir: dir}
					fmt.Printf("snap %s %s %s => %s\n", c41B(cached), cdir, dir, snapN.eval(e))
				}
			}
		}
		for _, ps := range []string{"cached", "fresh"} {
			for _, pd := range ds {
				for _, cached := range bs {
					for _, cdir := range ds {
						for _, dir := range ds {
							for _, rc := range bs {
								for _, rcdir := range ds {
									e := &c41Env{ps: ps, pd: pd, cached: cached, cdir: cdir, dir: dir, rc: rc, rcdir: rcdir}
									fmt.Printf("leaf %s %s %s %s %s %s %s => %s\n", ps, pd, c41B(cached), cdir, dir, c41B(rc), rcdir, decN.eval(e))
								}
							}
						}
					}
				}
			}
		}
	}
}
