import SpecterModel.C05.Drv

def main : IO Unit := Specter.C05.main
