// C01: lookups on a stabilized ring of real LocalNodes vs the Lean ring model and the
// sorted-membership oracle (evaluated in the driver).
package main

import (
	"verif/harness/hlib"
	"verif/harness/ringh"
)

func main() {
	run := hlib.Start()
	run.Rule = "rings of 1..N real LocalNodes built by Create/Join with adversarial ids (clustered, adjacent, 0, 2^48-1, finger targets), repaired to a fixpoint, then FindSuccessor from every member for member ids, ±1, 0, 2^48-1, finger targets and random keys; plus rings of 10..14 evenly spaced members from which a member that is only a finger of others leaves gracefully, repaired to a fixpoint again, then lookups judged against the true owner (ground truth, independent of the pointers); non-trivial = distinct (ring, start, key) on a ring of ≥ 2 members"
	rng := hlib.NewRng(run.Seed)
	if run.Replay != "" {
		s := ringh.NewSession(run, rng)
		for _, t := range run.ReplayLines() {
			if t[0] == "reset" {
				continue
			}
			s.Do(t...)
		}
		run.Finish()
		return
	}
	rings, maxN := 14, 12
	if run.Thorough() {
		rings, maxN = 60, 40
	}
	// directed: rings large enough that far fingers point beyond the successor list; a member that is only a
	// finger of others leaves gracefully; once the repair rounds reach a fixpoint again ("the ring has
	// stabilized") every member must answer every identifier with the true owner (lookupq: ground-truth oracle)
	for d := 0; d < 2; d++ {
		n := 10 + rng.Intn(5)
		s := ringh.NewSession(run, rng)
		base := rng.U64() % ringh.M
		var ids []uint64
		for i := 0; i < n; i++ {
			ids = append(ids, (base+uint64(i)*(ringh.M/uint64(n))+uint64(rng.Intn(1000)))%ringh.M)
		}
		if d == 1 {
			for i, j := 0, len(ids)-1; i < j; i, j = i+1, j-1 {
				ids[i], ids[j] = ids[j], ids[i]
			}
		}
		members := s.BuildRing(ids)
		s.Repair(members, 12)
		for k := 0; k < 2 && len(members) > 6 && !s.Dead; k++ {
			l := hlib.Pick(rng, members)
			if s.Do("leave", ringh.U(l)) != "ok" {
				continue
			}
			var rest []uint64
			for _, m := range members {
				if m != l {
					rest = append(rest, m)
				}
			}
			members = rest
			if s.Repair(members, 14) >= 14 {
				run.Count("far-leave:no-fixpoint")
				continue
			}
			for _, m := range members {
				for _, key := range []uint64{(l + 1) % ringh.M, l, (l + ringh.M - 1) % ringh.M, (m + ringh.M/2) % ringh.M, (m + ringh.M/4) % ringh.M} {
					s.Do("lookupq", ringh.U(m), ringh.U(key))
					run.Case(hlib.F("far-leave|%v|%d|%d", members, m, key))
				}
			}
			run.Count("directed:far-leave")
		}
	}
	for i := 0; i < rings; i++ {
		n := 1 + rng.Intn(maxN)
		if i == 0 {
			n = 1
		}
		if i == 1 {
			n = 2
		}
		ids := ringh.AdversarialIDs(rng, n)
		// fixed small rings in which the extreme identifier 0 (or 2^48-1) joins LAST
		op := "lookup"
		switch i {
		case 2:
			ids, op = []uint64{5 + rng.U64()%1000, 2000 + rng.U64()%ringh.M/2, 0}, "lookupq"
		case 3:
			ids, op = []uint64{ringh.M - 1, 0}, "lookupq"
		case 4:
			ids, op = []uint64{7, 0, 3, ringh.M - 1}, "lookupq"
		}
		s := ringh.NewSession(run, rng)
		members := s.BuildRing(ids)
		rounds := s.Repair(members, 8)
		if rounds >= 8 {
			op = "lookup" // no fixpoint reached: judged through the executable stability test only
		}
		run.Count(hlib.F("ring-size:%d", len(members)))
		run.Count(hlib.F("repair-rounds:%d", rounds))
		keys := ringh.InterestingKeys(rng, members, 12)
		for _, m := range members {
			for _, k := range keys {
				s.Do(op, ringh.U(m), ringh.U(k))
				key := ""
				if len(members) >= 2 {
					key = hlib.F("%v|%d|%d", members, m, k)
				}
				run.Case(key)
			}
		}
		if s.Dead {
			run.Count("dead-session")
		}
	}
	run.Finish()
}
