import SpecterModel.C01.Drv
import SpecterModel.C02.Drv
import SpecterModel.C03.Drv
import SpecterModel.C04.Drv
import SpecterModel.C05.Drv
import SpecterModel.C06.Drv
import SpecterModel.C07.Drv
import SpecterModel.C08.Drv
import SpecterModel.C09.Drv
import SpecterModel.C10.Drv
import SpecterModel.C11.Drv
import SpecterModel.C12.Drv
import SpecterModel.C13.Drv
import SpecterModel.C14.Drv
import SpecterModel.C15.Drv
import SpecterModel.C16.Drv
import SpecterModel.C17.Drv
import SpecterModel.C18.Drv
import SpecterModel.C19.Drv
import SpecterModel.C20.Drv
import SpecterModel.C21.Drv
import SpecterModel.C22.Drv
import SpecterModel.C23.Drv
import SpecterModel.C24.Drv
import SpecterModel.C25.Drv
import SpecterModel.C26.Drv
import SpecterModel.C27.Drv
import SpecterModel.C28.Drv
import SpecterModel.C29.Drv
import SpecterModel.C30.Drv
import SpecterModel.C31.Drv
import SpecterModel.C32.Drv
import SpecterModel.C33.Drv
import SpecterModel.C34.Drv
import SpecterModel.C35.Drv
import SpecterModel.C36.Drv
import SpecterModel.C37.Drv
import SpecterModel.C38.Drv
import SpecterModel.C39.Drv
import SpecterModel.C40.Drv
import SpecterModel.C41.Drv
import SpecterModel.C42.Drv
import SpecterModel.C43.Drv
import SpecterModel.C44.Drv
import SpecterModel.C45.Drv
import SpecterModel.C46.Drv
import SpecterModel.C47.Drv
import SpecterModel.C48.Drv
import SpecterModel.C49.Drv
import SpecterModel.C50.Drv
import SpecterModel.C51.Drv

def main (args : List String) : IO UInt32 := do
  match args with
  | ["C01"] => do Specter.C01.main; return 0
  | ["C02"] => do Specter.C02.main; return 0
  | ["C03"] => do Specter.C03.main; return 0
  | ["C04"] => do Specter.C04.main; return 0
  | ["C05"] => do Specter.C05.main; return 0
  | ["C06"] => do Specter.C06.main; return 0
  | ["C07"] => do Specter.C07.main; return 0
  | ["C08"] => do Specter.C08.main; return 0
  | ["C09"] => do Specter.C09.main; return 0
  | ["C10"] => do Specter.C10.main; return 0
  | ["C11"] => do Specter.C11.main; return 0
  | ["C12"] => do Specter.C12.main; return 0
  | ["C13"] => do Specter.C13.main; return 0
  | ["C14"] => do Specter.C14.main; return 0
  | ["C15"] => do Specter.C15.main; return 0
  | ["C16"] => do Specter.C16.main; return 0
  | ["C17"] => do Specter.C17.main; return 0
  | ["C18"] => do Specter.C18.main; return 0
  | ["C19"] => do Specter.C19.main; return 0
  | ["C20"] => do Specter.C20.main; return 0
  | ["C21"] => do Specter.C21.main; return 0
  | ["C22"] => do Specter.C22.main; return 0
  | ["C23"] => do Specter.C23.main; return 0
  | ["C24"] => do Specter.C24.main; return 0
  | ["C25"] => do Specter.C25.main; return 0
  | ["C26"] => do Specter.C26.main; return 0
  | ["C27"] => do Specter.C27.main; return 0
  | ["C28"] => do Specter.C28.main; return 0
  | ["C29"] => do Specter.C29.main; return 0
  | ["C30"] => do Specter.C30.main; return 0
  | ["C31"] => do Specter.C31.main; return 0
  | ["C32"] => do Specter.C32.main; return 0
  | ["C33"] => do Specter.C33.main; return 0
  | ["C34"] => do Specter.C34.main; return 0
  | ["C35"] => do Specter.C35.main; return 0
  | ["C36"] => do Specter.C36.main; return 0
  | ["C37"] => do Specter.C37.main; return 0
  | ["C38"] => do Specter.C38.main; return 0
  | ["C39"] => do Specter.C39.main; return 0
  | ["C40"] => do Specter.C40.main; return 0
  | ["C41"] => do Specter.C41.main; return 0
  | ["C42"] => do Specter.C42.main; return 0
  | ["C43"] => do Specter.C43.main; return 0
  | ["C44"] => do Specter.C44.main; return 0
  | ["C45"] => do Specter.C45.main; return 0
  | ["C46"] => do Specter.C46.main; return 0
  | ["C47"] => do Specter.C47.main; return 0
  | ["C48"] => do Specter.C48.main; return 0
  | ["C49"] => do Specter.C49.main; return 0
  | ["C50"] => do Specter.C50.main; return 0
  | ["C51"] => do Specter.C51.main; return 0
  | _ => do IO.eprintln "usage: modeld <property id>"; return 2
