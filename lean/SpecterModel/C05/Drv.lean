import SpecterModel.C03.Churn
namespace Specter.C05
def main : IO Unit := Specter.Util.runLoop ({} : Specter.Churn.DState) (Specter.Churn.step false true)
end Specter.C05
