/-!
# C48 model — the ACME DNS responder (`acme/dns.go`: ServeDNS / readQuery / isImmediate / answer / answerTXT), core Lean only.

Names are `List Char` (ASCII; `strings.ToLower` is modelled on ASCII), challenge values `List Nat` (bytes).
The storage (`PrefixList(dnsKeyName(label))`) is a function `label ↦ none (failure) | some values`.
Static records are a list `(owner name, rrtype, rendering)`.
-/
namespace Specter.C48

abbrev Name := List Char
abbrev Bytes := List Nat

def lowerC (c : Char) : Char := if 'A' ≤ c ∧ c ≤ 'Z' then Char.ofNat (c.toNat + 32) else c
/-- `strings.ToLower` (ASCII) -/
def lower (s : Name) : Name := s.map lowerC

/-- `len(strings.Split(s, "."))` -/
def numParts (s : Name) : Nat := s.count '.' + 1

def rcSuccess : Nat := 0
def rcServFail : Nat := 2
def rcNameError : Nat := 3
def rcNotImp : Nat := 4
def rcBadVers : Nat := 16
def tTXT : Nat := 16
def tANY : Nat := 255

structure Cfg where
  zone : Name                             -- `d.domain`: lower-cased, with trailing dot
  recs : List (Name × Nat × String)       -- `d.records`, flattened in slice order

inductive Ans where
  | static (rendering : String)
  | txt (owner : Name) (val : Bytes)      -- TXT record named as the QUESTION was spelled, ttl 1
  deriving DecidableEq, Repr

/-- `isImmediate` -/
def isImmediate (zone q : Name) : Bool :=
  let qn := lower q
  (qn == zone || ('.' :: zone).isSuffixOf qn) &&
    decide (numParts qn ≥ numParts zone) && decide (numParts qn - numParts zone ≤ 1)

/-- the label `answerTXT` looks up: the part of the name in front of ".zone", if the zone is a suffix on a label boundary -/
def txtLabel (zone q : Name) : Option Name :=
  let qn := lower q
  if ('.' :: zone).isSuffixOf qn then some (qn.take (qn.length - zone.length - 1)) else none

def statics (cfg : Cfg) (q : Name) (qtype : Nat) : List Ans :=
  (cfg.recs.filter (fun r => r.1 == lower q && r.2.1 == qtype)).map (fun r => .static r.2.2)

/-- `answer`: (answers, rcode, authoritative) -/
def answer (cfg : Cfg) (store : Name → Option (List Bytes)) (q : Name) (qtype : Nat) : List Ans × Nat × Bool :=
  if !isImmediate cfg.zone q then ([], rcNameError, true)
  else if qtype = tANY then ([], rcNotImp, true)
  else
    let rr := statics cfg q qtype
    let (rr, rc) :=
      if qtype = tTXT then
        match txtLabel cfg.zone q with
        | none => (rr, rcSuccess)
        | some l =>
          match store l with
          | none => (rr, rcServFail)
          | some vals => (rr ++ (vals.filter (· ≠ [])).map (.txt q), rcSuccess)
      else (rr, rcSuccess)
    if rr.isEmpty && rc != rcServFail then (rr, rcNameError, true) else (rr, rc, true)

structure Resp where
  rcode : Nat
  auth : Bool
  answers : List Ans
  soa : Bool          -- the SOA is in the authority section
  opt : Bool          -- an OPT record is in the additional section
  deriving DecidableEq, Repr

/-- `ServeDNS` + `readQuery` for a single question. `edns`: version of the OPT record of the request, if any -/
def serve (cfg : Cfg) (store : Name → Option (List Bytes)) (q : Name) (qtype : Nat)
    (edns : Option Nat) (opcodeQuery : Bool) : Resp :=
  let opt := edns.isSome
  match edns with
  | some (_ + 1) => { rcode := rcBadVers, auth := false, answers := [], soa := false, opt := opt }
  | _ =>
    if !opcodeQuery then { rcode := rcSuccess, auth := false, answers := [], soa := false, opt := opt }
    else
      let (rr, rc, auth) := answer cfg store q qtype
      { rcode := rc, auth := auth, answers := rr, soa := auth && rc == rcNameError, opt := opt }

/-! ## executable specification (from the property statement; used by the driver's SPEC verdicts) -/

/-- position of `q` relative to the zone, by LABEL boundary -/
inductive Pos where
  | apex                   -- q = zone
  | label (l : Name)       -- q = l.zone, one non-empty label
  | deep                   -- more than one label below the zone
  | outside                -- not below the zone (possibly sharing a string suffix with it)
  deriving DecidableEq, Repr

def classify (zone q : Name) : Pos :=
  let qn := lower q
  if qn = zone then .apex
  else if (('.' :: zone).isSuffixOf qn) then
    let l := qn.take (qn.length - zone.length - 1)
    if l = [] then .outside else if l.contains '.' then .deep else .label l
  else .outside

/-- static records owned by `q` (DNS names compare case-insensitively) of the queried type -/
def specStatics (cfg : Cfg) (q : Name) (qtype : Nat) : List Ans :=
  (cfg.recs.filter (fun r => lower r.1 == lower q && r.2.1 == qtype)).map (fun r => .static r.2.2)

/-- what the statement demands of a response to a plain query (opcode QUERY, no EDNS) -/
def specOk (cfg : Cfg) (store : Name → Option (List Bytes)) (q : Name) (qtype : Nat) (r : Resp) : Option String :=
  match classify cfg.zone q with
  | .deep =>
    if r.rcode = rcNameError ∧ r.auth ∧ r.soa ∧ r.answers = [] then none
    else some "a name more than one label below the zone must get an authoritative name error with the SOA"
  | .outside =>
    if r.answers.any (fun a => match a with | .txt _ _ => true | _ => false) then
      some "challenge values served for a name that is not label.zone" else none
  | pos =>
    if qtype = tANY then
      if r.rcode = rcNotImp ∧ r.answers = [] then none else some "ANY must be answered not-implemented"
    else
      let st := specStatics cfg q qtype
      let needStore := qtype = tTXT ∧ pos ≠ .apex
      let dyn : Option (List Ans) :=
        match pos with
        | .label l => if qtype = tTXT then (store l).map (fun vs => (vs.filter (· ≠ [])).map (.txt q)) else some []
        | _ => some []
      match dyn with
      | none => if needStore ∧ r.rcode = rcServFail then none else some "a storage failure must yield a server failure"
      | some d =>
        let want := st ++ d
        if !(r.answers.isPerm want) then some "answers must be exactly the static records plus the stored non-empty challenge values"
        else if want = [] then
          (if r.rcode = rcNameError ∧ r.auth ∧ r.soa then none else some "no data: authoritative name error with the SOA expected")
        else if r.rcode = rcSuccess ∧ r.auth then none else some "answers must come with NOERROR, authoritative"

end Specter.C48
