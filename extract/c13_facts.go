package main

// c13-facts: extracts, from chord/node_state.go, the packing arithmetic of nodeState
// (the pure expressions of Transition / Get / newNodeState, translated with go2lean's
// expression translator after stripping the uint64 <-> chord.State conversions) and the
// control shape of Transition / Set (the ordered list of calls on the receiver), as Lean text.
//
// usage: extract c13-facts <namespace> <node_state.go> <state.go>

import (
	"fmt"
	"go/ast"
	"go/parser"
	"go/token"
	"strings"
)

func init() { factCmds["c13-facts"] = runC13Facts }

// stripConv rewrites uint64(x), (uint64)(x), chord.State(x), State(x) to x (State is `type State uint64`).
func c13StripConv(e ast.Expr) ast.Expr {
	switch x := e.(type) {
	case *ast.ParenExpr:
		return &ast.ParenExpr{X: c13StripConv(x.X)}
	case *ast.BinaryExpr:
		return &ast.BinaryExpr{X: c13StripConv(x.X), Op: x.Op, Y: c13StripConv(x.Y)}
	case *ast.CallExpr:
		if len(x.Args) == 1 {
			f := x.Fun
			for {
				if p, ok := f.(*ast.ParenExpr); ok {
					f = p.X
					continue
				}
				break
			}
			switch t := f.(type) {
			case *ast.Ident:
				if t.Name == "uint64" || t.Name == "State" {
					return c13StripConv(x.Args[0])
				}
			case *ast.SelectorExpr:
				if id, ok := t.X.(*ast.Ident); ok && id.Name == "chord" && t.Sel.Name == "State" {
					return c13StripConv(x.Args[0])
				}
			}
		}
	}
	return e
}

// isLoad reports s.state.Load()
func c13IsLoad(e ast.Expr) bool {
	c, ok := e.(*ast.CallExpr)
	if !ok {
		return false
	}
	se, ok := c.Fun.(*ast.SelectorExpr)
	if !ok || se.Sel.Name != "Load" {
		return false
	}
	in, ok := se.X.(*ast.SelectorExpr)
	return ok && in.Sel.Name == "state"
}

func c13Method(f *ast.File, name string) *ast.FuncDecl {
	for _, d := range f.Decls {
		if fd, ok := d.(*ast.FuncDecl); ok && fd.Name.Name == name {
			return fd
		}
	}
	fail("c13-facts: function %s not found", name)
	return nil
}

// shape: ordered rendering of statements as far as calls on the receiver / runtime are concerned
func c13Shape(fset *token.FileSet, n ast.Node) string {
	var sb strings.Builder
	var expr func(e ast.Expr) string
	expr = func(e ast.Expr) string {
		switch x := e.(type) {
		case *ast.Ident:
			return x.Name
		case *ast.BasicLit:
			return x.Value
		case *ast.ParenExpr:
			return expr(x.X)
		case *ast.SelectorExpr:
			return expr(x.X) + "." + x.Sel.Name
		case *ast.BinaryExpr:
			return "(" + expr(x.X) + x.Op.String() + expr(x.Y) + ")"
		case *ast.CallExpr:
			var as []string
			for _, a := range x.Args {
				as = append(as, expr(a))
			}
			return expr(x.Fun) + "(" + strings.Join(as, ",") + ")"
		}
		return "?"
	}
	var stmt func(s ast.Stmt)
	block := func(b *ast.BlockStmt) {
		sb.WriteString("{")
		for _, s := range b.List {
			stmt(s)
		}
		sb.WriteString("}")
	}
	stmt = func(s ast.Stmt) {
		switch x := s.(type) {
		case *ast.AssignStmt:
			// pure local arithmetic is covered by the translated definitions; keep only calls
			for i, r := range x.Rhs {
				if _, ok := c13StripConv(r).(*ast.CallExpr); ok {
					sb.WriteString(expr(x.Lhs[i]) + "=" + expr(c13StripConv(r)) + ";")
				}
			}
		case *ast.ExprStmt:
			sb.WriteString(expr(x.X) + ";")
		case *ast.ReturnStmt:
			var rs []string
			for _, r := range x.Results {
				rs = append(rs, expr(c13StripConv(r)))
			}
			sb.WriteString("return " + strings.Join(rs, ",") + ";")
		case *ast.IfStmt:
			sb.WriteString("if ")
			if x.Init != nil {
				stmt(x.Init)
			}
			sb.WriteString(expr(x.Cond))
			block(x.Body)
			if x.Else != nil {
				sb.WriteString("else")
				if b, ok := x.Else.(*ast.BlockStmt); ok {
					block(b)
				} else {
					stmt(x.Else)
				}
			}
		case *ast.ForStmt:
			sb.WriteString("for ")
			if x.Cond != nil {
				sb.WriteString(expr(x.Cond))
			}
			block(x.Body)
		case *ast.BranchStmt:
			sb.WriteString(x.Tok.String() + ";")
		case *ast.DeclStmt:
		default:
			sb.WriteString(fmt.Sprintf("<%T>;", s))
		}
	}
	block(n.(*ast.FuncDecl).Body)
	return sb.String()
}

func runC13Facts(args []string) {
	if len(args) != 3 {
		fail("usage: c13-facts <namespace> <node_state.go> <state.go>")
	}
	ns := args[0]
	fset := token.NewFileSet()
	f, err := parser.ParseFile(fset, args[1], nil, 0)
	if err != nil {
		fail("%v", err)
	}
	sf, err := parser.ParseFile(fset, args[2], nil, 0)
	if err != nil {
		fail("%v", err)
	}
	// State must be an unsigned 64-bit type for the conversions to be identities
	okState := false
	nStates := 0
	for _, d := range sf.Decls {
		gd, ok := d.(*ast.GenDecl)
		if !ok {
			continue
		}
		for _, sp := range gd.Specs {
			switch x := sp.(type) {
			case *ast.TypeSpec:
				if id, ok := x.Type.(*ast.Ident); ok && x.Name.Name == "State" && id.Name == "uint64" {
					okState = true
				}
			case *ast.ValueSpec:
				if gd.Tok == token.CONST {
					nStates += len(x.Names)
				}
			}
		}
	}
	if !okState {
		fail("c13-facts: chord.State is not `type State uint64`")
	}
	g := &g2l{fset: fset, consts: map[string]ty{}, funcs: map[string]*fnSig{}}
	var out strings.Builder
	fmt.Fprintf(&out, "/- GENERATED by extract/c13-facts from %s — do not edit -/\nset_option linter.unusedVariables false\nnamespace %s\n\n", shortPath(args[1]), ns)
	fmt.Fprintf(&out, "/-- number of lifecycle states declared in spec/chord/state.go -/\ndef numStates : Nat := %d\n\n", nStates)

	// Transition: locals as functions of (curr, exp, nxt)
	tr := c13Method(f, "Transition")
	sc := &scope{vars: map[string]ty{"exp": tyU64, "nxt": tyU64}, ext: &[]extParam{}}
	var lets []string
	loads := 0
	emit := func(name, body string) {
		fmt.Fprintf(&out, "def %s (curr : BitVec 64) (exp : BitVec 64) (nxt : BitVec 64) : BitVec 64 :=\n", name)
		for _, l := range lets {
			out.WriteString("  " + l + "\n")
		}
		out.WriteString("  " + body + "\n\n")
	}
	var walk func(stmts []ast.Stmt)
	walk = func(stmts []ast.Stmt) {
		for _, s := range stmts {
			switch x := s.(type) {
			case *ast.AssignStmt:
				if x.Tok != token.DEFINE || len(x.Lhs) != 1 {
					continue
				}
				name := x.Lhs[0].(*ast.Ident).Name
				if c13IsLoad(x.Rhs[0]) {
					loads++
					if name != "curr" {
						fail("c13-facts: loaded word is bound to %s, expected curr", name)
					}
					sc.vars["curr"] = tyU64
					continue
				}
				r := c13StripConv(x.Rhs[0])
				if _, isCall := r.(*ast.CallExpr); isCall {
					continue
				}
				v := g.expr(r, tyU64, sc)
				lets = append(lets, "let "+name+" : BitVec 64 := "+v)
				sc.vars[name] = tyU64
				emit("tr_"+name, name)
			case *ast.IfStmt:
				walk(x.Body.List)
			case *ast.ReturnStmt:
				if len(x.Results) == 2 {
					if id, ok := x.Results[1].(*ast.Ident); ok && id.Name == "false" {
						emit("tr_failState", g.expr(c13StripConv(x.Results[0]), tyU64, sc))
					}
				}
			}
		}
	}
	walk(tr.Body.List)
	if loads != 1 {
		fail("c13-facts: Transition loads the word %d times, expected 1", loads)
	}
	fmt.Fprintf(&out, "def transitionShape : String := %q\n\n", c13Shape(fset, tr))

	// Get: `return chord.State(s.state.Load() & mask)`
	get := c13Method(f, "Get")
	if len(get.Body.List) != 1 {
		fail("c13-facts: Get is not a single return")
	}
	ret, ok := get.Body.List[0].(*ast.ReturnStmt)
	if !ok || len(ret.Results) != 1 {
		fail("c13-facts: Get is not a single return")
	}
	var replaceLoad func(e ast.Expr) ast.Expr
	replaceLoad = func(e ast.Expr) ast.Expr {
		if c13IsLoad(e) {
			return ast.NewIdent("w")
		}
		switch x := e.(type) {
		case *ast.ParenExpr:
			return &ast.ParenExpr{X: replaceLoad(x.X)}
		case *ast.BinaryExpr:
			return &ast.BinaryExpr{X: replaceLoad(x.X), Op: x.Op, Y: replaceLoad(x.Y)}
		}
		return e
	}
	gsc := &scope{vars: map[string]ty{"w": tyU64}, ext: &[]extParam{}}
	fmt.Fprintf(&out, "def getState (w : BitVec 64) : BitVec 64 :=\n  %s\n\n", g.expr(replaceLoad(c13StripConv(ret.Results[0])), tyU64, gsc))

	// newNodeState: the stored initial word
	nn := c13Method(f, "newNodeState")
	isc := &scope{vars: map[string]ty{"initial": tyU64}, ext: &[]extParam{}}
	var ilets []string
	found := false
	for _, s := range nn.Body.List {
		switch x := s.(type) {
		case *ast.DeclStmt:
			gd := x.Decl.(*ast.GenDecl)
			for _, sp := range gd.Specs {
				vs := sp.(*ast.ValueSpec)
				if len(vs.Names) == 1 && len(vs.Values) == 1 && goType(vs.Type) == tyU64 {
					ilets = append(ilets, "let "+vs.Names[0].Name+" : BitVec 64 := "+g.expr(c13StripConv(vs.Values[0]), tyU64, isc))
					isc.vars[vs.Names[0].Name] = tyU64
				}
			}
		case *ast.ExprStmt:
			c, ok := x.X.(*ast.CallExpr)
			if !ok || len(c.Args) != 1 {
				continue
			}
			se, ok := c.Fun.(*ast.SelectorExpr)
			if !ok || se.Sel.Name != "Store" {
				continue
			}
			if in, ok := se.X.(*ast.SelectorExpr); ok && in.Sel.Name == "state" {
				found = true
				fmt.Fprintf(&out, "def initWord (initial : BitVec 64) : BitVec 64 :=\n")
				for _, l := range ilets {
					out.WriteString("  " + l + "\n")
				}
				out.WriteString("  " + g.expr(c13StripConv(c.Args[0]), tyU64, isc) + "\n\n")
			}
		}
	}
	if !found {
		fail("c13-facts: newNodeState does not store an initial word")
	}
	fmt.Fprintf(&out, "def newShape : String := %q\n\n", c13Shape(fset, nn))
	fmt.Fprintf(&out, "def setShape : String := %q\n\n", c13Shape(fset, c13Method(f, "Set")))
	fmt.Fprintf(&out, "end %s\n", ns)
	fmt.Print(out.String())
}
