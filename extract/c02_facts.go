package main

// c02-facts <chord/local_tasks.go> [more chord/*.go files] : print GenUpd.lean — the ordered list of abstract
//            actions that LocalNode.stabilize performs on the three shared variables of the successor-list update
//            (succListHash, successors, successorsMu) from the computation of the list hash to the end of the
//            function, helper methods that touch them inlined.
// c02-lines <same files> : print the same list for the harness: one line `prog <tok>,<tok>,…` (`prog -` when empty).
//
// Actions (tokens): load:K  = `succListHash.Load() != <own hash>` guarding the next K actions (equal ⇒ skip them)
//                   swap:K  = `succListHash.Swap(<own hash>) != <own hash>` guarding the next K actions
//                   store   = `succListHash.Store(<own hash>)` (or a Swap whose result is dropped)
//                   lock / unlock = successorsMu.Lock() / .Unlock() (a deferred Unlock runs at the end of its function)
//                   assign  = `successors = <own list>`
//
// Supported shape (anything else aborts with a non-zero exit, which ./check reports as a broken obligation):
//   * the first statement of stabilize's body of the form `<h> := <recv>.hash(<l>)` starts the region; <h> is
//     the run's own hash, <l> its own list; no statement before it may mention the three variables
//     (getSuccessors(), which reads the list at the very beginning, is a call and belongs to the computation of
//     the run's view, which the model leaves arbitrary);
//   * in the region: expression statements calling Lock/Unlock/Store/Swap as above; `<recv>.successors = <l>`;
//     `defer <recv>.successorsMu.Unlock()`; calls of methods of the receiver that are declared in the given files:
//     inlined when their body (transitively) mentions the variables, skipped otherwise, parameters bound to the
//     hash / the list by position; `if` statements whose condition is a conjunction of `modified` (the model
//     describes the runs that computed a list) and at most one comparison `Load()/Swap(h) != h`; statements that
//     do not mention the variables are skipped provided they do not assign the own hash / own list variables;
//     a `return` only as last statement of a function or inside a skipped statement.
//   * everything else that mentions succListHash / successors / successorsMu (RLock, reads, `==` comparisons,
//     else branches, loops, closures, go statements, other arguments to Store/Swap …) is rejected.

import (
	"fmt"
	"go/ast"
	"go/parser"
	"go/token"
	"os"
	"strings"
)

var c02Shared = map[string]bool{"succListHash": true, "successors": true, "successorsMu": true}

type c02Ctx struct {
	fset  *token.FileSet
	funcs map[string]*ast.FuncDecl // methods with a receiver, by name
	depth int
}

func (c *c02Ctx) fail(n ast.Node, msg string) {
	fmt.Fprintf(os.Stderr, "c02-facts: %s: unsupported: %s\n", c.fset.Position(n.Pos()), msg)
	os.Exit(1)
}

func c02Sel(e ast.Expr) string {
	switch x := e.(type) {
	case *ast.Ident:
		return x.Name
	case *ast.SelectorExpr:
		return c02Sel(x.X) + "." + x.Sel.Name
	case *ast.ParenExpr:
		return c02Sel(x.X)
	}
	return "?"
}

func c02RecvName(fd *ast.FuncDecl) string {
	if fd.Recv == nil || len(fd.Recv.List) != 1 || len(fd.Recv.List[0].Names) != 1 {
		return ""
	}
	return fd.Recv.List[0].Names[0].Name
}

// does the node mention one of the shared variables directly?
func c02Mentions(n ast.Node) bool {
	if n == nil {
		return false
	}
	found := false
	ast.Inspect(n, func(x ast.Node) bool {
		if s, ok := x.(*ast.SelectorExpr); ok && c02Shared[s.Sel.Name] {
			found = true
		}
		return !found
	})
	return found
}

// does the node mention them directly or through methods of the receiver declared in the given files?
func (c *c02Ctx) touches(n ast.Node, recv string, seen map[string]bool) bool {
	if n == nil {
		return false
	}
	if c02Mentions(n) {
		return true
	}
	found := false
	ast.Inspect(n, func(x ast.Node) bool {
		if found {
			return false
		}
		call, ok := x.(*ast.CallExpr)
		if !ok {
			return true
		}
		sel, ok := call.Fun.(*ast.SelectorExpr)
		if !ok {
			return true
		}
		if id, ok := sel.X.(*ast.Ident); ok && id.Name == recv {
			fd := c.funcs[sel.Sel.Name]
			if fd == nil {
				c.fail(call, "call of "+recv+"."+sel.Sel.Name+": method not found in the given files")
			}
			if !seen[sel.Sel.Name] {
				seen[sel.Sel.Name] = true
				if fd.Body != nil && c.touches(fd.Body, c02RecvName(fd), seen) {
					found = true
				}
			}
		}
		return !found
	})
	return found
}

// kind of an expression: "hash" (the run's own hash), "list" (the run's own list) or "".
func (c *c02Ctx) kind(e ast.Expr, recv string, env map[string]string) string {
	switch x := e.(type) {
	case *ast.ParenExpr:
		return c.kind(x.X, recv, env)
	case *ast.Ident:
		return env[x.Name]
	case *ast.CallExpr:
		if c02Sel(x.Fun) == recv+".hash" && len(x.Args) == 1 && c.kind(x.Args[0], recv, env) == "list" {
			return "hash"
		}
	}
	return ""
}

// a statement that is skipped must not redefine the own hash / own list variables
func (c *c02Ctx) checkNoRebind(n ast.Node, env map[string]string) {
	ast.Inspect(n, func(x ast.Node) bool {
		switch s := x.(type) {
		case *ast.AssignStmt:
			for _, l := range s.Lhs {
				if id, ok := l.(*ast.Ident); ok && env[id.Name] != "" {
					c.fail(s, "assignment to "+id.Name+" (the run's own "+env[id.Name]+") inside the update region")
				}
			}
		case *ast.IncDecStmt:
			if id, ok := s.X.(*ast.Ident); ok && env[id.Name] != "" {
				c.fail(s, "modification of "+id.Name)
			}
		case *ast.RangeStmt:
			for _, l := range []ast.Expr{s.Key, s.Value} {
				if id, ok := l.(*ast.Ident); ok && env[id.Name] != "" && s.Tok == token.ASSIGN {
					c.fail(s, "range assigns "+id.Name)
				}
			}
		case *ast.UnaryExpr:
			if s.Op == token.AND {
				if id, ok := s.X.(*ast.Ident); ok && env[id.Name] != "" {
					c.fail(s, "address of "+id.Name+" taken")
				}
			}
		}
		return true
	})
}

func c02Conjuncts(e ast.Expr) []ast.Expr {
	switch x := e.(type) {
	case *ast.ParenExpr:
		return c02Conjuncts(x.X)
	case *ast.BinaryExpr:
		if x.Op == token.LAND {
			return append(c02Conjuncts(x.X), c02Conjuncts(x.Y)...)
		}
	}
	return []ast.Expr{e}
}

// guard of an if statement: "" (always taken in the modelled runs), "load" or "swap"
func (c *c02Ctx) guard(cond ast.Expr, recv string, env map[string]string) string {
	g := ""
	for _, cj := range c02Conjuncts(cond) {
		seen := map[string]bool{}
		if !c.touches(cj, recv, seen) {
			if id, ok := cj.(*ast.Ident); ok && id.Name == "modified" {
				continue
			}
			c.fail(cj, "condition `"+c02Sel(cj)+"` guards accesses to the successor list state (only `modified` and one hash comparison are understood)")
		}
		be, ok := cj.(*ast.BinaryExpr)
		if !ok || be.Op != token.NEQ {
			c.fail(cj, "condition on the successor list state that is not `<Load()|Swap(h)> != h`")
		}
		l, r := be.X, be.Y
		if c.kind(l, recv, env) == "hash" {
			l, r = r, l
		}
		if c.kind(r, recv, env) != "hash" {
			c.fail(cj, "comparison with something that is not the run's own hash")
		}
		call, ok := l.(*ast.CallExpr)
		if !ok {
			c.fail(cj, "left side of the hash comparison")
		}
		k := ""
		switch c02Sel(call.Fun) {
		case recv + ".succListHash.Load":
			if len(call.Args) != 0 {
				c.fail(cj, "Load with arguments")
			}
			k = "load"
		case recv + ".succListHash.Swap":
			if len(call.Args) != 1 || c.kind(call.Args[0], recv, env) != "hash" {
				c.fail(cj, "Swap of something that is not the run's own hash")
			}
			k = "swap"
		default:
			c.fail(cj, "comparison of "+c02Sel(call.Fun))
		}
		if g != "" {
			c.fail(cj, "second hash comparison in one condition")
		}
		g = k
	}
	return g
}

// statements of one function body → action tokens (deferred unlocks appended at the end of the function)
func (c *c02Ctx) fn(stmts []ast.Stmt, recv string, env map[string]string) []string {
	var deferred []string
	acts := c.block(stmts, recv, env, &deferred, true)
	for i := len(deferred) - 1; i >= 0; i-- {
		acts = append(acts, deferred[i])
	}
	return acts
}

func (c *c02Ctx) block(stmts []ast.Stmt, recv string, env map[string]string, deferred *[]string, top bool) []string {
	var acts []string
	for i, s := range stmts {
		last := top && i == len(stmts)-1
		if !c.touches(s, recv, map[string]bool{}) {
			if _, isRet := s.(*ast.ReturnStmt); isRet && !last {
				rest := &ast.BlockStmt{List: stmts[i+1:]}
				if !top || c.touches(rest, recv, map[string]bool{}) {
					c.fail(s, "return inside the update region")
				}
			}
			if ifs, ok := s.(*ast.IfStmt); ok {
				// a skipped `if` may return early only if nothing that follows in this function touches the state
				hasRet := false
				ast.Inspect(ifs, func(x ast.Node) bool {
					if _, ok := x.(*ast.ReturnStmt); ok {
						hasRet = true
					}
					if _, ok := x.(*ast.FuncLit); ok {
						return false
					}
					return true
				})
				if hasRet && (!top || c.touches(&ast.BlockStmt{List: stmts[i+1:]}, recv, map[string]bool{}) || len(*deferred) > 0) {
					c.fail(s, "conditional return inside the update region")
				}
			}
			c.checkNoRebind(s, env)
			continue
		}
		switch x := s.(type) {
		case *ast.ExprStmt:
			call, ok := x.X.(*ast.CallExpr)
			if !ok {
				c.fail(s, "expression statement")
			}
			acts = append(acts, c.call(call, recv, env)...)
		case *ast.AssignStmt:
			if len(x.Lhs) == 1 && len(x.Rhs) == 1 && x.Tok == token.ASSIGN && c02Sel(x.Lhs[0]) == recv+".successors" {
				if c.kind(x.Rhs[0], recv, env) != "list" {
					c.fail(s, "successors assigned something that is not the run's own list")
				}
				acts = append(acts, "assign")
				continue
			}
			c.fail(s, "assignment involving the successor list state")
		case *ast.DeferStmt:
			if c02Sel(x.Call.Fun) == recv+".successorsMu.Unlock" && len(x.Call.Args) == 0 {
				if !top {
					c.fail(s, "defer inside a nested block")
				}
				*deferred = append(*deferred, "unlock")
				continue
			}
			c.fail(s, "defer involving the successor list state")
		case *ast.IfStmt:
			if x.Init != nil {
				c.fail(s, "if with init statement")
			}
			if x.Else != nil {
				c.fail(s, "else branch")
			}
			g := c.guard(x.Cond, recv, env)
			body := c.block(x.Body.List, recv, env, deferred, false)
			if g != "" {
				acts = append(acts, fmt.Sprintf("%s:%d", g, len(body)))
			}
			acts = append(acts, body...)
		case *ast.BlockStmt:
			acts = append(acts, c.block(x.List, recv, env, deferred, false)...)
		default:
			c.fail(s, fmt.Sprintf("statement %T involving the successor list state", s))
		}
	}
	return acts
}

func (c *c02Ctx) call(call *ast.CallExpr, recv string, env map[string]string) []string {
	name := c02Sel(call.Fun)
	switch name {
	case recv + ".successorsMu.Lock":
		return []string{"lock"}
	case recv + ".successorsMu.Unlock":
		return []string{"unlock"}
	case recv + ".succListHash.Store", recv + ".succListHash.Swap":
		if len(call.Args) != 1 || c.kind(call.Args[0], recv, env) != "hash" {
			c.fail(call, "hash variable set to something that is not the run's own hash")
		}
		return []string{"store"}
	}
	sel, ok := call.Fun.(*ast.SelectorExpr)
	if !ok {
		c.fail(call, "call "+name+" involving the successor list state")
	}
	if id, isId := sel.X.(*ast.Ident); isId && id.Name == recv {
		fd := c.funcs[sel.Sel.Name]
		if fd == nil || fd.Body == nil {
			c.fail(call, "call of "+name+": method not found in the given files")
		}
		for _, a := range call.Args {
			if c02Mentions(a) {
				c.fail(call, "argument mentions the successor list state")
			}
		}
		if c.depth > 8 {
			c.fail(call, "inlining too deep")
		}
		cenv := map[string]string{}
		i := 0
		for _, f := range fd.Type.Params.List {
			for _, nm := range f.Names {
				if i < len(call.Args) {
					if k := c.kind(call.Args[i], recv, env); k != "" {
						cenv[nm.Name] = k
					}
				}
				i++
			}
		}
		c.depth++
		acts := c.fn(fd.Body.List, c02RecvName(fd), cenv)
		c.depth--
		return acts
	}
	c.fail(call, "call "+name+" involving the successor list state")
	return nil
}

func c02Prog(files []string) []string {
	if len(files) < 1 {
		fmt.Fprintln(os.Stderr, "c02-facts: usage: c02-facts|c02-lines <chord/local_tasks.go> [more files of package chord]")
		os.Exit(2)
	}
	c := &c02Ctx{fset: token.NewFileSet(), funcs: map[string]*ast.FuncDecl{}}
	for _, p := range files {
		f, err := parser.ParseFile(c.fset, p, nil, 0)
		if err != nil {
			fmt.Fprintf(os.Stderr, "c02-facts: %v\n", err)
			os.Exit(1)
		}
		for _, d := range f.Decls {
			if fd, ok := d.(*ast.FuncDecl); ok && fd.Recv != nil && len(fd.Recv.List) == 1 {
				t := fd.Recv.List[0].Type
				if st, ok := t.(*ast.StarExpr); ok {
					t = st.X
				}
				if id, ok := t.(*ast.Ident); ok && id.Name == "LocalNode" {
					c.funcs[fd.Name.Name] = fd
				}
			}
		}
	}
	st := c.funcs["stabilize"]
	if st == nil || st.Body == nil {
		fmt.Fprintln(os.Stderr, "c02-facts: func (n *LocalNode) stabilize not found")
		os.Exit(1)
	}
	recv := c02RecvName(st)
	if recv == "" {
		c.fail(st, "stabilize without a named receiver")
	}
	start := -1
	env := map[string]string{}
	for i, s := range st.Body.List {
		if as, ok := s.(*ast.AssignStmt); ok && as.Tok == token.DEFINE && len(as.Lhs) == 1 && len(as.Rhs) == 1 {
			if call, ok := as.Rhs[0].(*ast.CallExpr); ok && c02Sel(call.Fun) == recv+".hash" && len(call.Args) == 1 {
				h, ok1 := as.Lhs[0].(*ast.Ident)
				l, ok2 := call.Args[0].(*ast.Ident)
				if !ok1 || !ok2 {
					c.fail(s, "hash computation")
				}
				env[h.Name], env[l.Name] = "hash", "list"
				start = i
				break
			}
		}
		if c02Mentions(s) {
			c.fail(s, "access to the successor list state before the hash of the new list is computed")
		}
	}
	if start < 0 {
		c.fail(st, "no `<h> := "+recv+".hash(<list>)` statement in stabilize")
	}
	return c.fn(st.Body.List[start+1:], recv, env)
}

func c02Lean(tok string) string {
	p := strings.SplitN(tok, ":", 2)
	switch p[0] {
	case "load":
		return ".loadHashCmp " + p[1]
	case "swap":
		return ".swapHashCmp " + p[1]
	case "store":
		return ".storeHash"
	case "assign":
		return ".assignList"
	}
	return "." + p[0]
}

func init() {
	factCmds["c02-facts"] = func(args []string) {
		acts := c02Prog(args)
		var l []string
		for _, a := range acts {
			l = append(l, c02Lean(a))
		}
		fmt.Print(`/- GENERATED by extract c02-facts from chord/local_tasks.go (func (n *LocalNode) stabilize from the computation of
the list hash to its end, helper methods inlined): the ordered accesses of one stabilize run to succListHash,
successors and successorsMu. Do not edit. -/
import SpecterModel.C02.Upd
namespace Gen.C02
open Specter.C02.Upd

def updateProg : Prog := [` + strings.Join(l, ", ") + `]

end Gen.C02
`)
	}
	factCmds["c02-lines"] = func(args []string) {
		acts := c02Prog(args)
		if len(acts) == 0 {
			fmt.Println("prog -")
			return
		}
		fmt.Println("prog " + strings.Join(acts, ","))
	}
}
