import SpecterModel.Util
import SpecterModel.C35.Model
/-! C35 line-protocol driver.

`fwd <proto> <tls> <sni> <host> <Hostname(host)> <Hostname(sni)> <peerIP|!> <port> <inbound headers>
   => xff=<vals> xfh=<vals> xfp=<vals> tci=<vals> xri=<vals> host=<hex>`   what the tunnel backend received
   | `notforwarded:<status>`                                                nothing reached a tunnel
   | `panic`                                                                the handler chain panicked

Strings are hex tokens; `<vals>` = `_` (header absent) or comma-joined hex values; `<inbound headers>` = `_` or
`;`-joined `name:vals` (names canonical, as parsed by net/http). The SPEC verdict restates the property
statement on the received values only. -/
namespace Specter.C35
open Specter.Util

def parseVals (t : String) : Option (List String) :=
  if t = "_" then some [] else (t.splitOn ",").mapM hexToAscii

def parseHdrs (t : String) : Option (List (String × List String)) :=
  if t = "_" then some [] else
  (t.splitOn ";").mapM fun kv =>
    match kv.splitOn ":" with
    | [k, v] => do let k ← hexToAscii k; let v ← parseVals v; pure (k, v)
    | _ => none

def parseField (name : String) (t : String) : Option (List String) :=
  if t.startsWith (name ++ "=") then parseVals (t.drop (name.length + 1)).toString else none

def showVals (vs : List String) : String :=
  if vs.isEmpty then "_" else ",".intercalate (vs.map fun v => bytesToHex (v.toList.map Char.toNat))

structure Seen where
  xff : List String
  xfh : List String
  xfp : List String
  tci : List String
  xri : List String
  host : String

def parseSeen (rhs : String) : Option Seen :=
  match rhs.splitOn " " with
  | [a, b, c, d, e, f] => do
    let xff ← parseField "xff" a; let xfh ← parseField "xfh" b; let xfp ← parseField "xfp" c
    let tci ← parseField "tci" d; let xri ← parseField "xri" e
    let host ← if f.startsWith "host=" then hexToAscii (f.drop 5).toString else none
    pure ⟨xff, xfh, xfp, tci, xri, host⟩
  | _ => none

/-- the property statement, on what the tunnel received. "Requested host": for HTTP/2 and HTTP/3 the request's own
authority (`hnHost`) and nothing else — connections are coalesced, so the SNI of the connection names whatever host
the connection was first opened for; for HTTP/1.x over TLS the statement leaves open whether the Host header or the
SNI names it, so either is accepted; plain HTTP/1.x has only Host. -/
def specCheck (proto : Nat) (tls : Bool) (hnHost hnSni : String) (peer : Option String) (port : Nat) (s : Seen) : Option String :=
  let withPort (h : String) := if port = 443 then h else h ++ ":" ++ toString port
  let okHosts := [withPort hnHost] ++ (if tls && proto < 2 then [withPort hnSni] else [])
  if s.xff ≠ (match peer with | some ip => [ip] | none => []) then some "X-Forwarded-For-is-not-exactly-the-peer-ip"
  else if s.xfp ≠ ["https"] then some "X-Forwarded-Proto-is-not-https"
  else if !(match s.xfh with | [h] => okHosts.contains h | _ => false) then
    some (if 2 ≤ proto then "X-Forwarded-Host-is-not-the-requested-authority(+port)-of-the-HTTP/2-or-HTTP/3-request"
          else "X-Forwarded-Host-is-not-the-requested-host(+port)")
  else if s.tci ≠ [] then some "True-Client-IP-passed-through"
  else if s.xri ≠ [] then some "X-Real-IP-passed-through"
  else none

def step (_ : Unit) (toks : List String) (rhs : String) : Unit × Verdict :=
  match toks with
  | ["fwd", proto, tls, sni, host, hnHost, hnSni, peer, port, hdrs] =>
    match proto.toNat?, parseBool tls, hexToAscii sni, hexToAscii host, hexToAscii hnHost, hexToAscii hnSni,
          (if peer = "!" then some none else (hexToAscii peer).map some), port.toNat?, parseHdrs hdrs with
    | some proto, some tls, some sni, some host, some hnHost, some hnSni, some peer, some port, some hdrs =>
      if rhs.startsWith "notforwarded:" then ((), .ok)       -- nothing reached a tunnel: outside the property
      else
        let e : Env := ⟨port, fun x => if x = host then hnHost else if x = sni then hnSni else x⟩
        -- the harness sets HTTP/1.1, HTTP/2.0 or HTTP/3.0
        let i : Req := ⟨proto, if proto = 1 then 1 else 0, if tls then some sni else none, host, peer⟩
        match rewrite e i (Hdr.ofList hdrs), urlHost? e i with
        | some m, some uh =>
          let mtxt := s!"xff={showVals (m XFF)} xfh={showVals (m XFH)} xfp={showVals (m XFP)} tci={showVals (m TCI)} xri={showVals (m XRI)} host={showVals [uh]}"
          if rhs = "panic" then ((), .diff mtxt)
          else match parseSeen rhs with
          | none => ((), .bad "fwd result")
          | some s =>
            match specCheck proto tls hnHost hnSni peer port s with
            | some why => ((), .spec why)
            | none =>
              if m XFF ≠ s.xff ∨ m XFH ≠ s.xfh ∨ m XFP ≠ s.xfp ∨ m TCI ≠ s.tci ∨ m XRI ≠ s.xri ∨ uh ≠ s.host
              then ((), .diff mtxt) else ((), .ok)
        | _, _ =>   -- the model dereferences a nil in.TLS: the handler panics, nothing is forwarded
          if rhs = "panic" then ((), .ok)
          else match parseSeen rhs with
          | none => ((), .bad "fwd result")
          | some s =>
            match specCheck proto tls hnHost hnSni peer port s with
            | some why => ((), .spec why)
            | none => ((), .diff "panic")
    | _, _, _, _, _, _, _, _, _ => ((), .bad "fwd args")
  | _ => ((), .bad "unknown op")

def main : IO Unit := runLoop () step

end Specter.C35
