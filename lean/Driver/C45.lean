import SpecterModel.C45.Drv

def main : IO Unit := Specter.C45.main
