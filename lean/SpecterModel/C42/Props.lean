import SpecterModel.C42.Model
/-!
# C42 — Incoming streams are dispatched to the right handler
For EVERY sequence of registrations (virtual / physical / tunnel, any kinds, ids, handlers) and every
incoming (type, target).
-/
namespace Specter.C42

def virtLookup (s : State) (k i : Nat) : Option Nat :=
  match s.virt k with
  | some m => m i
  | none => none

theorem dispatchChord_eq (s : State) (k i : Nat) :
    dispatchChord s k i = (match virtLookup s k i with | some h => some h | none => s.phys k) := by
  unfold dispatchChord virtLookup
  cases s.virt k with
  | none => rfl
  | some m => cases m i <;> rfl

theorem virtLookup_register (s : State) (op : Op) (k i : Nat) :
    virtLookup (register s op) k i =
      (match op with
       | .handleChord k' (some i') h => if k' = k ∧ i' = i then some h else virtLookup s k i
       | _ => virtLookup s k i) := by
  cases op with
  | handleTunnel k' h => rfl
  | handleChord k' t h =>
    cases t with
    | none => rfl
    | some i' =>
      by_cases hk : k = k'
      · subst hk
        by_cases hi : i = i'
        · subst hi; simp [register, virtLookup, upd]
        · have : ¬ i' = i := fun e => hi e.symm
          cases hs : s.virt k <;> simp [register, virtLookup, upd, hs, hi, this]
      · have : ¬ k' = k := fun e => hk e.symm
        simp [register, virtLookup, upd, hk, this]

theorem phys_register (s : State) (op : Op) (k : Nat) :
    (register s op).phys k =
      (match op with
       | .handleChord k' none h => if k' = k then some h else s.phys k
       | _ => s.phys k) := by
  cases op with
  | handleTunnel k' h => rfl
  | handleChord k' t h =>
    cases t with
    | some i' => rfl
    | none =>
      simp only [register, upd]
      by_cases hk : k = k'
      · subst hk; simp
      · have : ¬ k' = k := fun e => hk e.symm
        simp [hk, this]

theorem tun_register (s : State) (op : Op) (k : Nat) :
    (register s op).tun k =
      (match op with
       | .handleTunnel k' h => if k' = k then some h else s.tun k
       | _ => s.tun k) := by
  cases op with
  | handleChord k' t h => cases t <;> rfl
  | handleTunnel k' h =>
    simp only [register, upd]
    by_cases hk : k = k'
    · subst hk; simp
    · have : ¬ k' = k := fun e => hk e.symm
      simp [hk, this]

/-- generalised refinement lemmas: folding the registrations over ANY starting state -/
theorem virt_foldl (ops : List Op) (s : State) (k i : Nat) :
    virtLookup (ops.foldl register s) k i =
      (match lastVirt ops k i with | some h => some h | none => virtLookup s k i) := by
  induction ops generalizing s with
  | nil => rfl
  | cons op rest ih =>
    simp only [List.foldl_cons, lastVirt]
    rw [ih (register s op), virtLookup_register]
    cases lastVirt rest k i with
    | some h => rfl
    | none =>
      cases op with
      | handleTunnel k' h => rfl
      | handleChord k' t h =>
        cases t with
        | none => rfl
        | some i' => by_cases c : k' = k ∧ i' = i <;> simp [c]

theorem phys_foldl (ops : List Op) (s : State) (k : Nat) :
    (ops.foldl register s).phys k =
      (match lastPhys ops k with | some h => some h | none => s.phys k) := by
  induction ops generalizing s with
  | nil => rfl
  | cons op rest ih =>
    simp only [List.foldl_cons, lastPhys]
    rw [ih (register s op), phys_register]
    cases lastPhys rest k with
    | some h => rfl
    | none =>
      cases op with
      | handleTunnel k' h => rfl
      | handleChord k' t h =>
        cases t with
        | some i' => rfl
        | none => by_cases c : k' = k <;> simp [c]

theorem tun_foldl (ops : List Op) (s : State) (k : Nat) :
    (ops.foldl register s).tun k =
      (match lastTun ops k with | some h => some h | none => s.tun k) := by
  induction ops generalizing s with
  | nil => rfl
  | cons op rest ih =>
    simp only [List.foldl_cons, lastTun]
    rw [ih (register s op), tun_register]
    cases lastTun rest k with
    | some h => rfl
    | none =>
      cases op with
      | handleChord k' t h => cases t <;> rfl
      | handleTunnel k' h => by_cases c : k' = k <;> simp [c]

/-- **C42 (inter-node streams)**: after any registration history, an incoming (type, target) stream goes to
the most recent handler registered for that type AND target; else to the most recent node-wide handler
of that type; else to nobody (closed). -/
theorem dispatchChord_spec (ops : List Op) (kind id : Nat) :
    dispatchChord (run ops) kind id = specChord ops kind id := by
  rw [dispatchChord_eq]; unfold run specChord
  rw [virt_foldl, phys_foldl]
  cases lastVirt ops kind id with
  | some h => rfl
  | none => simp only [virtLookup, init]; cases lastPhys ops kind <;> rfl

/-- **C42 (client streams)**: most recent handler for the type, else closed. -/
theorem dispatchTunnel_spec (ops : List Op) (kind : Nat) :
    dispatchTunnel (run ops) kind = specTunnel ops kind := by
  unfold dispatchTunnel run specTunnel
  rw [tun_foldl]; cases lastTun ops kind <;> rfl

/-- the handler registered for (type, target) wins over the node-wide handler -/
theorem virtual_wins (ops : List Op) (kind id h : Nat) (hv : lastVirt ops kind id = some h) :
    dispatchChord (run ops) kind id = some h := by
  rw [dispatchChord_spec]; simp [specChord, hv]

/-- no handler for the target: fall back to the node-wide handler of that type -/
theorem falls_back_to_physical (ops : List Op) (kind id : Nat) (hv : lastVirt ops kind id = none) :
    dispatchChord (run ops) kind id = lastPhys ops kind := by
  rw [dispatchChord_spec]; simp [specChord, hv]

/-- no matching handler at all: the stream is closed -/
theorem unmatched_is_closed (ops : List Op) (kind id : Nat)
    (hv : lastVirt ops kind id = none) (hp : lastPhys ops kind = none) :
    dispatchChord (run ops) kind id = none := by
  rw [falls_back_to_physical ops kind id hv, hp]

/-- a registration is visible immediately and overrides earlier ones (last writer wins) -/
theorem last_writer_wins (ops : List Op) (kind id h : Nat) :
    dispatchChord (run (ops ++ [.handleChord kind (some id) h])) kind id = some h := by
  apply virtual_wins
  induction ops with
  | nil => simp [lastVirt]
  | cons op rest ih => simp [lastVirt, ih]

def isTunnelOp : Op → Bool
  | .handleTunnel .. => true
  | _ => false
def isChordOp : Op → Bool
  | .handleChord .. => true
  | _ => false

theorem lastTun_filter (ops : List Op) (k : Nat) : lastTun (ops.filter isTunnelOp) k = lastTun ops k := by
  induction ops with
  | nil => rfl
  | cons op rest ih =>
    cases op with
    | handleChord k' t h =>
      have : lastTun (Op.handleChord k' t h :: rest) k = lastTun rest k := by
        simp only [lastTun]; cases lastTun rest k <;> rfl
      rw [this, ← ih]; simp [List.filter, isTunnelOp]
    | handleTunnel k' h => simp [List.filter, isTunnelOp, lastTun, ih]

theorem lastVirt_filter (ops : List Op) (k i : Nat) : lastVirt (ops.filter isChordOp) k i = lastVirt ops k i := by
  induction ops with
  | nil => rfl
  | cons op rest ih =>
    cases op with
    | handleTunnel k' h =>
      have : lastVirt (Op.handleTunnel k' h :: rest) k i = lastVirt rest k i := by
        simp only [lastVirt]; cases lastVirt rest k i <;> rfl
      rw [this, ← ih]; simp [List.filter, isChordOp]
    | handleChord k' t h => simp [List.filter, isChordOp, lastVirt, ih]

theorem lastPhys_filter (ops : List Op) (k : Nat) : lastPhys (ops.filter isChordOp) k = lastPhys ops k := by
  induction ops with
  | nil => rfl
  | cons op rest ih =>
    cases op with
    | handleTunnel k' h =>
      have : lastPhys (Op.handleTunnel k' h :: rest) k = lastPhys rest k := by
        simp only [lastPhys]; cases lastPhys rest k <;> rfl
      rw [this, ← ih]; simp [List.filter, isChordOp]
    | handleChord k' t h => simp [List.filter, isChordOp, lastPhys, ih]

/-- client dispatch ignores the chord tables … -/
theorem tunnel_ignores_chord (ops : List Op) (kind : Nat) :
    dispatchTunnel (run ops) kind = dispatchTunnel (run (ops.filter isTunnelOp)) kind := by
  rw [dispatchTunnel_spec, dispatchTunnel_spec]; unfold specTunnel; rw [lastTun_filter]

/-- … and chord dispatch ignores the tunnel table -/
theorem chord_ignores_tunnel (ops : List Op) (kind id : Nat) :
    dispatchChord (run ops) kind id = dispatchChord (run (ops.filter isChordOp)) kind id := by
  rw [dispatchChord_spec, dispatchChord_spec]; unfold specChord; rw [lastVirt_filter, lastPhys_filter]

/-! non-vacuity -/
def demo : List Op := [.handleChord 1 none 10, .handleChord 1 (some 7) 11, .handleTunnel 1 12,
  .handleChord 1 (some 7) 13, .handleChord 2 (some 7) 14]
example : dispatchChord (run demo) 1 7 = some 13 := by decide      -- virtual, last writer
example : dispatchChord (run demo) 1 8 = some 10 := by decide      -- fallback to physical
example : dispatchChord (run demo) 2 8 = none := by decide         -- per-kind map exists, no id, no physical
example : dispatchChord (run demo) 3 7 = none := by decide         -- nothing at all
example : dispatchTunnel (run demo) 1 = some 12 ∧ dispatchTunnel (run demo) 2 = none := by decide
example : lastVirt demo 1 8 = none ∧ lastPhys demo 1 = some 10 := by decide

/-! ### Concurrent registrations
A set of registrations issued concurrently takes effect as `register` in SOME order (each table update is one
atomic map operation, see Model).  When their table slots (`Op.key`) are pairwise distinct — different virtual
nodes attaching at the same time — the order is irrelevant and EVERY one of them is effective. -/

def Op.handler : Op → Nat
  | .handleChord _ _ h => h
  | .handleTunnel _ h => h

/-- most recent registration for a table slot -/
def lastKey : List Op → Key → Option Nat
  | [], _ => none
  | op :: rest, key =>
    match lastKey rest key with
    | some h => some h
    | none => if op.key = key then some op.handler else none

theorem lastVirt_eq_lastKey (ops : List Op) (k i : Nat) : lastVirt ops k i = lastKey ops (.virt k i) := by
  induction ops with
  | nil => rfl
  | cons op rest ih =>
    simp only [lastVirt, lastKey, ih]
    cases lastKey rest (.virt k i) with
    | some h => rfl
    | none =>
      cases op with
      | handleTunnel k' h => simp [Op.key]
      | handleChord k' t h => cases t <;> simp [Op.key, Op.handler]

theorem lastPhys_eq_lastKey (ops : List Op) (k : Nat) : lastPhys ops k = lastKey ops (.phys k) := by
  induction ops with
  | nil => rfl
  | cons op rest ih =>
    simp only [lastPhys, lastKey, ih]
    cases lastKey rest (.phys k) with
    | some h => rfl
    | none =>
      cases op with
      | handleTunnel k' h => simp [Op.key]
      | handleChord k' t h => cases t <;> simp [Op.key, Op.handler]

theorem lastTun_eq_lastKey (ops : List Op) (k : Nat) : lastTun ops k = lastKey ops (.tun k) := by
  induction ops with
  | nil => rfl
  | cons op rest ih =>
    simp only [lastTun, lastKey, ih]
    cases lastKey rest (.tun k) with
    | some h => rfl
    | none =>
      cases op with
      | handleTunnel k' h => simp [Op.key, Op.handler]
      | handleChord k' t h => cases t <;> simp [Op.key]

theorem lastKey_append (a b : List Op) (key : Key) :
    lastKey (a ++ b) key = (match lastKey b key with | some h => some h | none => lastKey a key) := by
  induction a with
  | nil => simp only [List.nil_append, lastKey]; cases lastKey b key <;> rfl
  | cons op rest ih =>
    simp only [List.cons_append, lastKey, ih]
    cases lastKey b key <;> rfl

theorem lastKey_some_mem (ops : List Op) (key : Key) (h : Nat) (hl : lastKey ops key = some h) :
    ∃ op, op ∈ ops ∧ op.key = key ∧ op.handler = h := by
  induction ops with
  | nil => simp [lastKey] at hl
  | cons op rest ih =>
    simp only [lastKey] at hl
    cases hr : lastKey rest key with
    | some h' =>
      rw [hr] at hl
      obtain ⟨o, hm, hk, hh⟩ := ih (by rw [hr]; exact hl)
      exact ⟨o, List.mem_cons_of_mem _ hm, hk, hh⟩
    | none =>
      rw [hr] at hl
      by_cases c : op.key = key
      · simp [c] at hl; exact ⟨op, List.mem_cons_self .., c, hl⟩
      · simp [c] at hl

theorem lastKey_isSome_of_mem (ops : List Op) (op : Op) (hm : op ∈ ops) : ∃ h, lastKey ops op.key = some h := by
  induction ops with
  | nil => simp at hm
  | cons o rest ih =>
    simp only [lastKey]
    cases hr : lastKey rest op.key with
    | some h' => exact ⟨h', rfl⟩
    | none =>
      rcases List.mem_cons.mp hm with e | hm'
      · subst e; exact ⟨op.handler, by simp⟩
      · obtain ⟨h', e⟩ := ih hm'; rw [hr] at e; cases e

/-- slots are written at most once in the list -/
def KeyInj (ops : List Op) : Prop := ∀ o, o ∈ ops → ∀ o', o' ∈ ops → o.key = o'.key → o = o'

theorem distinctKeys_inj (ops : List Op) (hd : distinctKeys ops = true) : KeyInj ops := by
  induction ops with
  | nil => intro o ho; simp at ho
  | cons op rest ih =>
    simp only [distinctKeys, Bool.and_eq_true, List.all_eq_true, decide_eq_true_eq] at hd
    obtain ⟨hne, hr⟩ := hd
    intro o ho o' ho' hk
    rcases List.mem_cons.mp ho with e | hm <;> rcases List.mem_cons.mp ho' with e' | hm'
    · rw [e, e']
    · subst e; exact absurd hk.symm (hne o' hm')
    · subst e'; exact absurd hk (hne o hm)
    · exact ih hr o hm o' hm' hk

theorem lastKey_of_inj (ops : List Op) (hi : KeyInj ops) (op : Op) (hm : op ∈ ops) :
    lastKey ops op.key = some op.handler := by
  obtain ⟨h, hl⟩ := lastKey_isSome_of_mem ops op hm
  obtain ⟨o, hom, hk, hh⟩ := lastKey_some_mem ops op.key h hl
  have := hi o hom op hm hk
  subst this; rw [hl, hh]

theorem lastKey_perm (a b : List Op) (hp : List.Perm a b) (hi : KeyInj b) (key : Key) :
    lastKey a key = lastKey b key := by
  have hia : KeyInj a := fun o ho o' ho' hk => hi o (hp.mem_iff.mp ho) o' (hp.mem_iff.mp ho') hk
  apply Option.ext; intro h
  constructor
  · intro hl
    obtain ⟨o, hom, hk, hh⟩ := lastKey_some_mem a key h hl
    rw [← hk, ← hh]; exact lastKey_of_inj b hi o (hp.mem_iff.mp hom)
  · intro hl
    obtain ⟨o, hom, hk, hh⟩ := lastKey_some_mem b key h hl
    rw [← hk, ← hh]; exact lastKey_of_inj a hia o (hp.mem_iff.mpr hom)

theorem dispatchChord_lastKey (ops : List Op) (kind id : Nat) :
    dispatchChord (run ops) kind id =
      (match lastKey ops (.virt kind id) with | some h => some h | none => lastKey ops (.phys kind)) := by
  rw [dispatchChord_spec]; unfold specChord; rw [lastVirt_eq_lastKey, lastPhys_eq_lastKey]
  cases lastKey ops (.virt kind id) <;> rfl

theorem dispatchTunnel_lastKey (ops : List Op) (kind : Nat) :
    dispatchTunnel (run ops) kind = lastKey ops (.tun kind) := by
  rw [dispatchTunnel_spec]; unfold specTunnel; rw [lastTun_eq_lastKey]

/-- **C42, concurrent registration — the order of taking effect is irrelevant**: after earlier registrations
`pre`, a batch of concurrent registrations writing pairwise distinct table slots, and later registrations `post`,
every incoming stream is dispatched the same way whichever order `batch'` the batch took effect in. -/
theorem concurrent_order_irrelevant (pre batch batch' post : List Op)
    (hd : distinctKeys batch = true) (hp : List.Perm batch' batch) :
    (∀ kind id, dispatchChord (run (pre ++ batch' ++ post)) kind id
              = dispatchChord (run (pre ++ batch ++ post)) kind id) ∧
    (∀ kind, dispatchTunnel (run (pre ++ batch' ++ post)) kind
           = dispatchTunnel (run (pre ++ batch ++ post)) kind) := by
  have hi := distinctKeys_inj batch hd
  have key : ∀ k, lastKey (pre ++ batch' ++ post) k = lastKey (pre ++ batch ++ post) k := by
    intro k; simp only [lastKey_append, lastKey_perm batch' batch hp hi k]
  constructor
  · intro kind id; simp only [dispatchChord_lastKey, key]
  · intro kind; simp only [dispatchTunnel_lastKey, key]

/-- **C42, concurrent registration — every registration is effective**: the handler a virtual node registered
concurrently with other nodes' registrations (distinct slots) gets the streams for its (type, target) … -/
theorem concurrent_virtual_effective (pre batch batch' : List Op) (kind id h : Nat)
    (hd : distinctKeys batch = true) (hp : List.Perm batch' batch)
    (hm : Op.handleChord kind (some id) h ∈ batch) :
    dispatchChord (run (pre ++ batch')) kind id = some h := by
  have hi := distinctKeys_inj batch hd
  have := lastKey_of_inj batch hi _ hm
  rw [dispatchChord_lastKey, lastKey_append, lastKey_perm batch' batch hp hi]
  simp only [Op.key, Op.handler] at this
  rw [this]

/-- … a concurrently registered node-wide handler gets the streams of its type whose target has no handler … -/
theorem concurrent_physical_effective (pre batch batch' : List Op) (kind id h : Nat)
    (hd : distinctKeys batch = true) (hp : List.Perm batch' batch)
    (hm : Op.handleChord kind none h ∈ batch) (hv : lastVirt (pre ++ batch') kind id = none) :
    dispatchChord (run (pre ++ batch')) kind id = some h := by
  have hi := distinctKeys_inj batch hd
  have := lastKey_of_inj batch hi _ hm
  rw [falls_back_to_physical _ _ _ hv, lastPhys_eq_lastKey, lastKey_append, lastKey_perm batch' batch hp hi]
  simp only [Op.key, Op.handler] at this
  rw [this]

/-- … and a concurrently registered client-stream handler gets the client streams of its type. -/
theorem concurrent_tunnel_effective (pre batch batch' : List Op) (kind h : Nat)
    (hd : distinctKeys batch = true) (hp : List.Perm batch' batch)
    (hm : Op.handleTunnel kind h ∈ batch) :
    dispatchTunnel (run (pre ++ batch')) kind = some h := by
  have hi := distinctKeys_inj batch hd
  have := lastKey_of_inj batch hi _ hm
  rw [dispatchTunnel_lastKey, lastKey_append, lastKey_perm batch' batch hp hi]
  simp only [Op.key, Op.handler] at this
  rw [this]

/-! non-vacuity: eight virtual nodes + a node-wide and a client handler attach concurrently -/
def demoBatch : List Op := [.handleChord 1 (some 1000) 1, .handleChord 1 (some 1001) 2, .handleChord 2 (some 1000) 3,
  .handleChord 1 none 4, .handleTunnel 1 5]
example : distinctKeys demoBatch = true := by decide
example : distinctKeys (demoBatch ++ [.handleChord 1 (some 1001) 9]) = false := by decide
example : dispatchChord (run (demo ++ demoBatch.reverse)) 1 1001 = some 2
    ∧ dispatchChord (run (demo ++ demoBatch.reverse)) 1 5 = some 4
    ∧ dispatchTunnel (run (demo ++ demoBatch.reverse)) 1 = some 5 := by decide

end Specter.C42
