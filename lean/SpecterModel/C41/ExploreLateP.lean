import SpecterModel.C41.Model
/-!
# C41 — exhaustive exploration: two simultaneous dials and a stale reap at P (kernel-evaluated)

Every interleaving of the four negotiation ends, the reaps that become due and ONE stale `reapPeer` at P (a
second reap of an older, long dead connection) at any point, from every consistent pre-existing cache state.
-/
namespace Specter.C41
open Gen.C41

set_option maxRecDepth 100000 in
theorem explore_dual_lateP : ∀ pre ∈ preStates,
    explore genTable (goodFor pre) 18 (init true pre (true, false)) = true := by
  decide +kernel

end Specter.C41
