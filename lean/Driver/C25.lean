import SpecterModel.C25.Drv

def main : IO Unit := Specter.C25.main
