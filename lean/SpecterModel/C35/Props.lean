import SpecterModel.C35.Model
/-!
# C35 — Forwarded HTTP requests carry only gateway-asserted client headers

All theorems quantify over EVERY outbound header map `out` that `httputil.ReverseProxy` may hand to
`proxyRewrite` (so they do not depend on the library having stripped anything), every inbound request
(`Req`), gateway port and `Hostname()` function. The operation list is the generated one.
-/
namespace Specter.C35
open Gen.C35

theorem foldl_del (ks : List String) (h : Hdr) (x : String) :
    (ks.foldl Hdr.del h) x = if x ∈ ks then [] else h x := by
  induction ks generalizing h with
  | nil => simp
  | cons k t ih =>
    simp only [List.foldl_cons, ih, List.mem_cons, Hdr.del]
    by_cases a : x = k <;> by_cases b : x ∈ t <;> simp [a, b]

/-- unfold the generated operation list and decide header-name (string literal) equalities -/
macro "hdr_simp" : tactic => `(tactic|
  simp [rewriteWith, rewriteOps, delHeaders, applyOp, setXForwarded, foldl_del, Hdr.set, Hdr.del, wantHost, withPort,
        XFF, XFH, XFP, TCI, XRI, *])

/-! ## Which host is "requested" — the generated selection chain against the property statement -/

/-- The generated chain never dereferences a nil `in.TLS`, and it selects exactly the REQUESTED host of the
property statement (`requestedHost`): `:authority`/Host for HTTP/2 and HTTP/3 — whatever the SNI of the (possibly
coalesced) connection —, the SNI for HTTP/1.x over TLS, Host for plain HTTP/1.x; always through `.Hostname()`. -/
theorem requested_host_rule (e : Env) (i : Req) :
    urlHost? e i = some (e.hostnameOf (requestedHost i)) := by
  have hp : (2 < i.protoMajor ∨ i.protoMajor = 2) ↔ 2 ≤ i.protoMajor := by omega
  unfold urlHost? requestedHost
  by_cases h : 2 ≤ i.protoMajor <;> cases ht : i.tls <;>
    simp [hostRule, hostDefault, selHost, HostCond.holds, HostSrc.read, hp, h, ht]

/-- `proxyRewrite` never panics, and its result is the header operations run with the requested host. -/
theorem rewrite_eq (e : Env) (i : Req) (out : Hdr) :
    rewrite e i out = some (rewriteWith e.port (e.hostnameOf (requestedHost i)) i out) := by
  simp [rewrite, requested_host_rule]

theorem rewrite_never_panics (e : Env) (i : Req) (out : Hdr) : (rewrite e i out).isSome := by
  simp [rewrite_eq]

/-- on HTTP/2 and HTTP/3 the selected host is the request's own authority: the SNI has no influence -/
theorem url_host_is_authority_on_h2_h3 (e : Env) (i : Req) (h2 : 2 ≤ i.protoMajor) :
    urlHost? e i = some (e.hostnameOf i.host) := by
  simp [requested_host_rule, requestedHost, h2]

/-! ## The forwarded headers -/

/-- X-Forwarded-For is exactly the connecting peer's IP: no client-supplied element is kept. -/
theorem xff_peer_only (e : Env) (i : Req) (out h : Hdr) (ip : String) (hp : i.peer = some ip)
    (hr : rewrite e i out = some h) : h XFF = [ip] := by
  rw [rewrite_eq] at hr; cases hr
  hdr_simp

/-- No peer address (unparsable RemoteAddr): the header is absent rather than client-controlled. -/
theorem xff_absent_without_peer (e : Env) (i : Req) (out h : Hdr) (hp : i.peer = none)
    (hr : rewrite e i out = some h) : h XFF = [] := by
  rw [rewrite_eq] at hr; cases hr
  hdr_simp

theorem xfproto_https (e : Env) (i : Req) (out h : Hdr) (hr : rewrite e i out = some h) : h XFP = ["https"] := by
  rw [rewrite_eq] at hr; cases hr
  hdr_simp

/-- X-Forwarded-Host = requested host name, with the gateway port unless it is 443. -/
theorem xfhost_requested (e : Env) (i : Req) (out h : Hdr) (hr : rewrite e i out = some h) :
    h XFH = [wantHost e i] := by
  rw [rewrite_eq] at hr; cases hr
  hdr_simp

/-- HTTP/2 and HTTP/3 (connection coalescing): X-Forwarded-Host names the request's own authority (+port),
for every TLS state / SNI of the connection the request arrived on. -/
theorem xfhost_is_authority_on_h2_h3 (e : Env) (i : Req) (out h : Hdr) (h2 : 2 ≤ i.protoMajor)
    (hr : rewrite e i out = some h) : h XFH = [withPort e.port (e.hostnameOf i.host)] := by
  rw [xfhost_requested e i out h hr]; simp [wantHost, requestedHost, h2]

/-- … hence two HTTP/2+ requests for the same authority get the same X-Forwarded-Host whatever connection
(SNI, TLS or not, minor version, peer) and whatever client headers they came with. -/
theorem xfhost_independent_of_sni_on_h2_h3 (e : Env) (i₁ i₂ : Req) (out₁ out₂ h₁ h₂ : Hdr)
    (p₁ : 2 ≤ i₁.protoMajor) (p₂ : 2 ≤ i₂.protoMajor) (hh : i₁.host = i₂.host)
    (r₁ : rewrite e i₁ out₁ = some h₁) (r₂ : rewrite e i₂ out₂ = some h₂) : h₁ XFH = h₂ XFH := by
  rw [xfhost_is_authority_on_h2_h3 e i₁ out₁ h₁ p₁ r₁, xfhost_is_authority_on_h2_h3 e i₂ out₂ h₂ p₂ r₂, hh]

/-- HTTP/1.x over TLS: the connection's SNI (+port) is forwarded, not the client's Host header. -/
theorem xfhost_is_sni_on_http1_tls (e : Env) (i : Req) (out h : Hdr) (sni : String) (h1 : i.protoMajor < 2)
    (ht : i.tls = some sni) (hr : rewrite e i out = some h) : h XFH = [withPort e.port (e.hostnameOf sni)] := by
  rw [xfhost_requested e i out h hr]
  have : ¬ 2 ≤ i.protoMajor := by omega
  simp [wantHost, requestedHost, this, ht]

theorem client_ip_headers_removed (e : Env) (i : Req) (out h : Hdr) (hr : rewrite e i out = some h) :
    h TCI = [] ∧ h XRI = [] := by
  rw [rewrite_eq] at hr; cases hr
  constructor <;> cases hp : i.peer <;> hdr_simp

def guarded : List String := [XFF, XFH, XFP, TCI, XRI]

/-- Non-interference: the five guarded headers of the forwarded request do not depend on ANY header the
client sent (nor on what the library left in place): two arbitrary outbound maps give the same values. -/
theorem guarded_independent_of_client_headers (e : Env) (i : Req) (out₁ out₂ h₁ h₂ : Hdr) (k : String)
    (hk : k ∈ guarded) (r₁ : rewrite e i out₁ = some h₁) (r₂ : rewrite e i out₂ = some h₂) : h₁ k = h₂ k := by
  have t1 := client_ip_headers_removed e i out₁ h₁ r₁
  have t2 := client_ip_headers_removed e i out₂ h₂ r₂
  simp only [guarded, List.mem_cons, List.mem_nil_iff, or_false] at hk
  rcases hk with rfl | rfl | rfl | rfl | rfl
  · cases hp : i.peer with
    | none => rw [xff_absent_without_peer e i out₁ h₁ hp r₁, xff_absent_without_peer e i out₂ h₂ hp r₂]
    | some ip => rw [xff_peer_only e i out₁ h₁ ip hp r₁, xff_peer_only e i out₂ h₂ ip hp r₂]
  · rw [xfhost_requested e i out₁ h₁ r₁, xfhost_requested e i out₂ h₂ r₂]
  · rw [xfproto_https e i out₁ h₁ r₁, xfproto_https e i out₂ h₂ r₂]
  · rw [t1.1, t2.1]
  · rw [t1.2, t2.2]

/-- Frame: every other header is passed through untouched by `proxyRewrite` (this is why e.g. a client
`X-Forwarded-Port` reaches the tunnel: recorded by the harness as an observation). -/
theorem other_headers_untouched (e : Env) (i : Req) (out h : Hdr) (k : String) (hk : k ∉ guarded)
    (hr : rewrite e i out = some h) : h k = out k := by
  rw [rewrite_eq] at hr; cases hr
  simp only [guarded, List.mem_cons, List.mem_nil_iff, or_false, not_or, XFF, XFH, XFP, TCI, XRI] at hk
  obtain ⟨h1, h2, h3, h4, h5⟩ := hk
  cases hp : i.peer <;> hdr_simp

/-! ## Non-vacuity: a spoofing request over HTTP/1.1+TLS on port 8443, and the same request arriving over
HTTP/2 / HTTP/3 on a coalesced connection (SNI `app.example.com`, authority `other.example.com`) -/
private def spoof : Hdr := Hdr.ofList [(XFF, ["6.6.6.6", "10.0.0.1"]), (XFH, ["evil.example"]), (XFP, ["http"]),
  (TCI, ["6.6.6.6"]), (XRI, ["6.6.6.6"]), ("X-Forwarded-Port", ["1"])]
private def env1 : Env := ⟨8443, id⟩
private def req1 : Req := ⟨1, 1, some "app.example.com", "other.example.com", some "198.51.100.7"⟩
private def req3 : Req := { req1 with protoMajor := 3, protoMinor := 0 }
private def get (r : Option Hdr) (k : String) : Option (List String) := r.map (· k)

example : get (rewrite env1 req1 spoof) XFF = some ["198.51.100.7"] := by decide
example : get (rewrite env1 req1 spoof) XFH = some ["app.example.com:8443"] := by decide
example : get (rewrite ⟨443, id⟩ { req1 with protoMajor := 2, protoMinor := 0 } spoof) XFH = some ["other.example.com"] := by decide
example : get (rewrite env1 req3 spoof) XFH = some ["other.example.com:8443"] := by decide
example : get (rewrite env1 { req3 with tls := some "third.example.com" } spoof) XFH = some ["other.example.com:8443"] := by decide
example : 2 ≤ req3.protoMajor ∧ req3.tls ≠ some req3.host ∧ (rewrite env1 req3 spoof).isSome := by decide
example : req1.protoMajor < 2 ∧ req1.tls = some "app.example.com" := by decide
example : get (rewrite env1 req1 spoof) XFP = some ["https"] ∧ get (rewrite env1 req1 spoof) TCI = some [] ∧
    get (rewrite env1 req1 spoof) XRI = some [] := by decide
example : spoof XFF = ["6.6.6.6", "10.0.0.1"] ∧ spoof TCI = ["6.6.6.6"] := by decide
example : get (rewrite env1 req1 spoof) "X-Forwarded-Port" = some ["1"] := by decide

end Specter.C35
