// Package aofh: shared plumbing of the C20/C21/C22 harnesses — runs the REAL kv/aof store
// (aof.New / Start / Put / … / Stop) on generated mutation histories and renders canonical state text.
package aofh

import (
	"bytes"
	"context"
	"encoding/binary"
	"errors"
	"fmt"
	"os"
	"path/filepath"
	"runtime"
	"sort"
	"strconv"
	"strings"
	"syscall"
	"time"

	"go.miragespace.co/specter/kv/aof"
	"go.miragespace.co/specter/spec/chord"
	"go.miragespace.co/specter/spec/protocol"
	"go.uber.org/zap"
	"verif/harness/hlib"
)

var ctx = context.Background()

var failedOpens int

func init() {
	var lim syscall.Rlimit
	if syscall.Getrlimit(syscall.RLIMIT_NOFILE, &lim) == nil {
		lim.Cur = lim.Max
		syscall.Setrlimit(syscall.RLIMIT_NOFILE, &lim)
	}
}

// ---------- tokens ----------

const bigMin = 1024

// BigValue is a deterministic large value identified by (n, seed); rendered as `big:n:seed`.
func BigValue(n int, seed uint64) []byte {
	b := make([]byte, n)
	copy(b, "BIGV")
	binary.LittleEndian.PutUint64(b[4:], seed)
	rng := hlib.NewRng(seed ^ 0xB16)
	for i := 12; i < n; i += 8 {
		x := rng.U64()
		for j := 0; j < 8 && i+j < n; j++ {
			b[i+j] = byte(x >> (8 * j))
		}
	}
	return b
}

func Tok(b []byte) string {
	if len(b) >= bigMin && bytes.HasPrefix(b, []byte("BIGV")) {
		seed := binary.LittleEndian.Uint64(b[4:])
		if bytes.Equal(b, BigValue(len(b), seed)) {
			return fmt.Sprintf("big:%d:%d", len(b), seed)
		}
	}
	return hlib.Hex(b)
}

func UnTok(s string) []byte {
	if strings.HasPrefix(s, "big:") {
		p := strings.Split(s, ":")
		n, _ := strconv.Atoi(p[1])
		seed, _ := strconv.ParseUint(p[2], 10, 64)
		return BigValue(n, seed)
	}
	return hlib.UnHex(s)
}

func ListTok(xs [][]byte) string {
	if len(xs) == 0 {
		return "_"
	}
	ts := make([]string, len(xs))
	for i, x := range xs {
		ts[i] = Tok(x)
	}
	return strings.Join(ts, ",")
}

func UnListTok(s string) [][]byte {
	if s == "_" {
		return nil
	}
	var res [][]byte
	for _, t := range strings.Split(s, ",") {
		res = append(res, UnTok(t))
	}
	return res
}

// Transfer is our own copy of a KVTransfer (the store resets the caller's messages after Import).
type Transfer struct {
	Value    []byte
	Children [][]byte
	Lease    uint64
}

// LiveMin: lease tokens are wall-clock deadlines in nanoseconds; anything at or above this value is a
// deadline in the future ("live", rendered `L`: its exact value is not reproducible), anything below is a
// stale token (imports carry small numbers).
const LiveMin = uint64(1_000_000_000_000_000)

func LeaseTok(l uint64) string {
	if l >= LiveMin {
		return "L"
	}
	return strconv.FormatUint(l, 10)
}

// LiveLease is a fresh live token (one hour ahead: it outlives every run).
func LiveLease() uint64 { return uint64(time.Now().Add(time.Hour).UnixNano()) }

func UnLeaseTok(s string) uint64 {
	if s == "L" {
		return LiveLease()
	}
	l, _ := strconv.ParseUint(s, 10, 64)
	return l
}

func transfersTok(ts []Transfer) string {
	if len(ts) == 0 {
		return "_"
	}
	p := make([]string, len(ts))
	for i, t := range ts {
		p[i] = Tok(t.Value) + "/" + ListTok(t.Children) + "/" + LeaseTok(t.Lease)
	}
	return strings.Join(p, "|")
}

func unTransfersTok(s string) []Transfer {
	if s == "_" {
		return nil
	}
	var res []Transfer
	for _, t := range strings.Split(s, "|") {
		p := strings.Split(t, "/")
		l := UnLeaseTok(p[2])
		res = append(res, Transfer{Value: UnTok(p[0]), Children: UnListTok(p[1]), Lease: l})
	}
	return res
}

// ---------- operations ----------

type Op struct {
	Kind string // put del app rem imp rmk
	Key  []byte
	Val  []byte
	Keys [][]byte
	Vals []Transfer
}

func (o Op) Line() string {
	switch o.Kind {
	case "put", "app", "rem":
		return o.Kind + " " + Tok(o.Key) + " " + Tok(o.Val)
	case "del":
		return "del " + Tok(o.Key)
	case "imp":
		return "imp " + ListTok(o.Keys) + " " + transfersTok(o.Vals)
	case "rmk":
		return "rmk " + ListTok(o.Keys)
	}
	panic("bad op kind " + o.Kind)
}

func ParseOp(t []string) (Op, bool) {
	switch {
	case len(t) == 3 && (t[0] == "put" || t[0] == "app" || t[0] == "rem"):
		return Op{Kind: t[0], Key: UnTok(t[1]), Val: UnTok(t[2])}, true
	case len(t) == 2 && t[0] == "del":
		return Op{Kind: "del", Key: UnTok(t[1])}, true
	case len(t) == 3 && t[0] == "imp":
		return Op{Kind: "imp", Keys: UnListTok(t[1]), Vals: unTransfersTok(t[2])}, true
	case len(t) == 2 && t[0] == "rmk":
		return Op{Kind: "rmk", Keys: UnListTok(t[1])}, true
	}
	return Op{}, false
}

// KeysOf returns every key the op touches.
func (o Op) KeysOf() [][]byte {
	if o.Kind == "imp" || o.Kind == "rmk" {
		return o.Keys
	}
	return [][]byte{o.Key}
}

// Universe: sorted distinct keys (by token) of a history.
func Universe(ops []Op) [][]byte {
	set := map[string][]byte{}
	for _, o := range ops {
		for _, k := range o.KeysOf() {
			set[Tok(k)] = k
		}
	}
	toks := make([]string, 0, len(set))
	for t := range set {
		toks = append(toks, t)
	}
	sort.Strings(toks)
	res := make([][]byte, len(toks))
	for i, t := range toks {
		res[i] = set[t]
	}
	return res
}

// ---------- the real store ----------

func Open(dir string) (*aof.DiskKV, error) {
	kv, err := aof.New(aof.Config{
		Logger:        zap.NewNop(),
		HasnFn:        chord.Hash,
		DataDir:       dir,
		FlushInterval: time.Hour,
	})
	if err != nil {
		return nil, err
	}
	go kv.Start()
	return kv, nil
}

func errTok(err error) string {
	switch {
	case err == nil:
		return "ok"
	case errors.Is(err, chord.ErrKVPrefixConflict):
		return "conflict"
	case errors.Is(err, chord.ErrKVSimpleConflict):
		return "simple-conflict"
	case errors.Is(err, os.ErrClosed):
		return "closed"
	case errors.Is(err, os.ErrInvalid):
		return "log-error"
	}
	return "err"
}

// Exec applies one op through the store's public API and returns the result token.
func Exec(kv *aof.DiskKV, o Op) string {
	cp := func(b []byte) []byte { return append([]byte(nil), b...) }
	switch o.Kind {
	case "put":
		return errTok(kv.Put(ctx, cp(o.Key), cp(o.Val)))
	case "del":
		return errTok(kv.Delete(ctx, cp(o.Key)))
	case "app":
		return errTok(kv.PrefixAppend(ctx, cp(o.Key), cp(o.Val)))
	case "rem":
		return errTok(kv.PrefixRemove(ctx, cp(o.Key), cp(o.Val)))
	case "imp":
		keys := make([][]byte, len(o.Keys))
		for i, k := range o.Keys {
			keys[i] = cp(k)
		}
		vals := make([]*protocol.KVTransfer, len(o.Vals))
		for i, t := range o.Vals {
			cs := make([][]byte, len(t.Children))
			for j, c := range t.Children {
				cs[j] = cp(c)
			}
			vals[i] = &protocol.KVTransfer{SimpleValue: cp(t.Value), PrefixChildren: cs, LeaseToken: t.Lease}
		}
		return errTok(kv.Import(ctx, keys, vals))
	case "rmk":
		keys := make([][]byte, len(o.Keys))
		for i, k := range o.Keys {
			keys[i] = cp(k)
		}
		return errTok(kv.RemoveKeys(ctx, keys))
	}
	panic("bad op")
}

// Snapshot renders simple value, prefix children (sorted) and lease token of every listed key.
func Snapshot(kv *aof.DiskKV, keys [][]byte) string {
	var parts []string
	for _, k := range keys {
		v, _ := kv.Get(ctx, k)
		cs, _ := kv.PrefixList(ctx, k)
		ex, _ := kv.Export(ctx, [][]byte{k})
		lease := uint64(0)
		if len(ex) == 1 {
			lease = ex[0].GetLeaseToken()
		}
		if len(v) == 0 && len(cs) == 0 && lease == 0 {
			continue
		}
		ct := make([]string, len(cs))
		for i, c := range cs {
			ct[i] = Tok(c)
		}
		sort.Strings(ct)
		cj := "_"
		if len(ct) > 0 {
			cj = strings.Join(ct, ",")
		}
		parts = append(parts, Tok(k)+"="+Tok(v)+"/"+cj+"/"+LeaseTok(lease))
	}
	if len(parts) == 0 {
		return "-"
	}
	return strings.Join(parts, ";")
}

// Recover opens a directory with the real aof.New and renders its state, or "error".
// A panic during replay is reported as "panic".
func Recover(dir string, keys [][]byte) (res string) {
	defer func() {
		if p := recover(); p != nil {
			res = "panic"
		}
	}()
	kv, err := Open(dir)
	if err != nil {
		// aof.New does not close the WAL it opened when replay fails: the descriptor is released only
		// by the os.File finalizer. Collect regularly so that thousands of failing images do not
		// exhaust the descriptor table of the harness process.
		failedOpens++
		if failedOpens%100 == 0 {
			for i := 0; i < 400; i++ {
				runtime.GC()
				if es, err := os.ReadDir("/proc/self/fd"); err != nil || len(es) < 300 {
					break
				}
				time.Sleep(5 * time.Millisecond)
			}
		}
		return "error"
	}
	res = Snapshot(kv, keys)
	kv.Stop()
	return res
}

func Segments(dir string) int {
	es, _ := os.ReadDir(filepath.Join(dir, aof.LogDir))
	return len(es)
}

// ---------- generator ----------

var keyAlphabet = [][]byte{[]byte("a"), []byte("ab"), []byte("b"), []byte("k/1"), {0x00, 0xff}, {}}
var childAlphabet = [][]byte{[]byte("c1"), []byte("c2"), []byte("c3"), {}}

type GenCfg struct {
	N        int  // number of mutations
	Big      bool // include large values (segment cycling)
	EmptyKey bool
}

func genVal(rng *hlib.Rng, cfg GenCfg) []byte {
	if cfg.Big && rng.Chance(50) {
		return BigValue(300_000+rng.Intn(500_000), rng.U64()%1_000_000)
	}
	switch rng.Intn(8) {
	case 0:
		return nil
	case 1:
		return []byte("v")
	case 2:
		return []byte("vv")
	case 3:
		return rng.Bytes(1 + rng.Intn(20))
	default:
		return []byte(fmt.Sprintf("v%d", rng.Intn(4)))
	}
}

func genKey(rng *hlib.Rng, cfg GenCfg) []byte {
	n := len(keyAlphabet)
	if !cfg.EmptyKey {
		n--
	}
	return keyAlphabet[rng.Intn(n)]
}

// Gen produces a history: puts, deletes, prefix appends (few children: conflicts are frequent),
// prefix removes, imports with overlapping / duplicate keys, key removals.
func Gen(rng *hlib.Rng, cfg GenCfg) []Op {
	ops := make([]Op, 0, cfg.N)
	for len(ops) < cfg.N {
		switch x := rng.Intn(100); {
		case x < 22:
			ops = append(ops, Op{Kind: "put", Key: genKey(rng, cfg), Val: genVal(rng, cfg)})
		case x < 30:
			ops = append(ops, Op{Kind: "del", Key: genKey(rng, cfg)})
		case x < 58:
			ops = append(ops, Op{Kind: "app", Key: genKey(rng, cfg), Val: hlib.Pick(rng, childAlphabet)})
		case x < 68:
			ops = append(ops, Op{Kind: "rem", Key: genKey(rng, cfg), Val: hlib.Pick(rng, childAlphabet)})
		case x < 88:
			n := rng.Intn(4)
			o := Op{Kind: "imp"}
			for i := 0; i < n; i++ {
				o.Keys = append(o.Keys, genKey(rng, cfg))
			}
			nv := n
			if rng.Chance(15) {
				nv += 1 + rng.Intn(2) // more transfers than keys: the extra ones are ignored
			}
			for i := 0; i < nv; i++ {
				t := Transfer{}
				if rng.Chance(70) {
					t.Value = genVal(rng, GenCfg{})
				}
				for j := rng.Intn(4); j > 0; j-- {
					t.Children = append(t.Children, hlib.Pick(rng, childAlphabet))
				}
				if rng.Chance(25) {
					t.Lease = uint64(1 + rng.Intn(5))
				}
				o.Vals = append(o.Vals, t)
			}
			ops = append(ops, o)
		default:
			n := rng.Intn(3)
			o := Op{Kind: "rmk"}
			for i := 0; i < n; i++ {
				o.Keys = append(o.Keys, genKey(rng, cfg))
			}
			ops = append(ops, o)
		}
	}
	return ops
}

func TempDir(tag string) string {
	base := os.Getenv("VERIF_SCRATCH")
	if base == "" {
		base = os.TempDir()
	}
	d, err := os.MkdirTemp(base, tag)
	if err != nil {
		panic(err)
	}
	return d
}
