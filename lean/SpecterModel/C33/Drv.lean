import SpecterModel.Util
import SpecterModel.C33.Model
/-! C33 line-protocol driver.  See harness/cmd/c33/main.go for the op lines.  Strings travel as comma-separated
decimal code points ("-" = empty string). -/
namespace Specter.C33
open Specter.Util

def parseRunes (s : String) : Option Runes :=
  if s = "-" then some [] else (s.splitOn ",").mapM String.toNat?

def showRunes (r : Runes) : String :=
  if r.isEmpty then "-" else ",".intercalate (r.map toString)

def kv (key : String) (tok : String) : Option String :=
  if tok.startsWith (key ++ "=") then some ((tok.drop (key.length + 1)).toString) else none

def NErr.tok : NErr → String
  | .ip => "ip" | .qualify => "qualify" | .wildcard => "wildcard" | .idna => "idna" | .emptyLabel => "emptylabel" | .chars => "chars"

def step (_ : Unit) (toks : List String) (rhs : String) : Unit × Verdict :=
  match toks with
  | ["rs", z] =>
    match parseRunes z with
    | some z => let m := showRunes (removeSpace z); if m ≠ rhs then ((), .diff m) else ((), .ok)
    | none => ((), .bad "rs args")
  | ["norm", z, trimmed, ip, q, ascii, catIP, catWild, catLocal, fix] =>
    match parseRunes z, parseRunes trimmed, (kv "isip" ip).bind parseBool, (kv "q" q).bind parseBool, kv "ascii" ascii,
          (kv "ip" catIP).bind parseBool, (kv "wild" catWild).bind parseBool, (kv "local" catLocal).bind parseBool,
          (kv "fix" fix).bind parseBool with
    | some z, some trimmed, some ip, some q, some ascii, some catIP, some catWild, some catLocal, some fix =>
      match (if ascii = "none" then some none else (parseRunes ascii).map some) with
      | none => ((), .bad "norm ascii")
      | some ascii =>
        let m : String := match normalize (fun t => t == trimmed && ip) (fun t => t == trimmed && q)
            (fun t => if t = trimmed then ascii else none) z with
          | .ok s => "ok:" ++ showRunes s
          | .error e => "err:" ++ e.tok
        let implOk : Option Runes := if rhs.startsWith "ok:" then parseRunes (rhs.drop 3).toString else none
        match implOk with
        | some s =>
          if ¬ s.all isLDH then ((), .spec "accepted name contains a character outside a-z 0-9 - .")
          else if emptyLabel s then ((), .spec "accepted name has an empty label (leading/trailing/double dot): not a DNS name")
          else if catIP then ((), .spec "ip address accepted")
          else if catWild then ((), .spec "wildcard accepted")
          else if catLocal then ((), .spec "local name accepted")
          else if fix ∧ s ≠ z then ((), .spec "not idempotent: a normalized name normalizes to a different name")
          else if m ≠ rhs then ((), .diff m) else ((), .ok)
        | none =>
          if fix then ((), .spec s!"not idempotent: a normalized name is rejected ({rhs})")
          else if m ≠ rhs then ((), .diff m) else ((), .ok)
    | _, _, _, _, _, _, _, _, _ => ((), .bad "norm args")
  | ["rec", zone, deleg, _tok, sha, zfq, dfq] =>
    match parseRunes zone, parseRunes deleg, hexToBytes sha, parseBool zfq, parseBool dfq with
    | some zone, some deleg, some sha, some zfq, some dfq =>
      let r := customRecord (fun _ => sha) zone deleg [] zfq dfq
      let m := showRunes r.1 ++ "|" ++ showRunes r.2
      if m ≠ rhs then ((), .diff m) else ((), .ok)
    | _, _, _, _, _ => ((), .bad "rec args")
  | ["managed", zone, deleg, zfq, dfq] =>
    match parseRunes zone, parseRunes deleg, parseBool zfq, parseBool dfq with
    | some zone, some deleg, some zfq, some dfq =>
      let r := managedRecord zone deleg zfq dfq
      let m := showRunes r.1 ++ "|" ++ showRunes r.2
      if m ≠ rhs then ((), .diff m) else ((), .ok)
    | _, _, _, _ => ((), .bad "managed args")
  | ["pair", deleg, dfq, t1, s1, t2, s2] =>
    match parseRunes deleg, parseBool dfq, hexToBytes t1, hexToBytes s1, hexToBytes t2, hexToBytes s2 with
    | some deleg, some dfq, some t1, some s1, some t2, some s2 =>
      let sha : Bytes → Bytes := fun t => if t = t1 then s1 else s2
      let c1 := (customRecord sha [] deleg t1 true dfq).2
      let c2 := (customRecord sha [] deleg t2 true dfq).2
      let m := showRunes c1 ++ "|" ++ showRunes c2
      match rhs.splitOn "|" with
      | [a, b] =>
        if t1 ≠ t2 ∧ a = b then ((), .spec "distinct client tokens share one challenge record target")
        else if m ≠ rhs then ((), .diff m) else ((), .ok)
      | _ => ((), .bad "pair rhs")
    | _, _, _, _, _, _ => ((), .bad "pair args")
  | _ => ((), .bad "unknown op")

def main : IO Unit := runLoop () step

end Specter.C33
