import SpecterModel.C37.Model
/-!
# C37 — Internal admin endpoints always require the admin credentials

Theorems over `apex` for EVERY configuration and request (method, path, raw path, parsed credentials, proxy
headers), over the structure regenerated from gateway/apex.go on every run.
-/
namespace Specter.C37
open Gen.C37

theorem configured_iff (c : Cfg) : configured c = true ↔ (c.user ≠ "" ∧ c.pass ≠ "") := by
  simp [configured, guardFields, fieldOf]

/-- the chain: whatever follows, an outcome other than 401 needs the exact credentials -/
theorem chain_needs_auth (c : Cfg) (rq : Rq) (final : Out) (h : rq.auth ≠ some (c.user, c.pass)) :
    runChain c rq middlewares final = .unauthorized := by
  simp [middlewares, runChain, runMw, h]

/-- C37 main: an internal handler or the internal proxy (DialInternal) is reached ONLY with credentials
configured (both non-empty) and presented exactly — for every method, path and header combination. -/
theorem internal_requires_auth (c : Cfg) (rq : Rq) (h : (apex c rq).reachesInternal = true) :
    c.user ≠ "" ∧ c.pass ≠ "" ∧ rq.auth = some (c.user, c.pass) := by
  unfold apex at h
  split at h; · simp [Out.reachesInternal] at h
  simp only at h
  split at h; · simp [Out.reachesInternal] at h
  split at h; · simp [Out.reachesInternal] at h
  next hc =>
    have hc' : configured c = true := by simpa using hc
    rw [configured_iff] at hc'
    refine ⟨hc'.1, hc'.2, ?_⟩
    apply Classical.byContradiction; intro hn
    rw [chain_needs_auth c rq _ hn] at h
    simp [Out.reachesInternal] at h

/-- No credentials configured (empty user OR empty password): the prefix is not served at all. -/
theorem no_creds_not_served (c : Cfg) (rq : Rq) (hc : c.user = "" ∨ c.pass = "")
    (hp : under internalPrefix (routePath rq) = true) :
    apex c rq = .notMounted ∨ apex c rq = .methodNotAllowed := by
  have : configured c = false := by
    cases h : configured c with
    | false => rfl
    | true => rw [configured_iff] at h; rcases hc with hc | hc <;> simp [hc] at h
  unfold apex
  by_cases hm : rq.knownMethod = true
  · left; simp [hm, hp, this]
  · right; simp [hm]

/-- A request that asks to be proxied to another node is authenticated first. -/
theorem proxied_request_still_authenticated (c : Cfg) (rq : Rq) (t : String) (h : apex c rq = .proxied t) :
    rq.auth = some (c.user, c.pass) ∧ c.user ≠ "" ∧ c.pass ≠ "" ∧ t = rq.node ∧ rq.forwarded = false ∧ rq.node ≠ "" := by
  have hr : (apex c rq).reachesInternal = true := by rw [h]; rfl
  obtain ⟨h1, h2, h3⟩ := internal_requires_auth c rq hr
  refine ⟨h3, h1, h2, ?_⟩
  unfold apex at h
  split at h; · simp at h
  simp only at h
  split at h; · simp at h
  split at h; · simp at h
  simp only [middlewares, runChain, runMw, h3, if_true] at h
  split at h
  · next hh => split at hh
               · simp at hh
               · next hx => simp at hh; subst hh; simp at hx; simp at h; exact ⟨h.symm, hx.1, hx.2⟩
  · next hh =>
    split at hh
    · unfold subHandler at h; split at h <;> (try split at h) <;> simp at h
    · simp at hh

/-- Neither proxy header lets a request without the right credentials past the 401. -/
theorem forwarded_header_cannot_skip_auth (c : Cfg) (rq : Rq) (node : String) (fwd : Bool)
    (h : rq.auth ≠ some (c.user, c.pass)) :
    (apex c { rq with node := node, forwarded := fwd }).reachesInternal = false := by
  cases hr : (apex c { rq with node := node, forwarded := fwd }).reachesInternal with
  | false => rfl
  | true => exact absurd (internal_requires_auth c _ hr).2.2 h

/-- BasicAuth is installed before the internal proxy (obligation on the generated order). -/
theorem auth_precedes_proxy :
    middlewares.idxOf Mw.basicAuth < middlewares.idxOf Mw.internalProxy ∧ Mw.basicAuth ∈ middlewares := by decide

/-- Nothing outside the guarded subtree is registered under the internal prefix. -/
theorem root_patterns_outside_internal :
    ∀ p ∈ rootPatterns, internalPrefix.toList.isPrefixOf p.toList = false := by decide

/-- Liveness (the theorems above are not vacuous): with credentials configured and presented, a known method
under the prefix IS served, or proxied when a node address is given and the request was not already forwarded. -/
theorem authorized_is_served (c : Cfg) (rq : Rq) (hu : c.user ≠ "") (hp : c.pass ≠ "")
    (ha : rq.auth = some (c.user, c.pass)) (hm : rq.knownMethod = true)
    (hi : under internalPrefix (routePath rq) = true) :
    apex c rq = if rq.forwarded || rq.node = "" then subHandler c ((routePath rq).drop internalPrefix.toList.length)
                else .proxied rq.node := by
  have hc : configured c = true := (configured_iff c).2 ⟨hu, hp⟩
  unfold apex
  simp only [hm, hi, hc, Bool.not_true, Bool.false_eq_true, if_false, middlewares, runChain, runMw, ha, if_true]
  by_cases hx : (rq.forwarded || decide (rq.node = "")) = true <;> simp [hx]

/-! ## Non-vacuity -/
private def cfg1 : Cfg := ⟨"admin", "secret", true, true, false, false⟩
example : apex cfg1 ⟨true, "/_internal/acme/x", "", some ("admin", "secret"), "", false⟩ = .served "/acme" := by decide
example : apex cfg1 ⟨true, "/_internal/tun", "", some ("admin", "secret"), "", false⟩ = .served "catchall" := by decide
example : apex cfg1 ⟨true, "/_internal/acme", "", some ("admin", "secret"), "10.0.0.2:1", false⟩ = .proxied "10.0.0.2:1" := by decide
example : apex cfg1 ⟨true, "/_internal/acme", "", some ("admin", "Secret"), "10.0.0.2:1", false⟩ = .unauthorized := by decide
example : apex cfg1 ⟨true, "/_internal/acme", "", none, "10.0.0.2:1", true⟩ = .unauthorized := by decide
example : apex { cfg1 with pass := "" } ⟨true, "/_internal/acme", "", some ("admin", ""), "", false⟩ = .notMounted := by decide
example : apex cfg1 ⟨true, "/_internal/acme", "/_internal%2Facme", some ("admin", "secret"), "", false⟩ = .outside := by decide

end Specter.C37
