import SpecterModel.C12.Drv

def main : IO Unit := Specter.C12.main
