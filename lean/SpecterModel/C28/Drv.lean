import SpecterModel.Util
import SpecterModel.C28.Model
/-!
C28 line-protocol driver.
`load <selfAddrHex> <slot>… => <kind> <ttl ns> <cost> <slot indexes of the returned routes | ->`
slot token: `R:<addrHex>:<valueLen>` | `E` empty | `X` Get error | `U` undecodable | `N` Get returned fs.ErrNotExist.
State: largest TTL seen on a non-positive result / smallest TTL seen on a positive result (for the
"negative and failed results are cached shorter" clause, judged on the implementation's own outputs).
-/
namespace Specter.C28
open Specter.Util

structure St where
  maxNeg : Option Int := none
  minPos : Option Int := none

def parseSlot (idx : Nat) (tok : String) : Option Slot :=
  match tok.splitOn ":" with
  | ["E"] => some .empty
  | ["X"] => some .error
  | ["U"] => some .undecodable
  | ["N"] => some .errNotExist
  | ["R", a, l] =>
    match hexToAscii a, l.toNat? with
    | some a, some l => some (.route ⟨idx, a, l⟩)
    | _, _ => none
  | _ => none

def parseSlots : Nat → List String → Option (List Slot)
  | _, [] => some []
  | i, t :: ts => do
    let s ← parseSlot i t
    let r ← parseSlots (i + 1) ts
    pure (s :: r)

def parseIdx (s : String) : Option (List Nat) :=
  if s = "-" then some [] else (s.splitOn ",").mapM String.toNat?

def kindOf : Res → String
  | .notFound => "notfound"
  | .lookupFailed => "failed"
  | .routes _ => "routes"

def renderIdx (rs : List Nat) : String :=
  if rs.isEmpty then "-" else ",".intercalate (rs.map toString)

def render (l : Loaded) : String :=
  let rs := match l.res with | .routes rs => rs.map Route.slot | _ => []
  s!"{kindOf l.res} {l.ttl} {l.cost} {renderIdx rs}"

def insertSorted (x : Nat) : List Nat → List Nat
  | [] => [x]
  | y :: ys => if x ≤ y then x :: y :: ys else y :: insertSorted x ys
def sortNat (xs : List Nat) : List Nat := xs.foldr insertSorted []

/-- no route through the local node after a remote one -/
def localFirst : List Bool → Bool
  | [] => true
  | true :: rest => localFirst rest
  | false :: rest => rest.all (· == false)

/-- the property statement as an executable predicate (only inside the table: no `N` slot). -/
def specCheck (self : String) (slots : List Slot) (kind : String) (idx : List Nat) : Option String :=
  if slots.any (· == .errNotExist) then none else
  if slots.all (· == .empty) then
    (if kind = "notfound" then none else some "all slots empty: want notfound")
  else if slots.all (fun s => s == .error || s == .undecodable) then
    (if kind = "failed" then none else some "all slots errored: want failed")
  else
    let dec := slots.filterMap Slot.route?
    if kind ≠ "routes" then some "want routes" else
    if sortNat idx ≠ sortNat (dec.map Route.slot) then some "returned routes are not exactly the decoded ones" else
    let isLoc := idx.map fun i => (dec.find? (·.slot == i)).any (·.addr == self)
    if localFirst isLoc then none else some "a remote route precedes a local one"

def step (st : St) (toks : List String) (rhs : String) : St × Verdict :=
  match toks with
  | ["reset"] => ({}, .ok)
  | "load" :: selfHex :: slotToks =>
    match hexToAscii selfHex, parseSlots 0 slotToks, rhs.splitOn " " with
    | some self, some slots, [kind, ttl, cost, idx] =>
      match ttl.toInt?, cost.toNat?, parseIdx idx with
      | some ttl, some _cost, some ix =>
        let m := loader numLinks self slots
        let positive := kind == "routes"
        let st' : St :=
          if positive then { st with minPos := some (match st.minPos with | some p => min p ttl | none => ttl) }
          else { st with maxNeg := some (match st.maxNeg with | some p => max p ttl | none => ttl) }
        let ttlBad : Bool := match st'.maxNeg, st'.minPos with
          | some n, some p => decide (n ≥ p)
          | _, _ => false
        match specCheck self slots kind ix with
        | some why => (st', .spec why)
        | none =>
          if ttlBad then (st', .spec "a negative/failed result is cached at least as long as a positive one")
          else if render m ≠ rhs then (st', .diff (render m))
          else (st', .ok)
      | _, _, _ => (st, .bad "load rhs")
    | _, _, _ => (st, .bad "load args")
  | _ => (st, .bad "unknown op")

def main : IO Unit := runLoop ({} : St) step

end Specter.C28
