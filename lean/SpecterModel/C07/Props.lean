import SpecterModel.C06.Props
import SpecterModel.C05.Props
/-!
# C07 — A failed or timed-out join or leave loses no data and locks no node

The full statement is FALSE for the current protocol: a membership lock (`Transferring`) is only ever
released by the `FinishJoin/FinishLeave(release)` RPC of the node that took it. Proved here:

* `repair_preserves_states`: no sequence of repair tasks (stabilize, fixFinger, checkPredecessor of any
  nodes, in any order) ever changes the lifecycle state of any node;
* together with C06 (`busy_refuses_join`, `busy_refuses_leave_request`: a busy node refuses every
  further membership request and changes nothing) this gives `lock_is_permanent`: once the releasing
  message is lost — or the requester never learns that its request was executed — the successor stays
  `Transferring` for ever and refuses every KV operation of its range;
* `rtj_lost_witness`, `release_fail_witness`: concrete rings in which a `RequestToJoin` whose response is
  lost / a `FinishJoin(release)` that is not delivered leaves the successor locked and previously
  acknowledged keys unreachable after any number of repair rounds;
* the safe side: a request that is NOT delivered changes nothing (`C08.refusal_changes_nothing`,
  `C06.requestToLeave_fail`), a failed `Import` makes the hand-off fail cleanly with every lock released
  (`C06.executeLeave_failure_restores`, `handOff_cases`), and the retry then runs on the unchanged ring.

`expectedSafe` is the resulting table; the harness runs every tuple on real nodes with real timers.
-/
namespace Specter.C07
open Specter.Ring Specter.C06

theorem notify_state (net : Net) (n p m : Nat) : stateOf (notify net n p) m = stateOf net m := by
  unfold notify
  cases hg : net.get n with
  | none => rfl
  | some nd =>
    simp only
    split
    · rfl
    · split
      · rfl
      · rw [stateOf_upd]
        by_cases e : m = n
        · subst e; simp [stateOf, hg]
        · simp [e]

theorem stabilize_state (net : Net) (n m : Nat) : stateOf (stabilize net n) m = stateOf net m := by
  unfold stabilize
  cases hg : net.get n with
  | none => rfl
  | some nd =>
    simp only
    cases hl : (stabilizeList net n nd.succs).map (cutAfterSelf n) with
    | none => rfl
    | some l =>
      simp only
      have base : stateOf (net.upd n fun nd => { nd with succs := l }) m = stateOf net m := by
        rw [stateOf_upd]
        by_cases e : m = n
        · subst e; simp [stateOf, hg]
        · simp [e]
      split
      · split
        · rw [notify_state]; exact base
        · exact base
      · exact base

theorem fixK_state (net : Net) (n k m : Nat) : stateOf (fixK net n k) m = stateOf net m := by
  unfold fixK
  split
  · rw [stateOf_upd]
    by_cases e : m = n
    · subst e
      unfold stateOf
      cases hg : net.get m <;> simp
    · simp [e]
  · rfl

theorem fixFinger_state (net : Net) (n m : Nat) : stateOf (fixFinger net n) m = stateOf net m := by
  unfold fixFinger
  generalize List.range 48 = l
  induction l generalizing net with
  | nil => rfl
  | cons a as ih => simp only [List.foldl_cons]; rw [ih, fixK_state]

theorem checkPredecessor_state (net : Net) (n m : Nat) : stateOf (checkPredecessor net n) m = stateOf net m := by
  unfold checkPredecessor
  cases hg : net.get n with
  | none => rfl
  | some nd =>
    simp only
    split
    · rfl
    · split
      · rfl
      · split
        · rfl
        · rw [stateOf_upd]
          by_cases e : m = n
          · subst e; simp [stateOf, hg]
          · simp [e]

/-- the background repair tasks -/
inductive Task where
  | stabilize (n : Nat) | fixFinger (n : Nat) | checkPredecessor (n : Nat)

def runTask (net : Net) : Task → Net
  | .stabilize n => stabilize net n
  | .fixFinger n => fixFinger net n
  | .checkPredecessor n => checkPredecessor net n

/-- **No repair task ever changes a lifecycle state**: whatever the background tasks of whatever nodes do,
in whatever order and number, a membership lock is neither taken nor released by them. -/
theorem repair_preserves_states (tasks : List Task) (net : Net) (m : Nat) :
    stateOf (tasks.foldl runTask net) m = stateOf net m := by
  induction tasks generalizing net with
  | nil => rfl
  | cons t ts ih =>
    simp only [List.foldl_cons]
    rw [ih]
    cases t <;> simp [runTask, stabilize_state, fixFinger_state, checkPredecessor_state]

/-- **A lock whose release is lost is permanent.** If node `s` is `Transferring`, then after ANY sequence
of repair tasks it still is, and it still refuses every join hand-off and every leave request
(retryably, changing nothing), so no retry of anybody can ever succeed at `s`. -/
theorem lock_is_permanent (net : Net) (s : Nat) (h : stateOf net s = some .transferring) (tasks : List Task) :
    let net' := tasks.foldl runTask net
    stateOf net' s = some .transferring ∧
    (∀ j, (handOff net' s j).2 = .error .joinInvalidState ∧ (handOff net' s j).1 = net') ∧
    (∀ nd, net'.get s = some nd → nd.crashed = false → requestToLeave net' s = (net', some .leaveInvalidState)) := by
  intro net'
  have hst : stateOf net' s = some .transferring := by rw [repair_preserves_states]; exact h
  refine ⟨hst, ?_, ?_⟩
  · intro j
    unfold stateOf at hst
    cases hg : net'.get s with
    | none => simp [hg] at hst
    | some nd =>
      simp [hg] at hst
      have := busy_refuses_join net' s j nd hg (by rw [hst]; simp)
      rw [this]; exact ⟨rfl, rfl⟩
  · intro nd hg hup
    unfold stateOf at hst
    simp [hg] at hst
    exact busy_refuses_leave_request net' s nd hg hup (by rw [hst]; simp)

/-- a successful hand-off leaves the responsible node `Transferring` (waiting for the release) -/
theorem handOff_locks (net net' : Net) (s j : Nat) (v : Nat × List Nat)
    (h : handOff net s j = (net', .ok v)) : stateOf net' s = some .transferring := by
  rcases handOff_cases net s j with ⟨_, hh⟩ | ⟨_, _, _, hh⟩ | ⟨_, _, _, _, hh⟩ | ⟨_, _, _, _, _, _, hh⟩ |
      ⟨_, _, _, _, _, _, _, hh⟩ | ⟨nd, prev, n1, hg, _, _, _, ht, hh⟩
  all_goals (rw [hh] at h; try (simp at h))
  obtain ⟨h1, _⟩ := h
  rw [← h1, stateOf_upd]; simp
  -- the node still exists in n1 (transferUp only touches stores)
  unfold transferUp at ht
  simp only at ht
  split at ht
  · simp at ht; subst ht; simp [hg]
  · cases hi : importAt net j (rangeKeys nd.store prev j) with
    | none => simp [hi] at ht
    | some n2 =>
      simp only [hi] at ht; simp at ht; subst ht
      obtain ⟨ndj, _, hn2⟩ := Specter.C05.importAt_get net n2 j _ hi
      rw [get_upd_same]
      by_cases e : s = j
      · subst e; rw [hn2, get_upd_same, hg]; simp
      · rw [hn2, get_upd_other _ _ _ _ e, hg]; simp

/-! ### concrete witnesses (the schedules the harness replays on real nodes) -/

/-- ring 100 → 200 with data on 200; 150 joins through 100 -/
def base : Net :=
  [(100, { state := .active, pred := some 200, succs := [200, 100], fingers := List.replicate 48 (some 200) }),
   (200, { state := .active, pred := some 100, succs := [100, 200], fingers := List.replicate 48 (some 100),
           store := [⟨"k", 120, some "v", []⟩, ⟨"m", 180, some "w", []⟩] }),
   (150, { state := .inactive })]

def threeRounds (net : Net) : Net :=
  [Task.checkPredecessor 100, .stabilize 100, .fixFinger 100, .checkPredecessor 200, .stabilize 200, .fixFinger 200,
   .checkPredecessor 100, .stabilize 100, .fixFinger 100, .checkPredecessor 200, .stabilize 200, .fixFinger 200,
   .checkPredecessor 100, .stabilize 100, .fixFinger 100, .checkPredecessor 200, .stabilize 200, .fixFinger 200].foldl runTask net

/-- `RequestToJoin` executed at 200, response lost: the joiner gives up (Inactive again). -/
def rtjLost : Net :=
  ((requestToJoin (base.upd 150 fun nd => { nd with state := .joining }) FUEL 100 150).1).upd 150
    (fun nd => { nd with state := .inactive })

def kvErr : KvOut → Option Err | .err e => some e | _ => none

/-- after any repair: 200 is still locked, key "k" (acknowledged before) sits on the Inactive joiner and
is unreachable through both remaining nodes -/
theorem rtj_lost_witness :
    stateOf (threeRounds rtjLost) 200 = some .transferring ∧
    (kvErr (kvAt (threeRounds rtjLost) 8 100 "k" 120 .get).2).isSome = true ∧
    (kvErr (kvAt (threeRounds rtjLost) 8 200 "k" 120 .get).2).isSome = true := by decide +kernel

/-- join completed on the joiner's side but `FinishJoin(release)` to the successor was not delivered -/
def releaseFail : Net :=
  let n1 := (joinBegin base 150 100).1
  let n2 := fixFinger (stabilize n1 150) 150
  let n3 := finish n2 100 true false
  n3.upd 150 (fun nd => { nd with state := .active })

theorem release_fail_witness :
    stateOf (threeRounds releaseFail) 200 = some .transferring ∧
    (kvErr (kvAt (threeRounds releaseFail) 8 100 "m" 180 .get).2) = some .kvStale := by decide +kernel

/-- control: the fault-free join releases the lock and keeps both keys readable -/
theorem no_fault_control :
    stateOf (threeRounds (join base 150 100).1) 200 = some .active ∧
    (kvAt (threeRounds (join base 150 100).1) 8 100 "k" 120 .get).2 = .value (some "v") ∧
    (kvAt (threeRounds (join base 150 100).1) 8 100 "m" 180 .get).2 = .value (some "w") := by decide +kernel

/-- the table: `true` = the attempt and its retries end with every node Active and all data reachable -/
def expectedSafe (scenario rpc mode : String) : Bool :=
  match scenario, rpc, mode with
  | _, "none", _ => true
  | "join", "RequestToJoin", "lost" => false           -- executed, joiner never learns: successor locked, keys on a non-member
  | "join", "FinishJoin(false,true)", "fail" => false  -- release never delivered: successor locked
  | "leave", "RequestToLeave", "lost" => false          -- successor locked by a leaver that retries against its own lock
  | "leave", "FinishLeave(false,true)", "fail" => false -- release never delivered: successor locked
  -- "leave-hi@join" / "leave-lo@join" × RequestToLeave × refused (the successor is locked for a join in flight
  -- behind the leaver, the join concludes before the retry): safe — a refusal changes nothing
  -- (`C06.requestToLeave_fail`) and the retry is a fresh attempt on the ring of that moment (C07/Retry.lean)
  | _, _, _ => true

end Specter.C07

namespace Specter.C07
open Specter.Ring

/-! ### repair tasks never touch a store -/

def storeOf (net : Net) (n : Nat) : Option (List KEntry) := (net.get n).map (·.store)

theorem storeOf_upd (net : Net) (n m : Nat) (f : Node → Node) (hf : ∀ nd, (f nd).store = nd.store) :
    storeOf (net.upd n f) m = storeOf net m := by
  unfold storeOf; rw [get_upd]
  by_cases e : m = n
  · subst e; cases hg : net.get m <;> simp [hf]
  · simp [e]

theorem notify_store (net : Net) (n p m : Nat) : storeOf (notify net n p) m = storeOf net m := by
  unfold notify
  cases hg : net.get n with
  | none => rfl
  | some nd =>
    simp only
    split
    · rfl
    · split
      · rfl
      · exact storeOf_upd _ _ _ _ (fun _ => rfl)

theorem stabilize_store (net : Net) (n m : Nat) : storeOf (stabilize net n) m = storeOf net m := by
  unfold stabilize
  cases hg : net.get n with
  | none => rfl
  | some nd =>
    simp only
    cases hl : (stabilizeList net n nd.succs).map (cutAfterSelf n) with
    | none => rfl
    | some l =>
      simp only
      have base : storeOf (net.upd n fun nd => { nd with succs := l }) m = storeOf net m :=
        storeOf_upd _ _ _ _ (fun _ => rfl)
      split
      · split
        · rw [notify_store]; exact base
        · exact base
      · exact base

theorem fixK_store (net : Net) (n k m : Nat) : storeOf (fixK net n k) m = storeOf net m := by
  unfold fixK
  split
  · exact storeOf_upd _ _ _ _ (fun _ => rfl)
  · rfl

theorem fixFinger_store (net : Net) (n m : Nat) : storeOf (fixFinger net n) m = storeOf net m := by
  unfold fixFinger
  generalize List.range 48 = l
  induction l generalizing net with
  | nil => rfl
  | cons a as ih => simp only [List.foldl_cons]; rw [ih, fixK_store]

theorem checkPredecessor_store (net : Net) (n m : Nat) : storeOf (checkPredecessor net n) m = storeOf net m := by
  unfold checkPredecessor
  cases hg : net.get n with
  | none => rfl
  | some nd =>
    simp only
    split
    · rfl
    · split
      · rfl
      · split
        · rfl
        · exact storeOf_upd _ _ _ _ (fun _ => rfl)

/-- **Background repair never moves, loses or creates data**: the store of every node is the same after
any sequence of stabilize / fixFinger / checkPredecessor tasks of any nodes. Data only moves in the two
hand-off primitives (`transferUp`, `transferDown`), whose exactness is C05. -/
theorem repair_preserves_stores (tasks : List Task) (net : Net) (m : Nat) :
    storeOf (tasks.foldl runTask net) m = storeOf net m := by
  induction tasks generalizing net with
  | nil => rfl
  | cons t ts ih =>
    simp only [List.foldl_cons]
    rw [ih]
    cases t <;> simp [runTask, stabilize_store, fixFinger_store, checkPredecessor_store]

end Specter.C07
