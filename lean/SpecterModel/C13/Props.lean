import SpecterModel.C13.Model
/-!
# C13 — Node lifecycle transitions are atomic and follow the lifecycle

Part 1 (packing, over the GENERATED expressions of `chord/node_state.go`): the word
`(index <<< 4) ||| state` is an injective encoding of `(index, state)` for `state < 16`, `index < 2^60`,
`Get`/the failure result decode the state, and the compare of the CAS on packed words is exactly the
compare on pairs `(index of the loaded word, expected state)`.

Part 2 (protocol, every schedule, any number of goroutines): small-step system
`load | casOk | casFail | store` with a ghost log of successful CASes.
-/
namespace Specter.C13
open Gen.C13

/-! ## Part 1: packing -/

def pack (i s : Nat) : BitVec 64 := BitVec.ofNat 64 (i * 16 + s)

theorem or_low (a s : Nat) (hs : s < 16) : (a * 16) ||| s = a * 16 + s := by
  have := Nat.two_pow_add_eq_or_of_lt (i := 4) (b := s) (by simpa using hs) a
  simp at this; rw [Nat.mul_comm]; exact this.symm

theorem and15 (x : Nat) : x &&& 15 = x % 16 := by
  have := Nat.and_two_pow_sub_one_eq_mod x 4
  simpa using this

theorem shl_or (i s : Nat) (hi : i < 2^60) (hs : s < 16) :
    ((BitVec.ofNat 64 i) <<< 4) ||| BitVec.ofNat 64 s = pack i s := by
  apply BitVec.eq_of_toNat_eq
  simp [pack, BitVec.toNat_shiftLeft, Nat.shiftLeft_eq]
  have h1 : i * 16 % 18446744073709551616 = i * 16 := by omega
  have h2 : s % 18446744073709551616 = s := by omega
  rw [h1, h2, or_low i s hs]; omega

/-- the index field of a packed word, as computed by `Transition` (`curr >> 4`) -/
theorem currIndex_pack (i s : Nat) (e n : BitVec 64) (hi : i < 2^60) (hs : s < 16) :
    tr_currIndex (pack i s) e n = BitVec.ofNat 64 i := by
  apply BitVec.eq_of_toNat_eq
  simp [tr_currIndex, pack, BitVec.toNat_ushiftRight, Nat.shiftRight_eq_div_pow]
  omega

/-- `Get()` decodes the state field -/
theorem getState_pack (i s : Nat) (hs : s < 16) :
    getState (pack i s) = BitVec.ofNat 64 s := by
  apply BitVec.eq_of_toNat_eq
  simp [getState, pack, and15]
  omega

/-- the state returned by a failed `Transition` is the state field of the loaded word -/
theorem failState_pack (i s : Nat) (e n : BitVec 64) (hs : s < 16) :
    tr_failState (pack i s) e n = BitVec.ofNat 64 s := by
  apply BitVec.eq_of_toNat_eq
  simp [tr_failState, pack, and15]
  omega

/-- the CAS comparand: index of the loaded word, expected state -/
theorem prev_pack (i s e : Nat) (n : BitVec 64) (hi : i < 2^60) (hs : s < 16) (he : e < 16) :
    tr_prev (pack i s) (BitVec.ofNat 64 e) n = pack i e := by
  have := currIndex_pack i s (BitVec.ofNat 64 e) n hi hs
  simp only [tr_currIndex] at this
  simp only [tr_prev, this]
  exact shl_or i e hi he

theorem ofNat_succ (i : Nat) : BitVec.ofNat 64 i + 1#64 = BitVec.ofNat 64 (i + 1) := by
  apply BitVec.eq_of_toNat_eq; simp

/-- the CAS replacement: index + 1, next state; the history key is index + 1 -/
theorem next_pack (i s n : Nat) (e : BitVec 64) (hi : i + 1 < 2^60) (hs : s < 16) (hn : n < 16) :
    tr_next (pack i s) e (BitVec.ofNat 64 n) = pack (i + 1) n ∧
    tr_nextIndex (pack i s) e (BitVec.ofNat 64 n) = BitVec.ofNat 64 (i + 1) := by
  have := currIndex_pack i s e (BitVec.ofNat 64 n) (by omega) hs
  simp only [tr_currIndex] at this
  simp only [tr_next, tr_nextIndex, this, ofNat_succ]
  exact ⟨shl_or (i + 1) n hi hn, trivial⟩

theorem initWord_pack (s : Nat) (hs : s < 16) : initWord (BitVec.ofNat 64 s) = pack 0 s := by
  simp only [initWord]; exact shl_or 0 s (by omega) hs

/-- C13 `pack_inj`: the packed word determines (index, state). -/
theorem pack_inj (i s i' s' : Nat) (hi : i < 2^60) (hi' : i' < 2^60) (hs : s < 16) (hs' : s' < 16) :
    pack i s = pack i' s' ↔ i = i' ∧ s = s' := by
  constructor
  · intro h
    have := congrArg BitVec.toNat h
    simp [pack] at this; omega
  · rintro ⟨rfl, rfl⟩; rfl

/-- C13 `pack_unpack`: `unpack (pack idx st) = (idx, st)` with the code's own decoders. -/
theorem pack_unpack (i s : Nat) (e n : BitVec 64) (hi : i < 2^60) (hs : s < 16) :
    (tr_currIndex (pack i s) e n).toNat = i ∧ (getState (pack i s)).toNat = s := by
  rw [currIndex_pack i s e n hi hs, getState_pack i s hs]
  simp; omega

/-- C13 `cas_compare_iff`: the compare of `CompareAndSwap(prev, next)` on packed words, where `prev` was
built from a word loaded earlier (`ci`, `cs`) and the expected state, succeeds exactly when the current
word still carries the loaded index and its state is the expected one. (The index makes ABA impossible.) -/
theorem cas_compare_iff (wi ws ci cs e : Nat) (n : BitVec 64)
    (hwi : wi < 2^60) (hci : ci < 2^60) (hws : ws < 16) (hcs : cs < 16) (he : e < 16) :
    pack wi ws = tr_prev (pack ci cs) (BitVec.ofNat 64 e) n ↔ wi = ci ∧ ws = e := by
  rw [prev_pack ci cs e n hci hcs he]; exact pack_inj wi ws ci e hwi hci hws he

/-- C13 `seq_transition_spec`: the word-level sequential `Transition` assembled from the generated
expressions behaves as "compare state with exp; on success index+1, store history[index+1] = nxt". -/
theorem seq_transition_spec (i s exp nxt : Nat) (h : List (Nat × Nat))
    (hi : i + 1 < 2^60) (hs : s < 16) (he : exp < 16) (hn : nxt < 16) :
    Seq.transition ⟨pack i s, h⟩ exp nxt =
      if s = exp then (⟨pack (i + 1) nxt, histStore h (i + 1) nxt⟩, nxt, true)
      else (⟨pack i s, h⟩, s, false) := by
  unfold Seq.transition
  simp only [prev_pack i s exp _ (by omega) hs he, (next_pack i s nxt _ hi hs hn).1,
    (next_pack i s nxt _ hi hs hn).2, failState_pack i s _ _ hs,
    pack_inj i s i exp (by omega) (by omega) hs he]
  by_cases c : s = exp
  · have hm : (i + 1) % 18446744073709551616 = i + 1 := by omega
    simp [c, hm]
  · simp [c]; omega

/-- C13: the control shape of the source is the one the step relation below models (one load, one
CAS on (prev,next), history store only after a successful CAS, failure returns the loaded state;
`Set` = retry loop of `Transition(Get(), val)`; initial word and history[0] stored by the constructor). -/
theorem source_shape :
    transitionShape = "{curr=s.state.Load();if s.state.CompareAndSwap(prev,next){s.history.Store(nextIndex,nxt);return nxt,true;}return (curr&0b1111),false;}"
    ∧ setShape = "{for {if _=s.Transition(s.Get(),val);ok{break;}runtime.Gosched();}}"
    ∧ newShape = "{s.state.Store(((index<<4)|state));s.history.Store(0,initial);return s;}"
    ∧ numStates ≤ 16 := ⟨rfl, rfl, rfl, by decide⟩

/-! ## Part 2: the CAS protocol, all schedules, any number of threads -/

abbrev St := Nat           -- lifecycle state, < 16
structure Word where
  idx : Nat
  st  : St
deriving DecidableEq, Repr

inductive PC where
  | idle
  | loaded (cur : Word) (exp nxt : St)   -- `curr` loaded, CAS outstanding
  | pending (idx : Nat) (st : St)         -- CAS succeeded, history store outstanding
deriving DecidableEq, Repr

/-- ghost record of one successful CAS -/
structure Win where
  t : Nat          -- thread
  base : Nat       -- index of the word that the thread had loaded
  exp : St
  nxt : St
deriving DecidableEq, Repr

structure Sys where
  word  : Word
  pc    : Nat → PC
  hist  : Nat → Option St
  ghost : List St                        -- ghost: state after every successful transition, in order
  wins  : List Win                       -- ghost: the successful CASes, in order

def upd {α} (f : Nat → α) (i : Nat) (v : α) : Nat → α := fun j => if j = i then v else f j

/-- One atomic step of one goroutine. `load` is `Transition`'s `s.state.Load()` with arbitrary
arguments (`Set` passes `exp := Get()`, which is just some earlier value — covered by "arbitrary");
a failed `Transition` returns to `idle`, from where `Set`'s loop may `load` again. -/
inductive Step : Sys → Sys → Prop
  | load (s : Sys) (t : Nat) (exp nxt : St) (h : s.pc t = .idle) :
      Step s { s with pc := upd s.pc t (.loaded s.word exp nxt) }
  | casOk (s : Sys) (t : Nat) (cur : Word) (exp nxt : St) (h : s.pc t = .loaded cur exp nxt)
      (hw : s.word = ⟨cur.idx, exp⟩) :
      Step s { s with word := ⟨cur.idx + 1, nxt⟩, pc := upd s.pc t (.pending (cur.idx + 1) nxt),
                      ghost := s.ghost ++ [nxt], wins := s.wins ++ [⟨t, cur.idx, exp, nxt⟩] }
  | casFail (s : Sys) (t : Nat) (cur : Word) (exp nxt : St) (h : s.pc t = .loaded cur exp nxt)
      (hw : s.word ≠ ⟨cur.idx, exp⟩) :
      Step s { s with pc := upd s.pc t .idle }
  | store (s : Sys) (t : Nat) (i : Nat) (v : St) (h : s.pc t = .pending i v) :
      Step s { s with pc := upd s.pc t .idle, hist := upd s.hist i (some v) }

inductive Reach : Sys → Sys → Prop
  | refl (s : Sys) : Reach s s
  | step {s s' s'' : Sys} : Reach s s' → Step s' s'' → Reach s s''

def init (s0 : St) : Sys :=
  { word := ⟨0, s0⟩, pc := fun _ => .idle, hist := upd (fun _ => none) 0 (some s0), ghost := [s0], wins := [] }

structure Inv (s : Sys) : Prop where
  len   : s.ghost.length = s.word.idx + 1
  last  : s.ghost[s.word.idx]? = some s.word.st
  sound : ∀ i v, s.hist i = some v → s.ghost[i]? = some v
  pend  : ∀ t i v, s.pc t = .pending i v → s.ghost[i]? = some v ∧ i ≤ s.word.idx
  compl : ∀ i, i ≤ s.word.idx → s.hist i = none → ∃ t v, s.pc t = .pending i v
  loadedLe : ∀ t cur e n, s.pc t = .loaded cur e n → cur.idx ≤ s.word.idx
  wlen  : s.wins.length = s.word.idx
  wchain : ∀ i w, s.wins[i]? = some w →
      w.base = i ∧ s.ghost[i]? = some w.exp ∧ s.ghost[i + 1]? = some w.nxt

theorem inv_init (s0 : St) : Inv (init s0) := by
  refine ⟨rfl, rfl, ?_, ?_, ?_, ?_, rfl, ?_⟩
  · intro i v h; simp [init, upd] at h ⊢; obtain ⟨rfl, rfl⟩ := h; rfl
  · intro t i v h; simp [init] at h
  · intro i hi h; simp [init, upd] at hi h; omega
  · intro t cur e n h; simp [init] at h
  · intro i w h; simp [init] at h

theorem inv_step {s s' : Sys} (hi : Inv s) (hs : Step s s') : Inv s' := by
  cases hs with
  | load t exp nxt h =>
    refine ⟨hi.len, hi.last, hi.sound, ?_, ?_, ?_, hi.wlen, hi.wchain⟩
    · intro t' i v hp; simp [upd] at hp; split at hp; · simp at hp
      exact hi.pend t' i v hp
    · intro i hle hn
      obtain ⟨t', v, hp⟩ := hi.compl i hle hn
      refine ⟨t', v, ?_⟩; simp [upd]; split
      · next heq => subst heq; rw [h] at hp; simp at hp
      · exact hp
    · intro t' cur e n hp; simp [upd] at hp; split at hp
      · simp at hp; obtain ⟨rfl, _, _⟩ := hp; exact Nat.le_refl _
      · exact hi.loadedLe t' cur e n hp
  | casOk t cur exp nxt h hw =>
    have hidx : s.word.idx = cur.idx := by rw [hw]
    have hst : s.word.st = exp := by rw [hw]
    have hlen := hi.len
    have hwl := hi.wlen
    refine ⟨?_, ?_, ?_, ?_, ?_, ?_, ?_, ?_⟩
    · simp [hi.len, hidx]
    · simp; rw [List.getElem?_append_right (by omega)]; simp [hlen, hidx]
    · intro i v hh; have := hi.sound i v hh
      simp; rw [List.getElem?_append_left]; exact this
      have := (List.getElem?_eq_some_iff.mp this).1; exact this
    · intro t' i v hp; simp [upd] at hp; split at hp
      · simp at hp; obtain ⟨rfl, rfl⟩ := hp
        simp; rw [List.getElem?_append_right (by omega)]; simp [hlen, hidx]
      · obtain ⟨h1, h2⟩ := hi.pend t' i v hp
        refine ⟨?_, by simp; omega⟩
        simp; rw [List.getElem?_append_left]; exact h1
        exact (List.getElem?_eq_some_iff.mp h1).1
    · intro i hle hn; simp at hle
      by_cases hc : i = cur.idx + 1
      · exact ⟨t, nxt, by simp [upd, hc]⟩
      · obtain ⟨t', v, hp⟩ := hi.compl i (by omega) hn
        refine ⟨t', v, ?_⟩; simp [upd]; split
        · next heq => subst heq; rw [h] at hp; simp at hp
        · exact hp
    · intro t' c e n hp; simp [upd] at hp; split at hp; · simp at hp
      have := hi.loadedLe t' c e n hp; simp; omega
    · simp; omega
    · intro i w hwi
      simp only at hwi ⊢
      by_cases hlt : i < s.wins.length
      · rw [List.getElem?_append_left hlt] at hwi
        obtain ⟨h1, h2, h3⟩ := hi.wchain i w hwi
        refine ⟨h1, ?_, ?_⟩
        · rw [List.getElem?_append_left (by omega)]; exact h2
        · rw [List.getElem?_append_left (by omega)]; exact h3
      · have hge : s.wins.length ≤ i := by omega
        rw [List.getElem?_append_right hge] at hwi
        have hi0 : i - s.wins.length = 0 := by
          cases hd : i - s.wins.length with
          | zero => rfl
          | succ k => rw [hd] at hwi; simp at hwi
        rw [hi0] at hwi; simp at hwi; subst hwi
        have hie : i = cur.idx := by omega
        subst hie
        refine ⟨rfl, ?_, ?_⟩
        · simp; rw [List.getElem?_append_left (by omega)]
          have := hi.last; rw [hidx, hst] at this; exact this
        · simp; rw [List.getElem?_append_right (by omega)]; simp [hlen, hidx]
  | casFail t cur exp nxt h hw =>
    refine ⟨hi.len, hi.last, hi.sound, ?_, ?_, ?_, hi.wlen, hi.wchain⟩
    · intro t' i v hp; simp [upd] at hp; split at hp; · simp at hp
      exact hi.pend t' i v hp
    · intro i hle hn
      obtain ⟨t', v, hp⟩ := hi.compl i hle hn
      refine ⟨t', v, ?_⟩; simp [upd]; split
      · next heq => subst heq; rw [h] at hp; simp at hp
      · exact hp
    · intro t' c e n hp; simp [upd] at hp; split at hp; · simp at hp
      exact hi.loadedLe t' c e n hp
  | store t i v h =>
    obtain ⟨hg, hle⟩ := hi.pend t i v h
    refine ⟨hi.len, hi.last, ?_, ?_, ?_, ?_, hi.wlen, hi.wchain⟩
    · intro j w hh; simp [upd] at hh; split at hh
      · next heq => subst heq; simp at hh; subst hh; exact hg
      · exact hi.sound j w hh
    · intro t' j w hp; simp [upd] at hp; split at hp; · simp at hp
      exact hi.pend t' j w hp
    · intro j hle' hn; simp [upd] at hn; split at hn; · simp at hn
      obtain ⟨t', w, hp⟩ := hi.compl j hle' hn
      refine ⟨t', w, ?_⟩; simp [upd]; split
      · next heq => subst heq; rw [h] at hp; simp at hp; omega
      · exact hp
    · intro t' c e n hp; simp [upd] at hp; split at hp; · simp at hp
      exact hi.loadedLe t' c e n hp

theorem inv_reach {s s' : Sys} (hi : Inv s) (hr : Reach s s') : Inv s' := by
  induction hr with
  | refl => exact hi
  | step _ hs ih => exact inv_step ih hs

/-- C13: every state reachable from a fresh `nodeState`, under every schedule, satisfies the invariant. -/
theorem inv_reachable (s0 : St) {s : Sys} (hr : Reach (init s0) s) : Inv s :=
  inv_reach (inv_init s0) hr

/-- C13 `ghost_matches_word`: the word's index counts the successful transitions and the word's state
(what `Get()` reports) is the last successful transition, at every moment of every schedule. -/
theorem ghost_matches_word (s0 : St) {s : Sys} (hr : Reach (init s0) s) :
    s.word.idx + 1 = s.ghost.length ∧ s.ghost.getLast? = some s.word.st ∧ s.wins.length = s.word.idx := by
  have hi := inv_reachable s0 hr
  refine ⟨hi.len.symm, ?_, hi.wlen⟩
  rw [List.getLast?_eq_getElem?, hi.len]; simpa using hi.last

/-- C13 `history_sound`: whatever the history map shows at any moment is the state of the successful
transition with that index (no lost / misplaced / invented entry). -/
theorem history_sound (s0 : St) {s : Sys} (hr : Reach (init s0) s) (i : Nat) (v : St)
    (h : s.hist i = some v) : s.ghost[i]? = some v :=
  (inv_reachable s0 hr).sound i v h

/-- C13 `history_complete_at_quiescence`: when no goroutine is inside `Transition`, `History()` is exactly
the log of successful transitions in order, and `Get()` is its last entry. -/
theorem history_complete_at_quiescence (s0 : St) {s : Sys} (hr : Reach (init s0) s)
    (hq : ∀ t, s.pc t = .idle) :
    (∀ i, i ≤ s.word.idx → s.hist i = s.ghost[i]?) ∧ (∀ i, s.word.idx < i → s.hist i = none) ∧
    s.ghost[s.word.idx]? = some s.word.st := by
  have hi := inv_reachable s0 hr
  refine ⟨?_, ?_, hi.last⟩
  · intro i hle
    cases hh : s.hist i with
    | some v => exact (hi.sound i v hh).symm
    | none =>
      obtain ⟨t, v, hp⟩ := hi.compl i hle hh
      rw [hq t] at hp; simp at hp
  · intro i hlt
    cases hh : s.hist i with
    | none => rfl
    | some v =>
      have := hi.sound i v hh
      have := (List.getElem?_eq_some_iff.mp this).1
      have := hi.len; omega

/-- C13 `wins_form_chain`: the k-th successful CAS consumed exactly the state left by the (k-1)-th one
(its expected state is the previously recorded state) and produced the k-th recorded state. -/
theorem wins_form_chain (s0 : St) {s : Sys} (hr : Reach (init s0) s) (i : Nat) (w : Win)
    (h : s.wins[i]? = some w) :
    w.base = i ∧ s.ghost[i]? = some w.exp ∧ s.ghost[i + 1]? = some w.nxt :=
  (inv_reachable s0 hr).wchain i w h

/-- C13 `cas_unique_per_index` / at most one winner: two successful CASes never start from the same loaded
index; so of any number of goroutines that loaded the same word at most one succeeds. -/
theorem cas_unique_per_index (s0 : St) {s : Sys} (hr : Reach (init s0) s) (i j : Nat) (a b : Win)
    (ha : s.wins[i]? = some a) (hb : s.wins[j]? = some b) (hbase : a.base = b.base) : i = j := by
  have h1 := (wins_form_chain s0 hr i a ha).1
  have h2 := (wins_form_chain s0 hr j b hb).1
  omega

/-- Racing from word `w`: as long as the word's index is unchanged the word is unchanged and racer `t` is
still about to CAS; once the index moved, a CAS based on `w.idx` has won. -/
structure Race (w : Word) (t : Nat) (n : St) (s : Sys) : Prop where
  mono : w.idx ≤ s.word.idx
  same : s.word.idx = w.idx → s.word = w ∧ s.pc t = .loaded w w.st n
  won  : w.idx < s.word.idx → ∃ x ∈ s.wins, x.base = w.idx

theorem race_step {w : Word} {t : Nat} {n : St} {s s' : Sys} (hr : Race w t n s)
    (hs : Step s s') : Race w t n s' := by
  cases hs with
  | load t' exp nxt h =>
    refine ⟨hr.mono, ?_, hr.won⟩
    intro he; obtain ⟨h1, h2⟩ := hr.same he
    refine ⟨h1, ?_⟩
    simp [upd]; split
    · next heq => subst heq; rw [h] at h2; simp at h2
    · exact h2
  | casOk t' cur exp nxt h hw =>
    have hidx : s.word.idx = cur.idx := by rw [hw]
    refine ⟨by simp; have := hr.mono; omega, ?_, ?_⟩
    · intro he; simp at he; have := hr.mono; omega
    · intro hlt; simp at hlt
      by_cases hc : s.word.idx = w.idx
      · exact ⟨⟨t', cur.idx, exp, nxt⟩, by simp, by simp; omega⟩
      · obtain ⟨x, hx, hb⟩ := hr.won (by have := hr.mono; omega)
        exact ⟨x, by simp [hx], hb⟩
  | casFail t' cur exp nxt h hw =>
    refine ⟨hr.mono, ?_, hr.won⟩
    intro he; obtain ⟨h1, h2⟩ := hr.same he
    refine ⟨h1, ?_⟩
    simp [upd]; split
    · next heq =>
      subst heq; rw [h] at h2; simp at h2
      obtain ⟨rfl, rfl, _⟩ := h2
      exact absurd h1 hw
    · exact h2
  | store t' i v h =>
    refine ⟨hr.mono, ?_, hr.won⟩
    intro he; obtain ⟨h1, h2⟩ := hr.same he
    refine ⟨h1, ?_⟩
    simp [upd]; split
    · next heq => subst heq; rw [h] at h2; simp at h2
    · exact h2

theorem race_reach {s s' : Sys} {t : Nat} {n : St} (hi : Inv s)
    (hl : s.pc t = .loaded s.word s.word.st n) (hr : Reach s s') : Race s.word t n s' ∧ Inv s' := by
  induction hr with
  | refl => exact ⟨⟨Nat.le_refl _, fun _ => ⟨rfl, hl⟩, fun h => absurd h (Nat.lt_irrefl _)⟩, hi⟩
  | step _ hs ih => exact ⟨race_step ih.1 hs, inv_step ih.2 hs⟩

/-- C13 `exactly_one_winner`: let goroutine `t` have loaded the current word `w` and expect its state
(`exp = w.st`; any number of other goroutines may have done the same or anything else). In every
continuation of the schedule in which `t` has executed its CAS, exactly one successful CAS started from
index `w.idx` (existence and uniqueness): some racer won, and no two did. -/
theorem exactly_one_winner (s0 : St) {s s' : Sys} (hr0 : Reach (init s0) s) (t : Nat) (n : St)
    (hl : s.pc t = .loaded s.word s.word.st n) (hr : Reach s s')
    (hdone : s'.pc t ≠ .loaded s.word s.word.st n) :
    ∃ (i : Nat) (x : Win), s'.wins[i]? = some x ∧ x.base = s.word.idx ∧
      ∀ (j : Nat) (y : Win), s'.wins[j]? = some y → y.base = s.word.idx → j = i := by
  obtain ⟨hrc, hinv⟩ := race_reach (inv_reachable s0 hr0) hl hr
  have hlt : s.word.idx < s'.word.idx := by
    rcases Nat.lt_or_eq_of_le hrc.mono with h | h
    · exact h
    · exact absurd (hrc.same h.symm).2 hdone
  obtain ⟨x, hx, hb⟩ := hrc.won hlt
  obtain ⟨i, hi⟩ := List.getElem?_of_mem hx
  refine ⟨i, x, hi, hb, ?_⟩
  intro j y hy hyb
  have h1 := (hinv.wchain i x hi).1
  have h2 := (hinv.wchain j y hy).1
  omega

/-- a racer whose expectation is wrong never wins from that load: `casOk` requires the expected state -/
theorem win_requires_expected (s0 : St) {s : Sys} (hr : Reach (init s0) s) (i : Nat) (w : Win)
    (h : s.wins[i]? = some w) : s.ghost[w.base]? = some w.exp := by
  obtain ⟨h1, h2, _⟩ := wins_form_chain s0 hr i w h
  rw [h1]; exact h2

/-! ### non-vacuity: a concrete two-goroutine race (both load word ⟨0,1⟩ expecting 1) -/
section NonVacuity
def r0 : Sys := init 1
def r1 : Sys := { r0 with pc := upd r0.pc 7 (.loaded r0.word 1 2) }
def r2 : Sys := { r1 with pc := upd r1.pc 8 (.loaded r1.word 1 3) }
def r3 : Sys := { r2 with word := ⟨1, 3⟩, pc := upd r2.pc 8 (.pending 1 3), ghost := r2.ghost ++ [3],
                          wins := r2.wins ++ [⟨8, 0, 1, 3⟩] }
def r4 : Sys := { r3 with pc := upd r3.pc 7 .idle }

example : Step r0 r1 := Step.load r0 7 1 2 rfl
example : Step r1 r2 := Step.load r1 8 1 3 rfl
example : Step r2 r3 := Step.casOk r2 8 ⟨0, 1⟩ 1 3 rfl rfl
example : Step r3 r4 := Step.casFail r3 7 ⟨0, 1⟩ 1 2 rfl (by decide)
/-- hypotheses of `exactly_one_winner` hold at r2 for thread 7, and it has finished at r4 with thread 8 the winner -/
example : r2.pc 7 = .loaded r2.word r2.word.st 2 ∧ r4.pc 7 ≠ .loaded r2.word r2.word.st 2 ∧
    r4.wins = [⟨8, 0, 1, 3⟩] := by decide
example : pack 5 3 = 83#64 ∧ tr_prev (pack 5 3) 3#64 4#64 = pack 5 3 ∧ tr_next (pack 5 3) 3#64 4#64 = pack 6 4 := by decide
example : (Seq.new 0).transition 0 1 = (⟨pack 1 1, [(1, 1), (0, 0)]⟩, 1, true) := by decide
end NonVacuity

end Specter.C13
