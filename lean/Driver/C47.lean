import SpecterModel.C47.Drv

def main : IO Unit := Specter.C47.main
