import SpecterModel.C31.Drv

def main : IO Unit := Specter.C31.main
