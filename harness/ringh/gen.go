package ringh

import (
	"context"
	"sort"
	"strconv"
	"strings"
	"time"

	"go.miragespace.co/specter/spec/chord"
	"verif/harness/hlib"
)

const M = uint64(1) << 48

// Session = one independent case: a fresh Ring plus the protocol lines it produced.
type Session struct {
	R    *Ring
	Run  *hlib.Run
	Rng  *hlib.Rng
	Ops  int
	Dead bool // a timeout happened: goroutines of this ring may be stuck, stop using it
	hung bool // a dump did not return: some node is wedged
}

func NewSession(run *hlib.Run, rng *hlib.Rng) *Session {
	run.Raw("reset")
	return &Session{R: NewRing(), Run: run, Rng: rng}
}

// NewSessionBackend: like NewSession with every node backed by the given KV back-end ("memory"|"sqlite").
func NewSessionBackend(run *hlib.Run, rng *hlib.Rng, backend string) *Session {
	s := NewSession(run, rng)
	s.R.Backend = backend
	run.Count("backend:" + backend)
	return s
}

// Do executes one op on the real nodes and emits `op => result | dump`. Returns the result token.
func (s *Session) Do(toks ...string) string {
	if s.Dead {
		return "dead"
	}
	res := s.R.Exec(toks)
	if res == "timeout" {
		s.Dead = true
	}
	s.Run.Emit(strings.Join(toks, " "), res+" | "+s.SafeDump())
	s.Run.Count("op:" + toks[0])
	if strings.HasPrefix(res, "err:") {
		s.Run.Count("result:" + res)
	}
	s.Ops++
	return res
}

// SafeDump: the dump takes the nodes' own locks; a node wedged by an operation must not wedge the harness.
// After 5 s the session is marked dead and "hung" is reported instead.
func (s *Session) SafeDump() string {
	if s.Dead && s.hung {
		return "hung"
	}
	dc := make(chan string, 1)
	go func() { dc <- s.R.Dump() }()
	select {
	case d := <-dc:
		return d
	case <-time.After(5 * time.Second):
		s.Dead, s.hung = true, true
		return "hung"
	}
}

func U(x uint64) string { return strconv.FormatUint(x, 10) }

// AdversarialIDs returns n distinct ids in [0, 2^48): clustered, adjacent, extreme (0, M-1),
// ids equal to finger targets of other ids, or uniformly random — mixed per call.
func AdversarialIDs(rng *hlib.Rng, n int) []uint64 {
	seen := map[uint64]bool{}
	var ids []uint64
	add := func(x uint64) {
		x %= M
		if !seen[x] && len(ids) < n {
			seen[x] = true
			ids = append(ids, x)
		}
	}
	style := rng.Intn(5)
	base := rng.U64() % M
	for len(ids) < n {
		switch {
		case style == 0: // uniformly random
			add(rng.U64())
		case style == 1: // tiny ids incl. 0 and wrap-around neighbours
			switch rng.Intn(4) {
			case 0:
				add(uint64(rng.Intn(8 + n)))
			case 1:
				add(M - 1 - uint64(rng.Intn(8+n)))
			default:
				add(uint64(rng.Intn(64 + 4*n)))
			}
		case style == 2: // clustered/adjacent around a base
			add(base + uint64(rng.Intn(2*n+2)))
		case style == 3: // finger targets of earlier ids: x + 2^k, and ±1 around them
			if len(ids) == 0 || rng.Chance(30) {
				add(rng.U64())
			} else {
				x := hlib.Pick(rng, ids)
				k := uint64(rng.Intn(48))
				add(x + (uint64(1) << k) + uint64(rng.Intn(3)) - 1 + M)
			}
		default: // mixed
			switch rng.Intn(4) {
			case 0:
				add(0)
			case 1:
				add(M - 1)
			case 2:
				add(base + uint64(rng.Intn(3+n)))
			default:
				add(rng.U64())
			}
		}
	}
	return ids
}

// BuildRing creates the ring from ids by real Create/Join through random live peers.
func (s *Session) BuildRing(ids []uint64) (members []uint64) {
	for _, id := range ids {
		s.Do("new", U(id))
	}
	s.Do("create", U(ids[0]))
	members = []uint64{ids[0]}
	for _, id := range ids[1:] {
		peer := hlib.Pick(s.Rng, members)
		if s.Do("join", U(id), U(peer)) == "ok" {
			members = append(members, id)
		}
	}
	return
}

// Repair runs full repair rounds (checkpred, stabilize, fixfinger on every member in seeded order)
// until the dump no longer changes or maxRounds is reached. Returns the number of rounds run.
func (s *Session) Repair(members []uint64, maxRounds int) int {
	if s.Dead {
		return 0
	}
	prev := s.SafeDump()
	for round := 1; round <= maxRounds; round++ {
		order := append([]uint64{}, members...)
		for i := len(order) - 1; i > 0; i-- {
			j := s.Rng.Intn(i + 1)
			order[i], order[j] = order[j], order[i]
		}
		for _, id := range order {
			s.Do("checkpred", U(id))
			s.Do("stabilize", U(id))
			s.Do("fixfinger", U(id))
		}
		cur := s.SafeDump()
		if cur == prev || s.Dead {
			return round
		}
		prev = cur
	}
	return maxRounds
}

// InterestingKeys: member ids, ±1, 0, M-1, finger targets, random.
func InterestingKeys(rng *hlib.Rng, members []uint64, nRandom int) []uint64 {
	set := map[uint64]bool{0: true, M - 1: true}
	for _, m := range members {
		set[m] = true
		set[(m+1)%M] = true
		set[(m+M-1)%M] = true
	}
	for i := 0; i < nRandom; i++ {
		switch rng.Intn(3) {
		case 0:
			set[rng.U64()%M] = true
		case 1:
			m := hlib.Pick(rng, members)
			set[chord.ModuloSum(m, uint64(1)<<uint(rng.Intn(48)))] = true
		default:
			m := hlib.Pick(rng, members)
			set[(m+uint64(rng.Intn(5))+M-2)%M] = true
		}
	}
	keys := make([]uint64, 0, len(set))
	for k := range set {
		keys = append(keys, k)
	}
	sort.Slice(keys, func(i, j int) bool { return keys[i] < keys[j] })
	return keys
}

// KeyTokens: a small alphabet of KV keys with shared prefixes.
var KeyTokens = []string{"a", "ab", "abc", "b", "b1", "b2", "c/x", "c/y", "d", "k7", "zz", "q"}
var ValTokens = []string{"v1", "v2", "v3", "v4"}
var ChildTokens = []string{"c1", "c2", "c3"}

func HashOf(key string) uint64 { return chord.Hash([]byte(key)) }

// KvOp issues one random KV op through a random live entry node.
func (s *Session) KvOp(members []uint64) string {
	n := hlib.Pick(s.Rng, members)
	k := hlib.Pick(s.Rng, KeyTokens)
	h := U(HashOf(k))
	switch s.Rng.Intn(10) {
	case 0, 1, 2:
		return s.Do("put", U(n), k, h, hlib.Pick(s.Rng, ValTokens))
	case 3:
		return s.Do("get", U(n), k, h)
	case 4:
		return s.Do("del", U(n), k, h)
	case 5, 6:
		return s.Do("pappend", U(n), k, h, hlib.Pick(s.Rng, ChildTokens))
	case 7:
		return s.Do("premove", U(n), k, h, hlib.Pick(s.Rng, ChildTokens))
	case 8:
		return s.Do("pcontains", U(n), k, h, hlib.Pick(s.Rng, ChildTokens))
	default:
		return s.Do("plist", U(n), k, h)
	}
}

// StateName returns the lifecycle state of a real node (harness-side observation for generators).
func (s *Session) StateName(id uint64) string { return stateName(s.R.Node(id).VerifState()) }

// PredOf / SuccOf: current neighbour pointers of a real node (0,false when nil).
func (s *Session) PredOf(id uint64) (uint64, bool) {
	p := s.R.Node(id).VerifPred()
	if p == nil {
		return 0, false
	}
	return p.ID(), true
}
func (s *Session) SuccOf(id uint64) (uint64, bool) {
	l := s.R.Node(id).VerifSuccs()
	if len(l) == 0 || l[0] == nil {
		return 0, false
	}
	return l[0].ID(), true
}

// Quiet emits the quiescent-point line `quiet => ok | dump` (placement is judged there).
func (s *Session) Quiet() {
	if s.Dead {
		return
	}
	s.Run.Emit("quiet", "ok | "+s.SafeDump())
}

// Churn runs one churn history: KV operations through random entry nodes interleaved with
// graceful joins and leaves and repair rounds; ends with a repair to a fixpoint, a quiescent
// point and reads of every key through every member.
func (s *Session) Churn(nNodes, nSpare, steps int) {
	rng := s.Rng
	for _, k := range KeyTokens {
		s.Run.Raw("defkey " + k + " " + U(HashOf(k)))
	}
	ids := AdversarialIDs(rng, nNodes+nSpare)
	// a third of the time place node ids exactly on / next to key hashes (boundary ownership)
	if rng.Chance(35) {
		for i := range ids {
			if rng.Chance(50) {
				h := HashOf(Pick(rng, KeyTokens))
				cand := (h + uint64(rng.Intn(3)) + M - 1) % M
				dup := false
				for _, x := range ids {
					if x == cand {
						dup = true
					}
				}
				if !dup {
					ids[i] = cand
				}
			}
		}
	}
	// joiners whose id is EXACTLY the hash of a key (the upper end of the range they take over is inclusive):
	// half of the spare nodes, independent of the adjustment above
	for i := nNodes; i < len(ids); i++ {
		if rng.Chance(50) {
			cand := HashOf(Pick(rng, KeyTokens))
			dup := false
			for _, x := range ids {
				dup = dup || x == cand
			}
			if !dup {
				ids[i] = cand
				s.Run.Count("joiner-id:exactly-a-key-hash")
			}
		}
	}
	members := s.BuildRing(ids[:nNodes])
	spare := append([]uint64{}, ids[nNodes:]...)
	for _, j := range spare {
		s.Do("new", U(j))
	}
	s.Repair(members, 6)
	// directed prologue (always on back-ends that track keys separately from data, sometimes on memory): a
	// prefix-only key shrinks from two children to one, then a node whose id is the key's hash joins and takes the
	// key over; the surviving child must move with it (read sweeps of afterChange)
	if s.R.Backend == "sqlite" || rng.Chance(30) {
		k := Pick(rng, KeyTokens)
		h := HashOf(k)
		dup := false
		for _, x := range ids {
			dup = dup || x == h
		}
		if !dup && len(members) > 0 {
			c1, c2 := ChildTokens[rng.Intn(len(ChildTokens))], ChildTokens[rng.Intn(len(ChildTokens))]
			if c1 != c2 {
				s.Do("pappend", U(Pick(rng, members)), k, U(h), c1)
				s.Do("pappend", U(Pick(rng, members)), k, U(h), c2)
				s.Do("premove", U(Pick(rng, members)), k, U(h), c1)
				ids = append(ids, h)
				s.Do("new", U(h))
				if s.Do("join", U(h), U(Pick(rng, members))) == "ok" {
					members = append(members, h)
				}
				s.Run.Count("prologue:prefix-shrink-then-hand-off")
				s.afterChange(members)
			}
		}
	}
	for i := 0; i < steps && !s.Dead; i++ {
		switch x := rng.Intn(100); {
		case x < 62:
			s.KvOp(members)
		case x < 72 && len(spare) > 0:
			s.Repair(members, 3) // membership changes are issued on a repaired ring (a failing attempt would sleep in its retry loop)
			j := spare[0]
			spare = spare[1:]
			if rng.Chance(45) {
				// stepped join: the protocol is paused before each FinishJoin call; the joiner's predecessor may
				// leave right after the advisory, while the successor's lock is still held
				if s.Do("joinbegin", U(j), U(Pick(rng, members))) == "ok" {
					s.Do("jointasks", U(j))
					// the joiner's predecessor-to-be has not been told yet and still sees the locked node as its
					// successor: one leave attempt of it inside this window (refused while the lock is held)
					if p, ok := s.PredOf(j); ok && p != j && rng.Chance(75) {
						if res := s.Do("execleave", U(p)); strings.HasPrefix(res, "ok") {
							if f := strings.Split(res, ":"); len(f) == 3 {
								s.Do("leavefinish", U(p), f[1], f[2])
							} else {
								s.Do("leavefinish", U(p), U(p), U(p))
							}
							var rest []uint64
							for _, m := range members {
								if m != p {
									rest = append(rest, m)
								}
							}
							members = rest
						}
					}
					s.Do("joinadvise", U(j))
					members = append(members, j)
					if p, ok := s.PredOf(j); ok && len(members) > 2 && rng.Chance(60) {
						if sc, ok2 := s.SuccOf(j); ok2 && sc != p && p != j {
							if s.Do("leave", U(p)) == "ok" {
								var rest []uint64
								for _, m := range members {
									if m != p {
										rest = append(rest, m)
									}
								}
								members = rest
							}
						}
					}
					s.Do("joinrelease", U(j))
				}
			} else if s.Do("join", U(j), U(Pick(rng, members))) == "ok" {
				members = append(members, j)
			}
			s.afterChange(members)
		case x >= 72 && x < 75 && len(members) >= 2:
			// two joiners in the same arc (pred(S), S): while S handles the request of the lower one (after its routing
			// decision, before its membership lock) the higher one joins completely; the lower request must then be
			// refused (it no longer follows S's predecessor directly) and change nothing
			s.Repair(members, 3)
			// the two ids straddle the hash of a key, so that the key lies in (low, high]
			sorted := append([]uint64{}, members...)
			sort.Slice(sorted, func(a, b int) bool { return sorted[a] < sorted[b] })
			start := rng.Intn(len(KeyTokens))
			for i := range KeyTokens {
				h := HashOf(KeyTokens[(start+i)%len(KeyTokens)])
				// succ = owner of h, pred = its predecessor
				k := 0
				for k < len(sorted) && sorted[k] < h {
					k++
				}
				succ, pred := sorted[k%len(sorted)], sorted[(k+len(sorted)-1)%len(sorted)]
				if (h+M-pred)%M < 3 || (succ+M-h)%M < 3 {
					continue
				}
				low := (h + M - 1 - uint64(rng.Intn(2))) % M
				high := (h + uint64(rng.Intn(2))) % M
				fresh := true
				for _, m := range ids {
					fresh = fresh && m != low && m != high
				}
				if !fresh {
					continue
				}
				ids = append(ids, low, high)
				s.Do("new", U(low))
				s.Do("new", U(high))
				if res := s.Do("reqjoinjoin", U(Pick(rng, members)), U(low), U(high), U(Pick(rng, members))); strings.HasPrefix(res, "ok:") {
					// (never on a tree where the property holds) the request was granted: release the lock as the
					// joiner would, so that the ring keeps serving and the reads below see what it serves
					for _, m := range members {
						s.Do("finish", U(m), "false", "true")
					}
				}
				if st := s.StateName(high); st == "Active" {
					members = append(members, high)
				}
				s.Run.Count("two-joiners-same-arc")
				s.afterChange(members)
				break
			}
		case x < 82 && len(members) > 1:
			s.Repair(members, 3)
			l := Pick(rng, members)
			if s.Do("leave", U(l)) == "ok" {
				var rest []uint64
				for _, m := range members {
					if m != l {
						rest = append(rest, m)
					}
				}
				members = rest
			}
			s.afterChange(members)
		case x < 90:
			s.Repair(members, 1)
		default:
			s.KvOp(members)
		}
	}
	s.Repair(members, 8)
	s.Quiet()
	for _, k := range KeyTokens {
		for _, m := range members {
			s.Do("get", U(m), k, U(HashOf(k)))
			if rng.Chance(40) {
				s.Do("plist", U(m), k, U(HashOf(k)))
			}
		}
	}
	s.Run.Count(F("final-members:%d", len(members)))
}

// afterChange: reads of every key right after a membership change (acknowledged data must be
// reachable at once), then a repair to a fixpoint, a quiescent-point placement check and reads again.
func (s *Session) afterChange(members []uint64) {
	if s.Dead || len(members) == 0 {
		return
	}
	sweep := func() {
		for _, k := range KeyTokens {
			m := Pick(s.Rng, members)
			s.Do("get", U(m), k, U(HashOf(k)))
			s.Do("plist", U(Pick(s.Rng, members)), k, U(HashOf(k)))
		}
	}
	sweep()
	s.Repair(members, 6)
	s.Quiet()
	sweep()
}

func Pick[T any](r *hlib.Rng, xs []T) T { return hlib.Pick(r, xs) }
func F(format string, a ...any) string  { return hlib.F(format, a...) }

// Revive lets the harness keep observing a session after an operation timed out (a membership
// change asleep in its retry loop): repair tasks and dumps do not depend on the sleeping goroutine.
func (s *Session) Revive() { s.Dead = false }

// TimedLeaveInJoinWindow runs one real-timer scenario (millisecond task intervals, retries and timers of the
// implementation itself) that the step-exact sessions cannot express: the owner L of a stored key leaves while its
// successor S holds the membership lock for a joiner J placed directly behind L; the join is held before its
// first or second FinishJoin call for a few task intervals, then everything is left to settle. The protocol
// lines are judged by the drivers without a model comparison (timing is not reproducible):
//
//	timedget <key> <acknowledged value> => <value read through a live member after settling>
//	timedquiet => ok | <dump of all nodes>          (placement judged on the Active nodes)
func TimedLeaveInJoinWindow(run *hlib.Run, rng *hlib.Rng) {
	const iv = 3 * time.Millisecond
	n := 3 + rng.Intn(3)
	ids := AdversarialIDs(rng, n+1)
	start := rng.Intn(len(KeyTokens))
	succOf := func(x uint64, strict bool) uint64 {
		best, bd, first := ids[0], uint64(0), true
		for _, m := range ids[:n] {
			d := (m + M - x) % M
			if strict && d == 0 {
				d = M
			}
			if first || d < bd {
				best, bd, first = m, d, false
			}
		}
		return best
	}
	var leaver uint64
	found := false
	for i := range KeyTokens {
		k := KeyTokens[(start+i)%len(KeyTokens)]
		l := succOf(HashOf(k), false)
		gap := (succOf(l, true) + M - l) % M
		if gap < 3 {
			continue
		}
		span := gap - 2
		if span > 1000 {
			span = 1000
		}
		leaver, found = l, true
		ids[n] = (l + 1 + rng.U64()%span) % M
		break
	}
	if !found {
		run.Count("timed:skipped")
		return
	}
	r := NewRing()
	r.Interval = iv
	for _, id := range ids {
		r.New(id)
	}
	defer func() {
		for _, id := range ids {
			r.Crash(id)
			r.Node(id).VerifStop()
		}
	}()
	if r.Node(ids[0]).Create() != nil {
		return
	}
	members := []uint64{ids[0]}
	for _, id := range ids[1:n] {
		if r.Node(id).Join(r.Wrap(members[rng.Intn(len(members))])) != nil {
			run.Count("timed:setup-join-failed")
			return
		}
		members = append(members, id)
		time.Sleep(8 * iv)
	}
	time.Sleep(30 * iv)
	ctx := context.Background()
	retry := func(f func() error) error {
		var err error
		for a := 0; a < 60; a++ {
			if err = f(); err == nil {
				return nil
			}
			time.Sleep(2 * iv)
		}
		return err
	}
	acked := map[string]string{}
	for _, k := range KeyTokens {
		v := "v-" + k
		entry := r.Wrap(members[rng.Intn(len(members))])
		if retry(func() error { return entry.Put(ctx, []byte(k), []byte(v)) }) == nil {
			acked[k] = v
		}
	}
	joiner := ids[n]
	holdAt, seen := 1+rng.Intn(2), 0
	at, resume := r.PauseNext(func(m string) bool {
		if !strings.HasPrefix(m, "FinishJoin") {
			return false
		}
		seen++
		return seen == holdAt
	})
	jd := make(chan error, 1)
	peer := members[rng.Intn(len(members))]
	go func() {
		defer func() {
			if recover() != nil {
				jd <- chord.ErrJoinInvalidState
			}
		}()
		jd <- r.Node(joiner).Join(r.Wrap(peer))
	}()
	ld := make(chan struct{})
	hold := time.Duration(2+rng.Intn(6)) * iv
	select {
	case <-at:
		go func() { defer close(ld); defer func() { recover() }(); r.Node(leaver).Leave() }()
		time.Sleep(hold)
		run.Count(F("timed:leave-inside-window-before-finishjoin-%d", holdAt))
	case err := <-jd:
		jd <- err
		close(ld)
		run.Count("timed:join-ended-before-window")
	case <-time.After(3 * time.Second):
		close(ld)
	}
	resume()
	joined := false
	select {
	case err := <-jd:
		joined = err == nil
	case <-time.After(3 * time.Second):
	}
	select {
	case <-ld:
	case <-time.After(3 * time.Second):
	}
	// settle: wait (bounded) until the predecessor pointers of the Active nodes form the true ring and the dump
	// has not changed for 10 task intervals; a run that does not get there in time is not judged (convergence
	// is C02's subject, not this scenario's)
	var live []uint64
	settled := false
	deadline := time.Now().Add(4 * time.Second)
	prevDump, stableSince := "", time.Now()
	for time.Now().Before(deadline) {
		time.Sleep(5 * iv)
		live = live[:0]
		for _, m := range append(append([]uint64{}, members...), joiner) {
			if (m != joiner || joined) && r.Node(m).VerifState() == chord.Active {
				live = append(live, m)
			}
		}
		sort.Slice(live, func(i, j int) bool { return live[i] < live[j] })
		ok := len(live) > 0
		for i, m := range live {
			p := r.Node(m).VerifPred()
			want := live[(i+len(live)-1)%len(live)]
			if p == nil || p.ID() != want {
				ok = false
			}
		}
		d := r.Dump()
		if d != prevDump {
			prevDump, stableSince = d, time.Now()
		}
		if ok && time.Since(stableSince) >= 10*iv {
			settled = true
			break
		}
	}
	if !settled {
		run.Count("timed:not-settled")
		return
	}
	run.Raw("reset")
	for _, k := range KeyTokens {
		run.Raw("defkey " + k + " " + U(HashOf(k)))
	}
	if len(live) == 0 {
		return
	}
	keys := make([]string, 0, len(acked))
	for k := range acked {
		keys = append(keys, k)
	}
	sort.Strings(keys)
	for _, k := range keys {
		var val []byte
		entry := r.Wrap(live[rng.Intn(len(live))])
		err := retry(func() error {
			var e error
			val, e = entry.Get(ctx, []byte(k))
			return e
		})
		res := string(val)
		if err != nil {
			res = "unavailable:" + ErrName(err)
		} else if len(val) == 0 {
			res = "-"
		}
		run.Emit("timedget "+k+" "+acked[k], res)
	}
	run.Emit("timedquiet", "ok | "+r.Dump())
	run.Case(F("timed-%v-%d-%d", ids, leaver, holdAt))
}
