import SpecterModel.C35.Ops
import SpecterModel.C35.Gen
/-!
# C35 model — `(*Gateway).proxyRewrite` (gateway/proxy_handler.go)

`http.Header` (a `map[string][]string` whose keys are canonical MIME header names) is a function
`String → List String` (`[]` = absent). The host-selection chain (`Gen.C35.hostRule`, `hostDefault`) and the
header statements (`Gen.C35.rewriteOps`, `Gen.C35.delHeaders`) of `proxyRewrite` are GENERATED and interpreted here; `ProxyRequest.SetXForwarded` is
modelled after its source (go1.26 net/http/httputil). Library results that enter as inputs:
`net.SplitHostPort(in.RemoteAddr)` (`peer`), `url.URL.Hostname()` (`hostnameOf`).
-/
namespace Specter.C35

abbrev Hdr := String → List String

def Hdr.del (h : Hdr) (k : String) : Hdr := fun x => if x = k then [] else h x
def Hdr.set (h : Hdr) (k v : String) : Hdr := fun x => if x = k then [v] else h x
/-- header map from a parsed (key, values) list -/
def Hdr.ofList (l : List (String × List String)) : Hdr := fun k => (l.filter (·.1 = k)).flatMap (·.2)

abbrev XFF := "X-Forwarded-For"
abbrev XFH := "X-Forwarded-Host"
abbrev XFP := "X-Forwarded-Proto"
abbrev TCI := "True-Client-Ip"     -- canonical form of True-Client-IP
abbrev XRI := "X-Real-Ip"          -- canonical form of X-Real-IP

/-- what `proxyRewrite` reads from the inbound request -/
structure Req where
  protoMajor : Nat
  protoMinor : Nat
  tls : Option String        -- `in.TLS.ServerName` when `in.TLS != nil`
  host : String              -- `in.Host` (Host header for HTTP/1.x, :authority for HTTP/2 and HTTP/3)
  peer : Option String       -- host part of `net.SplitHostPort(in.RemoteAddr)`, `none` on error

structure Env where
  port : Nat                         -- g.GatewayPort
  hostnameOf : String → String       -- (&url.URL{Host: h}).Hostname()

/-- a condition of the generated host-selection chain; `ProtoAtLeast` as in net/http:
`r.ProtoMajor > major || r.ProtoMajor == major && r.ProtoMinor >= minor` -/
def HostCond.holds (i : Req) : HostCond → Bool
  | .protoAtLeast major minor => decide (major < i.protoMajor ∨ (i.protoMajor = major ∧ minor ≤ i.protoMinor))
  | .protoMajorEq n => decide (i.protoMajor = n)
  | .protoMajorGe n => decide (n ≤ i.protoMajor)
  | .tlsPresent => i.tls.isSome

/-- the value a branch assigns to `out.URL.Host`; `none` = nil dereference of `in.TLS` (the handler panics) -/
def HostSrc.read (i : Req) : HostSrc → Option String
  | .inHost => some i.host
  | .sni => i.tls

/-- `if c₁ { out.URL.Host = s₁ } else if c₂ { … } else { out.URL.Host = d }` -/
def selHost (i : Req) : List (HostCond × HostSrc) → HostSrc → Option String
  | [], d => d.read i
  | (c, s) :: rest, d => if c.holds i then s.read i else selHost i rest d

/-- `out.URL.Host` (= `out.Host`) after the host statements of `proxyRewrite`: the GENERATED selection chain
(`Gen.C35.hostRule` / `hostDefault`), then `.Hostname()`. `none` = the handler panicked. -/
def urlHost? (e : Env) (i : Req) : Option String :=
  (selHost i Gen.C35.hostRule Gen.C35.hostDefault).map e.hostnameOf

/-- `ProxyRequest.SetXForwarded` -/
def setXForwarded (i : Req) (h : Hdr) : Hdr :=
  let h1 : Hdr := match i.peer with
    | some ip =>
      let prior := h XFF
      h.set XFF (if prior ≠ [] then ", ".intercalate prior ++ ", " ++ ip else ip)
    | none => h.del XFF
  let h2 := h1.set XFH i.host
  h2.set XFP (if i.tls.isSome then "https" else "http")

/-- one header statement; `uh` = `out.URL.Host` as fixed by the host statements -/
def applyOp (port : Nat) (uh : String) (i : Req) (h : Hdr) : HOp → Hdr
  | .delList ks => ks.foldl Hdr.del h
  | .del k => h.del k
  | .setXForwarded => setXForwarded i h
  | .setHostPort k std => h.set k (if port = std then uh else uh ++ ":" ++ toString port)
  | .setConst k v => h.set k v

/-- the generated header operations applied to whatever `httputil.ReverseProxy` passes as `Out.Header` -/
def rewriteWith (port : Nat) (uh : String) (i : Req) (out : Hdr) : Hdr :=
  Gen.C35.rewriteOps.foldl (applyOp port uh i) out

/-- Header map handed to the transport by `proxyRewrite` (`none` = panic in the host statements). -/
def rewrite (e : Env) (i : Req) (out : Hdr) : Option Hdr :=
  (urlHost? e i).map fun uh => rewriteWith e.port uh i out

/-! ## The property statement's side (independent of the generated chain) -/

/-- The host the client REQUESTED. HTTP/2 and HTTP/3 clients coalesce connections (one TLS/QUIC connection,
opened with some SNI, carries requests for several hosts), so there the request's own `:authority` is the
requested host, never the connection's SNI; an HTTP/1.1 connection over TLS is opened for one host, named by
the SNI; a plain HTTP/1.1 request names it in `Host`. -/
def requestedHost (i : Req) : String :=
  if 2 ≤ i.protoMajor then i.host else match i.tls with | some sni => sni | none => i.host

def withPort (port : Nat) (h : String) : String := if port = 443 then h else h ++ ":" ++ toString port

/-- the value the property statement asks for in X-Forwarded-Host -/
def wantHost (e : Env) (i : Req) : String := withPort e.port (e.hostnameOf (requestedHost i))

end Specter.C35
