import SpecterModel.C41.Model
/-!
# C41 — exhaustive exploration: two simultaneous dials and a stale reap at P (kernel-evaluated)

Every interleaving of the four negotiation ends, the reaps that become due and ONE stale `reapPeer` at P (a
second reap of an older, long dead connection) at any point, from every consistent pre-existing cache state
(one kernel evaluation per pre-state: they are independent, which bounds the memory of each).
-/
namespace Specter.C41
open Gen.C41

set_option maxRecDepth 100000 in
theorem explore_dual_lateP_0 : explore genTable good 18 (init true (none, none) (true, false)) = true := by
  decide +kernel

set_option maxRecDepth 100000 in
theorem explore_dual_lateP_1 : explore genTable good 18 (init true (some (.e, .outgoing), none) (true, false)) = true := by
  decide +kernel

set_option maxRecDepth 100000 in
theorem explore_dual_lateP_2 : explore genTable good 18 (init true (some (.e, .incoming), none) (true, false)) = true := by
  decide +kernel

set_option maxRecDepth 100000 in
theorem explore_dual_lateP_3 : explore genTable good 18 (init true (none, some (.e, .incoming)) (true, false)) = true := by
  decide +kernel

set_option maxRecDepth 100000 in
theorem explore_dual_lateP_4 : explore genTable good 18 (init true (none, some (.e, .outgoing)) (true, false)) = true := by
  decide +kernel

set_option maxRecDepth 100000 in
theorem explore_dual_lateP_5 : explore genTable good 18 (init true (some (.e, .outgoing), some (.e, .incoming)) (true, false)) = true := by
  decide +kernel

set_option maxRecDepth 100000 in
theorem explore_dual_lateP_6 : explore genTable good 18 (init true (some (.e, .incoming), some (.e, .outgoing)) (true, false)) = true := by
  decide +kernel

theorem explore_dual_lateP : ∀ pre ∈ preStates,
    explore genTable good 18 (init true pre (true, false)) = true := by
  intro pre hp
  simp only [preStates, List.mem_cons, List.not_mem_nil, or_false] at hp
  rcases hp with h | h | h | h | h | h | h <;> subst h
  · exact explore_dual_lateP_0
  · exact explore_dual_lateP_1
  · exact explore_dual_lateP_2
  · exact explore_dual_lateP_3
  · exact explore_dual_lateP_4
  · exact explore_dual_lateP_5
  · exact explore_dual_lateP_6

end Specter.C41
