// C33 correspondence: real spec/acme.Normalize (+ removeSpace via shim), EncodeClientToken,
// GenerateCustomRecord / GenerateManagedRecord against the Lean model and the statement-level oracle.
// Strings travel as comma-separated decimal code points of []rune(s) ("-" = empty).
//
//	rs <zone>                                         => <removeSpace(zone)>
//	norm <zone> <removeSpace(zone)> isip=<net.ParseIP ok> q=<certmagic qualifies> ascii=<idna.ToASCII | none>
//	     ip=<b> wild=<b> local=<b> fix=<b>            => ok:<name> | err:<ip|qualify|wildcard|idna|emptylabel|chars>
//	     (isip/q/ascii: library results on the real trimmed string = model inputs; ip/wild/local: category of the
//	      input decided here independently of the code under test; fix: the input is an already accepted output)
//	rec <zone> <delegation> <token> <sha224(token)> <IsFqdn zone> <IsFqdn delegation> => <name>|<content>
//	managed <zone> <delegation> <IsFqdn zone> <IsFqdn delegation>                    => <name>|<content>
//	pair <delegation> <IsFqdn delegation> <token1> <sha224> <token2> <sha224>         => <content1>|<content2>
package main

import (
	"crypto/sha256"
	"net"
	"strconv"
	"strings"
	"unicode"
	"unicode/utf8"

	"github.com/caddyserver/certmagic"
	"github.com/miekg/dns"
	"go.miragespace.co/specter/spec/acme"
	"golang.org/x/net/idna"
	"verif/harness/hlib"
)

var r *hlib.Run
var rng *hlib.Rng

func runes(s string) string {
	rs := []rune(s)
	if len(rs) == 0 {
		return "-"
	}
	var b strings.Builder
	for i, c := range rs {
		if i > 0 {
			b.WriteByte(',')
		}
		b.WriteString(strconv.Itoa(int(c)))
	}
	return b.String()
}

func unRunes(t string) string {
	if t == "-" {
		return ""
	}
	var b strings.Builder
	for _, p := range strings.Split(t, ",") {
		v, _ := strconv.Atoi(p)
		b.WriteRune(rune(v))
	}
	return b.String()
}

func doRS(z string) {
	r.Emit("rs "+runes(z), runes(acme.VerifRemoveSpace(z)))
	r.Case("rs" + z)
	r.Count("rs")
}

func classify(err error) string {
	m := err.Error()
	for _, p := range [][2]string{{"cannot be an IP", "ip"}, {"invalid zone for acme", "qualify"}, {"wildcard zone", "wildcard"},
		{"error converting", "idna"}, {"empty label", "emptylabel"}, {"invalid dns characters", "chars"}} {
		if strings.Contains(m, p[0]) {
			return p[1]
		}
	}
	return "other"
}

// categories decided independently of the code under test
func ownTrim(z string) string {
	return strings.Map(func(c rune) rune {
		if unicode.IsSpace(c) {
			return -1
		}
		return c
	}, z)
}

func isLocal(t string) bool {
	t = strings.ToLower(strings.TrimRight(t, "."))
	return t == "localhost" || strings.HasSuffix(t, ".localhost") || strings.HasSuffix(t, ".local")
}

// returns the accepted name ("" if rejected)
func doNorm(kind, z string, fix bool) string {
	trimmed := acme.VerifRemoveSpace(z)
	ascii := "none"
	if a, err := idna.ToASCII(trimmed); err == nil {
		ascii = runes(a)
	}
	own := ownTrim(z)
	res, out := "", ""
	func() {
		defer func() {
			if recover() != nil {
				res = "panic"
			}
		}()
		s, err := acme.Normalize(z)
		if err != nil {
			res = "err:" + classify(err)
		} else {
			res, out = "ok:"+runes(s), s
		}
	}()
	r.Emit(strings.Join([]string{"norm", runes(z), runes(trimmed), "isip=" + hlib.B(net.ParseIP(trimmed) != nil),
		"q=" + hlib.B(certmagic.SubjectQualifiesForPublicCert(trimmed)), "ascii=" + ascii,
		"ip=" + hlib.B(net.ParseIP(own) != nil), "wild=" + hlib.B(strings.Contains(own, "*")), "local=" + hlib.B(isLocal(own)),
		"fix=" + hlib.B(fix)}, " "), res)
	r.Case("n" + z)
	r.Count("norm:" + kind + ":" + strings.SplitN(res, ":", 2)[0] + func() string {
		if strings.HasPrefix(res, "err:") {
			return res[3:]
		}
		return ""
	}())
	return out
}

var spaces = []rune{9, 10, 11, 12, 13, 32, 0x85, 0xA0, 0x1680, 0x2000, 0x2001, 0x2005, 0x200a, 0x2028, 0x2029, 0x202f, 0x205f, 0x3000}
var notSpaces = []rune{0x200b, 0x200c, 0x200d, 0x2060, 0xfeff, 0x180e, 0x1c, 0x1f, 0x7f, 0xad}

var asciiLabels = []string{"a", "example", "hello", "www", "good", "x1", "a-b", "-a", "a-", "0", "123", "8", "com", "net", "io", "xn--nxasmq6b",
	"xn--a", "xn--", "xn--", "xn--80ak6aa92e", "a_b", "a%b", "a:b", "a/b", "a@b", "a+b", "a b", "A", "Example", "COM", "",
	strings.Repeat("a", 63), strings.Repeat("a", 64), strings.Repeat("b", 200)}
var uniLabels = []string{"你好", "后缀", "bücher", "BÜCHER", "straße", "ＡＢＣ", "ｅｘａｍｐｌｅ", "８", "😀", "ß", "İ", "ı", "ǆ", "é", "é", "ك", "א", "日本語", "‍", "a­b", "ª", "Ⅷ", "。", "ａ。ｂ"}
var tlds = []string{"com", "net", "org", "io", "后缀", "local", "localhost", "internal", "arpa", "LOCAL", "Local", "test", "lan", "COM"}

func label() string {
	switch rng.Intn(10) {
	case 0, 1, 2, 3, 4:
		return hlib.Pick(rng, asciiLabels[:12])
	case 5, 6:
		return hlib.Pick(rng, asciiLabels)
	case 7, 8:
		return hlib.Pick(rng, uniLabels)
	default:
		n := 1 + rng.Intn(6)
		var b strings.Builder
		for i := 0; i < n; i++ {
			b.WriteByte("abcdefghijklmnopqrstuvwxyz0123456789-"[rng.Intn(37)])
		}
		return b.String()
	}
}

func hostname() string {
	n := 1 + rng.Intn(4)
	var ls []string
	for i := 0; i < n; i++ {
		ls = append(ls, label())
	}
	if rng.Chance(70) {
		ls = append(ls, hlib.Pick(rng, tlds))
	}
	return strings.Join(ls, ".")
}

var ipPool = []string{"8.8.8.8", "1.1.1.1", "93.184.216.34", "255.255.255.255", "0.0.0.0", "10.0.0.1", "127.0.0.1", "192.168.1.1", "172.16.0.1",
	"169.254.1.1", "100.64.0.1", "224.0.0.1", "::1", "::", "2001:db8::1", "2606:4700:4700::1111", "fe80::1", "fc00::1", "::ffff:8.8.8.8",
	"2001:DB8::A", "1:2:3:4:5:6:7:8", "64:ff9b::8.8.8.8"}
var almostIP = []string{"8.8.8", "8.8.8.8.8", "256.1.1.1", "08.8.8.8", "8.8.8.08", "0x8.8.8.8", "8.8.8.8:80", "[::1]", "[2001:db8::1]:443", "fe80::1%eth0",
	"8.8.8.8.", ".8.8.8.8", "8.8.8.8.com", "1.2.3.４", "８.８.８.８", "8。8。8。8", "1234", "0", "1.2", "::g", "8.8.8.-8"}

func randIP() string {
	if rng.Chance(40) {
		return hlib.Pick(rng, ipPool)
	}
	if rng.Chance(70) {
		return net.IPv4(byte(rng.U64()), byte(rng.U64()), byte(rng.U64()), byte(rng.U64())).String()
	}
	return net.IP(rng.Bytes(16)).String()
}

// insert whitespace (and a few non-whitespace look-alikes) at random positions
func sprinkle(s string) string {
	rs := []rune(s)
	k := rng.Intn(4)
	for i := 0; i < k; i++ {
		pos := rng.Intn(len(rs) + 1)
		c := hlib.Pick(rng, spaces)
		if rng.Chance(15) {
			c = hlib.Pick(rng, notSpaces)
		}
		rs = append(rs[:pos], append([]rune{c}, rs[pos:]...)...)
	}
	return string(rs)
}

func mutateCase(s string) string {
	rs := []rune(s)
	for i := range rs {
		if rng.Chance(30) {
			rs[i] = unicode.ToUpper(rs[i])
		}
	}
	return string(rs)
}

func norm(kind, z string) {
	out := doNorm(kind, z, false)
	if out != "" {
		doNorm("fixpoint", out, true) // idempotence on the real code: the accepted output is fed back
	}
}

func genNorm(n int) {
	for i := 0; i < n; i++ {
		switch rng.Intn(12) {
		case 0, 1, 2:
			norm("hostname", hostname())
		case 3:
			norm("hostname+space", sprinkle(hostname()))
		case 4:
			norm("hostname+case", sprinkle(mutateCase(hostname())))
		case 5:
			h := hostname()
			switch rng.Intn(4) {
			case 0:
				h = "*." + h
			case 1:
				h = "*" + h
			case 2:
				h = h + ".*"
			default:
				p := rng.Intn(len(h) + 1)
				h = h[:p] + "*" + h[p:]
			}
			if !utf8.ValidString(h) {
				h = "*." + hostname()
			}
			norm("wildcard", sprinkle(h))
		case 6:
			norm("ip", sprinkle(randIP()))
		case 7:
			norm("almost-ip", sprinkle(hlib.Pick(rng, almostIP)))
		case 8:
			l := hlib.Pick(rng, []string{"localhost", "LOCALHOST", "LocalHost", "a.localhost", "machine.local", "x.y.LOCAL", "printer.Local", "localhost.",
				"foo.internal", "a.home.arpa", "local", "localhost.com", "mylocalhost", "a.locals", "localdomain"})
			if rng.Chance(40) {
				l = label() + "." + l
			}
			norm("local", sprinkle(l))
		case 9:
			norm("dots", hlib.Pick(rng, []string{"", ".", "..", "a.", ".a", "a..b", "a.b.", " ", "\t\n", "a .", ". a"})+func() string {
				if rng.Bool() {
					return hostname()
				}
				return ""
			}())
		case 10:
			norm("bytes", string(rng.Bytes(1+rng.Intn(8)))) // arbitrary bytes incl. invalid UTF-8
		default:
			var b strings.Builder
			k := 1 + rng.Intn(10)
			for j := 0; j < k; j++ {
				b.WriteRune(rune(rng.Intn(0x250)))
			}
			norm("runes", b.String())
		}
	}
	for _, z := range []string{"hel lo.com", "hello.com", "good.hello.com", "你好.com", "xd.后缀", "你好.后缀", "*.wildcard.com", "*.com", "sup.*.com", "localhost",
		"machine.localhost", "machine.local", "hello:world.com", "hello%world.com", "8.8.8.8", "8.8. 8.8", "8.8.8.8　"} {
		norm("fixed", z)
	}
	for _, z := range append(append([]string{}, ipPool...), almostIP...) {
		norm("ip-pool", z)
	}
}

func genRS(limit int) {
	for c := 0; c < limit; c++ {
		if c >= 0xD800 && c <= 0xDFFF {
			continue
		}
		doRS("a" + string(rune(c)) + "b")
	}
	for i := 0; i < 2000; i++ {
		doRS(sprinkle(sprinkle(hostname())))
		if i%10 == 0 {
			doRS(string(rng.Bytes(rng.Intn(10))))
		}
	}
}

var delegations = []string{"acme.example.com", "acme.example.com.", "", ".", "a\\.", "a\\\\.", "a\\\\\\.", "\\.", "d", "委托.example.", "x.y"}

func sha224(t []byte) []byte { h := sha256.Sum224(t); return h[:] }

func doRec(zone, deleg string, tok []byte) {
	name, content := acme.GenerateCustomRecord(zone, deleg, tok)
	r.Emit(strings.Join([]string{"rec", runes(zone), runes(deleg), hlib.Hex(tok), hlib.Hex(sha224(tok)), hlib.B(dns.IsFqdn(zone)), hlib.B(dns.IsFqdn(deleg))}, " "),
		runes(name)+"|"+runes(content))
	r.Case("rec" + zone + "|" + deleg + "|" + string(tok))
	r.Count("rec")
	if hexs := acme.EncodeClientToken(tok); !strings.HasPrefix(content, hexs+".") {
		r.Raw("# note: content does not start with EncodeClientToken")
	}
	n2, c2 := acme.GenerateManagedRecord(zone, deleg)
	r.Emit(strings.Join([]string{"managed", runes(zone), runes(deleg), hlib.B(dns.IsFqdn(zone)), hlib.B(dns.IsFqdn(deleg))}, " "), runes(n2)+"|"+runes(c2))
	r.Case("man" + zone + "|" + deleg)
	r.Count("managed")
}

func doPair(deleg string, t1, t2 []byte) {
	_, c1 := acme.GenerateCustomRecord("example.com", deleg, t1)
	_, c2 := acme.GenerateCustomRecord("example.com", deleg, t2)
	r.Emit(strings.Join([]string{"pair", runes(deleg), hlib.B(dns.IsFqdn(deleg)), hlib.Hex(t1), hlib.Hex(sha224(t1)), hlib.Hex(t2), hlib.Hex(sha224(t2))}, " "),
		runes(c1)+"|"+runes(c2))
	r.Case("pair" + deleg + string(t1) + "|" + string(t2))
	if string(t1) == string(t2) {
		r.Count("pair:same-token")
	} else {
		r.Count("pair:distinct-tokens")
	}
}

func genRec(n int) {
	for i := 0; i < n; i++ {
		zone := hostname()
		if !utf8.ValidString(zone) {
			zone = "example.com"
		}
		if rng.Chance(20) {
			zone += "."
		}
		deleg := hlib.Pick(rng, delegations)
		tok := rng.Bytes(rng.Intn(70))
		if rng.Chance(30) { // tokens as the server makes them: a v2 certificate subject
			tok = []byte("v2:" + strconv.FormatUint(rng.U64()>>16, 10) + ":" + strings.Repeat("A", 43) + "=")
		}
		doRec(zone, deleg, tok)
		// related second token
		t2 := append([]byte{}, tok...)
		switch rng.Intn(8) {
		case 0:
			// identical
		case 1:
			t2 = append(t2, 0)
		case 2:
			if len(t2) > 0 {
				t2 = t2[:len(t2)-1]
			}
		case 3:
			if len(t2) > 0 {
				t2[rng.Intn(len(t2))] ^= 1 << uint(rng.Intn(8))
			}
		case 4:
			if len(t2) > 0 {
				t2[len(t2)-1] ^= 1
			}
		case 5:
			if len(t2) > 1 {
				t2[0], t2[len(t2)-1] = t2[len(t2)-1], t2[0]
			}
		case 6:
			t2 = append([]byte{0}, t2...)
		default:
			t2 = rng.Bytes(rng.Intn(70))
		}
		doPair(deleg, tok, t2)
	}
}

func main() {
	r = hlib.Start()
	rng = hlib.NewRng(r.Seed)
	r.Rule = "rs: every code point (quick < 0x3100, thorough all) between two letters + sprinkled hostnames + raw bytes; " +
		"norm: hostnames from ASCII/unicode/odd label pools with TLDs, whitespace (all unicode.IsSpace runes + zero-width look-alikes) and case changes, " +
		"wildcards at every position, IPv4/IPv6 literals (public, private, mapped) and near-misses, local names, dot edge cases, arbitrary bytes/runes, TestNormalize's list; " +
		"every accepted output is fed back (idempotence); rec/managed/pair: random zones, delegation strings incl. escaped trailing dots, random and related token pairs. non-trivial = distinct op line"
	if r.Replay != "" {
		for _, t := range r.ReplayLines() {
			switch t[0] {
			case "rs":
				doRS(unRunes(t[1]))
			case "norm":
				doNorm("replay", unRunes(t[1]), len(t) > 9 && t[9] == "fix=true")
			case "rec":
				doRec(unRunes(t[1]), unRunes(t[2]), hlib.UnHex(t[3]))
			case "managed":
				doRec(unRunes(t[1]), unRunes(t[2]), nil)
			case "pair":
				doPair(unRunes(t[1]), hlib.UnHex(t[3]), hlib.UnHex(t[5]))
			}
		}
		r.Finish()
		return
	}
	nn, nr, lim := 20000, 3000, 0x3100
	if r.Thorough() {
		nn, nr, lim = 400000, 60000, 0x110000
	}
	genRS(lim)
	genNorm(nn)
	genRec(nr)
	r.Finish()
}
