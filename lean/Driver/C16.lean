import SpecterModel.C16.Drv

def main : IO Unit := Specter.C16.main
