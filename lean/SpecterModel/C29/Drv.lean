import SpecterModel.Util
import SpecterModel.C29.Model
/-! C29 line-protocol driver: model output (DIFF) + spec oracle from the property statement (SPEC). -/
namespace Specter.C29
open Specter.Util

structure DState where
  cfg : Cfg
  st : State

def parseClient (s : String) : Option Client :=
  match s.splitOn ":" with
  | [i, t] => i.toNat?.map (⟨·, t⟩)
  | _ => none

def clientStr (c : Client) : String := s!"{c.id}:{c.token}"
def boundStr (b : Option Client) : String := (b.map clientStr).getD "-"

def asciiHex (s : String) : String := bytesToHex (s.toList.map Char.toNat)

def codeStr : Code → String
  | .invHost => "inv:hostname" | .invPow => "inv:pow" | .failedPre => "failed_precondition"
  | .internal => "internal" | .denied => "permission_denied" | .kvErr => "err"

def resStr : Res → String
  | .ok => "ok" | .refused c => codeStr c

/-- spec: the zone itself or a subdomain of it -/
def zoneOrSub (h z : String) : Bool := h == z || h.endsWith ("." ++ z)

/-- spec: hostnames that must always be refused -/
def restricted (cfg : Cfg) (h : String) : Bool :=
  zoneOrSub h cfg.apex || zoneOrSub h cfg.acme || decide ((h.toList.filter (· == '.')).length < 2)

def parseNorm (s : String) : Option (Option String) :=
  if s = "!" then some none else (hexToAscii s).map some

def parseReq (cl norm pow cname target flags : String) : Option Req :=
  match parseClient cl, parseNorm norm, hexToAscii target with
  | some c, some n, some t =>
    let cn : Option (Option String) :=
      match cname.splitOn ":" with
      | a :: _ => if a = "!" then some none else (hexToAscii a).map some
      | _ => none
    match cn with
    | some cn => some ⟨c, n, pow.startsWith "1", cn, t, flags.startsWith "1", flags.endsWith "1" ∧ flags.length = 2⟩
    | none => none
  | _, _, _ => none

def dstep (d : DState) (toks : List String) (rhs : String) : DState × Verdict :=
  match toks with
  | ["reset"] => (⟨d.cfg, State.init⟩, .ok)
  | ["reset", apex, acme] =>
    match hexToAscii apex, hexToAscii acme with
    | some a, some z => (⟨⟨a, z⟩, State.init⟩, .ok)
    | _, _ => (d, .bad "reset args")
  | ["validate", cl, _raw, norm, pow, cname, target, flags] =>
    match parseReq cl norm pow cname target flags, rhs.splitOn " " with
    | some r, [res, asked, kvr, bound] =>
      let (st', o) := validate d.cfg d.st r
      let pre := r.norm.bind d.st.bound
      let mb := boundStr (r.norm.bind st'.bound)
      let m := s!"{resStr o.res} {(o.asked.map asciiHex).getD "-"} {o.kvReads} {mb}"
      let callerS := clientStr r.caller
      let bad : Option String :=
        if res = "ok" ∧ r.norm.isNone then some "accepted a hostname that does not normalise"
        else if res = "ok" ∧ !r.powOk then some "accepted without a valid proof of work"
        else if res = "ok" ∧ (r.norm.map (restricted d.cfg)).getD false then some "accepted an apex / acme-zone / bare domain"
        else if res = "ok" ∧ pre ≠ some r.caller ∧ r.cname ≠ some r.target then
          some "bound without the challenge CNAME pointing at the caller's target"
        else if (match pre with | some c => decide (c ≠ r.caller ∧ (res = "ok" ∨ bound ≠ clientStr c)) | none => false) then
          some "hostname bound to one client was validated / rebound by another"
        else if bound ≠ boundStr pre ∧ (res ≠ "ok" ∨ bound ≠ callerS) then some "binding changed without a successful validation by the new owner"
        else if res = "ok" ∧ bound ≠ callerS then some "validated but not bound to the caller"
        else none
      match bad with
      | some why => (⟨d.cfg, st'⟩, .spec why)
      | none => if m ≠ s!"{res} {asked} {kvr} {bound}" then (⟨d.cfg, st'⟩, .diff m) else (⟨d.cfg, st'⟩, .ok)
    | _, _ => (d, .bad "validate args")
  | ["instr", cl, _raw, norm, pow, target, gf] =>
    match parseReq cl norm pow "!" target (gf ++ "0"), rhs.splitOn " " with
    | some r, [res, name, content] =>
      let (mr, mo) := instruction d.cfg d.st r
      let m := s!"{resStr mr} {(mo.map (asciiHex ·.1)).getD "-"} {(mo.map (asciiHex ·.2)).getD "-"}"
      if res = "ok" ∧ (r.norm.isNone ∨ !r.powOk ∨ (r.norm.map (restricted d.cfg)).getD false) then
        (d, .spec "instructions handed out for a refused hostname / without proof of work")
      else if res = "ok" ∧ content ≠ asciiHex r.target then (d, .spec "instruction target is not the caller's token target")
      else if m ≠ s!"{res} {name} {content}" then (d, .diff m) else (d, .ok)
    | _, _ => (d, .bad "instr args")
  | ["release", cl, host] =>
    match parseClient cl, hexToAscii host, rhs.splitOn " " with
    | some c, some h, [res, bound] =>
      let (st', mr) := release d.st c h
      let m := s!"{resStr mr} {boundStr (st'.bound h)}"
      let pre := d.st.bound h
      let stranger : Bool := match pre with | some o => decide (o.token ≠ c.token ∧ bound ≠ clientStr o) | none => false
      if stranger then (⟨d.cfg, st'⟩, .spec "binding removed by a client that does not hold the owner's token")
      else if bound ≠ "-" ∧ bound ≠ boundStr pre then (⟨d.cfg, st'⟩, .spec "release created / changed a binding")
      else if m ≠ s!"{res} {bound}" then (⟨d.cfg, st'⟩, .diff m) else (⟨d.cfg, st'⟩, .ok)
    | _, _, _ => (d, .bad "release args")
  | _ => (d, .bad "unknown op")

def main : IO Unit := runLoop ⟨⟨"", ""⟩, State.init⟩ dstep

end Specter.C29
