import SpecterModel.Util
import SpecterModel.C40.Model
/-!
C40 line-protocol driver.

  copier <reads> <writes> => calls=<hex/…>;err=<e>;closes=<order>
      one real `pipe(...)` goroutine body over scripted streams. reads = `/`-separated `<hex>.<err>`,
      writes = `/`-separated `<n>.<err>`; err ∈ n | eof | short | invalid | e<k>; `-` = empty script.
      closes: W = the stream written to, R = the stream read from (sorted: the order is not part of the property).
  pipe2 <A.reads> <A.writes> <B.reads> <B.writes> => AB=<calls>;BA=<calls>;errs=<sorted,…>;cA=<n>;cB=<n>;chan=closed|open;cap=<cap of the channel>
      real `Pipe(A, B)` over two scripted streams.
  live <who closes> <hexA> <hexB> <tail hex> => AB=<hex>;BA=<hex>;tail=<hex>;end=<eof|closed|…>;cX=<n>;cY=<n>;nerr=<k>;chan=closed|open
      real `Pipe` over two bufconn pairs with real client goroutines (spec only).
-/
namespace Specter.C40
open Specter.Util

def parseErr (s : String) : Option (Option Err) :=
  if s = "n" then some none
  else if s = "eof" then some (some .eof)
  else if s = "short" then some (some .shortWrite)
  else if s = "invalid" then some (some .invalidWrite)
  else if s.startsWith "e" then (s.drop 1).toString.toNat?.map fun k => some (.other k)
  else none

def errStr : Option Err → String
  | none => "n" | some .eof => "eof" | some .shortWrite => "short" | some .invalidWrite => "invalid"
  | some (.other k) => s!"e{k}"

def parseList {α : Type} (f : String → Option α) (s : String) : Option (List α) :=
  if s = "-" then some [] else (s.splitOn "/").mapM f

def parseRead (s : String) : Option ReadRes :=
  match s.splitOn "." with
  | [d, e] => do let d ← hexToBytes d; let e ← parseErr e; pure ⟨d, e⟩
  | _ => none

def parseWrite (s : String) : Option WriteRes :=
  match s.splitOn "." with
  | [n, e] => do let n ← n.toInt?; let e ← parseErr e; pure ⟨n, e⟩
  | _ => none

def callsStr (cs : List (List Nat)) : String :=
  if cs.isEmpty then "-" else "/".intercalate (cs.map bytesToHex)

/-- spec view of a reader script: the bytes up to and including the terminating read, and how it terminates -/
def specSource : List ReadRes → List Nat × Option Err
  | [] => ([], none)
  | r :: rs => match r.err with
    | none => let q := specSource rs; (r.data ++ q.1, q.2)
    | some .eof => (r.data, none)
    | some e => (r.data, some e)

def field (rhs key : String) : String :=
  match (rhs.splitOn ";").filter (·.startsWith (key ++ "=")) with
  | f :: _ => (f.drop (key.length + 1)).toString
  | [] => "?"

def flattenHexCalls (s : String) : Option (List Nat) :=
  if s = "-" then some [] else ((s.splitOn "/").mapM hexToBytes).map List.flatten

def insertSorted (x : String) : List String → List String
  | [] => [x]
  | y :: ys => if x ≤ y then x :: y :: ys else y :: insertSorted x ys

def sortStrs (l : List String) : List String := l.foldr insertSorted []

def step (_ : Unit) (toks : List String) (rhs : String) : Unit × Verdict :=
  match toks with
  | ["reset"] => ((), .ok)
  | ["copier", rs, ws] =>
    match parseList parseRead rs, parseList parseWrite ws with
    | some rs, some ws =>
      let out := copy rs ws
      let model := s!"calls={callsStr out.calls};err={errStr out.err};closes=RW"
      -- property: with a destination that accepts everything, all source bytes up to its end arrive, in order;
      -- both streams are closed; the reported error is the source's
      let closes := field rhs "closes"
      let specMsg : Option String :=
        if closes.length ≠ 2 ∨ !(closes.contains 'W') ∨ !(closes.contains 'R') then some "each stream must be closed exactly once by the copier"
        else if ws.isEmpty then
          let src := specSource rs
          match flattenHexCalls (field rhs "calls") with
          | some got =>
            if got ≠ src.1 then some s!"destination must receive exactly {bytesToHex src.1}"
            else if field rhs "err" ≠ errStr src.2 then some s!"copier must report {errStr src.2}"
            else none
          | none => some "unparsable calls"
        else none
      match specMsg with
      | some m => ((), .spec m)
      | none => if model = rhs then ((), .ok) else ((), .diff model)
    | _, _ => ((), .bad "copier args")
  | ["pipe2", ar, aw, br, bw] =>
    match parseList parseRead ar, parseList parseWrite aw, parseList parseRead br, parseList parseWrite bw with
    | some ar, some aw, some br, some bw =>
      let ab := copy ar bw
      let ba := copy br aw
      let errs := sortStrs (([ab.err, ba.err].filter (· ≠ none)).map errStr)
      let es := if errs.isEmpty then "-" else ",".intercalate errs
      let model := s!"AB={callsStr ab.calls};BA={callsStr ba.calls};errs={es};cA=2;cB=2;chan=closed;cap=2"
      if field rhs "chan" ≠ "closed" then ((), .spec "Pipe must report completion by closing the channel")
      else if field rhs "cA" ≠ "2" ∨ field rhs "cB" ≠ "2" then ((), .spec "both streams must be closed by both copiers")
      else if (field rhs "cap").toNat?.getD 0 < errs.length then
        ((), .spec "error channel smaller than the number of errors: a copier blocks forever when nobody receives")
      else if model = rhs then ((), .ok) else ((), .diff model)
    | _, _, _, _ => ((), .bad "pipe2 args")
  | ["live", _who, a, b, tail] =>
    if field rhs "chan" ≠ "closed" then ((), .spec "Pipe must report completion by closing the channel")
    else if field rhs "AB" ≠ a ∨ field rhs "BA" ≠ b then ((), .spec "bytes written on one side must arrive on the other side in order")
    else if field rhs "tail" ≠ tail then ((), .spec "bytes written before the side finished must all arrive")
    else if field rhs "end" ≠ "eof" then ((), .spec s!"the far side must see end-of-stream, saw {field rhs "end"}")
    else if field rhs "cX" ≠ "2" ∨ field rhs "cY" ≠ "2" then ((), .spec "both streams must be closed by both copiers")
    else if (field rhs "nerr").toNat?.getD 9 > 2 then ((), .spec "more than two errors")
    else ((), .ok)
  | _ => ((), .bad "unknown op")

def main : IO Unit := runLoop () step

end Specter.C40
