import SpecterModel.C35.Ops
import SpecterModel.C35.Gen
/-!
# C35 model — `(*Gateway).proxyRewrite` (gateway/proxy_handler.go)

`http.Header` (a `map[string][]string` whose keys are canonical MIME header names) is a function
`String → List String` (`[]` = absent). The header statements of `proxyRewrite` are GENERATED
(`Gen.C35.rewriteOps`, `Gen.C35.delHeaders`) and interpreted here; `ProxyRequest.SetXForwarded` is
modelled after its source (go1.26 net/http/httputil). Library results that enter as inputs:
`net.SplitHostPort(in.RemoteAddr)` (`peer`), `url.URL.Hostname()` (`hostnameOf`).
-/
namespace Specter.C35

abbrev Hdr := String → List String

def Hdr.del (h : Hdr) (k : String) : Hdr := fun x => if x = k then [] else h x
def Hdr.set (h : Hdr) (k v : String) : Hdr := fun x => if x = k then [v] else h x
/-- header map from a parsed (key, values) list -/
def Hdr.ofList (l : List (String × List String)) : Hdr := fun k => (l.filter (·.1 = k)).flatMap (·.2)

abbrev XFF := "X-Forwarded-For"
abbrev XFH := "X-Forwarded-Host"
abbrev XFP := "X-Forwarded-Proto"
abbrev TCI := "True-Client-Ip"     -- canonical form of True-Client-IP
abbrev XRI := "X-Real-Ip"          -- canonical form of X-Real-IP

/-- what `proxyRewrite` reads from the inbound request -/
structure Req where
  protoMajor : Nat
  tls : Option String        -- `in.TLS.ServerName` when `in.TLS != nil`
  host : String              -- `in.Host`
  peer : Option String       -- host part of `net.SplitHostPort(in.RemoteAddr)`, `none` on error

structure Env where
  port : Nat                         -- g.GatewayPort
  hostnameOf : String → String       -- (&url.URL{Host: h}).Hostname()

/-- `out.URL.Host` after the first part of `proxyRewrite`:
HTTP/2 and HTTP/3 → `in.Host`; HTTP/1.1 over TLS → SNI; plain HTTP/1.1 → `in.Host`; then `.Hostname()`. -/
def urlHost (e : Env) (i : Req) : String :=
  e.hostnameOf (if 2 ≤ i.protoMajor then i.host else match i.tls with | some sni => sni | none => i.host)

/-- `ProxyRequest.SetXForwarded` -/
def setXForwarded (i : Req) (h : Hdr) : Hdr :=
  let h1 : Hdr := match i.peer with
    | some ip =>
      let prior := h XFF
      h.set XFF (if prior ≠ [] then ", ".intercalate prior ++ ", " ++ ip else ip)
    | none => h.del XFF
  let h2 := h1.set XFH i.host
  h2.set XFP (if i.tls.isSome then "https" else "http")

def applyOp (e : Env) (i : Req) (h : Hdr) : HOp → Hdr
  | .delList ks => ks.foldl Hdr.del h
  | .del k => h.del k
  | .setXForwarded => setXForwarded i h
  | .setHostPort k std => h.set k (if e.port = std then urlHost e i else urlHost e i ++ ":" ++ toString e.port)
  | .setConst k v => h.set k v

/-- Header map handed to the transport: the generated operation list applied to whatever
`httputil.ReverseProxy` passes as `Out.Header`. -/
def rewrite (e : Env) (i : Req) (out : Hdr) : Hdr := Gen.C35.rewriteOps.foldl (applyOp e i) out

/-- the value the property statement asks for in X-Forwarded-Host -/
def wantHost (e : Env) (i : Req) : String :=
  if e.port = 443 then urlHost e i else urlHost e i ++ ":" ++ toString e.port

end Specter.C35
