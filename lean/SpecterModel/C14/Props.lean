import SpecterModel.C14.Model
/-!
# C14 — Chord errors keep their identity and retryability across RPC

General lemmas for ANY error map with pairwise distinct messages, then the instances for the facts
GENERATED from spec/chord/errors.go (`Gen.C14`: registry, externals, mapInit; `msgs_distinct` and
`retryable_all_mapped` are re-decided whenever the generated text changes).

* `identity_preserved`, `retryability_preserved` — every mapped error (the 18 registry errors and
  context.DeadlineExceeded), through every handler kind (WrapError / WrapErrorKV / raw), arrives as the same Go
  value with the same retryability; `retryable_all_mapped`: every error the origin classifies retryable is mapped.
* `unknown_nonretryable` — whatever error value whose message is not a mapped message arrives non-retryable.
* `code_matches_retryability` — the twirp code on the wire is failed_precondition exactly for retryable origins.
* `deadline_preserved` (current code) and the regression witness `deadline_not_preserved_prefix` (the error map
  before the repair); `wrapped_loses_identity` (fact of the model, outside the reachable domain).
-/
namespace Specter.C14

/-! ## general lemmas -/

theorem find_of_nodup {α β : Type} [DecidableEq β] (f : α → β) (l : List α) (hnd : (l.map f).Nodup)
    (e : α) (he : e ∈ l) : l.find? (fun x => f x == f e) = some e := by
  induction l with
  | nil => cases he
  | cons x t ih =>
    simp only [List.map_cons, List.nodup_cons] at hnd
    by_cases hx : f x = f e
    · have hxe : x = e := by
        rcases List.mem_cons.mp he with h | h
        · exact h.symm
        · exact absurd (hx ▸ List.mem_map_of_mem (f := f) h) hnd.1
      simp [List.find?_cons, hxe]
    · have het : e ∈ t := by
        rcases List.mem_cons.mp he with h | h
        · exact absurd (h ▸ rfl) hx
        · exact h
      have : (f x == f e) = false := by simpa using hx
      simp only [List.find?_cons, this]
      exact ih hnd.2 het

theorem mapper_reg (reg : List Entry) (hnd : (reg.map Entry.msg).Nodup) (e : Entry) (he : e ∈ reg) (c : String)
    (kv : Option String := none) : mapper reg ⟨c, e.msg, kv⟩ = .reg e := by
  unfold mapper
  have hnd' : (reg.reverse.map Entry.msg).Nodup := by rw [List.map_reverse]; exact (List.reverse_perm _).nodup_iff.mpr hnd
  have := find_of_nodup Entry.msg reg.reverse hnd' e (List.mem_reverse.mpr he)
  simp only [this]

theorem mapper_unknown (reg : List Entry) (w : Wire) (h : w.msg ∉ reg.map Entry.msg) :
    mapper reg w = .twirp w.code w.msg w.kv := by
  unfold mapper
  have : reg.reverse.find? (fun e => e.msg == w.msg) = none := by
    rw [List.find?_eq_none]
    intro x hx hm
    exact h (List.mem_map.mpr ⟨x, List.mem_reverse.mp hx, by simpa using hm⟩)
  simp only [this]

/-- the message on the wire is the WHOLE `Error()` of the origin error — whatever the key (of any length) -/
theorem wrapErr_msg (known : List Entry) (how : String) (key : String) (x : GoErr) :
    (wrapErr known how key x).msg = x.msg := by
  unfold wrapErr; split <;> rfl

/-- **the key has no influence on what identifies the error**: code and message on the wire are the same for any two
keys — short or long, empty or huge; the key only shows in the meta entry "kv" of WrapErrorKV handlers -/
theorem wire_independent_of_key (kn : List Entry) (how : String) (k1 k2 : String) (x : GoErr) :
    (wrapErr kn how k1 x).code = (wrapErr kn how k2 x).code ∧ (wrapErr kn how k1 x).msg = (wrapErr kn how k2 x).msg := by
  unfold wrapErr; split <;> exact ⟨rfl, rfl⟩

theorem wire_kv (kn : List Entry) (key : String) (x : GoErr) :
    (wrapErr kn "WrapErrorKV" key x).kv = some key ∧ (wrapErr kn "WrapError" key x).kv = none ∧
    (wrapErr kn "raw" key x).kv = none := by
  refine ⟨?_, ?_, ?_⟩ <;> simp [wrapErr]

theorem identity_preserved_gen (known mp : List Entry) (hnd : (mp.map Entry.msg).Nodup) (how : String) (key : String)
    (e : Entry) (he : e ∈ mp) : acrossRPC known mp how key (.reg e) = .reg e := by
  unfold acrossRPC
  have h := wrapErr_msg known how key (.reg e)
  generalize wrapErr known how key (.reg e) = w at h
  obtain ⟨c, m, kv⟩ := w
  simp only [GoErr.msg] at h
  subst h
  exact mapper_reg mp hnd e he c kv

theorem unknown_nonretryable_gen (known mp : List Entry) (how : String) (key : String) (x : GoErr)
    (h : x.msg ∉ mp.map Entry.msg) :
    ∃ c kv, acrossRPC known mp how key x = .twirp c x.msg kv ∧ retryable known (acrossRPC known mp how key x) = false := by
  unfold acrossRPC
  have hm := wrapErr_msg known how key x
  rw [mapper_unknown mp _ (by rw [hm]; exact h), hm]
  exact ⟨_, _, rfl, rfl⟩

/-! ## the generated facts -/

/-- the fact everything rests on: the messages in the error map are pairwise distinct -/
theorem msgs_distinct : (mapped.map Entry.msg).Nodup := by decide

/-- every error the origin classifies as retryable is in the error map (so none loses its retryability) -/
theorem retryable_all_mapped : ∀ e ∈ known, e.retryable = true → e ∈ mapped := by decide

theorem mapped_known : ∀ e ∈ mapped, e ∈ known := by decide

/-- the model's code selection is the extracted one -/
theorem facts_wrapCodes :
    Gen.C14.wrapCodes = [("WrapError", "FailedPrecondition", "Internal"), ("WrapErrorKV", "FailedPrecondition", "Internal")] := by
  decide

/-- the message put on the wire is `err.Error()` itself (not a function of the key), the key goes to the meta
entry "kv" only — as extracted from rpc.WrapError / rpc.WrapErrorKV -/
theorem facts_wrapMsg :
    Gen.C14.wrapMsg = [("WrapError", "err.Error()", "-"), ("WrapErrorKV", "err.Error()", "key")] := by
  decide

/-- the handlers that wrap with WrapErrorKV are exactly those listed with a key, and every such key is a field of
the request (key / prefix / lease name): chosen by the remote caller, of any length -/
theorem facts_handlerKeys :
    Gen.C14.handlerKeys.map (·.1) = (Gen.C14.handlers.filter (fun h => h.2 == "WrapErrorKV")).map (·.1) ∧
    ∀ h ∈ Gen.C14.handlerKeys, h.2 ∈ ["string(req.GetKey())", "string(req.GetPrefix())", "string(req.GetLease())"] := by
  decide

/-- **C14 (identity).** Every mapped error a node returns — through a handler that wraps with
`rpc.WrapError`, `rpc.WrapErrorKV`, or returns it raw — is recognised by the caller as the same error. -/
theorem identity_preserved (how : String) (key : String) (e : Entry) (he : e ∈ mapped) :
    acrossRPC known mapped how key (.reg e) = .reg e :=
  identity_preserved_gen known mapped msgs_distinct how key e he

/-- **C14 (retryability).** … and is classified retryable by the caller exactly when it was at the origin. -/
theorem retryability_preserved (how : String) (key : String) (e : Entry) (he : e ∈ mapped) :
    retryable known (acrossRPC known mapped how key (.reg e)) = retryable known (.reg e) := by
  rw [identity_preserved how key e he]

/-- … in particular every sentinel that is retryable at the origin stays retryable at the caller. -/
theorem retryable_origin_stays_retryable (how : String) (key : String) (e : Entry) (he : e ∈ known) (hr : e.retryable = true) :
    retryable known (acrossRPC known mapped how key (.reg e)) = true := by
  rw [retryability_preserved how key e (retryable_all_mapped e he hr)]
  have hc : known.contains e = true := List.contains_iff_mem.mpr he
  simp only [retryable, hc, hr, Bool.and_self]

/-- **C14 (unknown).** An error whose message is not in the error map — an arbitrary error, a wrapped one —
reaches the caller as an unmapped twirp error and is NOT retryable there. -/
theorem unknown_nonretryable (how : String) (key : String) (x : GoErr) (h : x.msg ∉ mapped.map Entry.msg) :
    retryable known (acrossRPC known mapped how key x) = false := by
  obtain ⟨_, _, _, h2⟩ := unknown_nonretryable_gen known mapped how key x h; exact h2

/-- **C14 for every key.** Through a KV / lease handler (`rpc.WrapErrorKV(key, err)`), whatever key, prefix or lease
name the caller sent — of ANY length — every mapped error arrives as the same error with the origin's retryability,
and every unmapped one arrives non-retryable. -/
theorem kv_any_key_preserved (key : String) :
    (∀ e ∈ mapped, acrossRPC known mapped "WrapErrorKV" key (.reg e) = .reg e ∧
      retryable known (acrossRPC known mapped "WrapErrorKV" key (.reg e)) = retryable known (.reg e)) ∧
    (∀ x : GoErr, x.msg ∉ mapped.map Entry.msg → retryable known (acrossRPC known mapped "WrapErrorKV" key x) = false) :=
  ⟨fun e he => ⟨identity_preserved _ key e he, retryability_preserved _ key e he⟩,
   fun x h => unknown_nonretryable _ key x h⟩

/-- what the caller can tell about ANY origin error (its retryability, which sentinels it `Is`, its text) does not
depend on the key the request carried -/
theorem caller_view_independent_of_key (kn mp : List Entry) (how : String) (k1 k2 : String) (x : GoErr) :
    retryable kn (acrossRPC kn mp how k1 x) = retryable kn (acrossRPC kn mp how k2 x) ∧
    (∀ e, (acrossRPC kn mp how k1 x).is e = (acrossRPC kn mp how k2 x).is e) ∧
    (acrossRPC kn mp how k1 x).msg = (acrossRPC kn mp how k2 x).msg := by
  unfold acrossRPC mapper
  have h := wire_independent_of_key kn how k1 k2 x
  rw [wrapErr_msg kn how k1 x, wrapErr_msg kn how k2 x]
  cases hf : List.find? (fun e => e.msg == x.msg) mp.reverse with
  | some e => exact ⟨rfl, fun _ => rfl, rfl⟩
  | none =>
    refine ⟨rfl, fun _ => rfl, ?_⟩
    simp only [GoErr.msg, h.1]

/-- REGRESSION WITNESS (the message must reach the caller VERBATIM): if what arrives is not exactly a mapped message —
e.g. the message of a retryable mapped error `e` cut short because the key used up a size budget shared with it — the
caller gets an unmapped twirp error: it is not `e`, `Is` no sentinel, and is non-retryable although the origin
classified `e` retryable (whatever the wire code and meta). -/
theorem message_must_arrive_verbatim (e : Entry) (he : e ∈ mapped) (hr : e.retryable = true) (code m : String)
    (kv : Option String) (hm : m ∉ mapped.map Entry.msg) :
    retryable known (.reg e) = true ∧
    mapper mapped ⟨code, m, kv⟩ ≠ .reg e ∧
    (∀ e', (mapper mapped ⟨code, m, kv⟩).is e' = false) ∧
    retryable known (mapper mapped ⟨code, m, kv⟩) = false := by
  have hc : known.contains e = true := List.contains_iff_mem.mpr (mapped_known e he)
  rw [mapper_unknown mapped ⟨code, m, kv⟩ hm]
  exact ⟨by simp only [retryable, hc, hr, Bool.and_self], (fun h => by cases h), fun _ => rfl, rfl⟩

/-- the wire code is `failed_precondition` exactly for retryable origins (wrapping handlers) -/
theorem code_matches_retryability (how : String) (key : String) (x : GoErr) (hw : how ≠ "raw") :
    (wrapErr known how key x).code = "failed_precondition" ↔ retryable known x = true := by
  unfold wrapErr
  simp only [hw, if_false]
  cases retryable known x <;> simp

/-- FACT (outside the reachable domain: no handler returns a `%w`-wrapped chord error): wrapping a mapped
error changes the message, so the caller gets an unmapped twirp error, identity and retryability are lost. -/
theorem wrapped_loses_identity (how : String) (key : String) (e : Entry) (he : e ∈ mapped) (m : String)
    (hm : m ∉ mapped.map Entry.msg) :
    retryable known (.wrap m (.reg e)) = e.retryable ∧
    acrossRPC known mapped how key (.wrap m (.reg e)) ≠ .reg e ∧
    retryable known (acrossRPC known mapped how key (.wrap m (.reg e))) = false := by
  obtain ⟨c, kv, h1, h2⟩ := unknown_nonretryable_gen known mapped how key (.wrap m (.reg e)) hm
  refine ⟨?_, ?_, h2⟩
  · have hc : known.contains e = true := List.contains_iff_mem.mpr (mapped_known e he)
    simp only [retryable, hc, Bool.true_and]
  · rw [h1]; intro h; cases h

def deadlineEntry : Entry := ("context.DeadlineExceeded", "context deadline exceeded", true)

/-- **C14 (deadline, current code).** `context.DeadlineExceeded` is retryable at the origin and arrives as
`context.DeadlineExceeded` itself, retryable at the caller. -/
theorem deadline_preserved (how : String) (key : String) :
    retryable known (.reg deadlineEntry) = true ∧
    acrossRPC known mapped how key (.reg deadlineEntry) = .reg deadlineEntry ∧
    retryable known (acrossRPC known mapped how key (.reg deadlineEntry)) = true := by
  have hm : deadlineEntry ∈ mapped := by decide
  have hr : retryable known (.reg deadlineEntry) = true := by decide
  exact ⟨hr, identity_preserved how key _ hm, by rw [retryability_preserved how key _ hm]; exact hr⟩

/-- REGRESSION WITNESS (the error map before the repair = the registry alone): the deadline error was retryable
at the origin, went out with code failed_precondition, and arrived as an unmapped twirp error, NON-retryable. -/
theorem deadline_not_preserved_prefix (how : String) (key : String) :
    retryable known (.reg deadlineEntry) = true ∧
    (how ≠ "raw" → (wrapErr known how key (.reg deadlineEntry)).code = "failed_precondition") ∧
    retryable known (acrossRPC known mappedPreFix how key (.reg deadlineEntry)) = false := by
  have hr : retryable known (.reg deadlineEntry) = true := by decide
  refine ⟨hr, fun hw => (code_matches_retryability how key _ hw).mpr hr, ?_⟩
  have hno : (GoErr.reg deadlineEntry).msg ∉ mappedPreFix.map Entry.msg := by decide
  obtain ⟨_, _, _, h2⟩ := unknown_nonretryable_gen known mappedPreFix how key (.reg deadlineEntry) hno
  exact h2

/-! ## wrapped errors: `ErrorIsRetryable` looks through wrappers (`errors.Is`), the caller sees only the text -/

/-- `ErrorIsRetryable(x)` holds exactly when `errors.Is(x, e)` for some retryable known sentinel `e`. -/
theorem retryable_iff_is (kn : List Entry) (x : GoErr) :
    retryable kn x = true ↔ ∃ e ∈ kn, e.retryable = true ∧ x.is e = true := by
  induction x with
  | reg e' =>
    simp only [retryable, GoErr.is, Bool.and_eq_true, List.contains_iff_mem, decide_eq_true_eq]
    constructor
    · rintro ⟨hm, hr⟩; exact ⟨e', hm, hr, rfl⟩
    · rintro ⟨e, hm, hr, rfl⟩; exact ⟨hm, hr⟩
  | «opaque» m => simp [retryable, GoErr.is]
  | wrap m inner ih => simpa only [retryable, GoErr.is] using ih
  | twirp c m => simp [retryable, GoErr.is]

/-- an error that `Is` the sentinel `e` is classified like `e` itself, however deeply it is wrapped -/
theorem retryable_of_is (kn : List Entry) (x : GoErr) (e : Entry) (h : x.is e = true) :
    retryable kn x = retryable kn (.reg e) := by
  induction x with
  | reg e' => simp only [GoErr.is, decide_eq_true_eq] at h; subst h; rfl
  | «opaque» m => simp [GoErr.is] at h
  | wrap m inner ih => simp only [GoErr.is] at h; simp only [retryable]; exact ih h
  | twirp c m => simp [GoErr.is] at h

/-- the caller's value depends on the message alone: whatever carries the message of a mapped error `e` arrives as `e` -/
theorem identity_by_text_gen (kn mp : List Entry) (hnd : (mp.map Entry.msg).Nodup) (how : String) (key : String)
    (x : GoErr) (e : Entry) (he : e ∈ mp) (hm : x.msg = e.msg) : acrossRPC kn mp how key x = .reg e := by
  unfold acrossRPC
  have h := wrapErr_msg kn how key x
  generalize wrapErr kn how key x = w at h
  obtain ⟨c, m, kv⟩ := w
  simp only at h
  rw [h, hm]
  exact mapper_reg mp hnd e he c kv

/-- **C14 (wrapped, same text).** An error that wraps a mapped sentinel `e` (`errors.Is(x, e)`) without changing
its text is recognised by the caller as `e`, and is classified retryable by the caller exactly when it was at the
origin — this is where the origin's `errors.Is` (not `==`) is needed. -/
theorem text_preserving_wrapper_preserved (how : String) (key : String) (x : GoErr) (e : Entry) (he : e ∈ mapped)
    (his : x.is e = true) (hm : x.msg = e.msg) :
    acrossRPC known mapped how key x = .reg e ∧
    retryable known (acrossRPC known mapped how key x) = retryable known x := by
  have h := identity_by_text_gen known mapped msgs_distinct how key x e he hm
  exact ⟨h, by rw [h, retryable_of_is known x e his]⟩

theorem sameText_is (e : Entry) (n : Nat) : (sameText e n).is e = true := by
  induction n with
  | zero => simp [sameText, GoErr.is]
  | succ n ih => simpa only [sameText, GoErr.is] using ih

theorem sameText_msg (e : Entry) (n : Nat) : (sameText e n).msg = e.msg := by
  cases n <;> rfl

/-- … for every nesting depth of `fmt.Errorf("%w", ·)` / `errors.Join(·)` / text-preserving wrapper types, every
mapped error (registry + deadline) and every handler kind; with the origin's classification spelled out. -/
theorem sameText_preserved (how : String) (key : String) (e : Entry) (he : e ∈ mapped) (n : Nat) :
    acrossRPC known mapped how key (sameText e n) = .reg e ∧
    retryable known (sameText e n) = e.retryable ∧
    retryable known (acrossRPC known mapped how key (sameText e n)) = retryable known (sameText e n) := by
  obtain ⟨h1, h2⟩ := text_preserving_wrapper_preserved how key (sameText e n) e he (sameText_is e n) (sameText_msg e n)
  refine ⟨h1, ?_, h2⟩
  rw [retryable_of_is known _ e (sameText_is e n)]
  have hc : known.contains e = true := List.contains_iff_mem.mpr (mapped_known e he)
  simp only [retryable, hc, Bool.true_and]

/-- REGRESSION WITNESS (`err == e` instead of `errors.Is(err, e)` in ErrorIsRetryable): a retryable mapped error
inside a text-preserving wrapper is classified NON-retryable at the origin, while the caller — whatever code went
on the wire — maps the text back to the sentinel and classifies it retryable: origin and caller disagree. -/
theorem unwrap_is_needed (e : Entry) (he : e ∈ mapped) (hr : e.retryable = true) (n : Nat) (code : String) (kv : Option String) :
    retryableEq known (sameText e (n + 1)) = false ∧
    retryableEq known (mapper mapped ⟨code, (sameText e (n + 1)).msg, kv⟩) = true ∧
    retryable known (mapper mapped ⟨code, (sameText e (n + 1)).msg, kv⟩) = true := by
  have hc : known.contains e = true := List.contains_iff_mem.mpr (mapped_known e he)
  rw [sameText_msg, mapper_reg mapped msgs_distinct e he code kv]
  exact ⟨rfl, by simp only [retryableEq, hc, hr, Bool.and_self], by simp only [retryable, hc, hr, Bool.and_self]⟩

/-! ## the handler as a whole: the local node's answer, whatever the request, reaches the caller unchanged -/

/-- FACT extracted from chord/server_rpc.go: every handler is listed; EVERY error return of every handler has the
handler's one form (WrapError / WrapErrorKV / raw) and returns the `err` of a call on `r.LocalNode` or of `r.Factory`
(no handler answers with an error of its own making, e.g. a validation of request fields); and every handler that can
fail returns the error of its `r.LocalNode` call. -/
theorem facts_handlerReturns :
    Gen.C14.handlerReturns.map (·.1) = Gen.C14.handlers.map (·.1) ∧
    (∀ h ∈ Gen.C14.handlerReturns, ∀ r ∈ h.2,
      r.1 = howOf Gen.C14.handlers h.1 ∧ (r.2.1 = "r.LocalNode" ∨ (r.2.1 = "r" ∧ r.2.2 = "Factory"))) ∧
    (∀ h ∈ Gen.C14.handlerReturns, howOf Gen.C14.handlers h.1 ≠ "none" → ∃ r ∈ h.2, r.2.1 = "r.LocalNode") := by
  decide

/-- **C14 through the whole handler, for EVERY request.** Whatever the local node answers to the request
(`loc`; the request — key, ttl, token, … — is universally quantified away: the handler adds nothing of its own):
no error at the node = no error at the caller; a mapped error arrives as the same error, retryable at the caller
exactly when it was at the origin; any error whose text is not a mapped message arrives non-retryable. -/
theorem handler_transparent (how key : String) :
    callerSees known mapped how key none = none ∧
    (∀ e ∈ mapped, callerSees known mapped how key (some (.reg e)) = some (.reg e)) ∧
    (∀ x : GoErr, x.msg ∉ mapped.map Entry.msg →
      ∃ y, callerSees known mapped how key (some x) = some y ∧ retryable known y = false) := by
  refine ⟨rfl, fun e he => ?_, fun x hx => ?_⟩
  · have := identity_preserved how key e he
    simpa [callerSees, serve, acrossRPC] using this
  · exact ⟨acrossRPC known mapped how key x, by simp [callerSees, serve, acrossRPC], unknown_nonretryable how key x hx⟩

/-- `durationGuard` accepts exactly the ttls of at least a second (truncation toward zero: 999 999 999 ns, 0 and every
negative ttl are refused; 1.5 s is accepted) -/
theorem ttlOk_iff (ttl : Int) : ttlOk ttl = true ↔ second ≤ ttl := by
  unfold ttlOk second
  rw [decide_eq_true_iff]
  by_cases h : ttl < 0
  · have h1 : ttl.tdiv 1000000000 ≤ 0 := by
      have h2 : ttl.tdiv 1000000000 = -((-ttl).tdiv 1000000000) := by rw [Int.neg_tdiv]; omega
      rw [h2, Int.tdiv_eq_ediv_of_nonneg (by omega)]
      omega
    omega
  · rw [Int.tdiv_eq_ediv_of_nonneg (by omega)]
    omega

def invalidTTL : Entry := ("ErrKVLeaseInvalidTTL", "chord/kv: lease ttl must be greater than a second", false)
def leaseConflict : Entry := ("ErrKVLeaseConflict", "chord/kv: lease has not expired or was acquired by a different requester", false)
def leaseExpired : Entry := ("ErrKVLeaseExpired", "chord/kv: lease has expired with the given token", false)

theorem lease_entries :
    errNamed known "ErrKVLeaseInvalidTTL" = .reg invalidTTL ∧ invalidTTL ∈ mapped ∧
    errNamed known "ErrKVLeaseConflict" = .reg leaseConflict ∧ leaseConflict ∈ mapped ∧
    errNamed known "ErrKVLeaseExpired" = .reg leaseExpired ∧ leaseExpired ∈ mapped := by
  decide

/-- every answer of the node to a lease request is a mapped registry error (or success) -/
theorem leaseOutcome_mapped (op : LeaseOp) (ttl : Int) (st : LeaseSt) :
    leaseOutcome known op ttl st = none ∨ ∃ e ∈ mapped, leaseOutcome known op ttl st = some (.reg e) := by
  obtain ⟨h1, m1, h2, m2, h3, m3⟩ := lease_entries
  unfold leaseOutcome
  cases op <;> cases st <;> cases ttlOk ttl <;> simp only [h1, h2, h3, Bool.not_true, Bool.not_false] <;>
    first
    | exact Or.inl rfl
    | exact Or.inl trivial
    | exact Or.inr ⟨_, m1, rfl⟩
    | exact Or.inr ⟨_, m2, rfl⟩
    | exact Or.inr ⟨_, m3, rfl⟩

/-- **C14 for lease requests, every ttl / lease state / lease name.** What the node answers to Acquire / Renew /
Release — granted, ErrKVLeaseInvalidTTL, ErrKVLeaseConflict, ErrKVLeaseExpired — is what the remote caller gets: the
same error, with the origin's retryability, and no error when the node granted the request. -/
theorem lease_request_preserved (key : String) (op : LeaseOp) (ttl : Int) (st : LeaseSt) :
    callerSees known mapped "WrapErrorKV" key (leaseOutcome known op ttl st) = leaseOutcome known op ttl st ∧
    (∀ x, leaseOutcome known op ttl st = some x →
      ∃ y, callerSees known mapped "WrapErrorKV" key (some x) = some y ∧ retryable known y = retryable known x) := by
  rcases leaseOutcome_mapped op ttl st with h | ⟨e, he, h⟩
  · rw [h]; exact ⟨rfl, fun x hx => by cases hx⟩
  · rw [h]
    have ht := (handler_transparent "WrapErrorKV" key).2.1 e he
    refine ⟨ht, fun x hx => ?_⟩
    cases hx
    exact ⟨_, ht, rfl⟩

/-- **a ttl below one second** (0, 500 ms, 999 999 999 ns, any negative ttl), whatever the lease's state and name: the
node answers Acquire and Renew with ErrKVLeaseInvalidTTL, non-retryable — and so does the remote caller see it. -/
theorem lease_invalid_ttl_preserved (key : String) (op : LeaseOp) (hop : op ≠ .release) (ttl : Int) (h : ttl < second)
    (st : LeaseSt) :
    leaseOutcome known op ttl st = some (.reg invalidTTL) ∧
    retryable known (.reg invalidTTL) = false ∧
    callerSees known mapped "WrapErrorKV" key (leaseOutcome known op ttl st) = some (.reg invalidTTL) := by
  have hno : ttlOk ttl = false := by
    cases hk : ttlOk ttl with
    | false => rfl
    | true => exact absurd ((ttlOk_iff ttl).mp hk) (by omega)
  have ho : leaseOutcome known op ttl st = some (.reg invalidTTL) := by
    unfold leaseOutcome
    cases op with
    | release => exact absurd rfl hop
    | acquire => simp only [hno, Bool.not_false, if_true, lease_entries.1]
    | renew => simp only [hno, Bool.not_false, if_true, lease_entries.1]
  exact ⟨ho, by decide, by rw [ho]; exact (handler_transparent "WrapErrorKV" key).2.1 _ lease_entries.2.1⟩

/-- REGRESSION WITNESS (a handler that answers a sub-second ttl itself, with a twirp error that only QUOTES the
sentinel's text after the argument name): the caller gets an unmapped twirp error — not ErrKVLeaseInvalidTTL, `Is` no
sentinel — although the node, asked directly, answers exactly ErrKVLeaseInvalidTTL. -/
theorem own_answer_loses_identity (code : String) (kv : Option String) :
    mapper mapped ⟨code, "ttl " ++ invalidTTL.msg, kv⟩ ≠ .reg invalidTTL ∧
    (∀ e, (mapper mapped ⟨code, "ttl " ++ invalidTTL.msg, kv⟩).is e = false) := by
  have hm : ("ttl " ++ invalidTTL.msg) ∉ mapped.map Entry.msg := by decide
  rw [mapper_unknown mapped (Wire.mk code _ kv) hm]
  exact ⟨(fun h => by cases h), fun _ => rfl⟩

/-! ## non-vacuity (robust to additions to the registry) -/

-- lease requests: refused ttls exist on both sides of zero, accepted ones too; every outcome occurs
example : ttlOk 0 = false ∧ ttlOk 500000000 = false ∧ ttlOk 999999999 = false ∧ ttlOk (-5000000000) = false ∧
    ttlOk 1000000000 = true ∧ ttlOk 1500000000 = true := by decide
example : leaseOutcome known .acquire 500000000 .free = some (.reg invalidTTL) ∧
    leaseOutcome known .acquire 60000000000 .heldOther = some (.reg leaseConflict) ∧
    leaseOutcome known .renew 60000000000 .lapsed = some (.reg leaseExpired) ∧
    leaseOutcome known .release 0 .heldOther = some (.reg leaseExpired) ∧
    leaseOutcome known .renew 60000000000 .heldMine = none := by decide
example : ∃ h ∈ Gen.C14.handlerReturns, h.1 = "Renew" ∧ h.2 = [("WrapErrorKV", "r.LocalNode", "Renew")] := by decide

example : ∃ e ∈ registry, e.retryable = true := by decide
example : ∃ e ∈ registry, e.retryable = false := by decide
example : "boom" ∉ mapped.map Entry.msg := by decide
example : ∃ e, e ∈ mapped ∧ retryable known (.reg e) = true ∧ acrossRPC known mapped "WrapErrorKV" "some/key" (.reg e) = .reg e := by
  obtain ⟨e, he, hr⟩ : ∃ e ∈ mapped, e.retryable = true := by decide
  have hc : known.contains e = true := List.contains_iff_mem.mpr (mapped_known e he)
  exact ⟨e, he, by simp only [retryable, hc, hr, Bool.and_self], identity_preserved _ _ e he⟩

-- a KV handler and a (40-byte) key: every mapped error, retryable or not, still arrives as itself
example : ∃ key : String, key.length = 40 ∧ ∃ e ∈ mapped, e.retryable = true ∧
    acrossRPC known mapped "WrapErrorKV" key (.reg e) = .reg e ∧
    (wrapErr known "WrapErrorKV" key (.reg e)).kv = some key := by
  obtain ⟨e, he, hr⟩ : ∃ e ∈ mapped, e.retryable = true := by decide
  exact ⟨"tunnel/hostname/0123456789abcdef0123456/", by decide, e, he, hr, (kv_any_key_preserved _).1 e he |>.1, (wire_kv known _ _).1⟩
-- a mapped retryable message cut short is not a mapped message (hypotheses of message_must_arrive_verbatim)
example : ∃ e ∈ mapped, e.retryable = true ∧ "chord/kv: processing node no longer has ownership over r" ∉ mapped.map Entry.msg := by
  decide
example : ∃ h ∈ Gen.C14.handlerKeys, h.1 = "Acquire" := by decide

-- a retryable and a non-retryable mapped error inside a two-level text-preserving wrapper
example : ∃ e ∈ mapped, e.retryable = true ∧ (sameText e 2).is e = true ∧ (sameText e 2).msg = e.msg ∧ sameText e 2 ≠ .reg e := by
  obtain ⟨e, he, hr⟩ : ∃ e ∈ mapped, e.retryable = true := by decide
  exact ⟨e, he, hr, sameText_is e 2, sameText_msg e 2, by simp [sameText]⟩
example : ∃ e ∈ mapped, e.retryable = false ∧ retryable known (sameText e 1) = false := by
  obtain ⟨e, he, hr⟩ : ∃ e ∈ mapped, e.retryable = false := by decide
  exact ⟨e, he, hr, by rw [(sameText_preserved "WrapError" "" e he 1).2.1]; exact hr⟩
example : ∃ x : GoErr, retryable known x = true ∧ ∀ e, x ≠ .reg e := by
  obtain ⟨e, he, hr⟩ : ∃ e ∈ mapped, e.retryable = true := by decide
  exact ⟨sameText e 1, by rw [(sameText_preserved "raw" "" e he 1).2.1]; exact hr, by intro e' h; cases h⟩

end Specter.C14
