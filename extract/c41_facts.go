package main

// c41-facts <overlay/reuse.go> <overlay/reaper.go> : print Gen.lean — the cache-status snapshot and the decision
//                                  tree of QUIC.reuseConnection and what QUIC.reapPeer does with the cache entry,
//                                  translated mechanically from the Go AST.
// c41-lines <overlay/reuse.go> <overlay/reaper.go> : print the same functions as exhaustive tables (one row per
//                                  input) for the harness: `snap <cached> <cdir> <dir> => <state>,<dir>`,
//                                  `leaf <ps> <pd> <cached> <cdir> <dir> <rc> <rcdir> => <act>` and
//                                  `reap <loaded> => del=…,closeCached=…,closeTrigger=…`.
//
// Supported shape (anything else aborts with a non-zero exit, which ./check reports as a broken obligation):
//   snapshot: the `if cached {…} else {…}` that follows `cache, cached := t.cachedConnections.Load(qKey)`;
//             assignments to negotiation.CacheState / negotiation.CacheDirection, nested ifs on
//             `cache.direction ==/!= directionX`, `dir ==/!= directionX`, `cached`, `!cached`.
//   decision: the `switch negotiation.CacheState` that follows `unlock := t.cachedMutex.Lock(qKey)`;
//             nested switches on negotiation.CacheState / negotiation.CacheDirection, ifs as above,
//             `cache, cached = t.cachedConnections.Load(qKey)` (re-load; also as the init statement of an if:
//             `if cache, cached = t.cachedConnections.Load(qKey); <cond> {…}`), `fresh.quic.CloseWithError(…)`,
//             `cache.quic.CloseWithError(…)`, `t.cachedConnections.Store(qKey, fresh|cache)`,
//             `t.cachedConnections.Delete(qKey)`, `return <cache|fresh|nil>, <bool>, <nil|wrapReuseError(…)|other>`.
//   reapPeer: `qKey := t.makeCachedKey(peer)`, `unlock := t.cachedMutex.Lock(qKey)` + `defer unlock()` (every cache
//             access must come after it), `x, ok := t.cachedConnections.LoadAndDelete(qKey)` / `….Load(qKey)`,
//             `t.cachedConnections.Delete(qKey)`, `if ok {…} else {…}` / `if !ok`, `x.quic.CloseWithError(…)` (only
//             where ok is known to be true: x is a nil pointer otherwise), `<q>.CloseWithError(…)` on the connection
//             parameter, logging and the RTT bookkeeping (`t.rttMap.Delete`, `if t.RTTRecorder != nil {…}`), `return`.
//             Facts per path: is the peer's cache entry gone afterwards (del), is the connection of the entry that was
//             CACHED closed (closeCached), is the connection that triggered the reap closed (closeTrigger).
//   After the re-load `cached` means rc (does the re-load find an entry) and `cache.direction` means rcdir (the
//   direction of the entry found by the re-load). `cache` is a nil pointer when the re-load finds nothing, so
//   rcdir may only be read where rc = true is established: on the right of `cached && …` or inside the
//   then-branch of an `if` whose condition implies `cached`; anything else aborts.

import (
	"fmt"
	"go/ast"
	"go/parser"
	"go/token"
	"os"
	"strings"
)

type c41Env struct {
	ps, pd           string // peer status: cached|fresh, incoming|outgoing
	cached           bool
	cdir, dir        string
	rc               bool   // result of the re-load
	rcdir            string // direction of the entry found by the re-load (meaningful only when rc)
	reloaded         bool
	closeF, closeC   bool
	store            string // "", fresh, cache
	del              bool
	snapState, snapD string
}

// node of the translated tree
type c41Node struct {
	kind   string // if | matchState | matchDir | leaf | snapleaf
	cond   string // lean condition text for `if`
	condFn func(e *c41Env) bool
	a, b   *c41Node // then/else ; cached/fresh ; incoming/outgoing
	leaf   string   // lean text of the leaf
	leafFn func(e *c41Env) string
}

func c41Fail(fset *token.FileSet, n ast.Node, msg string) {
	fmt.Fprintf(os.Stderr, "c41-facts: %s: unsupported: %s\n", fset.Position(n.Pos()), msg)
	os.Exit(1)
}

func c41Sel(e ast.Expr) string {
	switch x := e.(type) {
	case *ast.Ident:
		return x.Name
	case *ast.SelectorExpr:
		return c41Sel(x.X) + "." + x.Sel.Name
	case *ast.ParenExpr:
		return c41Sel(x.X)
	}
	return "?"
}

type c41Ctx struct {
	fset *token.FileSet
}

// does the condition being true imply that the identifier `cached` is true?
func c41ImpliesCached(e ast.Expr) bool {
	switch x := e.(type) {
	case *ast.ParenExpr:
		return c41ImpliesCached(x.X)
	case *ast.Ident:
		return x.Name == "cached"
	case *ast.BinaryExpr:
		if x.Op == token.LAND {
			return c41ImpliesCached(x.X) || c41ImpliesCached(x.Y)
		}
		if x.Op == token.LOR {
			return c41ImpliesCached(x.X) && c41ImpliesCached(x.Y)
		}
	}
	return false
}

// condition → (lean text, evaluator). `reloaded` selects which `cached` / `cache` variables are meant (the
// snapshot's or the re-load's); `rcKnown` = the re-loaded `cached` is known to be true where e is evaluated.
func (c *c41Ctx) cond(e ast.Expr, reloaded, rcKnown bool) (string, func(*c41Env) bool) {
	switch x := e.(type) {
	case *ast.ParenExpr:
		return c.cond(x.X, reloaded, rcKnown)
	case *ast.Ident:
		if x.Name == "cached" {
			if reloaded {
				return "rc = true", func(e *c41Env) bool { return e.rc }
			}
			return "cached = true", func(e *c41Env) bool { return e.cached }
		}
	case *ast.UnaryExpr:
		if x.Op == token.NOT {
			t, f := c.cond(x.X, reloaded, rcKnown)
			return "¬ (" + t + ")", func(e *c41Env) bool { return !f(e) }
		}
	case *ast.BinaryExpr:
		if x.Op == token.EQL || x.Op == token.NEQ {
			l, r := c41Sel(x.X), c41Sel(x.Y)
			if strings.HasPrefix(l, "direction") {
				l, r = r, l
			}
			var v string
			var get func(*c41Env) string
			switch l {
			case "cache.direction":
				if reloaded {
					if !rcKnown {
						c41Fail(c.fset, e, "cache.direction after the re-load where `cached` is not known to be true (nil entry)")
					}
					v, get = "rcdir", func(e *c41Env) string { return e.rcdir }
				} else {
					v, get = "cdir", func(e *c41Env) string { return e.cdir }
				}
			case "dir":
				v, get = "dir", func(e *c41Env) string { return e.dir }
			default:
				c41Fail(c.fset, e, "comparison of "+l)
			}
			var want string
			switch r {
			case "directionIncoming":
				want = "incoming"
			case "directionOutgoing":
				want = "outgoing"
			default:
				c41Fail(c.fset, e, "comparison with "+r)
			}
			if x.Op == token.EQL {
				return v + " = Dir." + want, func(e *c41Env) bool { return get(e) == want }
			}
			return "¬ (" + v + " = Dir." + want + ")", func(e *c41Env) bool { return get(e) != want }
		}
		if x.Op == token.LAND || x.Op == token.LOR {
			lt, lf := c.cond(x.X, reloaded, rcKnown)
			// Go evaluates the right operand of && only when the left one is true
			rt, rf := c.cond(x.Y, reloaded, rcKnown || (x.Op == token.LAND && reloaded && c41ImpliesCached(x.X)))
			if x.Op == token.LAND {
				return "(" + lt + ") ∧ (" + rt + ")", func(e *c41Env) bool { return lf(e) && rf(e) }
			}
			return "(" + lt + ") ∨ (" + rt + ")", func(e *c41Env) bool { return lf(e) || rf(e) }
		}
	}
	c41Fail(c.fset, e, "condition")
	return "", nil
}

type c41Acc struct {
	reloaded, closeF, closeC, del bool
	rcKnown                       bool // after the re-load: `cached` is known to be true on this path
	store                         string
	snapState, snapDir            string
}

func c41ProtoConst(s string) (string, string) {
	switch s {
	case "protocol.Connection_CACHED":
		return "state", "cached"
	case "protocol.Connection_FRESH":
		return "state", "fresh"
	case "protocol.Connection_INCOMING":
		return "dir", "incoming"
	case "protocol.Connection_OUTGOING":
		return "dir", "outgoing"
	}
	return "", ""
}

func c41B(b bool) string {
	if b {
		return "true"
	}
	return "false"
}

// `cache, cached <=|:=> t.cachedConnections.Load(qKey)`
func c41IsReload(x *ast.AssignStmt) bool {
	if len(x.Lhs) == 2 && c41Sel(x.Lhs[0]) == "cache" && c41Sel(x.Lhs[1]) == "cached" && len(x.Rhs) == 1 {
		if call, ok := x.Rhs[0].(*ast.CallExpr); ok && c41Sel(call.Fun) == "t.cachedConnections.Load" {
			return len(call.Args) == 1 && c41Sel(call.Args[0]) == "qKey"
		}
	}
	return false
}

// decision statements → tree
func (c *c41Ctx) dec(stmts []ast.Stmt, acc c41Acc) *c41Node {
	for i, s := range stmts {
		rest := stmts[i+1:]
		switch x := s.(type) {
		case *ast.EmptyStmt:
			continue
		case *ast.AssignStmt:
			if c41IsReload(x) {
				if x.Tok != token.ASSIGN { // `:=` would declare new variables that shadow the snapshot's only up to the end of the block
					c41Fail(c.fset, s, "re-load that declares new variables (:=)")
				}
				acc.reloaded = true
				acc.rcKnown = false
				continue
			}
			c41Fail(c.fset, s, "assignment")
		case *ast.ExprStmt:
			call, ok := x.X.(*ast.CallExpr)
			if !ok {
				c41Fail(c.fset, s, "expression statement")
			}
			switch c41Sel(call.Fun) {
			case "fresh.quic.CloseWithError":
				acc.closeF = true
			case "cache.quic.CloseWithError":
				acc.closeC = true
			case "t.cachedConnections.Store":
				if len(call.Args) != 2 || (c41Sel(call.Args[1]) != "fresh" && c41Sel(call.Args[1]) != "cache") {
					c41Fail(c.fset, s, "Store argument")
				}
				acc.store = c41Sel(call.Args[1])
			case "t.cachedConnections.Delete":
				acc.del = true
			default:
				if strings.HasPrefix(c41Sel(call.Fun), "t.Logger.") {
					continue
				}
				c41Fail(c.fset, s, "call "+c41Sel(call.Fun))
			}
			continue
		case *ast.IfStmt:
			if x.Init != nil {
				// `if cache, cached = t.cachedConnections.Load(qKey); <cond> {…} else {…}`: the re-load as the init
				// statement of the if. With `=` (no new variables) it is the statement followed by the plain if.
				as, ok := x.Init.(*ast.AssignStmt)
				if !ok || as.Tok != token.ASSIGN || !c41IsReload(as) {
					c41Fail(c.fset, s, "if with an init statement other than the re-load `cache, cached = t.cachedConnections.Load(qKey)`")
				}
				plain := *x
				plain.Init = nil
				return c.dec(append([]ast.Stmt{as, &plain}, rest...), acc)
			}
			txt, fn := c.cond(x.Cond, acc.reloaded, acc.rcKnown)
			thenAcc := acc
			if acc.reloaded && c41ImpliesCached(x.Cond) {
				thenAcc.rcKnown = true
			}
			thenN := c.dec(append(append([]ast.Stmt{}, x.Body.List...), rest...), thenAcc)
			var elseStmts []ast.Stmt
			switch e := x.Else.(type) {
			case nil:
			case *ast.BlockStmt:
				elseStmts = e.List
			case *ast.IfStmt:
				elseStmts = []ast.Stmt{e}
			}
			elseN := c.dec(append(append([]ast.Stmt{}, elseStmts...), rest...), acc)
			return &c41Node{kind: "if", cond: txt, condFn: fn, a: thenN, b: elseN}
		case *ast.SwitchStmt:
			if x.Init != nil || x.Tag == nil {
				c41Fail(c.fset, s, "switch without tag")
			}
			tag := c41Sel(x.Tag)
			var kind, v1, v2 string
			switch tag {
			case "negotiation.CacheState":
				kind, v1, v2 = "matchState", "cached", "fresh"
			case "negotiation.CacheDirection":
				kind, v1, v2 = "matchDir", "incoming", "outgoing"
			default:
				c41Fail(c.fset, s, "switch on "+tag)
			}
			n := &c41Node{kind: kind}
			for _, cc := range x.Body.List {
				clause := cc.(*ast.CaseClause)
				if clause.List == nil { // default: values outside the two-valued model enums; must not fall through
					c.dec(append(append([]ast.Stmt{}, clause.Body...), rest...), acc)
					continue
				}
				for _, v := range clause.List {
					_, val := c41ProtoConst(c41Sel(v))
					sub := c.dec(append(append([]ast.Stmt{}, clause.Body...), rest...), acc)
					switch val {
					case v1:
						n.a = sub
					case v2:
						n.b = sub
					default:
						c41Fail(c.fset, v, "case value "+c41Sel(v))
					}
				}
			}
			if n.a == nil || n.b == nil {
				// a missing case falls out of the switch: continue with the statements after it
				fall := c.dec(rest, acc)
				if n.a == nil {
					n.a = fall
				}
				if n.b == nil {
					n.b = fall
				}
			}
			return n
		case *ast.ReturnStmt:
			if len(x.Results) != 3 {
				c41Fail(c.fset, s, "return arity")
			}
			var ret string
			switch c41Sel(x.Results[0]) {
			case "cache":
				ret = "cache"
			case "fresh":
				ret = "fresh"
			case "nil":
				ret = "none"
			default:
				c41Fail(c.fset, s, "returned connection")
			}
			reused := c41Sel(x.Results[1])
			if reused != "true" && reused != "false" {
				c41Fail(c.fset, s, "returned reused flag")
			}
			errk := "other"
			if c41Sel(x.Results[2]) == "nil" {
				errk = "nil"
			} else if call, ok := x.Results[2].(*ast.CallExpr); ok && c41Sel(call.Fun) == "wrapReuseError" {
				errk = "retry"
			}
			a := acc
			leaf := fmt.Sprintf("{ reload := %s, closeFresh := %s, closeCache := %s, store := Store.%s, del := %s, ret := Ret.%s, reused := %s, err := ErrK.%s }",
				c41B(a.reloaded), c41B(a.closeF), c41B(a.closeC), map[string]string{"": "no", "fresh": "fresh", "cache": "cache"}[a.store],
				c41B(a.del), ret, reused, errk)
			row := fmt.Sprintf("reload=%s,closeFresh=%s,closeCache=%s,store=%s,del=%s,ret=%s,reused=%s,err=%s",
				c41B(a.reloaded), c41B(a.closeF), c41B(a.closeC), map[string]string{"": "no", "fresh": "fresh", "cache": "cache"}[a.store],
				c41B(a.del), ret, reused, errk)
			return &c41Node{kind: "leaf", leaf: leaf, leafFn: func(*c41Env) string { return row }}
		default:
			c41Fail(c.fset, s, fmt.Sprintf("statement %T", s))
		}
	}
	c41Fail(c.fset, stmts0(stmts), "path without return")
	return nil
}

func stmts0(s []ast.Stmt) ast.Node {
	if len(s) > 0 {
		return s[len(s)-1]
	}
	return &ast.BadStmt{}
}

// snapshot statements → tree
func (c *c41Ctx) snap(stmts []ast.Stmt, acc c41Acc) *c41Node {
	for i, s := range stmts {
		rest := stmts[i+1:]
		switch x := s.(type) {
		case *ast.AssignStmt:
			if len(x.Lhs) == 1 && len(x.Rhs) == 1 {
				k, v := c41ProtoConst(c41Sel(x.Rhs[0]))
				switch c41Sel(x.Lhs[0]) {
				case "negotiation.CacheState":
					if k == "state" {
						acc.snapState = v
						continue
					}
				case "negotiation.CacheDirection":
					if k == "dir" {
						acc.snapDir = v
						continue
					}
				}
			}
			c41Fail(c.fset, s, "snapshot assignment")
		case *ast.IfStmt:
			txt, fn := c.cond(x.Cond, false, false)
			thenN := c.snap(append(append([]ast.Stmt{}, x.Body.List...), rest...), acc)
			var elseStmts []ast.Stmt
			switch e := x.Else.(type) {
			case nil:
			case *ast.BlockStmt:
				elseStmts = e.List
			case *ast.IfStmt:
				elseStmts = []ast.Stmt{e}
			}
			elseN := c.snap(append(append([]ast.Stmt{}, elseStmts...), rest...), acc)
			return &c41Node{kind: "if", cond: txt, condFn: fn, a: thenN, b: elseN}
		default:
			c41Fail(c.fset, s, fmt.Sprintf("snapshot statement %T", s))
		}
	}
	if acc.snapState == "" || acc.snapDir == "" {
		c41Fail(c.fset, stmts0(stmts), "snapshot path leaves CacheState/CacheDirection unset (UNKNOWN)")
	}
	st, d := acc.snapState, acc.snapDir
	return &c41Node{kind: "leaf", leaf: "(CState." + st + ", Dir." + d + ")", leafFn: func(*c41Env) string { return st + "," + d }}
}

func (n *c41Node) lean(ind string) string {
	switch n.kind {
	case "leaf":
		return ind + n.leaf
	case "if":
		return ind + "if " + n.cond + " then\n" + n.a.lean(ind+"  ") + "\n" + ind + "else\n" + n.b.lean(ind+"  ")
	case "matchState":
		return ind + "match ps with\n" + ind + "| CState.cached =>\n" + n.a.lean(ind+"    ") + "\n" + ind + "| CState.fresh =>\n" + n.b.lean(ind+"    ")
	case "matchDir":
		return ind + "match pd with\n" + ind + "| Dir.incoming =>\n" + n.a.lean(ind+"    ") + "\n" + ind + "| Dir.outgoing =>\n" + n.b.lean(ind+"    ")
	}
	return "?"
}

func (n *c41Node) eval(e *c41Env) string {
	switch n.kind {
	case "leaf":
		return n.leafFn(e)
	case "if":
		if n.condFn(e) {
			return n.a.eval(e)
		}
		return n.b.eval(e)
	case "matchState":
		if e.ps == "cached" {
			return n.a.eval(e)
		}
		return n.b.eval(e)
	case "matchDir":
		if e.pd == "incoming" {
			return n.a.eval(e)
		}
		return n.b.eval(e)
	}
	return "?"
}

func c41Trees(path string) (*c41Node, *c41Node) {
	fset := token.NewFileSet()
	f, err := parser.ParseFile(fset, path, nil, 0)
	if err != nil {
		fmt.Fprintln(os.Stderr, "c41-facts:", err)
		os.Exit(1)
	}
	c := &c41Ctx{fset: fset}
	var fn *ast.FuncDecl
	for _, d := range f.Decls {
		if fd, ok := d.(*ast.FuncDecl); ok && fd.Name.Name == "reuseConnection" {
			fn = fd
		}
	}
	if fn == nil {
		fmt.Fprintln(os.Stderr, "c41-facts: func reuseConnection not found")
		os.Exit(1)
	}
	var snapN, decN *c41Node
	list := fn.Body.List
	for i, s := range list {
		as, ok := s.(*ast.AssignStmt)
		if !ok || len(as.Rhs) != 1 {
			continue
		}
		call, ok := as.Rhs[0].(*ast.CallExpr)
		if !ok {
			continue
		}
		switch c41Sel(call.Fun) {
		case "t.cachedConnections.Load":
			// must sit between RLock and rUnlock(): previous statement takes the read lock, the if follows, then rUnlock()
			if i == 0 || i+2 >= len(list) {
				c41Fail(fset, s, "position of the snapshot load")
			}
			prev, ok1 := list[i-1].(*ast.AssignStmt)
			if !ok1 || len(prev.Rhs) != 1 {
				c41Fail(fset, s, "snapshot load not preceded by RLock")
			}
			if pc, ok := prev.Rhs[0].(*ast.CallExpr); !ok || c41Sel(pc.Fun) != "t.cachedMutex.RLock" {
				c41Fail(fset, s, "snapshot load not preceded by t.cachedMutex.RLock")
			}
			ifs, ok2 := list[i+1].(*ast.IfStmt)
			if !ok2 {
				c41Fail(fset, list[i+1], "snapshot load not followed by if")
			}
			if es, ok := list[i+2].(*ast.ExprStmt); !ok || c41Sel(es.X.(*ast.CallExpr).Fun) != "rUnlock" {
				c41Fail(fset, list[i+2], "snapshot if not followed by rUnlock()")
			}
			snapN = c.snap([]ast.Stmt{ifs}, c41Acc{})
		case "t.cachedMutex.Lock":
			// `unlock := t.cachedMutex.Lock(qKey)`, `defer unlock()`, then the decision statements to the end
			j := i + 1
			if j < len(list) {
				if _, ok := list[j].(*ast.DeferStmt); ok {
					j++
				} else {
					c41Fail(fset, list[j], "Lock not followed by defer unlock()")
				}
			}
			decN = c.dec(list[j:], c41Acc{})
		}
	}
	if snapN == nil || decN == nil {
		fmt.Fprintln(os.Stderr, "c41-facts: snapshot or decision block not found")
		os.Exit(1)
	}
	return snapN, decN
}

// ---------- reapPeer (overlay/reaper.go) ----------

type c41ReapAcc struct {
	locked               bool
	entryVar, loadedVar  string
	loadedKnown          bool // on this path the loaded flag is known to be true
	del, closeC, closeTr bool
}

type c41ReapCtx struct {
	fset  *token.FileSet
	qName string // name of the *quic.Conn parameter: the connection that triggered the reap
}

func (c *c41ReapCtx) leaf(a c41ReapAcc) *c41Node {
	lean := fmt.Sprintf("{ del := %s, closeCached := %s, closeTrigger := %s }", c41B(a.del), c41B(a.closeC), c41B(a.closeTr))
	row := fmt.Sprintf("del=%s,closeCached=%s,closeTrigger=%s", c41B(a.del), c41B(a.closeC), c41B(a.closeTr))
	return &c41Node{kind: "leaf", leaf: lean, leafFn: func(*c41Env) string { return row }}
}

// only the RTT bookkeeping may sit in the body of `if t.RTTRecorder != nil`
func (c *c41ReapCtx) rttOnly(b *ast.BlockStmt) {
	for _, s := range b.List {
		es, ok := s.(*ast.ExprStmt)
		if ok {
			if call, ok := es.X.(*ast.CallExpr); ok && (strings.HasPrefix(c41Sel(call.Fun), "t.RTTRecorder.") || strings.HasPrefix(c41Sel(call.Fun), "t.rttMap.") || strings.HasPrefix(c41Sel(call.Fun), "t.Logger.")) {
				continue
			}
		}
		c41Fail(c.fset, s, "statement inside the RTTRecorder block of reapPeer")
	}
}

func (c *c41ReapCtx) walk(stmts []ast.Stmt, acc c41ReapAcc) *c41Node {
	for i, s := range stmts {
		rest := stmts[i+1:]
		switch x := s.(type) {
		case *ast.EmptyStmt:
			continue
		case *ast.DeferStmt:
			if c41Sel(x.Call.Fun) == "unlock" && acc.locked {
				continue
			}
			c41Fail(c.fset, s, "defer in reapPeer")
		case *ast.AssignStmt:
			if len(x.Rhs) != 1 {
				c41Fail(c.fset, s, "reapPeer assignment")
			}
			call, ok := x.Rhs[0].(*ast.CallExpr)
			if !ok {
				c41Fail(c.fset, s, "reapPeer assignment")
			}
			switch c41Sel(call.Fun) {
			case "t.makeCachedKey":
				continue
			case "t.cachedMutex.Lock":
				if len(x.Lhs) != 1 || c41Sel(x.Lhs[0]) != "unlock" || i+1 >= len(stmts) {
					c41Fail(c.fset, s, "reapPeer: Lock must be `unlock := t.cachedMutex.Lock(qKey)` followed by `defer unlock()`")
				}
				if d, ok := stmts[i+1].(*ast.DeferStmt); !ok || c41Sel(d.Call.Fun) != "unlock" {
					c41Fail(c.fset, s, "reapPeer: Lock not followed by defer unlock()")
				}
				acc.locked = true
				continue
			case "t.cachedConnections.LoadAndDelete", "t.cachedConnections.Load":
				if !acc.locked {
					c41Fail(c.fset, s, "reapPeer reads the cache outside the key's Lock")
				}
				if len(x.Lhs) != 2 {
					c41Fail(c.fset, s, "reapPeer cache load")
				}
				acc.entryVar, acc.loadedVar = c41Sel(x.Lhs[0]), c41Sel(x.Lhs[1])
				acc.loadedKnown = false
				if acc.loadedVar == "_" {
					c41Fail(c.fset, s, "reapPeer cache load without the found flag")
				}
				if c41Sel(call.Fun) == "t.cachedConnections.LoadAndDelete" {
					acc.del = true
				}
				continue
			}
			c41Fail(c.fset, s, "reapPeer assignment from "+c41Sel(call.Fun))
		case *ast.ExprStmt:
			call, ok := x.X.(*ast.CallExpr)
			if !ok {
				c41Fail(c.fset, s, "reapPeer expression statement")
			}
			fn := c41Sel(call.Fun)
			switch {
			case strings.HasPrefix(fn, "t.Logger."), strings.HasPrefix(fn, "t.rttMap."), strings.HasPrefix(fn, "t.RTTRecorder."):
				continue
			case fn == "t.cachedConnections.Delete":
				if !acc.locked {
					c41Fail(c.fset, s, "reapPeer changes the cache outside the key's Lock")
				}
				acc.del = true
				continue
			case acc.entryVar != "" && acc.entryVar != "_" && fn == acc.entryVar+".quic.CloseWithError":
				if !acc.loadedKnown {
					c41Fail(c.fset, s, "reapPeer closes the loaded entry where it is not known to exist (nil entry)")
				}
				acc.closeC = true
				continue
			case fn == c.qName+".CloseWithError":
				acc.closeTr = true
				continue
			}
			c41Fail(c.fset, s, "reapPeer call "+fn)
		case *ast.IfStmt:
			if x.Init != nil {
				c41Fail(c.fset, s, "reapPeer if with init")
			}
			var elseStmts []ast.Stmt
			switch e := x.Else.(type) {
			case nil:
			case *ast.BlockStmt:
				elseStmts = e.List
			case *ast.IfStmt:
				elseStmts = []ast.Stmt{e}
			}
			if be, ok := x.Cond.(*ast.BinaryExpr); ok && be.Op == token.NEQ && c41Sel(be.X) == "t.RTTRecorder" && c41Sel(be.Y) == "nil" && x.Else == nil {
				c.rttOnly(x.Body)
				continue
			}
			neg := false
			cond := x.Cond
			if u, ok := cond.(*ast.UnaryExpr); ok && u.Op == token.NOT {
				neg, cond = true, u.X
			}
			if acc.loadedVar == "" || c41Sel(cond) != acc.loadedVar {
				c41Fail(c.fset, s, "reapPeer condition")
			}
			yes, no := acc, acc
			yes.loadedKnown = true
			thenStmts, otherStmts := x.Body.List, elseStmts
			if neg {
				thenStmts, otherStmts = elseStmts, x.Body.List
			}
			a := c.walk(append(append([]ast.Stmt{}, thenStmts...), rest...), yes)
			b := c.walk(append(append([]ast.Stmt{}, otherStmts...), rest...), no)
			return &c41Node{kind: "if", cond: "loaded = true", condFn: func(e *c41Env) bool { return e.rc }, a: a, b: b}
		case *ast.ReturnStmt:
			if len(x.Results) != 0 {
				c41Fail(c.fset, s, "reapPeer return with values")
			}
			return c.leaf(acc)
		default:
			c41Fail(c.fset, s, fmt.Sprintf("reapPeer statement %T", s))
		}
	}
	return c.leaf(acc)
}

// the facts of reapPeer as a tree over `loaded` (is an entry cached for the peer when reapPeer holds the lock)
func c41ReapTree(path string) *c41Node {
	fset := token.NewFileSet()
	f, err := parser.ParseFile(fset, path, nil, 0)
	if err != nil {
		fmt.Fprintln(os.Stderr, "c41-facts:", err)
		os.Exit(1)
	}
	for _, d := range f.Decls {
		fd, ok := d.(*ast.FuncDecl)
		if !ok || fd.Name.Name != "reapPeer" || fd.Body == nil {
			continue
		}
		c := &c41ReapCtx{fset: fset}
		for _, p := range fd.Type.Params.List {
			if st, ok := p.Type.(*ast.StarExpr); ok && c41Sel(st.X) == "quic.Conn" && len(p.Names) == 1 {
				c.qName = p.Names[0].Name
			}
		}
		if c.qName == "" {
			c41Fail(fset, fd, "reapPeer has no *quic.Conn parameter")
		}
		n := c.walk(fd.Body.List, c41ReapAcc{})
		if n.kind == "leaf" { // no branch on the found flag: the same facts whether or not an entry is cached
			n = &c41Node{kind: "if", cond: "loaded = true", condFn: func(e *c41Env) bool { return e.rc }, a: n, b: n}
		}
		return n
	}
	fmt.Fprintln(os.Stderr, "c41-facts: func reapPeer not found in "+path)
	os.Exit(1)
	return nil
}

func c41Args(args []string) (string, string) {
	if len(args) != 2 {
		fmt.Fprintln(os.Stderr, "c41-facts: usage: c41-facts|c41-lines <overlay/reuse.go> <overlay/reaper.go>")
		os.Exit(2)
	}
	return args[0], args[1]
}

func init() {
	factCmds["c41-facts"] = func(args []string) {
		reuse, reaper := c41Args(args)
		snapN, decN := c41Trees(reuse)
		reapN := c41ReapTree(reaper)
		fmt.Print(`/- GENERATED by extract c41-facts from overlay/reuse.go (func reuseConnection) and overlay/reaper.go
(func reapPeer). Do not edit. -/
namespace Gen.C41

inductive Dir where
  | incoming | outgoing
deriving DecidableEq, Repr

inductive CState where
  | cached | fresh
deriving DecidableEq, Repr

inductive Ret where
  | cache | fresh | none
deriving DecidableEq, Repr

inductive Store where
  | no | fresh | cache
deriving DecidableEq, Repr

inductive ErrK where
  | nil | retry | other
deriving DecidableEq, Repr

structure Act where
  reload : Bool
  closeFresh : Bool
  closeCache : Bool
  store : Store
  del : Bool
  ret : Ret
  reused : Bool
  err : ErrK
deriving DecidableEq, Repr

/-- the cache status a peer sends (taken under RLock): cached/cdir = own cache entry, dir = this connection -/
def snapshot (cached : Bool) (cdir dir : Dir) : CState × Dir :=
`)
		fmt.Println(snapN.lean("  "))
		fmt.Print(`
set_option linter.unusedVariables false in
/-- the decision taken under Lock: ps/pd = status received from the peer, cached/cdir = the snapshot,
dir = this connection, rc = whether the re-load finds an entry, rcdir = the direction of the entry found by
the re-load (meaningful only when rc = true) -/
def decide (ps : CState) (pd : Dir) (cached : Bool) (cdir dir : Dir) (rc : Bool) (rcdir : Dir) : Act :=
`)
		fmt.Println(decN.lean("  "))
		fmt.Print(`
/-- what reapPeer does (facts of overlay/reaper.go) -/
structure ReapAct where
  del : Bool
  closeCached : Bool
  closeTrigger : Bool
deriving DecidableEq, Repr

/-- reapPeer under the key's Lock: loaded = an entry is cached for the peer at that moment; del = the entry is gone
afterwards, closeCached = the connection of the entry that was cached is closed, closeTrigger = the connection
that triggered the reap is closed -/
def reap (loaded : Bool) : ReapAct :=
`)
		fmt.Println(reapN.lean("  "))
		fmt.Print("\nend Gen.C41\n")
	}
	factCmds["c41-lines"] = func(args []string) {
		reuse, reaper := c41Args(args)
		snapN, decN := c41Trees(reuse)
		reapN := c41ReapTree(reaper)
		defer func() {
			for _, loaded := range []bool{true, false} {
				fmt.Printf("reap %s => %s\n", c41B(loaded), reapN.eval(&c41Env{rc: loaded}))
			}
		}()
		bs := []bool{true, false}
		ds := []string{"incoming", "outgoing"}
		for _, cached := range bs {
			for _, cdir := range ds {
				for _, dir := range ds {
					e := &c41Env{cached: cached, cdir: cdir, dir: dir}
					fmt.Printf("snap %s %s %s => %s\n", c41B(cached), cdir, dir, snapN.eval(e))
				}
			}
		}
		for _, ps := range []string{"cached", "fresh"} {
			for _, pd := range ds {
				for _, cached := range bs {
					for _, cdir := range ds {
						for _, dir := range ds {
							for _, rc := range bs {
								for _, rcdir := range ds {
									e := &c41Env{ps: ps, pd: pd, cached: cached, cdir: cdir, dir: dir, rc: rc, rcdir: rcdir}
									fmt.Printf("leaf %s %s %s %s %s %s %s => %s\n", ps, pd, c41B(cached), cdir, dir, c41B(rc), rcdir, decN.eval(e))
								}
							}
						}
					}
				}
			}
		}
	}
}
