import SpecterModel.C28.Model
/-!
# C28 — Route lookups are classified and cached correctly

All theorems are over EVERY list of slot outcomes of length `numLookup > 0` (hence in particular the
whole 5^3 table for `NumRedundantLinks = 3`, see `table_*`), every local address and every route payload.
The TTL constants are the *generated* ones (`Gen.C28`, regenerated from route_cache.go on each run).
-/
namespace Specter.C28
open Gen.C28

/-! ## the one-sided comparator under Go's insertion sort -/

theorem insertLeft_lessLocal (self : String) (rl : List Route) (x : Route) :
    insertLeft (lessLocal self) rl x = if x.addr == self then rl ++ [x] else x :: rl := by
  induction rl with
  | nil => simp [insertLeft]
  | cons y ys ih =>
    simp only [insertLeft, lessLocal]
    by_cases h : (x.addr == self) = true
    · simp only [h, if_true] at ih ⊢; rw [ih]; rfl
    · simp [h]

theorem foldl_insertLeft (self : String) (xs acc : List Route) :
    xs.foldl (insertLeft (lessLocal self)) acc
      = (xs.filter (fun r => !(r.addr == self))).reverse ++ acc ++ xs.filter (fun r => r.addr == self) := by
  induction xs generalizing acc with
  | nil => simp
  | cons x xs ih =>
    rw [List.foldl_cons, ih, insertLeft_lessLocal]
    by_cases h : (x.addr == self) = true
    · simp [h]
    · simp [h]

/-- Closed form of the loader's sort: local routes (in REVERSED slot order — the comparator is not a
strict weak order) followed by the remote routes in slot order. -/
theorem isort_lessLocal (self : String) (xs : List Route) :
    isort (lessLocal self) xs
      = (xs.filter (fun r => r.addr == self)).reverse ++ xs.filter (fun r => !(r.addr == self)) := by
  simp [isort, foldl_insertLeft]

/-! ## classification -/

def decoded (slots : List Slot) : List Route := slots.filterMap Slot.route?

theorem isError_not_isNotFound (s : Slot) (h : s.isError = true) : s.isNotFound = false := by
  cases s <;> simp_all [Slot.isError, Slot.isNotFound]

/-- not-found ⇔ every slot is empty (or the not-exist sentinel, which is outside the table). -/
theorem notFound_iff (n : Nat) (self : String) (slots : List Slot) (hl : slots.length = n) :
    (loader n self slots).res = .notFound ↔ ∀ s ∈ slots, s.isNotFound = true := by
  unfold loader
  simp only
  by_cases h1 : (n == slots.countP Slot.isNotFound) = true
  · simp only [h1, if_true, true_iff]
    have : slots.countP Slot.isNotFound = slots.length := by rw [hl]; exact (beq_iff_eq.mp h1).symm
    exact List.countP_eq_length.mp this
  · have hne : ¬ (∀ s ∈ slots, s.isNotFound = true) := by
      intro hall
      apply h1
      have := List.countP_eq_length.mpr hall
      rw [this, hl]; simp
    by_cases h2 : (n == slots.countP Slot.isError) = true
    · simp [h1, h2]; simpa using hne
    · simp [h1, h2]; simpa using hne

/-- lookup-failed ⇔ every slot errored (Get error or undecodable value). -/
theorem lookupFailed_iff (n : Nat) (self : String) (slots : List Slot) (hl : slots.length = n) (hn : 0 < n) :
    (loader n self slots).res = .lookupFailed ↔ ∀ s ∈ slots, s.isError = true := by
  unfold loader
  simp only
  by_cases h2 : (n == slots.countP Slot.isError) = true
  · have hc : slots.countP Slot.isError = slots.length := by rw [hl]; exact (beq_iff_eq.mp h2).symm
    have hall := List.countP_eq_length.mp hc
    have h1 : (n == slots.countP Slot.isNotFound) = false := by
      have : slots.countP Slot.isNotFound = 0 := by
        rw [List.countP_eq_zero]
        intro s hs; simp [isError_not_isNotFound s (hall s hs)]
      rw [this]; simp; omega
    simp [h1, h2]; exact hall
  · have hne : ¬ (∀ s ∈ slots, s.isError = true) := by
      intro hall
      apply h2
      have := List.countP_eq_length.mpr hall
      rw [this, hl]; simp
    by_cases h1 : (n == slots.countP Slot.isNotFound) = true
    · simp [h1]; simpa using hne
    · simp [h1, h2]; simpa using hne

/-- Otherwise: a positive result whose routes are exactly the decoded ones, local first. -/
theorem otherwise_routes (n : Nat) (self : String) (slots : List Slot) (hl : slots.length = n)
    (hnf : ¬ ∀ s ∈ slots, s.isNotFound = true) (hne : ¬ ∀ s ∈ slots, s.isError = true) :
    (loader n self slots).res
        = .routes (((decoded slots).filter (fun r => r.addr == self)).reverse
                    ++ (decoded slots).filter (fun r => !(r.addr == self)))
      ∧ (loader n self slots).ttl = routePositiveTTL
      ∧ (loader n self slots).cost = ((decoded slots).map Route.len).sum := by
  have h1 : (n == slots.countP Slot.isNotFound) = false := by
    cases h : (n == slots.countP Slot.isNotFound) with
    | false => rfl
    | true =>
      exfalso; apply hnf
      apply List.countP_eq_length.mp; rw [hl]; exact (beq_iff_eq.mp h).symm
  have h2 : (n == slots.countP Slot.isError) = false := by
    cases h : (n == slots.countP Slot.isError) with
    | false => rfl
    | true =>
      exfalso; apply hne
      apply List.countP_eq_length.mp; rw [hl]; exact (beq_iff_eq.mp h).symm
  unfold loader
  simp [h1, h2, isort_lessLocal, decoded]

/-- Shape of every positive result (the property's "otherwise" clause), stated without the closed form:
the routes are a permutation of the decoded ones, split as locals ++ remotes, remote slot order kept. -/
theorem routes_spec (n : Nat) (self : String) (slots : List Slot) (rs : List Route)
    (hl : slots.length = n) (h : (loader n self slots).res = .routes rs) :
    rs.Perm (decoded slots)
    ∧ (∃ l r, rs = l ++ r ∧ (∀ x ∈ l, x.addr = self) ∧ (∀ x ∈ r, x.addr ≠ self))
    ∧ rs.filter (fun x => !(x.addr == self)) = (decoded slots).filter (fun x => !(x.addr == self)) := by
  have hnf : ¬ ∀ s ∈ slots, s.isNotFound = true := by
    intro hall; rw [(notFound_iff n self slots hl).mpr hall] at h; cases h
  have hne : ¬ ∀ s ∈ slots, s.isError = true := by
    intro hall
    by_cases hn : 0 < n
    · rw [(lookupFailed_iff n self slots hl hn).mpr hall] at h; cases h
    · have : slots = [] := by apply List.eq_nil_of_length_eq_zero; omega
      apply hnf; simp [this]
  have ho := (otherwise_routes n self slots hl hnf hne).1
  rw [ho] at h
  injection h with h
  subst h
  refine ⟨?_, ⟨_, _, rfl, ?_, ?_⟩, ?_⟩
  · have hp := List.filter_append_perm (fun r : Route => r.addr == self) (decoded slots)
    exact ((List.reverse_perm _).append_right _).trans hp
  · intro x hx; simpa using (List.mem_filter.mp (List.mem_reverse.mp hx)).2
  · intro x hx; simpa using (List.mem_filter.mp hx).2
  · simp [List.filter_append, List.filter_filter]

/-- A route through the local node never comes after a remote one. -/
theorem local_before_remote (n : Nat) (self : String) (slots : List Slot) (rs : List Route)
    (hl : slots.length = n) (h : (loader n self slots).res = .routes rs)
    (i j : Nat) (hij : i < j) (hj : j < rs.length) (hloc : (rs[j]'hj).addr = self) :
    (rs[i]'(by omega)).addr = self := by
  obtain ⟨_, ⟨l, r, he, hL, hR⟩, _⟩ := routes_spec n self slots rs hl h
  subst he
  by_cases hi : i < l.length
  · rw [List.getElem_append_left hi]; exact hL _ (List.getElem_mem _)
  · exfalso
    have hj' : ¬ j < l.length := by omega
    rw [List.getElem_append_right (by omega)] at hloc
    exact hR _ (List.getElem_mem _) hloc

/-! ## TTLs -/

/-- Negative and failed results are cached for shorter times than positive ones (generated constants). -/
theorem ttl_order : routeNegativeTTL < routePositiveTTL ∧ routeFailedTTL < routePositiveTTL
    ∧ 0 < routeFailedTTL ∧ 0 < routeNegativeTTL := by decide

theorem ttl_classified (n : Nat) (self : String) (slots : List Slot) :
    match (loader n self slots).res with
    | .notFound => (loader n self slots).ttl = routeNegativeTTL
    | .lookupFailed => (loader n self slots).ttl = routeFailedTTL
    | .routes _ => (loader n self slots).ttl = routePositiveTTL := by
  unfold loader; simp only
  by_cases h1 : (n == slots.countP Slot.isNotFound) = true
  · simp [h1]
  · by_cases h2 : (n == slots.countP Slot.isError) = true
    · simp [h1, h2]
    · simp [h1, h2]

theorem nonpositive_shorter (n : Nat) (self : String) (slots : List Slot)
    (h : ∀ rs, (loader n self slots).res ≠ .routes rs) :
    (loader n self slots).ttl < routePositiveTTL := by
  have := ttl_classified n self slots
  have o := ttl_order
  split at this
  · rw [this]; exact o.1
  · rw [this]; exact o.2.1
  · rename_i rs hrs; exact absurd hrs (h rs)

/-- Noteworthy corner of the "otherwise" clause: slots that are a MIX of empty and errored (no route at
all) give an empty *positive* result, cached for the long TTL. -/
theorem mixed_empty_error_is_positive_empty (n : Nat) (self : String) (slots : List Slot)
    (hl : slots.length = n)
    (hnone : ∀ s ∈ slots, s.isNotFound = true ∨ s.isError = true)
    (hnf : ¬ ∀ s ∈ slots, s.isNotFound = true) (hne : ¬ ∀ s ∈ slots, s.isError = true) :
    (loader n self slots).res = .routes [] ∧ (loader n self slots).ttl = routePositiveTTL := by
  have ⟨h, t, _⟩ := otherwise_routes n self slots hl hnf hne
  have hd : decoded slots = [] := by
    unfold decoded
    rw [List.filterMap_eq_nil_iff]
    intro s hs
    rcases hnone s hs with h | h <;> cases s <;> simp_all [Slot.isNotFound, Slot.isError, Slot.route?]
  rw [hd] at h
  exact ⟨by simpa using h, t⟩

/-! ## the finite table of the property (NumRedundantLinks = 3) -/

theorem numLinks_eq : numLinks = 3 := by decide

/-- Table form: any three outcomes. -/
theorem table (self : String) (a b c : Slot) :
    let r := loader numLinks self [a, b, c]
    (r.res = .notFound ↔ (a.isNotFound ∧ b.isNotFound ∧ c.isNotFound))
    ∧ (r.res = .lookupFailed ↔ (a.isError ∧ b.isError ∧ c.isError))
    ∧ (∀ rs, r.res = .routes rs → r.ttl = routePositiveTTL ∧ rs.Perm (decoded [a, b, c])
          ∧ ∃ l rr, rs = l ++ rr ∧ (∀ x ∈ l, x.addr = self) ∧ (∀ x ∈ rr, x.addr ≠ self))
    ∧ ((∀ rs, r.res ≠ .routes rs) → r.ttl < routePositiveTTL) := by
  intro r
  have hl : [a, b, c].length = numLinks := by rw [numLinks_eq]; rfl
  refine ⟨?_, ?_, ?_, ?_⟩
  · rw [notFound_iff numLinks self _ hl]; simp
  · rw [lookupFailed_iff numLinks self _ hl (by rw [numLinks_eq]; omega)]; simp
  · intro rs h
    have t := ttl_classified numLinks self [a, b, c]
    have s := routes_spec numLinks self _ rs hl h
    rw [h] at t
    exact ⟨t, s.1, s.2.1⟩
  · exact nonpositive_shorter numLinks self _

/-! ## non-vacuity -/

private def rL : Route := ⟨1, "me", 10⟩
private def rR : Route := ⟨0, "other", 12⟩
private def rL2 : Route := ⟨2, "me", 11⟩

example : loader 3 "me" [.route rR, .route rL, .empty] = ⟨.routes [rL, rR], routePositiveTTL, 22⟩ := by decide
example : loader 3 "me" [.route rR, .route rL, .route rL2] = ⟨.routes [rL2, rL, rR], routePositiveTTL, 33⟩ := by decide
example : (loader 3 "me" [.empty, .empty, .empty]).res = .notFound := by decide
example : (loader 3 "me" [.error, .undecodable, .error]).res = .lookupFailed := by decide
example : (loader 3 "me" [.error, .empty, .error]) = ⟨.routes [], routePositiveTTL, 0⟩ := by decide
example : ¬ (∀ s ∈ [Slot.error, .empty], s.isNotFound = true) ∧ ¬ (∀ s ∈ [Slot.error, .empty], s.isError = true) := by decide
example : ∃ rs, (loader 3 "me" [.route rR, .route rL, .empty]).res = .routes rs ∧ rs.length = 2 :=
  ⟨[rL, rR], by decide, rfl⟩

end Specter.C28
