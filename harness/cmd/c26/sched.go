// Deterministic KV-call scheduler for concurrent requests: a chord.VNode in front of the recording DHT that parks
// every KV call of a tagged request until the scheduler grants it.
package main

import (
	"bytes"
	"context"
	"runtime"
	"sort"
	"strconv"
	"strings"
	"sync"
	"sync/atomic"
	"time"

	"go.miragespace.co/specter/spec/chord"
	"verif/harness/cmd/c25/rig"
)

type tidKey struct{}

// withTid tags the context of one in-flight request; every context the handler derives from it carries the tag.
func withTid(ctx context.Context, tid int) context.Context {
	return context.WithValue(ctx, tidKey{}, tid)
}

type pendingCall struct {
	tid   int
	desc  string // canonical text of the call: `<op> <args…>`
	grant chan struct{}
	done  chan string // result token, sent when the KV call has returned
}

// gateNode forwards to the recording DHT; calls made on behalf of a tagged request while a scenario is active wait
// for the scheduler.
type gateNode struct {
	*rig.RecNode
	active  atomic.Bool
	mu      sync.Mutex
	pending []*pendingCall
	name    func(op string, key []byte, child []byte) string // canonical call text
}

var _ chord.VNode = (*gateNode)(nil)

func (g *gateNode) enter(ctx context.Context, op string, key, child []byte) *pendingCall {
	if !g.active.Load() {
		return nil
	}
	tid, ok := ctx.Value(tidKey{}).(int)
	if !ok {
		return nil
	}
	pc := &pendingCall{tid: tid, desc: g.name(op, key, child), grant: make(chan struct{}), done: make(chan string, 1)}
	g.mu.Lock()
	g.pending = append(g.pending, pc)
	g.mu.Unlock()
	<-pc.grant
	return pc
}

func (pc *pendingCall) leave(res string) {
	if pc != nil {
		pc.done <- res
	}
}

func errTok(err error, ok, bad string) string {
	if err == nil {
		return ok
	}
	return bad
}

func (g *gateNode) Put(ctx context.Context, key, value []byte) error {
	pc := g.enter(ctx, "put", key, nil)
	err := g.RecNode.Put(ctx, key, value)
	pc.leave(errTok(err, "ok", "fail"))
	return err
}
func (g *gateNode) Get(ctx context.Context, key []byte) ([]byte, error) {
	pc := g.enter(ctx, "get", key, nil)
	v, err := g.RecNode.Get(ctx, key)
	switch {
	case err != nil:
		pc.leave("fail")
	case len(v) == 0:
		pc.leave("missing")
	default:
		pc.leave("found")
	}
	return v, err
}
func (g *gateNode) Delete(ctx context.Context, key []byte) error {
	pc := g.enter(ctx, "del", key, nil)
	err := g.RecNode.Delete(ctx, key)
	pc.leave(errTok(err, "ok", "fail"))
	return err
}
func (g *gateNode) PrefixAppend(ctx context.Context, prefix, child []byte) error {
	pc := g.enter(ctx, "pappend", prefix, child)
	err := g.RecNode.PrefixAppend(ctx, prefix, child)
	pc.leave(errTok(err, "ok", "fail"))
	return err
}
func (g *gateNode) PrefixList(ctx context.Context, prefix []byte) ([][]byte, error) {
	pc := g.enter(ctx, "plist", prefix, nil)
	v, err := g.RecNode.PrefixList(ctx, prefix)
	pc.leave(errTok(err, "ok", "fail"))
	return v, err
}
func (g *gateNode) PrefixContains(ctx context.Context, prefix, child []byte) (bool, error) {
	pc := g.enter(ctx, "contains", prefix, child)
	b, err := g.RecNode.PrefixContains(ctx, prefix, child)
	switch {
	case err != nil:
		pc.leave("fail")
	case b:
		pc.leave("yes")
	default:
		pc.leave("no")
	}
	return b, err
}
func (g *gateNode) PrefixRemove(ctx context.Context, prefix, child []byte) error {
	pc := g.enter(ctx, "premove", prefix, child)
	err := g.RecNode.PrefixRemove(ctx, prefix, child)
	pc.leave(errTok(err, "ok", "fail"))
	return err
}
func (g *gateNode) Acquire(ctx context.Context, lease []byte, ttl time.Duration) (uint64, error) {
	pc := g.enter(ctx, "acquire", lease, nil)
	t, err := g.RecNode.Acquire(ctx, lease, ttl)
	switch {
	case err == nil:
		pc.leave("ok")
	case err == chord.ErrKVLeaseConflict:
		pc.leave("conflict")
	default:
		pc.leave("fail")
	}
	return t, err
}
func (g *gateNode) Renew(ctx context.Context, lease []byte, ttl time.Duration, prev uint64) (uint64, error) {
	pc := g.enter(ctx, "renew", lease, nil)
	t, err := g.RecNode.Renew(ctx, lease, ttl, prev)
	pc.leave(errTok(err, "ok", "fail"))
	return t, err
}
func (g *gateNode) Release(ctx context.Context, lease []byte, token uint64) error {
	pc := g.enter(ctx, "unlock", lease, nil)
	err := g.RecNode.Release(ctx, lease, token)
	pc.leave(errTok(err, "ok", "fail"))
	return err
}

// othersParked reports whether every goroutine except the caller is blocked (not running, runnable, in a syscall or
// in a transient GC wait). The scheduler's own goroutine is the first of the dump.
func othersParked(buf *[]byte) bool {
	for {
		n := runtime.Stack(*buf, true)
		if n < len(*buf) {
			*buf = (*buf)[:cap(*buf)]
			return parked((*buf)[:n])
		}
		*buf = make([]byte, 2*len(*buf))
	}
}

func parked(dump []byte) bool {
	first := true
	for len(dump) > 0 {
		i := bytes.IndexByte(dump, '\n')
		var line []byte
		if i < 0 {
			line, dump = dump, nil
		} else {
			line, dump = dump[:i], dump[i+1:]
		}
		if !bytes.HasPrefix(line, []byte("goroutine ")) {
			continue
		}
		a, b := bytes.IndexByte(line, '['), bytes.LastIndexByte(line, ']')
		if a < 0 || b < a {
			continue
		}
		if first {
			first = false
			continue
		}
		st := string(line[a+1 : b])
		if j := strings.IndexByte(st, ','); j >= 0 {
			st = st[:j]
		}
		switch {
		case st == "running", st == "runnable", st == "syscall", st == "idle", st == "copystack", st == "preempted",
			strings.HasPrefix(st, "GC "):
			return false
		}
	}
	return true
}

// settle waits until the process is quiescent (twice in a row): every request is parked in front of the DHT or has returned.
func settle(buf *[]byte) bool {
	deadline := time.Now().Add(10 * time.Second)
	oks := 0
	for i := 0; ; i++ {
		runtime.Gosched()
		if othersParked(buf) {
			oks++
			if oks >= 2 {
				return true
			}
			continue
		}
		oks = 0
		if i%64 == 63 {
			if time.Now().After(deadline) {
				return false
			}
			time.Sleep(50 * time.Microsecond)
		}
	}
}

// plan picks the next call to grant: ready[tid] = that request's parked calls, sorted by their text.
type plan func(step int, ready map[int][]*pendingCall) *pendingCall

func lowest(ready map[int][]*pendingCall, from int) (int, bool) {
	best, ok := 0, false
	for tid := range ready {
		if tid >= from && (!ok || tid < best) {
			best, ok = tid, true
		}
	}
	return best, ok
}

func sibling(cs []*pendingCall, mode int, step int) *pendingCall {
	switch mode % 3 {
	case 0:
		return cs[0]
	case 1:
		return cs[len(cs)-1]
	default:
		return cs[(step*7+mode/3)%len(cs)]
	}
}

// windowPlan: request 0 executes p calls, then requests 1.. run to completion one after the other, then request 0 continues.
func windowPlan(p int, mode int) plan {
	granted0 := 0
	return func(step int, ready map[int][]*pendingCall) *pendingCall {
		if cs, ok := ready[0]; ok && granted0 < p {
			granted0++
			return sibling(cs, mode, step)
		}
		if tid, ok := lowest(ready, 1); ok {
			return sibling(ready[tid], mode, step)
		}
		granted0++
		return sibling(ready[0], mode, step)
	}
}

// scriptPlan follows a recorded schedule (replay); unknown entries fall back to the lowest parked request.
func scriptPlan(script [][2]string) plan {
	return func(step int, ready map[int][]*pendingCall) *pendingCall {
		if step < len(script) {
			tid, _ := strconv.Atoi(script[step][0])
			for _, c := range ready[tid] {
				if c.desc == script[step][1] {
					return c
				}
			}
			if cs, ok := ready[tid]; ok {
				return cs[0]
			}
		}
		tid, _ := lowest(ready, 0)
		return ready[tid][0]
	}
}

type stepRec struct {
	tid       int
	desc, res string
}

// schedule runs the started requests to completion under the plan. `finished` reports how many requests have returned;
// `each` is called after every granted call, once the process is quiescent again.
func (g *gateNode) schedule(n int, finished func() int, pl plan, each func(stepRec)) (hang bool) {
	buf := make([]byte, 1<<16)
	step := 0
	for idle := 0; ; {
		if !settle(&buf) {
			return true
		}
		g.mu.Lock()
		ready := map[int][]*pendingCall{}
		for _, pc := range g.pending {
			ready[pc.tid] = append(ready[pc.tid], pc)
		}
		g.mu.Unlock()
		if len(ready) == 0 {
			if finished() == n {
				return false
			}
			// parked nowhere and not returned: cannot happen with the handlers as they are
			time.Sleep(time.Millisecond)
			if idle++; idle > 2000 {
				return true
			}
			continue
		}
		for _, cs := range ready {
			sort.SliceStable(cs, func(i, j int) bool { return cs[i].desc < cs[j].desc })
		}
		pc := pl(step, ready)
		g.mu.Lock()
		for i, x := range g.pending {
			if x == pc {
				g.pending = append(g.pending[:i:i], g.pending[i+1:]...)
				break
			}
		}
		g.mu.Unlock()
		close(pc.grant)
		res := <-pc.done
		if !settle(&buf) {
			return true
		}
		each(stepRec{pc.tid, pc.desc, res})
		step++
	}
}

// drain lets every parked call through (after a hang) so that no goroutine is left behind.
func (g *gateNode) drain() {
	g.active.Store(false)
	g.mu.Lock()
	for _, pc := range g.pending {
		close(pc.grant)
	}
	g.pending = nil
	g.mu.Unlock()
}
