import SpecterModel.C41.Gen
/-!
# C41 — protocol model of the connection-reuse negotiation (`overlay/reuse.go`, `overlay/reaper.go`, and the
close-watchers started by `handleIncoming` / `handleOutgoing` in `overlay/transport.go`)

Two peers P and Q. Connection `c` is dialed by P (outgoing at P, incoming at Q); in the simultaneous-open
scenario (`dual`) Q also dials `d`. `e` is a pre-existing cached connection. Every end of every new
connection runs `reuseConnection`, which is two atomic steps (the keyed RW mutex):

* `snap`  (under RLock): read the own cache entry, send the status `snapshot …`;
* `dec`   (under Lock, after the peer's status arrived): `decide …` with the SNAPSHOT values, except for the
  re-load leaves, which see the entry that is in the cache NOW (`rc` = is there one, `rcdir` = its direction);
  effects: close fresh / close cache / store / delete, result returned to the caller;
  an incoming end that returns an error closes the connection (`AcceptWithListener`, code 406);
* `reap`  (close-watcher goroutine → `reapPeer`): WHICH ends get a close-watcher for the connection they negotiated
  is the fact `watch dir reused` extracted from `handleIncoming` / `handleOutgoing` (`overlay/transport.go`): for the
  code as it is, exactly the ends whose connection came back as new (`handlePeer`), never an end whose connection
  LOST the negotiation (another connection was returned as reused) - the losing connection is closed by the
  negotiation itself, and `reapPeer` reaps by KEY: a watcher on the loser would tear down the cached connection both
  peers just agreed to reuse. Once a watched connection is closed, `reapPeer` runs for it: under the key's Lock it
  looks at the entry that is CACHED at that moment (`loaded`), and — facts `reap loaded` extracted from
  `overlay/reaper.go` — closes the cached entry's connection, closes the triggering connection, deletes the entry;
  (`watch dir true`.returned - a SECOND close-watcher on a connection that is cached already - is not modelled: the
  extracted fact is `false`, theorem `watchers_only_on_stored_connections`);
* `reapE` the same for the close-watcher goroutine of the pre-existing connection `e` (every side that caches
  `e` stored it in an earlier negotiation and therefore runs such a goroutine);
* `late`  a STALE `reapPeer`: a second reap of an older connection `o` to the same peer that died and was
  reaped long ago (the periodic `reaper()` collected `o` as a dead candidate while `o`'s close goroutine
  reaped it too — `reapPeer` runs twice for `o`). It may run at any moment, at most once per side, and only on
  sides where the scenario allows it (`lateP`/`lateQ`); whatever is cached for the peer at that moment is treated
  by `reap loaded` like in an ordinary reap, although it is not the connection that triggered the reap.
* `kill`  the pre-existing connection `e` DIES for a reason outside the negotiation (the peer's end went away, the
  path broke, idle timeout): at any moment, at most once, and only where the scenario allows it (`dieE`). Nothing
  else happens in that step; the close-watchers of `e` (`reapE`) become due at every side that caches `e`, and each
  of them may run before, between or after the snapshot and the decision of a negotiation end of that side - in
  particular an end can report CACHED and find the entry gone when it decides.
  Stale reaps and the death of `e` are environment events: a state is `final` when no negotiation step and no due
  reap is left, whether or not an environment event is still possible.

Every connection remembers what closed it FIRST (`Cl`): the negotiation (`neg`) or the environment (`late`: a
stale reap, or the death of `e`); the closes made by a reap count as whatever closed the connection whose death
triggered that reap. "A reused connection is never closed by the negotiation" is judged on `neg`; without
environment events every close is `neg`.

`snapshot`, `decide` and `reap` are parameters (`Table`); `genTable` is the translation of the current Go source.
Core Lean only.
-/
namespace Specter.C41
open Gen.C41

inductive Conn where
  | e | c | d
deriving DecidableEq, Repr

inductive Side where
  | P | Q
deriving DecidableEq, Repr

/-- one end of one new connection -/
inductive Proc where
  | Pc | Qc | Qd | Pd
deriving DecidableEq, Repr

def Proc.side : Proc → Side
  | .Pc | .Pd => .P
  | .Qc | .Qd => .Q
def Proc.conn : Proc → Conn
  | .Pc | .Qc => .c
  | .Qd | .Pd => .d
def Proc.dir : Proc → Dir
  | .Pc | .Qd => .outgoing
  | .Qc | .Pd => .incoming
/-- the other end of the same connection -/
def Proc.peer : Proc → Proc
  | .Pc => .Qc | .Qc => .Pc | .Qd => .Pd | .Pd => .Qd

structure Table where
  snapshot : Bool → Dir → Dir → CState × Dir
  decide : CState → Dir → Bool → Dir → Dir → Bool → Dir → Act
  reap : Bool → ReapAct
  watch : Dir → Bool → WatchAct

def genTable : Table := ⟨Gen.C41.snapshot, Gen.C41.decide, Gen.C41.reap, Gen.C41.watch⟩

/-- what closed a connection first -/
inductive Cl where
  | open
  | neg     -- the negotiation (508), the accept loop (406), or the reap of a connection that was closed that way
  | late    -- the environment: a stale reap, the death of `e` (`kill`), or the reap of a connection closed that way
deriving DecidableEq, Repr

/-- what `reuseConnection` returned -/
inductive Res where
  | reused (x : Option Conn)     -- `return cache, true, nil`
  | fresh                        -- `return fresh, false, nil` (the caller starts `handlePeer`)
  | err
deriving DecidableEq, Repr

abbrev Entry := Option (Conn × Dir)

inductive PC where
  | idle
  | snapped (snap : Entry) (status : CState × Dir)
  /-- `watched`: this end started a close-watcher (→ `reapPeer`) for the connection it negotiated; `reaped`: that
  watcher has run -/
  | done (status : CState × Dir) (res : Res) (watched : Bool) (reaped : Bool)
deriving DecidableEq, Repr

structure St where
  dual : Bool
  cacheP : Entry
  cacheQ : Entry
  clE : Cl := .open
  clC : Cl := .open
  clD : Cl := .open
  pPc : PC := .idle
  pQc : PC := .idle
  pQd : PC := .idle
  pPd : PC := .idle
  /-- the close-watcher goroutine of the pre-existing connection `e` is still waiting at P / Q -/
  watchP : Bool := false
  watchQ : Bool := false
  /-- a stale reap may still run at P / Q -/
  lateP : Bool := false
  lateQ : Bool := false
  /-- the pre-existing connection `e` may still die for a reason outside the negotiation -/
  dieE : Bool := false
deriving DecidableEq, Repr

def St.pc (s : St) : Proc → PC
  | .Pc => s.pPc | .Qc => s.pQc | .Qd => s.pQd | .Pd => s.pPd
def St.setPc (s : St) (i : Proc) (p : PC) : St :=
  match i with
  | .Pc => { s with pPc := p } | .Qc => { s with pQc := p } | .Qd => { s with pQd := p } | .Pd => { s with pPd := p }
def St.cache (s : St) : Side → Entry
  | .P => s.cacheP | .Q => s.cacheQ
def St.setCache (s : St) (x : Side) (v : Entry) : St :=
  match x with
  | .P => { s with cacheP := v } | .Q => { s with cacheQ := v }
def St.cl (s : St) : Conn → Cl
  | .e => s.clE | .c => s.clC | .d => s.clD
def St.closed (s : St) (x : Conn) : Bool := match s.cl x with | .open => false | _ => true
/-- `CloseWithError`: only the first close of a connection counts -/
def St.close (s : St) (by_ : Cl) (x : Conn) : St :=
  match s.cl x with
  | .open => (match x with | .e => { s with clE := by_ } | .c => { s with clC := by_ } | .d => { s with clD := by_ })
  | _ => s
def St.closeEntry (s : St) (by_ : Cl) : Entry → St
  | some (x, _) => s.close by_ x
  | none => s
def St.watch (s : St) : Side → Bool
  | .P => s.watchP | .Q => s.watchQ
def St.lateOk (s : St) : Side → Bool
  | .P => s.lateP | .Q => s.lateQ

def Proc.active (s : St) : Proc → Bool
  | .Pc | .Qc => true
  | .Qd | .Pd => s.dual

inductive Step where
  | snap (i : Proc) | dec (i : Proc) | reap (i : Proc) | reapE (x : Side) | late (x : Side) | kill
deriving DecidableEq, Repr

def allProcs : List Proc := [.Pc, .Qc, .Qd, .Pd]
/-- the steps of the negotiations and the reaps that are due after them -/
def ownSteps : List Step := allProcs.map .snap ++ allProcs.map .dec ++ allProcs.map .reap ++ [.reapE .P, .reapE .Q]
/-- … and the environment events: the stale reaps, the death of the pre-existing connection -/
def envSteps : List Step := [.late .P, .late .Q, .kill]
def allSteps : List Step := ownSteps ++ envSteps

def PC.status? : PC → Option (CState × Dir)
  | .idle => none
  | .snapped _ st => some st
  | .done st _ _ _ => some st

def enabled (s : St) : Step → Bool
  | .snap i => i.active s && (match s.pc i with | .idle => true | _ => false)
  | .dec i => (match s.pc i with | .snapped _ _ => true | _ => false) &&
      (match s.pc i.peer with | .idle => false | _ => true)
  | .reap i => (match s.pc i with | .done _ _ true false => true | _ => false) && s.closed i.conn
  | .reapE x => s.watch x && s.closed .e
  | .late x => s.lateOk x
  | .kill => s.dieE && !s.closed .e

def entryDir : Entry → Dir
  | some (_, d) => d
  | none => .incoming      -- never read by the generated table when the entry is absent

/-- `reapPeer` at side `x` (atomic: the key's Lock): `trigger` = the connection whose death started it (`none`
for the stale reap of a connection outside the model, which is closed already), `by_` = what the closes count as
(a reap inherits it from the death that triggered it) -/
def reapPeer (T : Table) (s : St) (x : Side) (trigger : Option Conn) (by_ : Cl) : St :=
  let ent := s.cache x
  let a := T.reap ent.isSome
  let s := if a.closeCached then s.closeEntry by_ ent else s
  let s := match a.closeTrigger, trigger with
    | true, some q => s.close by_ q
    | _, _ => s
  if a.del then s.setCache x none else s

/-- does the end `i` start a close-watcher for the connection it negotiated? `flag` = the `reused` flag that
`reuseConnection` returned, `res` = what it returned: the own connection (as new, or found in the cache) or another
one. Facts `T.watch` of `handleIncoming` / `handleOutgoing`. -/
def ownWatched (T : Table) (i : Proc) (flag : Bool) : Res → Bool
  | .fresh => (T.watch i.dir flag).returned
  | .reused x => if x = some i.conn then (T.watch i.dir flag).returned else (T.watch i.dir flag).negotiated
  | .err => false

def step (T : Table) (s : St) : Step → St
  | .snap i =>
    let snap := s.cache i.side
    s.setPc i (.snapped snap (T.snapshot snap.isSome (entryDir snap) i.dir))
  | .dec i =>
    match s.pc i, (s.pc i.peer).status? with
    | .snapped snap mine, some (ps, pd) =>
      let cur := s.cache i.side
      let act := T.decide ps pd snap.isSome (entryDir snap) i.dir cur.isSome (entryDir cur)
      let cacheVar : Entry := if act.reload then cur else snap
      let s := if act.closeFresh then s.close .neg i.conn else s
      let s := if act.closeCache then s.closeEntry .neg cacheVar else s
      let s := if act.del then s.setCache i.side none else s
      let s := match act.store with
        | .no => s
        | .fresh => s.setCache i.side (some (i.conn, i.dir))
        | .cache => s.setCache i.side cacheVar
      let res : Res := match act.err, act.ret with
        | .nil, .cache => .reused (cacheVar.map (·.1))
        | .nil, .fresh => .fresh
        | _, _ => .err
      -- handleIncoming error ⇒ AcceptWithListener closes the connection (406)
      let s := match res, i.dir with
        | .err, .incoming => s.close .neg i.conn
        | _, _ => s
      s.setPc i (.done mine res (ownWatched T i act.reused res) false)
    | _, _ => s
  | .reap i =>
    match s.pc i with
    | .done st res true false =>
      (reapPeer T s i.side (some i.conn) (s.cl i.conn)).setPc i (.done st res true true)
    | _ => s
  | .reapE x =>
    let s := reapPeer T s x (some .e) s.clE
    match x with
    | .P => { s with watchP := false } | .Q => { s with watchQ := false }
  | .late x =>
    let s := reapPeer T s x none .late
    match x with
    | .P => { s with lateP := false } | .Q => { s with lateQ := false }
  | .kill => { s.close .late .e with dieE := false }

/-- run an arbitrary list of step labels; labels that are not enabled are skipped -/
def run (T : Table) (s : St) : List Step → St
  | [] => s
  | e :: l => if enabled s e then run T (step T s e) l else run T s l

/-- nothing left to do: every negotiation finished, every due reap done (an environment event may still be
possible) -/
def final (s : St) : Bool := (ownSteps.filter (enabled s)).isEmpty

/-! Evaluation helpers: `fX v k = k v` (lemmas `f*_eq` in Props), but reducing `fX v k` forces `v` to a
constructor first. They keep the states of the exhaustive exploration small literal terms, which is what makes
its kernel evaluation (`decide`) cheap. -/
section force
variable {α : Type}
def fB (b : Bool) (k : Bool → α) : α := match b with | true => k true | false => k false
def fDir (d : Dir) (k : Dir → α) : α := match d with | .incoming => k .incoming | .outgoing => k .outgoing
def fCState (cs : CState) (k : CState → α) : α := match cs with | .cached => k .cached | .fresh => k .fresh
def fConn (x : Conn) (k : Conn → α) : α := match x with | .e => k .e | .c => k .c | .d => k .d
def fCl (x : Cl) (k : Cl → α) : α := match x with | .open => k .open | .neg => k .neg | .late => k .late
def fEntry (e : Entry) (k : Entry → α) : α :=
  match e with
  | none => k none
  | some (x, d) => fConn x fun x => fDir d fun d => k (some (x, d))
def fStatus (p : CState × Dir) (k : CState × Dir → α) : α :=
  match p with
  | (a, b) => fCState a fun a => fDir b fun b => k (a, b)
def fRes (r : Res) (k : Res → α) : α :=
  match r with
  | .reused none => k (.reused none)
  | .reused (some x) => fConn x fun x => k (.reused (some x))
  | .fresh => k .fresh
  | .err => k .err
def fPC (p : PC) (k : PC → α) : α :=
  match p with
  | .idle => k .idle
  | .snapped e st => fEntry e fun e => fStatus st fun st => k (.snapped e st)
  | .done st r w b => fStatus st fun st => fRes r fun r => fB w fun w => fB b fun b => k (.done st r w b)
def fSt (s : St) (k : St → α) : α :=
  fB s.dual fun a => fEntry s.cacheP fun b => fEntry s.cacheQ fun c => fCl s.clE fun d => fCl s.clC fun e =>
  fCl s.clD fun f => fPC s.pPc fun g => fPC s.pQc fun h => fPC s.pQd fun i => fPC s.pPd fun j =>
  fB s.watchP fun wp => fB s.watchQ fun wq => fB s.lateP fun lp => fB s.lateQ fun lq => fB s.dieE fun de =>
  k ⟨a, b, c, d, e, f, g, h, i, j, wp, wq, lp, lq, de⟩
end force

/-- exhaustive exploration of all interleavings from `s` (fuel = bound on remaining steps): `prop` is demanded in
every final state on the way (environment events may still follow a final state) -/
def explore (T : Table) (prop : St → Bool) : Nat → St → Bool
  | 0, s => (allSteps.filter (enabled s)).isEmpty && prop s
  | n+1, s =>
    match ownSteps.filter (enabled s) with
    | [] => prop s && (envSteps.filter (enabled s)).all fun e => fSt (step T s e) fun s' => explore T prop n s'
    | en => (en ++ envSteps.filter (enabled s)).all fun e => fSt (step T s e) fun s' => explore T prop n s'

/-- the connection a side caches -/
def St.cached (s : St) (x : Side) : Option Conn := (s.cache x).map (·.1)

/-- T1: the peers do not cache different connections for each other -/
def noSplitBrain (s : St) : Bool :=
  match s.cached .P, s.cached .Q with
  | some x, some y => x == y
  | _, _ => true

/-- T2: a connection handed back as "reused" was not closed by the negotiation(s) (nor by a reap that follows
them; a stale reap of an older connection and the death of the pre-existing connection are not part of the
negotiation) -/
def reusedNotClosed (s : St) : Bool :=
  allProcs.all fun i => match s.pc i with
    | .done _ (.reused (some x)) _ _ => (match s.cl x with | .neg => false | _ => true)
    | _ => true

/-- T3: a side caches a NEW connection only if the other side caches the same one -/
def newOnlyIfPeer (s : St) : Bool :=
  [(Side.P, Side.Q), (Side.Q, Side.P)].all fun (x, y) => match s.cached x with
    | some .c => s.cached y == some .c
    | some .d => s.cached y == some .d
    | _ => true

/-- both sides stored a fresh connection, and not the same one (simultaneous-open cross) -/
def crossStore (s : St) : Bool :=
  let stored (i : Proc) : Bool := match s.pc i with | .done _ .fresh _ _ => true | _ => false
  (stored .Pc && stored .Qd) || (stored .Pd && stored .Qc)

/-- the three properties; T2 is demanded unless the run is a simultaneous-open cross store -/
def good (s : St) : Bool := noSplitBrain s && newOnlyIfPeer s && (reusedNotClosed s || crossStore s)
/-- the three properties, T2 unconditionally -/
def goodStrict (s : St) : Bool := noSplitBrain s && newOnlyIfPeer s && reusedNotClosed s

/-- what is demanded of a final state, by initial caches: T2 unconditionally unless both caches are empty -/
def goodFor (pre : Entry × Entry) : St → Bool :=
  match pre with
  | (none, none) => good
  | _ => goodStrict

/-- consistent pre-existing cache states: at most the one old connection `e`, seen from opposite directions -/
def preStates : List (Entry × Entry) :=
  [ (none, none),
    (some (.e, .outgoing), none), (some (.e, .incoming), none),
    (none, some (.e, .incoming)), (none, some (.e, .outgoing)),
    (some (.e, .outgoing), some (.e, .incoming)), (some (.e, .incoming), some (.e, .outgoing)) ]

/-- both peers cache the pre-existing connection (the further negotiation is redundant) -/
def sharedStates : List (Entry × Entry) :=
  [ (some (.e, .outgoing), some (.e, .incoming)), (some (.e, .incoming), some (.e, .outgoing)) ]

/-- the shared pre-existing connection is still cached by both peers, and open -/
def keepsShared (s : St) : Bool := s.cached .P == some .e && s.cached .Q == some .e && !s.closed .e

/-- which sides may see a stale reap: none, or one of the two -/
def lateConfigs : List (Bool × Bool) := [(false, false), (true, false), (false, true)]

/-- the environment scenarios covered by the theorems, `(stale reap at P, stale reap at Q), e may die`: at most ONE
environment event per run - none, a stale reap at P, a stale reap at Q, or the death of the pre-existing connection -/
def envConfigs : List ((Bool × Bool) × Bool) :=
  [((false, false), false), ((true, false), false), ((false, true), false), ((false, false), true)]

/-- `die`: the pre-existing connection may die during the run (it has to exist: some side caches it) -/
def init (dual : Bool) (pre : Entry × Entry) (late : Bool × Bool := (false, false)) (die : Bool := false) : St :=
  { dual := dual, cacheP := pre.1, cacheQ := pre.2, watchP := pre.1.isSome, watchQ := pre.2.isSome,
    lateP := late.1, lateQ := late.2, dieE := die && (pre.1.isSome || pre.2.isSome) }

end Specter.C41
