import SpecterModel.Util
import SpecterModel.C27.Model
/-! C27 line-protocol driver: model output (DIFF) + spec oracle decided from the property statement (SPEC). -/
namespace Specter.C27
open Specter.Util

def parseSlot (s : String) : Option Slot :=
  if s = "E" then some .empty else if s = "X" then some .lookupErr else if s = "U" then some .undecodable
  else match s.toList with
    | 'L' :: r => (String.ofList r).toNat?.map (Slot.route true ·)
    | 'R' :: r => (String.ofList r).toNat?.map (Slot.route false ·)
    | _ => none

def parseDial (s : String) : Option DialRes :=
  if s = "c" then some .conn else if s = "n" then some .noDirect else if s = "e" then some .err else none

def parseEnv (s : String) : Option Env :=
  match s.splitOn "/" with
  | [d, sf, st, lf, _variant] =>
    match parseDial d, (if st = "-" then some none else st.toNat?.map some) with
    | some d, some st => some ⟨d, sf = "1", st, lf = "1"⟩
    | _, _ => none
  | _ => none

def joinOrDash (xs : List String) : String := if xs.isEmpty then "-" else ",".intercalate xs

def outcomeStr : Outcome → String
  | .found k => s!"found:{k}" | .notFound => "notfound" | .notConnected => "notconnected"
  | .lookupFailed => "lookupfailed"

/-- the peer the gateway has to dial for slot i -/
def peerOf (slots : List Slot) (i : Nat) : String :=
  match slots[i]? with
  | some (.route true c) => s!"D{c}"
  | some (.route false _) => s!"P{100 + i}"
  | _ => "?"

def gotOf (slots : List Slot) (h alpn : String) (k : Nat) : String :=
  match slots[k]? with
  | some (.route true _) => s!"{h}:{alpn}:-:-"
  | some (.route false c) => s!"{h}:{alpn}:{c}:{h}"
  | _ => "?"

/-- spec: the client behind this route can be reached and handed the link -/
def reachable (s : Slot) (e : Env) : Bool :=
  match s with
  | .route true _ => e.dial == .conn && !e.linkFails
  | .route false _ => e.dial == .conn && !e.sendRouteFails && e.status == some 0 && !e.linkFails
  | _ => false

/-- "trying routes through the local node first": no proxied dial before a direct one -/
def localFirst : List String → Bool
  | [] => true
  | e :: es => (if e.startsWith "P" then es.all (fun x => !x.startsWith "D") else true) && localFirst es

/-- `full = false` (visitor whose own context is, or may be, done: outside the property's quantifier):
only the safety half is judged — who was dialled, in which order, and what a handed-out connection is. -/
def specDial (slots : List Slot) (envs : List Env) (h alpn out tried got : String) (full : Bool := true) : Option String :=
  let se := slots.zip envs
  let evs := if tried = "-" then [] else tried.splitOn ","
  let anyRoute := slots.any isRoute
  let anyReach := se.any (fun p => reachable p.1 p.2)
  let allowedPeers := (List.range slots.length).map (peerOf slots)
  if !evs.all (allowedPeers.contains ·) then some "dialled a peer that is not in H's routes"
  else if !localFirst evs then some "a remote route was tried before a local one"
  else if out.startsWith "found:" then
    match (out.drop 6).toString.toNat? with
    | none => some "unparsable found index"
    | some k =>
      if !(slots[k]?.map isRoute).getD false then some "connection handed to a client that is not in H's routes"
      else if evs.getLast? ≠ some (peerOf slots k) then some "returned connection was not dialled to the route's peer"
      else if got ≠ gotOf slots h alpn k then some s!"client did not receive H's link (want {gotOf slots h alpn k})"
      else if !((se[k]?).map (fun p => reachable p.1 p.2)).getD false then some "found through an unreachable route"
      else none
  else if !full then none
  else if slots.all (· == .empty) then
    (if out = "notfound" then none else some "H has no routes: want notfound")
  else if anyReach then some "a published client is reachable: want found"
  else if anyRoute then
    (if out = "notconnected" then none else some "H has routes but no client reachable: want notconnected")
  -- no lookup returned a route, at least one lookup failed: nothing is recorded in H's routes, so the
  -- gateway may not claim that H has routes (not-connected); it answers not-found, or lookup-failed
  -- (which the statement leaves open) as long as some lookup really failed
  else if out = "notconnected" then some "H has no routes (no lookup returned one): notconnected is only for a hostname with routes, want notfound"
  else if out = "notfound" || out = "lookupfailed" then none
  else some "H has no routes (no lookup returned one): want notfound"

def parseVisitor (s : String) : Option Visitor :=
  if s = "l" then some .live else if s = "g" then some .gone else if s = "t" then some .leavesInLookup else none

/-- lines that do not touch the modelled route cache -/
def stepPure (toks : List String) (rhs : String) : Unit × Verdict :=
  match toks with
  | ["dial", h, alpn, s0, s1, s2, e0, e1, e2, _cls] =>
    match [s0, s1, s2].mapM parseSlot, [e0, e1, e2].mapM parseEnv, rhs.splitOn " " with
    | some slots, some envs, [out, tried, closed, got] =>
      let envf : Nat → Env := fun i => envs[i]?.getD ⟨.err, false, none, false⟩
      let r := dialClient slots envf
      let mgot := match r.outcome with | .found k => gotOf slots h alpn k | _ => "-"
      let m := s!"{outcomeStr r.outcome} {joinOrDash (r.tried.map (peerOf slots))} {joinOrDash (r.closed.map toString)} {mgot}"
      match specDial slots envs h alpn out tried got with
      | some why => ((), .spec why)
      | none => if m ≠ s!"{out} {tried} {closed} {got}" then ((), .diff m) else ((), .ok)
    | _, _, _ => ((), .bad "dial args")
  | ["proxy", recv, cd, _variant] =>
    let rv : Option Recv :=
      match recv.splitOn ":" with
      | ["bad"] => some .bad
      | ["me", c] => c.toNat?.map (Recv.route true ·)
      | ["other", c] => c.toNat?.map (Recv.route false ·)
      | ["nil", c] => c.toNat?.map (Recv.route false ·)
      | _ => none
    match rv, parseDial cd, rhs.splitOn " " with
    | some rv, some cd, [st, dialed, piped, fwd, back] =>
      let o := handleProxy rv cd
      let p := if o.piped then "1" else "0"
      let m := s!"{o.status} {(o.dialed.map toString).getD "-"} {p} {p} {p}"
      let specBad : Option String :=
        match rv with
        | .route true c =>
          if dialed ≠ toString c then some "destination is this node: the route's client must be the one dialled"
          else if st = "0" ∧ (fwd ≠ "1" ∨ back ≠ "1" ∨ piped ≠ "1") then some "status OK but streams not piped"
          else if st = "0" ∧ cd ≠ .conn then some "status OK without a client connection"
          else none
        | _ => if dialed ≠ "-" then some "client dialled for a route that is not for this node"
               else if st = "0" then some "wrong destination accepted" else none
      match specBad with
      | some why => ((), .spec why)
      | none => if m ≠ rhs then ((), .diff m) else ((), .ok)
    | _, _, _ => ((), .bad "proxy args")
  | ["e2e", h, alpn, client, cd, lf] =>
    match client.toNat?, parseDial cd, rhs.splitOn " " with
    | some c, some cd, [out, dialed, got] =>
      let slots := [Slot.route false c, .empty, .empty]
      let po := handleProxy (.route true c) cd
      let r := dialClient slots (fun _ => ⟨.conn, false, some po.status, lf = "1"⟩)
      let mgot := match r.outcome with | .found _ => s!"{h}:{alpn}" | _ => "-"
      let m := s!"{outcomeStr r.outcome} {(po.dialed.map toString).getD "-"} {mgot}"
      if out.startsWith "found" ∧ (got ≠ s!"{h}:{alpn}" ∨ dialed ≠ client) then
        ((), .spec "proxied connection did not carry H's link to the route's client")
      else if out.startsWith "found" ∧ (cd ≠ .conn ∨ lf = "1") then ((), .spec "found although the client is unreachable")
      else if m ≠ rhs then ((), .diff m) else ((), .ok)
    | _, _, _ => ((), .bad "e2e args")
  | _ => ((), .bad "unknown op")

/-- `visit`: one `DialClient` of a sequence against the same server (route cache = driver state).
The spec oracle is stateless: it judges the line from what the KV holds for H and how the world answers
dials NOW — whatever earlier visitors did, a live visitor of a hostname with a reachable published
client must be connected, one of a hostname with unreachable routes is told not-connected, etc. -/
def step (c : Cache) (toks : List String) (rhs : String) : Cache × Verdict :=
  match toks with
  | ["reset"] => ([], .ok)
  | ["visit", h, alpn, s0, s1, s2, e0, e1, e2, vis, _cls] =>
    match [s0, s1, s2].mapM parseSlot, [e0, e1, e2].mapM parseEnv, parseVisitor vis, rhs.splitOn " " with
    | some slots, some envs, some v, [out, tried, closed, got, kv] =>
      let envf : Nat → Env := fun i => envs[i]?.getD ⟨.err, false, none, false⟩
      let (c', o) := visit c ⟨h, slots, envf, v⟩
      let r := o.result
      let mgot := match r.outcome with | .found k => gotOf slots h alpn k | _ => "-"
      let m := s!"{outcomeStr r.outcome} {joinOrDash (r.tried.map (peerOf slots))} {joinOrDash (r.closed.map toString)} {mgot} kv={o.kvGets}"
      match specDial slots envs h alpn out tried got (v == .live) with
      | some why => (c', .spec why)
      | none => if m ≠ s!"{out} {tried} {closed} {got} {kv}" then (c', .diff m) else (c', .ok)
    | _, _, _, _ => (c, .bad "visit args")
  | _ => (c, (stepPure toks rhs).2)

def main : IO Unit := runLoop ([] : Cache) step

end Specter.C27
