// C51 correspondence: the real (*Server).GetNodes (with chord.MakeSuccListByAddress and lookupDestination)
// against the Lean model and the property's executable statement.
package main

import (
	"context"
	"crypto/x509"
	"crypto/x509/pkix"
	"errors"
	"sort"
	"strings"

	"github.com/twitchtv/twirp"
	"go.miragespace.co/specter/spec/chord"
	"go.miragespace.co/specter/spec/mocks"
	"go.miragespace.co/specter/spec/protocol"
	"go.miragespace.co/specter/spec/rpc"
	"go.miragespace.co/specter/spec/transport"
	"go.miragespace.co/specter/spec/tun"
	"go.miragespace.co/specter/tun/server"
	"go.uber.org/zap"
	"verif/harness/hlib"
)

type getRes struct {
	val []byte
	err error
}

// fakeNode: a chord.VNode with a scripted identity, successor list and Get table.
type fakeNode struct {
	chord.VNode
	addr    string
	id      uint64
	succs   []chord.VNode
	succErr error
	tab     map[string]getRes
}

func (n *fakeNode) ID() uint64 { return n.id }
func (n *fakeNode) Identity() *protocol.Node {
	return &protocol.Node{Id: n.id, Address: n.addr}
}
func (n *fakeNode) GetSuccessors() ([]chord.VNode, error) { return n.succs, n.succErr }
func (n *fakeNode) Get(ctx context.Context, key []byte) ([]byte, error) {
	r := n.tab[string(key)] // unlisted key: nothing stored
	return r.val, r.err
}

func aTok(a string) string {
	if a == "" {
		return "a"
	}
	return "a" + hlib.HexS(a)
}

type rec struct {
	kind   string // F f M U X Y
	tunnel string
}

func (r rec) tok() string {
	if r.kind == "F" {
		if r.tunnel == "" {
			return "F"
		}
		return "F" + hlib.HexS(r.tunnel)
	}
	return r.kind
}

func (r rec) build(addr string) getRes {
	switch r.kind {
	case "F":
		d := &protocol.TunnelDestination{Chord: &protocol.Node{Address: addr, Id: 5}, Tunnel: &protocol.Node{Address: r.tunnel, Id: 9}}
		b, _ := d.MarshalVT()
		return getRes{val: b}
	case "f":
		d := &protocol.TunnelDestination{Chord: &protocol.Node{Address: addr, Id: 5}}
		b, _ := d.MarshalVT()
		return getRes{val: b}
	case "U":
		v := []byte{0x0a, 0x7f, 0x01}
		if (&protocol.TunnelDestination{}).UnmarshalVT(v) == nil {
			panic("harness: undecodable value decodes")
		}
		return getRes{val: v}
	case "X":
		return getRes{err: errors.New("boom")}
	case "Y":
		return getRes{err: chord.ErrKVPendingTransfer}
	}
	return getRes{val: []byte{}}
}

func main() {
	r := hlib.Start()
	r.Rule = "one case = (own address, successor list with nil entries and repeated addresses, destination record per address); " +
		"non-trivial = distinct case text; addresses drawn from a pool of 6 so that virtual nodes repeat; records: published, published without Tunnel field, " +
		"missing, undecodable, Get error (retryable / not); successor lists of length 0..10 and a failing GetSuccessors"
	rng := hlib.NewRng(r.Seed)
	logger := zap.NewNop()
	cert := &x509.Certificate{Subject: pkix.Name{CommonName: "v1:42:sometoken"}}
	ctx := rpc.WithDelegation(context.Background(), &transport.StreamDelegate{Certificate: cert})

	// one Server for the whole run (each server.New starts two caches with their own goroutines)
	theNode := &fakeNode{}
	srv := server.New(server.Config{
		ParentContext: context.Background(), Logger: logger, Chord: theNode,
		TunnelTransport: new(mocks.Transport), ChordTransport: new(mocks.Transport), Apex: "example.com", Acme: "acme.example.com",
	})

	run := func(self string, succs []string, succNil []bool, succErr bool, recs map[string]rec) {
		node := &fakeNode{addr: self, id: 1, tab: map[string]getRes{}}
		var succToks []string
		if succErr {
			node.succErr = errors.New("no successors")
		}
		for i, a := range succs {
			if succNil[i] {
				node.succs = append(node.succs, nil)
				succToks = append(succToks, "n")
				continue
			}
			node.succs = append(node.succs, &fakeNode{addr: a, id: uint64(100 + i)})
			succToks = append(succToks, aTok(a))
		}
		var recToks []string
		keys := make([]string, 0, len(recs))
		for a := range recs {
			keys = append(keys, a)
		}
		sort.Strings(keys)
		for _, a := range keys {
			node.tab[tun.DestinationByChordKey(&protocol.Node{Address: a})] = recs[a].build(a)
			recToks = append(recToks, aTok(a)+"="+recs[a].tok())
		}
		*theNode = *node
		rhs := func() (out string) {
			defer func() {
				if e := recover(); e != nil {
					out = "panic"
				}
			}()
			resp, err := srv.GetNodes(ctx, &protocol.GetNodesRequest{})
			if err != nil {
				te, ok := err.(twirp.Error)
				if !ok {
					return "err nontwirp"
				}
				key := te.Meta("kv")
				if key == "" {
					if te.Code() == twirp.Internal {
						return "err succ"
					}
					return "err " + string(te.Code())
				}
				a := strings.TrimPrefix(key, "/destination/chord/")
				kind := "kv0"
				switch {
				case strings.HasPrefix(te.Msg(), "no destination found"):
					kind = "missing"
				case strings.HasPrefix(te.Msg(), "tunnel destination decode failure"):
					kind = "undecodable"
				case te.Code() == twirp.FailedPrecondition:
					kind = "kv1"
				}
				return "err " + kind + " " + aTok(a)
			}
			var ts []string
			for _, n := range resp.GetNodes() {
				if n == nil {
					ts = append(ts, "nil")
				} else {
					ts = append(ts, "t"+strings.TrimPrefix(hlib.HexS(n.GetAddress()), "-"))
				}
			}
			return "ok " + hlib.Join(ts, ",")
		}()
		st := "ERR"
		if !succErr {
			st = hlib.Join(succToks, ",")
		}
		lhs := "getnodes " + aTok(self) + " " + st + " " + hlib.Join(recToks, ",")
		r.Emit(lhs, rhs)
		r.Case(lhs)
		f := strings.Fields(rhs)
		b := f[0]
		if b == "err" && len(f) > 1 {
			b += ":" + f[1]
		}
		r.Count("result:" + b)
		r.Count("succs:" + bucket(len(succs)))
	}

	if r.Replay != "" {
		for _, t := range r.ReplayLines() {
			if t[0] != "getnodes" || len(t) != 4 {
				continue
			}
			un := func(x string) string { return string(hlib.UnHex(orDash(x[1:]))) }
			self := un(t[1])
			var succs []string
			var nils []bool
			succErr := t[2] == "ERR"
			if !succErr && t[2] != "-" {
				for _, x := range strings.Split(t[2], ",") {
					if x == "n" {
						succs, nils = append(succs, ""), append(nils, true)
					} else {
						succs, nils = append(succs, un(x)), append(nils, false)
					}
				}
			}
			recs := map[string]rec{}
			if t[3] != "-" {
				for _, kv := range strings.Split(t[3], ",") {
					p := strings.SplitN(kv, "=", 2)
					rc := rec{kind: p[1][:1]}
					if rc.kind == "F" {
						rc.tunnel = string(hlib.UnHex(orDash(p[1][1:])))
					}
					recs[un(p[0])] = rc
				}
			}
			run(self, succs, nils, succErr, recs)
		}
		r.Finish()
		return
	}

	pool := []string{"n1:1", "n2:1", "n3:1", "n4:1", "", "N1:1"}
	budget := 6000
	if r.Thorough() {
		budget = 300000
	}
	for i := 0; i < budget; i++ {
		self := hlib.Pick(rng, pool)
		n := rng.Intn(11)
		if rng.Chance(10) {
			n = 0
		}
		succs := make([]string, n)
		nils := make([]bool, n)
		for j := range succs {
			switch {
			case rng.Chance(8):
				nils[j] = true
			case rng.Chance(25):
				succs[j] = self // own virtual nodes
			case j > 0 && rng.Chance(30):
				succs[j] = succs[j-1] // consecutive virtual nodes of one physical node
			default:
				succs[j] = hlib.Pick(rng, pool)
			}
		}
		recs := map[string]rec{}
		healthy := rng.Chance(60)
		for _, a := range pool {
			k := rng.Intn(100)
			switch {
			case healthy || k < 70:
				recs[a] = rec{kind: "F", tunnel: "tun-" + a}
				if rng.Chance(5) {
					recs[a] = rec{kind: "F", tunnel: ""}
				}
			case k < 76:
				recs[a] = rec{kind: "f"}
			case k < 84:
				// nothing stored at all
			case k < 88:
				recs[a] = rec{kind: "M"}
			case k < 92:
				recs[a] = rec{kind: "U"}
			case k < 96:
				recs[a] = rec{kind: "X"}
			default:
				recs[a] = rec{kind: "Y"}
			}
		}
		run(self, succs, nils, rng.Chance(3), recs)
	}
	r.Finish()
}

func orDash(s string) string {
	if s == "" {
		return "-"
	}
	return s
}

func bucket(n int) string {
	switch {
	case n == 0:
		return "0"
	case n <= 2:
		return "1-2"
	case n <= 5:
		return "3-5"
	}
	return "6+"
}
