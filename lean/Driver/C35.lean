import SpecterModel.C35.Drv

def main : IO Unit := Specter.C35.main
