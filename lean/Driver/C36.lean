import SpecterModel.C36.Drv

def main : IO Unit := Specter.C36.main
