/-! C43 executable model of `Client.SyncConfigTunnels` (tun/client/tunnel.go): hostname assignment.
Core Lean only.

Only the two fields the assignment looks at are modelled (`Target`, `Hostname`); all other tunnel
fields are carried through unchanged by the Go code (the loop only writes `tunnels[i].Hostname`). -/
namespace Specter.C43

structure Tunnel where
  target : String
  host : String
deriving DecidableEq, Repr

/-- `strings.Contains(hostname, ".")` -/
def dotted (h : String) : Bool := h.toList.elem '.'

/-- `inused`: the key set of the Go map = every configured hostname (the empty one included). -/
def hosts (ts : List Tunnel) : List String := ts.map (·.host)

/-- `available`: registered hostnames, in order, that are dot-free and not a key of `inused`. -/
def available (ts : List Tunnel) (registered : List String) : List String :=
  registered.filter fun h => !dotted h && !(hosts ts).elem h

/-- The assignment loop. `av` = remaining reusable names, `fr` = scripted answers of the next
`GenerateHostname` calls (`none` = the call fails; an exhausted script fails too).
Result: the tunnel list after the loop and the number of `GenerateHostname` calls made. -/
def assign : List Tunnel → List String → List (Option String) → List Tunnel × Nat
  | [], _, _ => ([], 0)
  | t :: ts, av, fr =>
    if t.target = "" then
      let r := assign ts av fr; (t :: r.1, r.2)                      -- `continue`
    else if t.host = "" then
      match av with
      | a :: av' => let r := assign ts av' fr; ({ t with host := a } :: r.1, r.2)
      | [] =>
        match fr with
        | some n :: fr' => let r := assign ts [] fr'; ({ t with host := n } :: r.1, r.2 + 1)
        | none :: fr' => let r := assign ts [] fr'; (t :: r.1, r.2 + 1)   -- error: `continue`
        | [] => let r := assign ts [] []; (t :: r.1, r.2 + 1)
    else
      let r := assign ts av fr; (t :: r.1, r.2)

structure Result where
  out : List Tunnel          -- tunnels handed to RebuildTunnels (= the configuration afterwards)
  calls : Nat                -- GenerateHostname calls
  published : List String    -- hostnames passed to PublishTunnel, in order
deriving DecidableEq, Repr

/-- `SyncConfigTunnels`: `registered = none` models a failing `RegisteredHostnames` (early return:
configuration unchanged, nothing published). -/
def sync (ts : List Tunnel) (registered : Option (List String)) (fr : List (Option String)) : Result :=
  match registered with
  | none => { out := ts, calls := 0, published := [] }
  | some reg =>
    let r := assign ts (available ts reg) fr
    { out := r.1, calls := r.2, published := (hosts r.1).filter (· ≠ "") }

/-! ## A tunnel removal arriving in the middle of a sync

`UnpublishTunnel` / `ReleaseTunnel` (`tunnelRemovalWrapper`) may run while `SyncConfigTunnels` waits
for an RPC (the sync holds `syncMu` only; `configMu` is free between its snapshot and
`RebuildTunnels`). The sync works on a PRIVATE COPY of the tunnel list taken under `configMu.RLock`
(`append([]Tunnel{}, c.Configuration.Tunnels...)`), so the removal edits only the live configuration;
`RebuildTunnels` then installs the sync's own list. -/

/-- `tunnelRemovalWrapper`: delete the first tunnel whose hostname is `h` (nothing if there is none). -/
def removeHost (h : String) : List Tunnel → List Tunnel
  | [] => []
  | t :: ts => if t.host = h then ts else t :: removeHost h ts

/-- the RPC of the sync during which the removal arrives (0-based call numbers) -/
inductive Point where
  | reg                -- RegisteredHostnames
  | gen (k : Nat)      -- k-th GenerateHostname call
  | pub (k : Nat)      -- k-th PublishTunnel call
deriving DecidableEq, Repr

structure ResultRm where
  res : Result
  /-- live configuration right after the removal returned; `none` = the sync never made that RPC -/
  mid : Option (List Tunnel)
deriving DecidableEq, Repr

/-- does a sync with outcome `r` make the RPC `pt` at all? -/
def reached (r : Result) : Point → Bool
  | .reg => true
  | .gen k => decide (k < r.calls)
  | .pub k => decide (k < r.published.length)

/-- `SyncConfigTunnels` with a removal of hostname `h` arriving while it waits at `pt`. -/
def syncRm (ts : List Tunnel) (registered : Option (List String)) (fr : List (Option String))
    (pt : Point) (h : String) : ResultRm :=
  let r := sync ts registered fr
  if !reached r pt then { res := r, mid := none }
  else match registered with
    -- early return: nothing is written back, the live configuration (minus the removed tunnel) stays
    | none => { res := { r with out := removeHost h ts }, mid := some (removeHost h ts) }
    -- the sync's private list is written back whole: the removal does not disturb the assignment
    | some _ => { res := r, mid := some (removeHost h ts) }

/-- the `some` answers of a script -/
def somes : List (Option String) → List String
  | [] => []
  | some n :: r => n :: somes r
  | none :: r => somes r

/-- tunnels that will ask for a name -/
def needy (ts : List Tunnel) : Nat := (ts.filter fun t => t.target ≠ "" && t.host = "").length

end Specter.C43
