import SpecterModel.C30.Drv

def main : IO Unit := Specter.C30.main
