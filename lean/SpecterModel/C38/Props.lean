import SpecterModel.C38.Model
/-!
# C38 — Length-prefixed messages round-trip and respect size bounds
All theorems are for every payload / trailing byte string / bound; the only hypothesis is
`payload.length < 2^32` (Go's `uint32(l)` conversion), stated explicitly.
-/
namespace Specter.C38

theorem be32_length (n : Nat) : (be32 n).length = 4 := rfl

theorem be32_bytes (n : Nat) : ∀ b ∈ be32 n, b < 256 := by
  intro b hb; simp [be32] at hb; omega

/-- big-endian size prefix round-trips for every uint32 -/
theorem be32_roundtrip (n : Nat) (h : n < 2^32) : decode32 (be32 n) = n := by
  simp only [be32, decode32]; omega

/-- beyond uint32 the prefix silently wraps (why the hypothesis is needed) -/
theorem be32_wraps (n : Nat) : decode32 (be32 n) = n % 2^32 := by
  simp only [be32, decode32]; omega

theorem take_send (p rest : Bytes) : (send p ++ rest).take LengthSize = be32 p.length := by
  simp [send, be32, LengthSize]

theorem drop_send (p rest : Bytes) : (send p ++ rest).drop LengthSize = p ++ rest := by
  simp [send, be32, LengthSize]

theorem send_length (p : Bytes) : (send p).length = 4 + p.length := by
  simp [send, be32]; omega

/-- generic: a frame whose size passes the check is read back exactly and the trailing bytes stay unread -/
theorem receive_send (check : Nat → Bool) (p rest : Bytes) (h : p.length < 2^32) (hc : check p.length = true) :
    receive check (send p ++ rest) = (.ok p, rest) := by
  unfold receive
  have hl : ¬ (send p ++ rest).length < LengthSize := by
    simp [List.length_append, send_length, LengthSize]; omega
  rw [if_neg hl, take_send, drop_send, be32_roundtrip _ h]
  simp [hc]

/-- **round trip (unbounded `Receive`)** -/
theorem recv_send (p rest : Bytes) (h : p.length < 2^32) :
    unboundedReceive (send p ++ rest) = (.ok p, rest) :=
  receive_send _ p rest h rfl

/-- **round trip (`BoundedReceive`, frame within the bound)** -/
theorem bounded_recv_send (max : Nat) (p rest : Bytes) (h : p.length < 2^32) (hm : p.length ≤ max) :
    boundedReceive max (send p ++ rest) = (.ok p, rest) :=
  receive_send _ p rest h (by simpa using hm)

/-- **bound respected**: a frame longer than the bound is rejected, and the payload is neither read nor
decoded: all of `p ++ rest` is still unread -/
theorem bounded_rejects (max : Nat) (p rest : Bytes) (h : p.length < 2^32) (hm : max < p.length) :
    boundedReceive max (send p ++ rest) = (.error .tooLarge, p ++ rest) := by
  unfold boundedReceive receive
  have hl : ¬ (send p ++ rest).length < LengthSize := by
    simp [List.length_append, send_length, LengthSize]; omega
  rw [if_neg hl, take_send, drop_send, be32_roundtrip _ h]
  have : ¬ p.length ≤ max := by omega
  simp [this]

/-- the rejection does not depend on the decoder at all (it is never consulted) -/
theorem bounded_rejects_without_decoding {μ : Type} (dec : Bytes → Option μ) (max : Nat) (p rest : Bytes)
    (h : p.length < 2^32) (hm : max < p.length) :
    recvMsg dec (fun size => decide (size ≤ max)) (send p ++ rest) = (.error .tooLarge, p ++ rest) := by
  have := bounded_rejects max p rest h hm
  unfold boundedReceive at this
  unfold recvMsg; rw [this]; rfl

/-- **message-level round trip** for any codec with `dec (enc m) = some m` (validated per message type by
the harness): the message is read back identical, trailing bytes intact -/
theorem msg_roundtrip {μ : Type} (enc : μ → Bytes) (dec : Bytes → Option μ) (check : Nat → Bool) (m : μ)
    (rest : Bytes) (hcodec : dec (enc m) = some m) (h : (enc m).length < 2^32)
    (hc : check (enc m).length = true) :
    recvMsg dec check (sendMsg enc m ++ rest) = (.ok m, rest) := by
  unfold recvMsg sendMsg; rw [receive_send check (enc m) rest h hc]; simp only [decodeWith, hcodec]

/-- two frames back to back: the second reader gets the second message (framing is self-delimiting) -/
theorem recv_two (a b rest : Bytes) (ha : a.length < 2^32) (hb : b.length < 2^32) :
    unboundedReceive (send a ++ (send b ++ rest)) = (.ok a, send b ++ rest) ∧
    unboundedReceive (send b ++ rest) = (.ok b, rest) :=
  ⟨recv_send a _ ha, recv_send b rest hb⟩

/-- **truncated streams**: fewer than 4 bytes, or fewer payload bytes than announced, is an error (never a
message), and the stream is drained -/
theorem truncated_header (check : Nat → Bool) (s : Bytes) (h : s.length < 4) :
    receive check s = (.error .noHeader, []) := by
  simp [receive, LengthSize, h]

theorem truncated_body (check : Nat → Bool) (s : Bytes) (h : 4 ≤ s.length)
    (hc : check (decode32 (s.take 4)) = true) (hb : s.length < 4 + decode32 (s.take 4)) :
    receive check s = (.error .shortBody, []) := by
  unfold receive
  have hl : ¬ s.length < LengthSize := by simp [LengthSize]; omega
  rw [if_neg hl]
  simp only [LengthSize, hc, Bool.not_true, Bool.false_eq_true, if_false, List.length_drop]
  rw [if_pos (by omega)]

/-- every proper prefix of a frame is an error -/
theorem truncated_frame_errors (p : Bytes) (k : Nat) (h : p.length < 2^32) (hk : k < (send p).length) :
    ∃ e, unboundedReceive ((send p).take k) = (.error e, []) := by
  by_cases h4 : k < 4
  · exact ⟨.noHeader, truncated_header _ _ (by simp [List.length_take]; omega)⟩
  · refine ⟨.shortBody, truncated_body _ _ (by simp [List.length_take]; omega) rfl ?_⟩
    have hk' : k < 4 + p.length := by rwa [send_length] at hk
    have : ((send p).take k).take 4 = be32 p.length := by
      rw [List.take_take, show min 4 k = 4 by omega]
      simpa [LengthSize] using take_send p []
    rw [this, be32_roundtrip _ h]
    simp [List.length_take, send_length]; omega

/-- success implies the stream really started with a complete frame (no message out of thin air) -/
theorem receive_ok_inv (check : Nat → Bool) (s p rest : Bytes) (h : receive check s = (.ok p, rest)) :
    s = s.take 4 ++ p ++ rest ∧ p.length = decode32 (s.take 4) ∧ check p.length = true := by
  unfold receive at h
  split at h
  · simp at h
  · simp only at h
    split at h
    · simp at h
    · rename_i hc
      split at h
      · simp at h
      · rename_i hb
        simp only [Prod.mk.injEq, Except.ok.injEq] at h
        obtain ⟨h1, h2⟩ := h
        have hlen : p.length = decode32 (s.take 4) := by
          rw [← h1]; simp [LengthSize] at hb ⊢; omega
        refine ⟨?_, hlen, ?_⟩
        · rw [← h1, ← h2, List.append_assoc, List.take_append_drop]; simp [LengthSize]
        · rw [hlen]; simpa [LengthSize] using hc

/-! non-vacuity -/
example : send [1, 2, 3] = [0, 0, 0, 3, 1, 2, 3] := by decide
example : unboundedReceive (send [1, 2, 3] ++ [9, 9]) = (.ok [1, 2, 3], [9, 9]) := by rfl
example : boundedReceive 2 (send [1, 2, 3] ++ [9, 9]) = (.error .tooLarge, [1, 2, 3, 9, 9]) := by rfl
example : boundedReceive 3 (send [1, 2, 3] ++ [9, 9]) = (.ok [1, 2, 3], [9, 9]) := by rfl
example : unboundedReceive [0, 0, 0, 3, 1, 2] = (.error .shortBody, []) := by rfl
example : be32 70000 = [0, 1, 17, 112] ∧ decode32 (be32 70000) = 70000 := by decide

end Specter.C38
