package main

// go2lean: a deliberately tiny translator from straight-line integer/boolean Go
// to Lean 4 definitions. Supported: const declarations, functions whose
// parameters are uint64 / int / int64 / time.Duration / bool, bodies made of
// `if`/`else`, `return`, `x := e`, and expressions over
// + - * / % << >> & | < <= > >= == != && || ! with calls to other translated
// functions. A call to anything else becomes an explicit parameter of the
// generated definition (the external function's result is an input).
// Anything else fails loudly: a broken tie is reported, never papered over.

import (
	"fmt"
	"go/ast"
	"go/parser"
	"go/token"
	"os"
	"sort"
	"strings"
)

type ty int

const (
	tyUnknown ty = iota
	tyU64
	tyInt
	tyBool
)

func (t ty) lean() string {
	switch t {
	case tyU64:
		return "BitVec 64"
	case tyInt:
		return "Int"
	case tyBool:
		return "Bool"
	}
	return "?"
}

func goType(e ast.Expr) ty {
	switch x := e.(type) {
	case *ast.Ident:
		switch x.Name {
		case "uint64":
			return tyU64
		case "int", "int64":
			return tyInt
		case "bool":
			return tyBool
		}
	case *ast.SelectorExpr:
		if id, ok := x.X.(*ast.Ident); ok && id.Name == "time" && x.Sel.Name == "Duration" {
			return tyInt
		}
	}
	return tyUnknown
}

type g2l struct {
	fset   *token.FileSet
	consts map[string]ty     // known constants
	funcs  map[string]*fnSig // translated functions
	out    strings.Builder
}

type fnSig struct {
	params []string
	ptys   []ty
	ret    ty
	ext    []extParam
}

type extParam struct {
	name string
	t    ty
}

type scope struct {
	vars map[string]ty
	ext  *[]extParam
}

func fail(format string, a ...any) {
	fmt.Fprintf(os.Stderr, "go2lean: "+format+"\n", a...)
	os.Exit(3)
}

func (g *g2l) typeOf(e ast.Expr, sc *scope) ty {
	switch x := e.(type) {
	case *ast.ParenExpr:
		return g.typeOf(x.X, sc)
	case *ast.Ident:
		if t, ok := sc.vars[x.Name]; ok {
			return t
		}
		if t, ok := g.consts[x.Name]; ok {
			return t
		}
		if x.Name == "true" || x.Name == "false" {
			return tyBool
		}
	case *ast.BinaryExpr:
		switch x.Op {
		case token.LSS, token.LEQ, token.GTR, token.GEQ, token.EQL, token.NEQ, token.LAND, token.LOR:
			return tyBool
		case token.SHL, token.SHR:
			return g.typeOf(x.X, sc)
		}
		if t := g.typeOf(x.X, sc); t != tyUnknown {
			return t
		}
		return g.typeOf(x.Y, sc)
	case *ast.UnaryExpr:
		if x.Op == token.NOT {
			return tyBool
		}
		return g.typeOf(x.X, sc)
	case *ast.CallExpr:
		if id, ok := x.Fun.(*ast.Ident); ok {
			if f, ok := g.funcs[id.Name]; ok {
				return f.ret
			}
			if t := goType(id); t != tyUnknown { // conversion
				return t
			}
		}
		if se, ok := x.Fun.(*ast.SelectorExpr); ok {
			if t := goType(se); t != tyUnknown {
				return t
			}
		}
	case *ast.SelectorExpr:
		if id, ok := x.X.(*ast.Ident); ok && id.Name == "time" {
			return tyInt
		}
	}
	return tyUnknown
}

var timeConsts = map[string]string{
	"Nanosecond": "1", "Microsecond": "1000", "Millisecond": "1000000",
	"Second": "1000000000", "Minute": "60000000000", "Hour": "3600000000000",
}

func (g *g2l) expr(e ast.Expr, want ty, sc *scope) string {
	switch x := e.(type) {
	case *ast.ParenExpr:
		return "(" + g.expr(x.X, want, sc) + ")"
	case *ast.BasicLit:
		if x.Kind != token.INT {
			fail("unsupported literal %s", x.Value)
		}
		switch want {
		case tyU64:
			return "(" + x.Value + "#64)"
		case tyInt, tyUnknown:
			return "(" + x.Value + " : Int)"
		}
		fail("literal %s in %s context", x.Value, want.lean())
	case *ast.Ident:
		if x.Name == "true" || x.Name == "false" {
			return x.Name
		}
		t := g.typeOf(x, sc)
		if t == tyUnknown {
			fail("unknown identifier %s", x.Name)
		}
		if want != tyUnknown && t != want {
			if t == tyInt && want == tyU64 {
				return "(BitVec.ofInt 64 " + x.Name + ")"
			}
			fail("identifier %s has type %s, want %s", x.Name, t.lean(), want.lean())
		}
		return x.Name
	case *ast.SelectorExpr:
		if id, ok := x.X.(*ast.Ident); ok && id.Name == "time" {
			if v, ok := timeConsts[x.Sel.Name]; ok {
				return "(" + v + " : Int)"
			}
		}
		fail("unsupported selector %v", x.Sel.Name)
	case *ast.UnaryExpr:
		switch x.Op {
		case token.NOT:
			return "(!" + g.expr(x.X, tyBool, sc) + ")"
		case token.SUB:
			return "(-" + g.expr(x.X, want, sc) + ")"
		}
		fail("unsupported unary %s", x.Op)
	case *ast.BinaryExpr:
		switch x.Op {
		case token.LAND:
			return "(" + g.expr(x.X, tyBool, sc) + " && " + g.expr(x.Y, tyBool, sc) + ")"
		case token.LOR:
			return "(" + g.expr(x.X, tyBool, sc) + " || " + g.expr(x.Y, tyBool, sc) + ")"
		case token.LSS, token.LEQ, token.GTR, token.GEQ, token.EQL, token.NEQ:
			t := g.typeOf(x.X, sc)
			if t == tyUnknown {
				t = g.typeOf(x.Y, sc)
			}
			if t == tyUnknown {
				t = tyInt
			}
			a, b := g.expr(x.X, t, sc), g.expr(x.Y, t, sc)
			switch x.Op {
			case token.EQL:
				return "(" + a + " == " + b + ")"
			case token.NEQ:
				return "(" + a + " != " + b + ")"
			}
			return "(decide (" + a + " " + x.Op.String() + " " + b + "))"
		case token.SHL, token.SHR:
			t := want
			if t == tyUnknown {
				t = g.typeOf(x.X, sc)
			}
			if t != tyU64 {
				fail("shift on non-uint64")
			}
			op := " <<< "
			if x.Op == token.SHR {
				op = " >>> "
			}
			st := g.typeOf(x.Y, sc)
			var sh string
			if st == tyU64 {
				sh = "(" + g.expr(x.Y, tyU64, sc) + ").toNat"
			} else {
				sh = "(" + g.expr(x.Y, tyInt, sc) + ").toNat"
			}
			return "(" + g.expr(x.X, t, sc) + op + sh + ")"
		case token.ADD, token.SUB, token.MUL, token.QUO, token.REM, token.AND, token.OR:
			t := want
			if t == tyUnknown {
				t = g.typeOf(x, sc)
			}
			if t == tyUnknown {
				t = tyInt
			}
			op := x.Op.String()
			switch x.Op {
			case token.AND:
				op = "&&&"
			case token.OR:
				op = "|||"
			case token.QUO:
				if t == tyInt {
					return "(Int.tdiv " + g.expr(x.X, t, sc) + " " + g.expr(x.Y, t, sc) + ")"
				}
			case token.REM:
				if t == tyInt {
					return "(Int.tmod " + g.expr(x.X, t, sc) + " " + g.expr(x.Y, t, sc) + ")"
				}
			}
			return "(" + g.expr(x.X, t, sc) + " " + op + " " + g.expr(x.Y, t, sc) + ")"
		}
		fail("unsupported binary operator %s", x.Op)
	case *ast.CallExpr:
		if id, ok := x.Fun.(*ast.Ident); ok {
			if f, ok := g.funcs[id.Name]; ok {
				if len(x.Args) != len(f.params) {
					fail("call %s: arity (some parameter had an untranslatable type)", id.Name)
				}
				var sb strings.Builder
				sb.WriteString("(" + id.Name)
				for _, ep := range f.ext {
					*sc.ext = appendExt(*sc.ext, ep)
					sb.WriteString(" " + ep.name)
				}
				for i, a := range x.Args {
					sb.WriteString(" " + g.expr(a, f.ptys[i], sc))
				}
				sb.WriteString(")")
				return sb.String()
			}
			if t := goType(id); t != tyUnknown && len(x.Args) == 1 { // conversion T(e)
				at := g.typeOf(x.Args[0], sc)
				if at == t || at == tyUnknown {
					return g.expr(x.Args[0], t, sc)
				}
				if at == tyInt && t == tyU64 {
					return "(BitVec.ofInt 64 " + g.expr(x.Args[0], tyInt, sc) + ")"
				}
				if at == tyU64 && t == tyInt {
					return "(" + g.expr(x.Args[0], tyU64, sc) + ").toInt"
				}
			}
		}
		if se, ok := x.Fun.(*ast.SelectorExpr); ok {
			if t := goType(se); t != tyUnknown && len(x.Args) == 1 { // time.Duration(e)
				return g.expr(x.Args[0], t, sc)
			}
			// d.Truncate(m) on durations: d - d % m (m > 0)
			if se.Sel.Name == "Truncate" && len(x.Args) == 1 && g.typeOf(se.X, sc) == tyInt {
				d, m := g.expr(se.X, tyInt, sc), g.expr(x.Args[0], tyInt, sc)
				return "(" + d + " - Int.tmod " + d + " " + m + ")"
			}
			// external call: its result becomes an explicit parameter
			name := "ext"
			if id, ok := se.X.(*ast.Ident); ok {
				name += "_" + id.Name
			}
			name += "_" + se.Sel.Name
			t := want
			if t == tyUnknown {
				fail("external call %s in untyped context", name)
			}
			*sc.ext = appendExt(*sc.ext, extParam{name, t})
			return name
		}
		fail("unsupported call")
	}
	fail("unsupported expression %T at %v", e, g.fset.Position(e.Pos()))
	return ""
}

func appendExt(l []extParam, e extParam) []extParam {
	for _, x := range l {
		if x.name == e.name {
			return l
		}
	}
	return append(l, e)
}

func (g *g2l) block(stmts []ast.Stmt, ret ty, sc *scope, ind string) string {
	if len(stmts) == 0 {
		fail("control reaches end of block without return")
	}
	s, rest := stmts[0], stmts[1:]
	switch x := s.(type) {
	case *ast.ReturnStmt:
		if len(x.Results) != 1 {
			fail("return with %d results", len(x.Results))
		}
		return ind + g.expr(x.Results[0], ret, sc)
	case *ast.AssignStmt:
		if x.Tok != token.DEFINE || len(x.Lhs) != 1 || len(x.Rhs) != 1 {
			fail("unsupported assignment at %v", g.fset.Position(x.Pos()))
		}
		name := x.Lhs[0].(*ast.Ident).Name
		t := g.typeOf(x.Rhs[0], sc)
		if t == tyUnknown {
			t = tyInt
		}
		v := g.expr(x.Rhs[0], t, sc)
		nsc := &scope{vars: map[string]ty{}, ext: sc.ext}
		for k, v := range sc.vars {
			nsc.vars[k] = v
		}
		nsc.vars[name] = t
		return ind + "let " + name + " : " + t.lean() + " := " + v + "\n" + g.block(rest, ret, nsc, ind)
	case *ast.IfStmt:
		if x.Init != nil {
			fail("if with init")
		}
		c := g.expr(x.Cond, tyBool, sc)
		thenB := append(append([]ast.Stmt{}, x.Body.List...), restIfFallthrough(x.Body.List, rest)...)
		var elseB []ast.Stmt
		switch e := x.Else.(type) {
		case nil:
			elseB = rest
		case *ast.BlockStmt:
			elseB = append(append([]ast.Stmt{}, e.List...), restIfFallthrough(e.List, rest)...)
		case *ast.IfStmt:
			elseB = append([]ast.Stmt{e}, rest...)
		}
		return ind + "if " + c + " then\n" + g.block(thenB, ret, sc, ind+"  ") + "\n" + ind + "else\n" + g.block(elseB, ret, sc, ind+"  ")
	}
	fail("unsupported statement %T at %v", s, g.fset.Position(s.Pos()))
	return ""
}

func restIfFallthrough(body []ast.Stmt, rest []ast.Stmt) []ast.Stmt {
	if len(body) > 0 {
		if _, ok := body[len(body)-1].(*ast.ReturnStmt); ok {
			return nil
		}
	}
	return rest
}

// runGo2Lean: args = namespace file.go name...
func runGo2Lean(args []string) {
	if len(args) < 3 {
		fail("usage: go2lean <namespace> <file.go> <name>...")
	}
	ns, file, names := args[0], args[1], args[2:]
	g := &g2l{fset: token.NewFileSet(), consts: map[string]ty{}, funcs: map[string]*fnSig{}}
	f, err := parser.ParseFile(g.fset, file, nil, 0)
	if err != nil {
		fail("%v", err)
	}
	want := map[string]bool{}
	for _, n := range names {
		want[n] = true
	}
	found := map[string]bool{}
	fmt.Fprintf(&g.out, "/- GENERATED by extract/go2lean from %s — do not edit -/\nnamespace %s\n\n", shortPath(file), ns)
	// constants first, in source order
	for _, d := range f.Decls {
		gd, ok := d.(*ast.GenDecl)
		if !ok || gd.Tok != token.CONST {
			continue
		}
		for _, sp := range gd.Specs {
			vs := sp.(*ast.ValueSpec)
			for i, id := range vs.Names {
				if !want[id.Name] {
					continue
				}
				found[id.Name] = true
				t := goType(vs.Type)
				if vs.Type == nil {
					t = tyInt
				}
				if t == tyUnknown || i >= len(vs.Values) {
					fail("constant %s: unsupported type or missing value", id.Name)
				}
				sc := &scope{vars: map[string]ty{}, ext: &[]extParam{}}
				fmt.Fprintf(&g.out, "def %s : %s := %s\n\n", id.Name, t.lean(), g.expr(vs.Values[i], t, sc))
				g.consts[id.Name] = t
			}
		}
	}
	for _, d := range f.Decls {
		fd, ok := d.(*ast.FuncDecl)
		if !ok || !want[fd.Name.Name] || fd.Recv != nil {
			continue
		}
		found[fd.Name.Name] = true
		sig := &fnSig{}
		sc := &scope{vars: map[string]ty{}, ext: &[]extParam{}}
		for _, p := range fd.Type.Params.List {
			t := goType(p.Type)
			for _, n := range p.Names {
				if t == tyUnknown {
					continue // only usable inside external calls
				}
				sig.params = append(sig.params, n.Name)
				sig.ptys = append(sig.ptys, t)
				sc.vars[n.Name] = t
			}
		}
		if fd.Type.Results == nil || len(fd.Type.Results.List) != 1 {
			fail("function %s: need exactly one result", fd.Name.Name)
		}
		sig.ret = goType(fd.Type.Results.List[0].Type)
		if sig.ret == tyUnknown {
			fail("function %s: unsupported result type", fd.Name.Name)
		}
		body := g.block(fd.Body.List, sig.ret, sc, "  ")
		sig.ext = *sc.ext
		var ps strings.Builder
		for _, ep := range sig.ext {
			fmt.Fprintf(&ps, " (%s : %s)", ep.name, ep.t.lean())
		}
		for i, p := range sig.params {
			fmt.Fprintf(&ps, " (%s : %s)", p, sig.ptys[i].lean())
		}
		fmt.Fprintf(&g.out, "def %s%s : %s :=\n%s\n\n", fd.Name.Name, ps.String(), sig.ret.lean(), body)
		g.funcs[fd.Name.Name] = sig
	}
	var missing []string
	for n := range want {
		if !found[n] {
			missing = append(missing, n)
		}
	}
	sort.Strings(missing)
	if len(missing) > 0 {
		fail("not found in %s: %v", file, missing)
	}
	fmt.Fprintf(&g.out, "end %s\n", ns)
	fmt.Print(g.out.String())
}

func shortPath(p string) string {
	if d := os.Getenv("VERIF_MUTANT_DIR"); d != "" && strings.HasPrefix(p, strings.TrimRight(d, "/")+"/") {
		return p[len(strings.TrimRight(d, "/"))+1:]
	}
	if i := strings.Index(p, "/repo/"); i >= 0 {
		return p[i+6:]
	}
	return p
}
