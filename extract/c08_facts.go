package main

// c08-facts <dir of package chord> <chord/a.go> <chord/b.go> … : print GenLocks.lean — the mutex fields of
//            LocalNode and the LOCK-ORDER EDGES between them: an edge A → B for every place where some function
//            of the package acquires B (Lock or RLock) while it holds A (between A's Lock/RLock and the matching
//            Unlock/RUnlock; a deferred unlock holds to the return), directly or inside a function of the same
//            LocalNode that it calls (receiver methods, package functions that are handed the node), inlined.
// c08-edges <same arguments> : the same edges, one per line `A -> B  (function>callee…)`, for humans.
//
// The first argument is the directory of the package as it is in the repository: every non-test .go file in it
// must be among the files that follow (by base name), so that a file added to the package cannot silently stay
// outside the analysis. The files themselves are given one by one because ./check substitutes the edited copy of
// a file under VERIF_MUTANT_DIR per file.
//
// Reading of the code (purely syntactic, go/ast; anything outside it ABORTS with a non-zero exit, which ./check
// reports as a broken obligation):
//   * mutexes = fields of `type LocalNode struct` of type sync.Mutex / sync.RWMutex, in declaration order;
//   * node identifiers of a function = its receiver or parameters of type LocalNode / *LocalNode (at most one per
//     function: two nodes would be locks of different objects) — visible in its closures too;
//   * lock operations = statements `<node>.<mutex>.Lock|RLock|Unlock|RUnlock()` and `defer <node>.<mutex>.Unlock|RUnlock()`.
//     RLock is treated as Lock for ordering (a sync.RWMutex blocks new readers once a writer waits, so a reader
//     that waits for a second lock is as good as a writer); acquiring a mutex that is already held gives the
//     self edge A → A. Any other mention of a mutex field (TryLock, address taken, another base expression,
//     a lock operation inside an expression) is rejected;
//   * every function and method with a body is analysed as an entry point holding nothing. Statements are
//     followed in order; the branches of if / switch / select / loops start from the locks held at their head and
//     have to end (unless they end in return / break / continue / goto) holding exactly those again; at every
//     return the deferred calls registered so far run in LIFO order; a function has to return holding what it
//     held on entry;
//   * a call `<node>.<method>(…)` of a LocalNode method, or `<func>(…, <node>, …)` of a package function that takes
//     the node, made WHILE A LOCK IS HELD is inlined (the callee's body is followed with the caller's locks held),
//     at most c08MaxInline levels deep, recursion rejected. With nothing held the callee is not followed: it is an
//     entry point of its own;
//   * function literals are followed where they are written with the locks held there (immediately invoked,
//     passed as an argument — e.g. retry.Do, computeUpdate — or deferred: then at the return); `go` statements
//     start with nothing held.
// NOT covered (stated in spec/C08.json): calls through interface values or function values (chord.VNode methods
//   of a neighbour that may be the node itself, `handler(…)`), locks of other objects (fingerEntry.RWMutex, the
//   KV provider, other nodes), channel / WaitGroup / Once / Cond waits, and the node state word (nodeState).

import (
	"fmt"
	"go/ast"
	"go/parser"
	"go/token"
	"os"
	"path/filepath"
	"sort"
	"strings"
)

const c08MaxInline = 3

type c08Edge struct {
	from, to string
	where    string
}

type c08Func struct {
	name   string // "Method" or "function"
	decl   *ast.FuncDecl
	nodeID string // identifier of the node inside the body ("" = none)
	argPos int    // for package functions: index of the node parameter; -1 for methods
}

type c08Ctx struct {
	fset    *token.FileSet
	mutexes []string
	isMutex map[string]bool
	methods map[string]*c08Func // LocalNode methods by name
	funcs   map[string]*c08Func // package functions taking a node, by name
	fields  map[string]bool     // all field names of LocalNode (incl. embedded type names)
	edges   []c08Edge
	seen    map[string]bool
}

func (c *c08Ctx) fail(n ast.Node, msg string) {
	pos := ""
	if n != nil {
		pos = c.fset.Position(n.Pos()).String() + ": "
	}
	fmt.Fprintf(os.Stderr, "c08-facts: %sunsupported: %s\n", pos, msg)
	os.Exit(1)
}

func c08IsNodeType(t ast.Expr) bool {
	if st, ok := t.(*ast.StarExpr); ok {
		t = st.X
	}
	id, ok := t.(*ast.Ident)
	return ok && id.Name == "LocalNode"
}

// one function being followed (an entry point, an inlined callee or a function literal)
type c08Frame struct {
	c      *c08Ctx
	nodeID string
	where  string   // entry function and the chain of inlined callees: "RequestToJoin>getSuccessors"
	stack  []string // names of the functions being inlined (recursion check)
	depth  int
	entry  []string // locks held on entry
	held   []string
	defers []ast.Node // *ast.CallExpr (lock op or other call) in registration order
	loops  []c08Head  // the enclosing loops / switches / selects
	nest   int        // > 0 inside a conditional branch or loop body
}

// locks held at the head of an enclosing breakable statement
type c08Head struct {
	held   []string
	isLoop bool
}

func c08Copy(s []string) []string { return append([]string{}, s...) }

func c08Same(a, b []string) bool {
	x, y := c08Copy(a), c08Copy(b)
	sort.Strings(x)
	sort.Strings(y)
	return strings.Join(x, ",") == strings.Join(y, ",")
}

// lock operation `<node>.<mutex>.<op>()`? returns mutex, op.
func (f *c08Frame) lockOp(call *ast.CallExpr) (string, string, bool) {
	sel, ok := call.Fun.(*ast.SelectorExpr)
	if !ok {
		return "", "", false
	}
	in, ok := sel.X.(*ast.SelectorExpr)
	if !ok || !f.c.isMutex[in.Sel.Name] {
		return "", "", false
	}
	base, ok := in.X.(*ast.Ident)
	if !ok || f.nodeID == "" || base.Name != f.nodeID {
		f.c.fail(call, "mutex "+in.Sel.Name+" reached through something that is not the function's LocalNode")
	}
	switch sel.Sel.Name {
	case "Lock", "RLock", "Unlock", "RUnlock":
		if len(call.Args) != 0 {
			f.c.fail(call, "lock operation with arguments")
		}
		return in.Sel.Name, sel.Sel.Name, true
	}
	f.c.fail(call, "operation "+sel.Sel.Name+" on mutex "+in.Sel.Name)
	return "", "", false
}

func (f *c08Frame) acquire(n ast.Node, mu string) {
	for _, h := range f.held {
		key := h + ">" + mu + "@" + f.where
		if !f.c.seen[key] {
			f.c.seen[key] = true
			f.c.edges = append(f.c.edges, c08Edge{h, mu, f.where})
		}
	}
	f.held = append(f.held, mu)
}

func (f *c08Frame) release(n ast.Node, mu string) {
	for i := len(f.held) - 1; i >= 0; i-- {
		if f.held[i] == mu {
			f.held = append(f.held[:i:i], f.held[i+1:]...)
			return
		}
	}
	f.c.fail(n, "unlock of "+mu+" which is not held at this point of "+f.where)
}

func (f *c08Frame) doLockOp(n ast.Node, mu, op string) {
	switch op {
	case "Lock", "RLock":
		f.acquire(n, mu)
	default:
		f.release(n, mu)
	}
}

// any mention of a mutex field that was not consumed as a lock operation statement
func (f *c08Frame) rejectMutexMention(n ast.Node) {
	if n == nil {
		return
	}
	ast.Inspect(n, func(x ast.Node) bool {
		if _, ok := x.(*ast.FuncLit); ok {
			return false // followed separately
		}
		if s, ok := x.(*ast.SelectorExpr); ok && f.c.isMutex[s.Sel.Name] {
			f.c.fail(s, "mutex "+s.Sel.Name+" used in an expression (only Lock/RLock/Unlock/RUnlock statements and deferred unlocks are understood)")
		}
		return true
	})
}

// a call that cannot touch the node's locks as far as this analysis sees: no lock operation, no function literal,
// no call of a function of the node
func (f *c08Frame) inert(call *ast.CallExpr) bool {
	ok := true
	ast.Inspect(call, func(x ast.Node) bool {
		switch v := x.(type) {
		case *ast.FuncLit:
			ok = false
		case *ast.CallExpr:
			if _, _, is := f.lockOp(v); is || f.callee(v) != nil {
				ok = false
			}
		case *ast.SelectorExpr:
			if f.c.isMutex[v.Sel.Name] {
				ok = false
			}
		}
		return ok
	})
	return ok
}

// expressions of a statement, in source order: calls are followed, function literals are followed in place
func (f *c08Frame) expr(e ast.Node) {
	if e == nil {
		return
	}
	ast.Inspect(e, func(x ast.Node) bool {
		switch v := x.(type) {
		case *ast.FuncLit:
			f.closure(v, f.held)
			return false
		case *ast.CallExpr:
			if _, _, ok := f.lockOp(v); ok {
				f.c.fail(v, "lock operation inside an expression")
			}
			f.call(v)
			return true
		case *ast.SelectorExpr:
			if f.c.isMutex[v.Sel.Name] {
				f.c.fail(v, "mutex "+v.Sel.Name+" used in an expression")
			}
		}
		return true
	})
}

// a function literal written at a point where `held` is held
func (f *c08Frame) closure(lit *ast.FuncLit, held []string) {
	for _, p := range lit.Type.Params.List {
		if c08IsNodeType(p.Type) {
			f.c.fail(lit, "function literal with a LocalNode parameter")
		}
	}
	g := &c08Frame{c: f.c, nodeID: f.nodeID, where: f.where, stack: f.stack, depth: f.depth,
		entry: c08Copy(held), held: c08Copy(held)}
	g.body(lit.Body)
}

// callee of a call on the node, if any
func (f *c08Frame) callee(call *ast.CallExpr) *c08Func {
	fun := call.Fun
	if ix, ok := fun.(*ast.IndexExpr); ok { // explicit instantiation f[T](…)
		fun = ix.X
	}
	if ix, ok := fun.(*ast.IndexListExpr); ok {
		fun = ix.X
	}
	switch v := fun.(type) {
	case *ast.SelectorExpr:
		base, ok := v.X.(*ast.Ident)
		if !ok || f.nodeID == "" || base.Name != f.nodeID {
			return nil
		}
		if m := f.c.methods[v.Sel.Name]; m != nil {
			return m
		}
		if len(f.held) > 0 && !f.c.fields[v.Sel.Name] {
			// promoted methods of embedded fields (NodeConfig has none that lock) would land here
			f.c.fail(call, "call of "+f.nodeID+"."+v.Sel.Name+" while holding "+strings.Join(f.held, ",")+": method not found in the given files")
		}
	case *ast.Ident:
		if g := f.c.funcs[v.Name]; g != nil {
			if g.argPos < len(call.Args) {
				if a, ok := call.Args[g.argPos].(*ast.Ident); ok && f.nodeID != "" && a.Name == f.nodeID {
					return g
				}
			}
			if len(f.held) > 0 {
				f.c.fail(call, "call of "+v.Name+" with another LocalNode while holding "+strings.Join(f.held, ","))
			}
		}
	}
	return nil
}

func (f *c08Frame) call(call *ast.CallExpr) {
	g := f.callee(call)
	if g == nil || len(f.held) == 0 {
		return // not a function of this node, or nothing held: the callee is an entry point of its own
	}
	if g.decl.Body == nil {
		f.c.fail(call, "call of "+g.name+" (no body) while holding "+strings.Join(f.held, ","))
	}
	for _, s := range f.stack {
		if s == g.name {
			f.c.fail(call, "recursive call of "+g.name+" while holding "+strings.Join(f.held, ","))
		}
	}
	if f.depth+1 > c08MaxInline {
		f.c.fail(call, fmt.Sprintf("call chain %s>%s deeper than %d levels while holding %s", f.where, g.name, c08MaxInline, strings.Join(f.held, ",")))
	}
	in := &c08Frame{c: f.c, nodeID: g.nodeID, where: f.where + ">" + g.name, stack: append(append([]string{}, f.stack...), g.name),
		depth: f.depth + 1, entry: c08Copy(f.held), held: c08Copy(f.held)}
	in.body(g.decl.Body)
}

// follow a function body to its end; every return (and the end) has to restore the entry locks
func (f *c08Frame) body(b *ast.BlockStmt) {
	if !f.block(b.List) {
		f.ret(b)
	}
}

// return: run the deferred calls registered so far, LIFO, on a copy of the state
func (f *c08Frame) ret(at ast.Node) {
	saved := c08Copy(f.held)
	for i := len(f.defers) - 1; i >= 0; i-- {
		call := f.defers[i].(*ast.CallExpr)
		if mu, op, ok := f.lockOp(call); ok {
			f.doLockOp(call, mu, op)
			continue
		}
		if lit, ok := call.Fun.(*ast.FuncLit); ok {
			for _, a := range call.Args {
				f.expr(a)
			}
			f.closure(lit, f.held)
			continue
		}
		f.expr(call)
	}
	if !c08Same(f.held, f.entry) {
		f.c.fail(at, fmt.Sprintf("%s returns holding [%s], entered holding [%s]", f.where, strings.Join(f.held, ","), strings.Join(f.entry, ",")))
	}
	f.held = saved
}

// statements in order; true when control cannot fall off the end of the list
func (f *c08Frame) block(list []ast.Stmt) bool {
	for _, s := range list {
		if f.stmt(s) {
			return true
		}
	}
	return false
}

// branch: follow `list` from the current locks; returns (terminated, locks held at its end)
func (f *c08Frame) branch(list []ast.Stmt) (bool, []string) {
	saved := c08Copy(f.held)
	f.nest++
	term := f.block(list)
	f.nest--
	out := f.held
	f.held = saved
	return term, out
}

// merge the ends of alternative branches; `through` = control may also skip all of them
func (f *c08Frame) merge(at ast.Node, outs [][]string, terms []bool, through bool) bool {
	var live [][]string
	for i, o := range outs {
		if !terms[i] {
			live = append(live, o)
		}
	}
	if through {
		live = append(live, f.held)
	}
	if len(live) == 0 {
		return true
	}
	for _, o := range live[1:] {
		if !c08Same(o, live[0]) {
			f.c.fail(at, fmt.Sprintf("branches of %s end holding different locks: [%s] / [%s]", f.where, strings.Join(live[0], ","), strings.Join(o, ",")))
		}
	}
	f.held = c08Copy(live[0])
	return false
}

func (f *c08Frame) stmt(s ast.Stmt) bool {
	switch x := s.(type) {
	case nil:
		return false
	case *ast.ExprStmt:
		if call, ok := x.X.(*ast.CallExpr); ok {
			if mu, op, ok := f.lockOp(call); ok {
				f.doLockOp(call, mu, op)
				return false
			}
		}
		f.expr(x.X)
	case *ast.DeferStmt:
		if _, op, ok := f.lockOp(x.Call); ok {
			if op == "Lock" || op == "RLock" {
				f.c.fail(x, "deferred Lock")
			}
		} else if _, ok := x.Call.Fun.(*ast.FuncLit); !ok {
			// arguments of a deferred call are evaluated now; the call itself at the return
			f.rejectMutexMention(x.Call)
		}
		if f.nest > 0 {
			// a defer registered in a branch runs at the return only if the branch was taken: accepted (and
			// ignored) only when it has nothing to do with the node
			if !f.inert(x.Call) {
				f.c.fail(x, "defer of a lock operation / function literal / call on the node inside a conditional branch or loop of "+f.where)
			}
			return false
		}
		f.defers = append(f.defers, x.Call)
	case *ast.GoStmt:
		if lit, ok := x.Call.Fun.(*ast.FuncLit); ok {
			for _, a := range x.Call.Args {
				f.expr(a)
			}
			f.closure(lit, nil)
		} else {
			f.rejectMutexMention(x.Call)
			for _, a := range x.Call.Args {
				f.expr(a)
			}
		}
	case *ast.AssignStmt:
		// an alias of the node (`x := n`) that is then used for locking is rejected by lockOp (unknown base)
		for _, r := range x.Rhs {
			f.expr(r)
		}
		for _, l := range x.Lhs {
			f.expr(l)
		}
	case *ast.DeclStmt, *ast.IncDecStmt, *ast.SendStmt, *ast.EmptyStmt:
		f.expr(x)
	case *ast.ReturnStmt:
		for _, r := range x.Results {
			f.expr(r)
		}
		f.ret(x)
		return true
	case *ast.BranchStmt:
		if x.Tok == token.FALLTHROUGH {
			f.c.fail(x, "fallthrough")
		}
		if x.Tok == token.GOTO || x.Label != nil {
			if len(f.held) != len(f.entry) || !c08Same(f.held, f.entry) {
				f.c.fail(x, "goto / labelled break while locks are held")
			}
			return true
		}
		var head *c08Head
		for i := len(f.loops) - 1; i >= 0 && head == nil; i-- {
			if x.Tok == token.BREAK || f.loops[i].isLoop {
				head = &f.loops[i]
			}
		}
		if head == nil {
			f.c.fail(x, "break/continue outside a loop")
		}
		if !c08Same(f.held, head.held) {
			f.c.fail(x, fmt.Sprintf("%s leaves the body of a loop/switch holding [%s], entered with [%s]", x.Tok, strings.Join(f.held, ","), strings.Join(head.held, ",")))
		}
		return true
	case *ast.BlockStmt:
		return f.block(x.List)
	case *ast.LabeledStmt:
		return f.stmt(x.Stmt)
	case *ast.IfStmt:
		f.stmt(x.Init)
		f.expr(x.Cond)
		t1, o1 := f.branch(x.Body.List)
		outs, terms := [][]string{o1}, []bool{t1}
		through := true
		if x.Else != nil {
			through = false
			t2, o2 := f.branch([]ast.Stmt{x.Else})
			outs, terms = append(outs, o2), append(terms, t2)
		}
		return f.merge(x, outs, terms, through)
	case *ast.ForStmt:
		f.stmt(x.Init)
		f.expr(x.Cond)
		f.loops = append(f.loops, c08Head{c08Copy(f.held), true})
		saved := c08Copy(f.held)
		term, out := f.branch(append(append([]ast.Stmt{}, x.Body.List...), x.Post))
		f.loops = f.loops[:len(f.loops)-1]
		if !term && !c08Same(out, saved) {
			f.c.fail(x, fmt.Sprintf("loop body of %s ends holding [%s], entered with [%s]", f.where, strings.Join(out, ","), strings.Join(saved, ",")))
		}
		// a `for {}` without condition is left only through break/return: both checked above
	case *ast.RangeStmt:
		f.expr(x.X)
		f.loops = append(f.loops, c08Head{c08Copy(f.held), true})
		saved := c08Copy(f.held)
		term, out := f.branch(x.Body.List)
		f.loops = f.loops[:len(f.loops)-1]
		if !term && !c08Same(out, saved) {
			f.c.fail(x, fmt.Sprintf("loop body of %s ends holding [%s], entered with [%s]", f.where, strings.Join(out, ","), strings.Join(saved, ",")))
		}
	case *ast.SwitchStmt:
		f.stmt(x.Init)
		f.expr(x.Tag)
		return f.clauses(x, x.Body.List)
	case *ast.TypeSwitchStmt:
		f.stmt(x.Init)
		f.stmt(x.Assign)
		return f.clauses(x, x.Body.List)
	case *ast.SelectStmt:
		return f.clauses(x, x.Body.List)
	default:
		f.c.fail(s, fmt.Sprintf("statement %T", s))
	}
	return false
}

func (f *c08Frame) clauses(at ast.Stmt, list []ast.Stmt) bool {
	var outs [][]string
	var terms []bool
	hasDefault := false
	f.loops = append(f.loops, c08Head{c08Copy(f.held), false}) // `break` inside a clause leaves the switch / select
	for _, cl := range list {
		var body []ast.Stmt
		switch c := cl.(type) {
		case *ast.CaseClause:
			if c.List == nil {
				hasDefault = true
			}
			for _, e := range c.List {
				f.expr(e)
			}
			body = c.Body
		case *ast.CommClause:
			if c.Comm == nil {
				hasDefault = true
			} else {
				f.stmt(c.Comm)
			}
			body = c.Body
		}
		t, o := f.branch(body)
		outs, terms = append(outs, o), append(terms, t)
	}
	f.loops = f.loops[:len(f.loops)-1]
	_, isSelect := at.(*ast.SelectStmt)
	// a `break` / `continue` inside a clause was checked against the locks at the head, so a clause that ends in
	// one may be followed by the statement after the switch: treat "terminated" clauses of a switch as falling
	// through with the head's locks unless they end in return
	for i, cl := range list {
		var body []ast.Stmt
		switch c := cl.(type) {
		case *ast.CaseClause:
			body = c.Body
		case *ast.CommClause:
			body = c.Body
		}
		if terms[i] && len(body) > 0 {
			if _, isRet := body[len(body)-1].(*ast.ReturnStmt); !isRet {
				terms[i], outs[i] = false, c08Copy(f.held)
			}
		}
	}
	return f.merge(at, outs, terms, !hasDefault && !isSelect)
}

func c08Analyse(args []string) *c08Ctx {
	if len(args) < 2 {
		fmt.Fprintln(os.Stderr, "c08-facts: usage: c08-facts|c08-edges <dir of package chord> <file.go>…")
		os.Exit(2)
	}
	c := &c08Ctx{fset: token.NewFileSet(), isMutex: map[string]bool{}, methods: map[string]*c08Func{}, funcs: map[string]*c08Func{},
		fields: map[string]bool{}, seen: map[string]bool{}}
	dir, files := args[0], args[1:]
	given := map[string]bool{}
	for _, p := range files {
		given[filepath.Base(p)] = true
	}
	ents, err := os.ReadDir(dir)
	if err != nil {
		fmt.Fprintf(os.Stderr, "c08-facts: %v\n", err)
		os.Exit(1)
	}
	for _, e := range ents {
		nm := e.Name()
		if e.IsDir() || !strings.HasSuffix(nm, ".go") || strings.HasSuffix(nm, "_test.go") {
			continue
		}
		if !given[nm] {
			fmt.Fprintf(os.Stderr, "c08-facts: unsupported: %s belongs to the package but is not in the list of analysed files (add it to the gen command of spec/C08.json)\n", filepath.Join(dir, nm))
			os.Exit(1)
		}
	}
	var decls []*ast.FuncDecl
	for _, p := range files {
		if strings.HasSuffix(p, "_test.go") {
			continue
		}
		file, err := parser.ParseFile(c.fset, p, nil, 0)
		if err != nil {
			fmt.Fprintf(os.Stderr, "c08-facts: %v\n", err)
			os.Exit(1)
		}
		for _, d := range file.Decls {
			switch v := d.(type) {
			case *ast.GenDecl:
				for _, sp := range v.Specs {
					ts, ok := sp.(*ast.TypeSpec)
					if !ok || ts.Name.Name != "LocalNode" {
						continue
					}
					st, ok := ts.Type.(*ast.StructType)
					if !ok {
						c.fail(ts, "LocalNode is not a struct")
					}
					for _, fl := range st.Fields.List {
						isMu := false
						if se, ok := fl.Type.(*ast.SelectorExpr); ok {
							if pk, ok := se.X.(*ast.Ident); ok && pk.Name == "sync" && (se.Sel.Name == "Mutex" || se.Sel.Name == "RWMutex") {
								isMu = true
							}
						}
						if len(fl.Names) == 0 {
							if isMu {
								c.fail(fl, "embedded mutex in LocalNode")
							}
							t := fl.Type
							if st, ok := t.(*ast.StarExpr); ok {
								t = st.X
							}
							switch tv := t.(type) {
							case *ast.Ident:
								c.fields[tv.Name] = true
							case *ast.SelectorExpr:
								c.fields[tv.Sel.Name] = true
							}
						}
						for _, nm := range fl.Names {
							c.fields[nm.Name] = true
							if isMu {
								c.mutexes = append(c.mutexes, nm.Name)
								c.isMutex[nm.Name] = true
							}
						}
					}
				}
			case *ast.FuncDecl:
				decls = append(decls, v)
			}
		}
	}
	if len(c.mutexes) == 0 {
		c.fail(nil, "type LocalNode struct with sync.Mutex / sync.RWMutex fields not found in the given files")
	}
	var all []*c08Func
	for _, fd := range decls {
		fn := &c08Func{name: fd.Name.Name, decl: fd, argPos: -1}
		nodes := 0
		if fd.Recv != nil && len(fd.Recv.List) == 1 {
			if c08IsNodeType(fd.Recv.List[0].Type) {
				if len(fd.Recv.List[0].Names) == 1 {
					fn.nodeID = fd.Recv.List[0].Names[0].Name
				}
				nodes++
				c.methods[fd.Name.Name] = fn
			} else {
				t := fd.Recv.List[0].Type
				if st, ok := t.(*ast.StarExpr); ok {
					t = st.X
				}
				if id, ok := t.(*ast.Ident); ok {
					fn.name = id.Name + "." + fd.Name.Name
				}
			}
		}
		i := 0
		for _, p := range fd.Type.Params.List {
			k := len(p.Names)
			if k == 0 {
				k = 1
			}
			if c08IsNodeType(p.Type) {
				nodes += k
				if len(p.Names) >= 1 {
					fn.nodeID = p.Names[0].Name
				}
				if fd.Recv == nil {
					fn.argPos = i
					c.funcs[fd.Name.Name] = fn
				}
			}
			i += k
		}
		if nodes > 1 {
			// two nodes in one function: only acceptable when it does not lock at all (checked by lockOp, which
			// accepts one identifier) — keep the last one found and let any lock operation on the other abort
			fn.nodeID = "\x00two-nodes"
		}
		all = append(all, fn)
	}
	sort.SliceStable(all, func(i, j int) bool { return all[i].name < all[j].name })
	for _, fn := range all {
		if fn.decl.Body == nil {
			continue
		}
		fr := &c08Frame{c: c, nodeID: fn.nodeID, where: fn.name, stack: []string{fn.name}}
		fr.body(fn.decl.Body)
	}
	return c
}

func init() {
	factCmds["c08-facts"] = func(args []string) {
		c := c08Analyse(args)
		idx := map[string]int{}
		var names []string
		for i, m := range c.mutexes {
			idx[m] = i
			names = append(names, fmt.Sprintf("%q", m))
		}
		var es []string
		for _, e := range c.edges {
			es = append(es, fmt.Sprintf("(%d, %d, %q)", idx[e.from], idx[e.to], e.where))
		}
		body := "[]"
		if len(es) > 0 {
			body = "[\n  " + strings.Join(es, ",\n  ") + "]"
		}
		fmt.Print(`/- GENERATED by extract c08-facts from the non-test files of package chord: the mutex fields of LocalNode (a lock
is identified by its index in ` + "`mutexes`" + `) and the lock-order edges (held, acquired, where): some function acquires
the second mutex (Lock or RLock) while it holds the first; where = entry function > inlined callees. Do not edit. -/
namespace Gen.C08

def mutexes : List String := [` + strings.Join(names, ", ") + `]

def edges : List (Nat × Nat × String) := ` + body + `

end Gen.C08
`)
	}
	factCmds["c08-edges"] = func(args []string) {
		c := c08Analyse(args)
		fmt.Println("mutexes: " + strings.Join(c.mutexes, " "))
		for _, e := range c.edges {
			fmt.Printf("%s -> %s  (%s)\n", e.from, e.to, e.where)
		}
	}
}
