/-! C38 executable model of the length-prefixed framing in spec/rpc/rpc.go
(`Send`, `receive`, `Receive`, `BoundedReceive`).  Bytes are `List Nat`; a stream is the list of bytes
still unread; every function returns the outcome together with the unread remainder, consuming exactly
what `io.ReadFull` consumes.  The message codec (vtproto) is a parameter.  Core Lean only. -/
namespace Specter.C38

abbrev Bytes := List Nat

def LengthSize : Nat := 4

/-- `binary.BigEndian.PutUint32(_, uint32(n))` (the conversion to uint32 truncates) -/
def be32 (n : Nat) : Bytes := [n / 2^24 % 256, n / 2^16 % 256, n / 2^8 % 256, n % 256]

/-- `binary.BigEndian.Uint32` of a 4-byte slice -/
def decode32 : Bytes → Nat
  | [a, b, c, d] => a * 2^24 + b * 2^16 + c * 2^8 + d
  | _ => 0

/-- `Send`: one `Write` of `be32 (len payload) ++ payload` -/
def send (payload : Bytes) : Bytes := be32 payload.length ++ payload

inductive RecvErr where
  | noHeader        -- io.ReadFull of the 4 size bytes failed (EOF / unexpected EOF)
  | tooLarge        -- checker(size) = false
  | shortBody       -- io.ReadFull of the payload failed
  | decode          -- UnmarshalVT failed
deriving DecidableEq, Repr

/-- `receive` up to (excluding) `UnmarshalVT`: the payload handed to the decoder, or an error; plus the
unread remainder of the stream. A failed `ReadFull` has consumed everything that was there. -/
def receive (check : Nat → Bool) (s : Bytes) : Except RecvErr Bytes × Bytes :=
  if s.length < LengthSize then (.error .noHeader, [])
  else
    let ms := decode32 (s.take LengthSize)
    let body := s.drop LengthSize
    if !check ms then (.error .tooLarge, body)          -- nothing beyond the header is read
    else if body.length < ms then (.error .shortBody, [])
    else (.ok (body.take ms), body.drop ms)

def unboundedReceive (s : Bytes) := receive (fun _ => true) s
def boundedReceive (max : Nat) (s : Bytes) := receive (fun size => decide (size ≤ max)) s

/-- with the codec: `UnmarshalVT` runs only on a completely read payload -/
def decodeWith {μ : Type} (dec : Bytes → Option μ) : Except RecvErr Bytes → Except RecvErr μ
  | .ok p => match dec p with
    | some m => .ok m
    | none => .error .decode
  | .error e => .error e

def recvMsg {μ : Type} (dec : Bytes → Option μ) (check : Nat → Bool) (s : Bytes) : Except RecvErr μ × Bytes :=
  (decodeWith dec (receive check s).1, (receive check s).2)

def sendMsg {μ : Type} (enc : μ → Bytes) (m : μ) : Bytes := send (enc m)

end Specter.C38
