import SpecterModel.C16.Model
/-!
# The KV contract (spec/chord/kv.go + the statements of C16 / C19) as ONE sequential reference model

"An empty simple value is treated as absent": the contract stores `norm v` (`some [] ↦ none`), `Get`
answers are compared after `norm`, and listings report SIMPLE exactly for non-empty values.
Prefix children are a set (duplicate append conflicts, remove is idempotent), independent of the
simple keyspace. Leases: acquire iff free or expired (`cur ≤ now`), renew iff the current token and
not expired, release iff the current token; TTL below one second is rejected; granted token =
`now + ⌊ttl⌋s`; every refused attempt leaves the store unchanged.

Two points the wording leaves open are explicit parameters (`Policy`), because the back-ends choose
differently and neither choice contradicts the statement:
* `renewAtExpiry`  — is a renewal at the very instant `now = token` still "unexpired"?
  (memory: yes — `now > cur` refuses; sqlite: no — `token > now` required). Acquire treats that
  instant as expired on every back-end; sequentially there is still at most one holder.
* `releaseFreeZero` — `Release(0)` on a lease that is free: 0 is never a granted token; memory's CAS
  answers nil (and changes nothing), sqlite answers ErrKVLeaseExpired.

The provider operations (`importKV`, `exportKV`, `rangeKeys`, `removeKeys`) are the subject of C17;
they are given here their contract meaning for data-free target keys (what the statement of C17
speaks about) so that one driver can follow a whole history.
-/
namespace Specter.Kv

def norm : Option Bytes → Option Bytes
  | some [] => none
  | v => v

structure Policy where
  renewAtExpiry : Bool
  releaseFreeZero : Bool
deriving DecidableEq, Repr

/-- the choices the three back-ends make at the open points -/
def Backend.policy (b : Backend) : Policy :=
  if b.isSql then ⟨false, false⟩ else ⟨true, true⟩

namespace Spec

/-- whole seconds of a TTL; `none` below one second -/
def grant (ttl : Int) : Option Nat :=
  if ttl < second then none else some ((ttl / second) * second).toNat

def acquireCell (cur now : Nat) (ttl : Int) : Nat × Out :=
  match grant ttl with
  | none => (cur, .invalidTTL)
  | some d => if cur = 0 ∨ cur ≤ now then (now + d, .token (now + d)) else (cur, .leaseConflict)

def renewCell (p : Policy) (cur prev now : Nat) (ttl : Int) : Nat × Out :=
  match grant ttl with
  | none => (cur, .invalidTTL)
  | some d =>
    if cur ≠ 0 ∧ prev = cur ∧ (now < cur ∨ (p.renewAtExpiry = true ∧ now = cur))
    then (now + d, .token (now + d)) else (cur, .leaseExpired)

def releaseCell (p : Policy) (cur tok : Nat) : Nat × Out :=
  if tok = cur ∧ (cur ≠ 0 ∨ p.releaseFreeZero = true) then (0, .ok) else (cur, .leaseExpired)

def kindsOf (k : Key) (e : Entry) : List (Key × Kind) :=
  (if e.simple.isSome then [(k, Kind.simple)] else []) ++
  (if e.children.isEmpty then [] else [(k, Kind.pfx)]) ++
  (if e.lease != 0 then [(k, Kind.lease)] else [])

def listKeys (s : Store) (pre : Bytes) : List (Key × Kind) :=
  (s.dom.filter fun k => pre.isPrefixOf k).flatMap fun k => kindsOf k (s.ent k)

/-- membership in the right-closed circular range (lo, hi] of the 2^48 ring; everything when lo = hi -/
def inRing (lo t hi : Nat) : Bool :=
  if lo < hi then decide (lo < t ∧ t ≤ hi) else decide (lo < t ∨ t ≤ hi)

def importEntry (t : Entry) (e : Entry) : Entry :=
  { simple := norm t.simple, children := addChildren e.children t.children, lease := t.lease }

/-- contract step. Invariant of every reachable contract state: no entry has `simple = some []`. -/
def step (p : Policy) (hash : Key → Nat) (s : Store) : Op → Store × Out
  | .put k v => (s.upd k fun e => { e with simple := norm v }, .ok)
  | .get k => (s, .value (s.ent k).simple)
  | .delete k => (s.upd k fun e => { e with simple := none }, .ok)
  | .pappend k c =>
    if c ∈ (s.ent k).children then (s, .prefixConflict)
    else (s.upd k fun e => { e with children := e.children ++ [c] }, .ok)
  | .plist k => (s, .children (s.ent k).children)
  | .pcontains k c => (s, .bool (decide (c ∈ (s.ent k).children)))
  | .premove k c => (s.upd k fun e => { e with children := e.children.erase c }, .ok)
  | .listKeys pre => (s, .kinds (listKeys s pre))
  | .acquire k ttl now => onLease s k (acquireCell (s.ent k).lease now ttl)
  | .renew k ttl prev now => onLease s k (renewCell p (s.ent k).lease prev now ttl)
  | .release k tok => onLease s k (releaseCell p (s.ent k).lease tok)
  | .importKV kvs => (kvs.foldl (fun s kv => s.upd kv.1 (importEntry kv.2)) s, .ok)
  | .exportKV ks => (s, .entries (exportAll s ks))
  | .rangeKeys lo hi =>
    (s, .keys (s.dom.filter fun k => (s.ent k).held && inRing lo (hash k) hi))
  | .removeKeys ks => (removeAll s ks, .ok)

end Spec

/-- the operations of the chord.KV contract proper (C16); the provider operations are C17 -/
def Op.isKV : Op → Bool
  | .importKV _ | .exportKV _ | .rangeKeys _ _ | .removeKeys _ => false
  | _ => true

/-- does the operation store an empty simple value -/
def Op.putsEmpty : Op → Bool
  | .put _ v => (norm v).isNone
  | _ => false

/-- answers are compared modulo empty ≡ absent for simple values -/
def Out.normalize : Out → Out
  | .value v => .value (norm v)
  | o => o

/-- an implementation/model answer conforms to the contract's answer -/
def Out.conforms (a b : Out) : Prop := a.normalize = b.normalize

instance (a b : Out) : Decidable (Out.conforms a b) := by unfold Out.conforms; infer_instance

end Specter.Kv
