/-! C45 file-system operation model (core Lean only): what a path can contain after a crash that
follows any prefix of a list of file operations.

Storage assumptions (the usual ones for the write-temp / fsync / rename idiom):
* directory operations (create, rename, unlink) and truncation are atomic and take effect in order;
* a directory entry names either a file (inode) or a symbolic link to another name; `open` follows
  symbolic links (at most `linkFuel` of them, then ELOOP) and with O_CREAT creates the name a dangling
  link chain ends in; `rename` and `unlink` act on the entry itself and never follow a link;
* data appended to a file is only guaranteed on stable storage up to the last `fsync` of that file;
  after a crash the file holds a prefix of the written data at least as long as the synced part. -/
namespace Specter.C45

inductive FsOp where
  | openTrunc (fd : Nat) (p : String)   -- open(p, O_CREAT|O_TRUNC) for writing: p names an empty file afterwards
  | write (fd : Nat) (bs : List Nat)    -- sequential write (append at the descriptor's offset)
  | fsync (fd : Nat)                    -- fsync / fdatasync
  | close (fd : Nat)
  | rename (src dst : String)
  | unlink (p : String)
  | other (what : String)               -- any other traced call (pwrite64, ftruncate, open without O_TRUNC, …)
deriving DecidableEq, Repr

structure File where
  data : List Nat      -- bytes written
  durable : Nat        -- length of the prefix known to be on stable storage
deriving DecidableEq, Repr

/-- what a name in the directory tree stands for -/
inductive Entry where
  | file (i : Nat)          -- a regular file: the inode
  | link (to : String)      -- a symbolic link to another name
deriving DecidableEq, Repr

structure Fs where
  dir : String → Option Entry   -- name → file inode | symbolic link
  file : Nat → File             -- inode → content
  fd : Nat → Option Nat         -- open descriptor → inode
  next : Nat                    -- next unused inode

def upd {α β} [DecidableEq α] (f : α → β) (a : α) (b : β) : α → β := fun x => if x = a then b else f x

/-- Linux follows at most 40 symbolic links in one path resolution (MAXSYMLINKS), then fails with ELOOP -/
def linkFuel : Nat := 40

/-- Path resolution as `open` does it: follow symbolic links from `p`; `some (q, some i)` = ends at the
file entry `q` with inode `i`; `some (q, none)` = ends at the absent name `q` (a dangling chain, or `p`
itself absent); `none` = more than `fuel` links (ELOOP). -/
def resolve (dir : String → Option Entry) : Nat → String → Option (String × Option Nat)
  | 0, p =>
    match dir p with
    | none => some (p, none)
    | some (.file i) => some (p, some i)
    | some (.link _) => none
  | f + 1, p =>
    match dir p with
    | none => some (p, none)
    | some (.file i) => some (p, some i)
    | some (.link q) => resolve dir f q

/-- the file a name leads to (through symbolic links), if any -/
def inodeOf (dir : String → Option Entry) (p : String) : Option Nat :=
  match resolve dir linkFuel p with
  | some (_, some i) => some i
  | _ => none

def step (s : Fs) : FsOp → Fs
  | .openTrunc fd p =>
    match resolve s.dir linkFuel p with
    | some (_, some i) => { s with file := upd s.file i ⟨[], 0⟩, fd := upd s.fd fd (some i) }
    | some (q, none) => { s with dir := upd s.dir q (some (.file s.next)), file := upd s.file s.next ⟨[], 0⟩,
                                 fd := upd s.fd fd (some s.next), next := s.next + 1 }
    | none => s     -- ELOOP: the open fails
  | .write fd bs =>
    match s.fd fd with
    | some i => { s with file := upd s.file i { s.file i with data := (s.file i).data ++ bs } }
    | none => s
  | .fsync fd =>
    match s.fd fd with
    | some i => { s with file := upd s.file i { s.file i with durable := (s.file i).data.length } }
    | none => s
  | .close fd => { s with fd := upd s.fd fd none }
  | .rename src dst =>
    match s.dir src with      -- the entry itself moves (a symbolic link is renamed, not followed)
    | some e => { s with dir := upd (upd s.dir src none) dst (some e) }
    | none => s
  | .unlink p => { s with dir := upd s.dir p none }
  | .other _ => s

def run (s : Fs) (ops : List FsOp) : Fs := ops.foldl step s

/-- `c` is a possible content of `p` (read through symbolic links, as the configuration reader opens
it) after a crash in state `s` (`none` would be "no such file"; only existing files have images). -/
def IsImage (s : Fs) (p : String) (c : List Nat) : Prop :=
  ∃ i, inodeOf s.dir p = some i ∧ ∃ n, (s.file i).durable ≤ n ∧ n ≤ (s.file i).data.length ∧ c = (s.file i).data.take n

/-- the two extreme images, for the driver: everything written / only what was synced -/
def imageSync (s : Fs) (p : String) : Option (List Nat) := (inodeOf s.dir p).map fun i => (s.file i).data
def imageLossy (s : Fs) (p : String) : Option (List Nat) :=
  (inodeOf s.dir p).map fun i => (s.file i).data.take (s.file i).durable

/-- all bytes written by an op list -/
def pending : List FsOp → List Nat
  | [] => []
  | .write _ bs :: r => bs ++ pending r
  | _ :: r => pending r

/-! ### the atomic-replace shape, as a decidable predicate over a recorded op list -/

inductive Phase where
  | start
  | writing (fd : Nat) (tmp : String)
  | synced (fd : Nat) (tmp : String)
  | closed (tmp : String)
  | done (stillOpen : Option Nat)
deriving DecidableEq, Repr

def Phase.next (path : String) : Phase → FsOp → Option Phase
  | .start, .openTrunc fd tmp => if tmp ≠ path then some (.writing fd tmp) else none
  | .writing fd tmp, .write fd' _ => if fd' = fd then some (.writing fd tmp) else none
  | .writing fd tmp, .fsync fd' => if fd' = fd then some (.synced fd tmp) else none
  | .synced fd tmp, .close fd' => if fd' = fd then some (.closed tmp) else none
  | .synced fd tmp, .rename a b => if a = tmp ∧ b = path then some (.done (some fd)) else none
  | .closed tmp, .rename a b => if a = tmp ∧ b = path then some (.done none) else none
  | .done (some fd), .close fd' => if fd' = fd then some (.done none) else none
  | _, _ => none

def shapeFrom (path : String) : Phase → List FsOp → Bool
  | .done _, [] => true
  | _, [] => false
  | ph, op :: rest =>
    match ph.next path op with
    | some ph' => shapeFrom path ph' rest
    | none => false

/-- open a temporary name with truncation, write only to it, fsync it, (close,) rename it over `path` -/
def isAtomicReplace (path : String) (ops : List FsOp) : Bool := shapeFrom path .start ops

/-- The temporary name is private: absent, or a regular file that is not the file the config path
leads to (no hard link), and not a symbolic link (an `open` through it would write somewhere else —
possibly the config file itself). State-dependent side condition of the atomic-replace shape. -/
def privateName (s : Fs) (path tmp : String) : Bool :=
  match s.dir tmp with
  | none => true
  | some (.file i) => inodeOf s.dir path != some i
  | some (.link _) => false

def tmpPrivate (s : Fs) (path : String) : List FsOp → Bool
  | .openTrunc _ tmp :: _ => privateName s path tmp
  | _ => true

/-- the unsafe shape: the config path itself is opened with truncation (when the config path is a
symbolic link the open follows it and truncates the file it points to) -/
def isTruncateInPlace (path : String) : List FsOp → Bool
  | .openTrunc _ p :: _ => p = path
  | _ => false

end Specter.C45
