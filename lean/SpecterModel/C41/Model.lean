import SpecterModel.C41.Gen
/-!
# C41 — protocol model of the connection-reuse negotiation (`overlay/reuse.go`, `overlay/reaper.go`)

Two peers P and Q. Connection `c` is dialed by P (outgoing at P, incoming at Q); in the simultaneous-open
scenario (`dual`) Q also dials `d`. `e` is a pre-existing cached connection. Every end of every new
connection runs `reuseConnection`, which is two atomic steps (the keyed RW mutex):

* `snap`  (under RLock): read the own cache entry, send the status `snapshot …`;
* `dec`   (under Lock, after the peer's status arrived): `decide …` with the SNAPSHOT values, except for the
  re-load leaves, which see the entry that is in the cache NOW (`rc` = is there one, `rcdir` = its direction);
  effects: close fresh / close cache / store / delete, result returned to the caller;
  an incoming end that returns an error closes the connection (`AcceptWithListener`, code 406);
* `reap`  (`handlePeer` goroutine → `reapPeer`): once a connection that this end stored (returned as new) is
  closed, the cache entry of the peer is deleted-and-closed, whatever it is.

`snapshot` and `decide` are parameters (`Table`); `genTable` is the translation of the current Go source.
Core Lean only.
-/
namespace Specter.C41
open Gen.C41

inductive Conn where
  | e | c | d
deriving DecidableEq, Repr

inductive Side where
  | P | Q
deriving DecidableEq, Repr

/-- one end of one new connection -/
inductive Proc where
  | Pc | Qc | Qd | Pd
deriving DecidableEq, Repr

def Proc.side : Proc → Side
  | .Pc | .Pd => .P
  | .Qc | .Qd => .Q
def Proc.conn : Proc → Conn
  | .Pc | .Qc => .c
  | .Qd | .Pd => .d
def Proc.dir : Proc → Dir
  | .Pc | .Qd => .outgoing
  | .Qc | .Pd => .incoming
/-- the other end of the same connection -/
def Proc.peer : Proc → Proc
  | .Pc => .Qc | .Qc => .Pc | .Qd => .Pd | .Pd => .Qd

structure Table where
  snapshot : Bool → Dir → Dir → CState × Dir
  decide : CState → Dir → Bool → Dir → Dir → Bool → Dir → Act

def genTable : Table := ⟨Gen.C41.snapshot, Gen.C41.decide⟩

/-- what `reuseConnection` returned -/
inductive Res where
  | reused (x : Option Conn)     -- `return cache, true, nil`
  | fresh                        -- `return fresh, false, nil` (the caller starts `handlePeer`)
  | err
deriving DecidableEq, Repr

abbrev Entry := Option (Conn × Dir)

inductive PC where
  | idle
  | snapped (snap : Entry) (status : CState × Dir)
  | done (status : CState × Dir) (res : Res) (reaped : Bool)
deriving DecidableEq, Repr

structure St where
  dual : Bool
  cacheP : Entry
  cacheQ : Entry
  closedE : Bool := false
  closedC : Bool := false
  closedD : Bool := false
  pPc : PC := .idle
  pQc : PC := .idle
  pQd : PC := .idle
  pPd : PC := .idle
deriving DecidableEq, Repr

def St.pc (s : St) : Proc → PC
  | .Pc => s.pPc | .Qc => s.pQc | .Qd => s.pQd | .Pd => s.pPd
def St.setPc (s : St) (i : Proc) (p : PC) : St :=
  match i with
  | .Pc => { s with pPc := p } | .Qc => { s with pQc := p } | .Qd => { s with pQd := p } | .Pd => { s with pPd := p }
def St.cache (s : St) : Side → Entry
  | .P => s.cacheP | .Q => s.cacheQ
def St.setCache (s : St) (x : Side) (v : Entry) : St :=
  match x with
  | .P => { s with cacheP := v } | .Q => { s with cacheQ := v }
def St.closed (s : St) : Conn → Bool
  | .e => s.closedE | .c => s.closedC | .d => s.closedD
def St.close (s : St) : Conn → St
  | .e => { s with closedE := true } | .c => { s with closedC := true } | .d => { s with closedD := true }
def St.closeEntry (s : St) : Entry → St
  | some (x, _) => s.close x
  | none => s

def Proc.active (s : St) : Proc → Bool
  | .Pc | .Qc => true
  | .Qd | .Pd => s.dual

inductive Step where
  | snap (i : Proc) | dec (i : Proc) | reap (i : Proc)
deriving DecidableEq, Repr

def allProcs : List Proc := [.Pc, .Qc, .Qd, .Pd]
def allSteps : List Step := allProcs.map .snap ++ allProcs.map .dec ++ allProcs.map .reap

def PC.status? : PC → Option (CState × Dir)
  | .idle => none
  | .snapped _ st => some st
  | .done st _ _ => some st

def enabled (s : St) : Step → Bool
  | .snap i => i.active s && (match s.pc i with | .idle => true | _ => false)
  | .dec i => (match s.pc i with | .snapped _ _ => true | _ => false) &&
      (match s.pc i.peer with | .idle => false | _ => true)
  | .reap i => (match s.pc i with | .done _ .fresh false => true | _ => false) && s.closed i.conn

def entryDir : Entry → Dir
  | some (_, d) => d
  | none => .incoming      -- never read by the generated table when the entry is absent

def step (T : Table) (s : St) : Step → St
  | .snap i =>
    let snap := s.cache i.side
    s.setPc i (.snapped snap (T.snapshot snap.isSome (entryDir snap) i.dir))
  | .dec i =>
    match s.pc i, (s.pc i.peer).status? with
    | .snapped snap mine, some (ps, pd) =>
      let cur := s.cache i.side
      let act := T.decide ps pd snap.isSome (entryDir snap) i.dir cur.isSome (entryDir cur)
      let cacheVar : Entry := if act.reload then cur else snap
      let s := if act.closeFresh then s.close i.conn else s
      let s := if act.closeCache then s.closeEntry cacheVar else s
      let s := if act.del then s.setCache i.side none else s
      let s := match act.store with
        | .no => s
        | .fresh => s.setCache i.side (some (i.conn, i.dir))
        | .cache => s.setCache i.side cacheVar
      let res : Res := match act.err, act.ret with
        | .nil, .cache => .reused (cacheVar.map (·.1))
        | .nil, .fresh => .fresh
        | _, _ => .err
      -- handleIncoming error ⇒ AcceptWithListener closes the connection (406)
      let s := match res, i.dir with
        | .err, .incoming => s.close i.conn
        | _, _ => s
      s.setPc i (.done mine res false)
    | _, _ => s
  | .reap i =>
    match s.pc i with
    | .done st .fresh false =>
      let s := s.closeEntry (s.cache i.side)       -- LoadAndDelete + CloseWithError(401)
      let s := s.setCache i.side none
      s.setPc i (.done st .fresh true)
    | _ => s

/-- run an arbitrary list of step labels; labels that are not enabled are skipped -/
def run (T : Table) (s : St) : List Step → St
  | [] => s
  | e :: l => if enabled s e then run T (step T s e) l else run T s l

/-- nothing left to do: every negotiation finished, every due reap done -/
def final (s : St) : Bool := (allSteps.filter (enabled s)).isEmpty

/-! Evaluation helpers: `fX v k = k v` (lemmas `f*_eq` in Props), but reducing `fX v k` forces `v` to a
constructor first. They keep the states of the exhaustive exploration small literal terms, which is what makes
its kernel evaluation (`decide`) cheap. -/
section force
variable {α : Type}
def fB (b : Bool) (k : Bool → α) : α := match b with | true => k true | false => k false
def fDir (d : Dir) (k : Dir → α) : α := match d with | .incoming => k .incoming | .outgoing => k .outgoing
def fCState (cs : CState) (k : CState → α) : α := match cs with | .cached => k .cached | .fresh => k .fresh
def fConn (x : Conn) (k : Conn → α) : α := match x with | .e => k .e | .c => k .c | .d => k .d
def fEntry (e : Entry) (k : Entry → α) : α :=
  match e with
  | none => k none
  | some (x, d) => fConn x fun x => fDir d fun d => k (some (x, d))
def fStatus (p : CState × Dir) (k : CState × Dir → α) : α :=
  match p with
  | (a, b) => fCState a fun a => fDir b fun b => k (a, b)
def fRes (r : Res) (k : Res → α) : α :=
  match r with
  | .reused none => k (.reused none)
  | .reused (some x) => fConn x fun x => k (.reused (some x))
  | .fresh => k .fresh
  | .err => k .err
def fPC (p : PC) (k : PC → α) : α :=
  match p with
  | .idle => k .idle
  | .snapped e st => fEntry e fun e => fStatus st fun st => k (.snapped e st)
  | .done st r b => fStatus st fun st => fRes r fun r => fB b fun b => k (.done st r b)
def fSt (s : St) (k : St → α) : α :=
  fB s.dual fun a => fEntry s.cacheP fun b => fEntry s.cacheQ fun c => fB s.closedE fun d => fB s.closedC fun e =>
  fB s.closedD fun f => fPC s.pPc fun g => fPC s.pQc fun h => fPC s.pQd fun i => fPC s.pPd fun j =>
  k ⟨a, b, c, d, e, f, g, h, i, j⟩
end force

/-- exhaustive exploration of all maximal interleavings from `s` (fuel = bound on remaining steps) -/
def explore (T : Table) (prop : St → Bool) : Nat → St → Bool
  | 0, s => final s && prop s
  | n+1, s =>
    match allSteps.filter (enabled s) with
    | [] => prop s
    | en => en.all fun e => fSt (step T s e) fun s' => explore T prop n s'

/-- the connection a side caches -/
def St.cached (s : St) (x : Side) : Option Conn := (s.cache x).map (·.1)

/-- T1: the peers do not cache different connections for each other -/
def noSplitBrain (s : St) : Bool :=
  match s.cached .P, s.cached .Q with
  | some x, some y => x == y
  | _, _ => true

/-- T2: a connection handed back as "reused" was not closed by the negotiation(s) -/
def reusedNotClosed (s : St) : Bool :=
  allProcs.all fun i => match s.pc i with
    | .done _ (.reused (some x)) _ => !s.closed x
    | _ => true

/-- T3: a side caches a NEW connection only if the other side caches the same one -/
def newOnlyIfPeer (s : St) : Bool :=
  [(Side.P, Side.Q), (Side.Q, Side.P)].all fun (x, y) => match s.cached x with
    | some .c => s.cached y == some .c
    | some .d => s.cached y == some .d
    | _ => true

/-- both sides stored a fresh connection, and not the same one (simultaneous-open cross) -/
def crossStore (s : St) : Bool :=
  let stored (i : Proc) : Bool := match s.pc i with | .done _ .fresh _ => true | _ => false
  (stored .Pc && stored .Qd) || (stored .Pd && stored .Qc)

/-- the three properties; T2 is demanded unless the run is a simultaneous-open cross store -/
def good (s : St) : Bool := noSplitBrain s && newOnlyIfPeer s && (reusedNotClosed s || crossStore s)
/-- the three properties, T2 unconditionally -/
def goodStrict (s : St) : Bool := noSplitBrain s && newOnlyIfPeer s && reusedNotClosed s

/-- consistent pre-existing cache states: at most the one old connection `e`, seen from opposite directions -/
def preStates : List (Entry × Entry) :=
  [ (none, none),
    (some (.e, .outgoing), none), (some (.e, .incoming), none),
    (none, some (.e, .incoming)), (none, some (.e, .outgoing)),
    (some (.e, .outgoing), some (.e, .incoming)), (some (.e, .incoming), some (.e, .outgoing)) ]

def init (dual : Bool) (pre : Entry × Entry) : St := { dual := dual, cacheP := pre.1, cacheQ := pre.2 }

end Specter.C41
