// C27 correspondence: the real tun/server DialClient / getConn / handleProxyConn, driven with scripted
// KV lookups, transports and connections, against the Lean model and the property's spec oracle.
//
//	dial <H hex> <alpn> <slot0> <slot1> <slot2> <env0> <env1> <env2> <cls> => <outcome> <tried> <closed> <got>
//	  slot: E empty | X lookup error | U undecodable | L<client> local route | R<client> remote route
//	  env : <dial c|n|e>/<sendRouteFails>/<status|->/<linkFails>/<variant>
//	proxy <recv> <clientDial> <variant> => <status> <dialed|-> <piped> <fwd> <back>
//	  recv: bad | me:<client> | other:<client> | nil:<client>
//	e2e <H hex> <alpn> <client> <clientDial> <linkFails> => <outcome> <dialedByRemote|-> <gotLinkHost|->
package main

import (
	"bytes"
	"context"
	"encoding/binary"
	"errors"
	"fmt"
	"io"
	"net"
	"strconv"
	"strings"
	"sync"
	"time"

	"go.miragespace.co/specter/spec/chord"
	"go.miragespace.co/specter/spec/mocks"
	"go.miragespace.co/specter/spec/protocol"
	"go.miragespace.co/specter/spec/rpc"
	"go.miragespace.co/specter/spec/transport"
	"go.miragespace.co/specter/spec/tun"
	"go.miragespace.co/specter/tun/server"
	"go.miragespace.co/specter/util/bufconn"
	"go.uber.org/zap"

	"verif/harness/hlib"
)

// ---------- scripted connection ----------

type fakeConn struct {
	mu      sync.Mutex
	cond    *sync.Cond
	slot    int
	rd      []byte
	block   bool // block (instead of EOF) once rd is exhausted, until Close
	wr      bytes.Buffer
	nWrites int
	failAt  int
	closed  bool
	onClose func(*fakeConn)
}

func newConn(slot int, rd []byte, failAt int) *fakeConn {
	c := &fakeConn{slot: slot, rd: rd, failAt: failAt}
	c.cond = sync.NewCond(&c.mu)
	return c
}

func (c *fakeConn) Read(p []byte) (int, error) {
	c.mu.Lock()
	defer c.mu.Unlock()
	for {
		if c.closed {
			return 0, net.ErrClosed
		}
		if len(c.rd) > 0 {
			n := copy(p, c.rd)
			c.rd = c.rd[n:]
			return n, nil
		}
		if !c.block {
			return 0, io.EOF
		}
		c.cond.Wait()
	}
}

func (c *fakeConn) Write(p []byte) (int, error) {
	c.mu.Lock()
	defer c.mu.Unlock()
	if c.closed {
		return 0, net.ErrClosed
	}
	i := c.nWrites
	c.nWrites++
	if i == c.failAt {
		return 0, errors.New("scripted write failure")
	}
	c.wr.Write(p)
	return len(p), nil
}

func (c *fakeConn) Close() error {
	c.mu.Lock()
	was := c.closed
	c.closed = true
	c.cond.Broadcast()
	c.mu.Unlock()
	if !was && c.onClose != nil {
		c.onClose(c)
	}
	return nil
}
func (c *fakeConn) written() []byte {
	c.mu.Lock()
	defer c.mu.Unlock()
	return append([]byte{}, c.wr.Bytes()...)
}

type addr string

func (a addr) Network() string                       { return "fake" }
func (a addr) String() string                        { return string(a) }
func (c *fakeConn) LocalAddr() net.Addr              { return addr("local") }
func (c *fakeConn) RemoteAddr() net.Addr             { return addr("remote") }
func (c *fakeConn) SetDeadline(time.Time) error      { return nil }
func (c *fakeConn) SetReadDeadline(time.Time) error  { return nil }
func (c *fakeConn) SetWriteDeadline(time.Time) error { return nil }

// ---------- scripted transports / KV on top of the repo's mocks ----------

type fakeTransport struct {
	*mocks.Transport
	id   *protocol.Node
	dial func(peer *protocol.Node, kind protocol.Stream_Type) (net.Conn, error)
}

func (t *fakeTransport) Identity() *protocol.Node { return t.id }
func (t *fakeTransport) DialStream(ctx context.Context, peer *protocol.Node, kind protocol.Stream_Type) (net.Conn, error) {
	return t.dial(peer, kind)
}

type fakeVNode struct {
	*mocks.VNode
	get func(key string) ([]byte, error)
}

func (n *fakeVNode) Get(ctx context.Context, key []byte) ([]byte, error) { return n.get(string(key)) }

// ---------- case description ----------

type env struct {
	dial     string // c n e
	sendFail bool
	status   int // -1 = none
	linkFail bool
	variant  int
}

func (e env) tok() string {
	st := "-"
	if e.status >= 0 {
		st = strconv.Itoa(e.status)
	}
	return e.dial + "/" + b01(e.sendFail) + "/" + st + "/" + b01(e.linkFail) + "/" + strconv.Itoa(e.variant)
}
func parseEnv(s string) env {
	p := strings.Split(s, "/")
	e := env{dial: p[0], sendFail: p[1] == "1", linkFail: p[3] == "1", status: -1}
	if p[2] != "-" {
		e.status, _ = strconv.Atoi(p[2])
	}
	e.variant, _ = strconv.Atoi(p[4])
	return e
}
func b01(b bool) string {
	if b {
		return "1"
	}
	return "0"
}

type dcase struct {
	host  string
	alpn  int
	slots [3]string
	envs  [3]env
}

const myTunnel = "tunnel:me"

func routeFor(host string, i int, slot string) *protocol.TunnelRoute {
	c, _ := strconv.ParseUint(slot[1:], 10, 64)
	tn := &protocol.Node{Address: myTunnel, Id: 900}
	if slot[0] == 'R' {
		tn = &protocol.Node{Address: "tunnel:other" + strconv.Itoa(i), Id: uint64(910 + i)}
	}
	return &protocol.TunnelRoute{
		ClientDestination: &protocol.Node{Id: c, Address: "client:" + strconv.FormatUint(c, 10), Rendezvous: true},
		ChordDestination:  &protocol.Node{Id: uint64(100 + i), Address: "chord:" + strconv.Itoa(i)},
		TunnelDestination: tn,
		Hostname:          host,
	}
}

func frame(m rpc.VTMarshaler) []byte {
	var b bytes.Buffer
	rpc.Send(&b, m)
	return b.Bytes()
}

func noDirectErr(variant int) error {
	switch variant % 4 {
	case 0:
		return transport.ErrNoDirect
	case 1:
		return fmt.Errorf("wrapped: %w", transport.ErrNoDirect)
	case 2:
		return tun.ErrTunnelClientNotConnected
	default:
		return fmt.Errorf("wrapped: %w", tun.ErrTunnelClientNotConnected)
	}
}

func hardErr(variant int) error {
	switch variant % 3 {
	case 0:
		return errors.New("scripted dial failure")
	case 1:
		return context.DeadlineExceeded
	default:
		return transport.ErrClosed
	}
}

// bytes a remote node "answers" on the proxy stream
func statusBytes(e env) []byte {
	if e.status < 0 {
		switch e.variant % 4 {
		case 0:
			return nil // EOF
		case 1:
			return []byte{0, 0} // truncated length
		case 2:
			b := make([]byte, 4+2000) // over the 1024 bound
			binary.BigEndian.PutUint32(b, 2000)
			return b
		default:
			return []byte{0, 0, 0, 3, 0xff, 0xff, 0xff} // undecodable payload
		}
	}
	st := &protocol.TunnelStatus{Status: protocol.TunnelStatusCode(e.status)}
	if e.status != 0 {
		// the text must not matter, only the code: alternate between no text at all, the no-direct text
		// and an unrelated text
		statusTextCounter++
		switch statusTextCounter % 3 {
		case 0:
			st.Error = ""
		case 1:
			st.Error = transport.ErrNoDirect.Error()
		default:
			st.Error = "remote refused"
		}
	}
	return frame(st)
}

var statusTextCounter int

// ---------- world ----------

type world struct {
	mu     sync.Mutex
	cases  map[string]*dcase
	events []string
	closed []string
	srv    *server.Server
	// second server ("B"): the remote side of proxy streams
	b          *server.Server
	bTun       *fakeTransport
	remoteDial func(peer *protocol.Node) (net.Conn, error)
}

func (w *world) ev(s string) {
	w.mu.Lock()
	w.events = append(w.events, s)
	w.mu.Unlock()
}

func (w *world) caseOfPeer(host string) *dcase {
	w.mu.Lock()
	defer w.mu.Unlock()
	return w.cases[host]
}

var cur *dcase // the case being dialled (DialClient is called sequentially)

func newWorld() *world {
	w := &world{cases: map[string]*dcase{}}
	kv := &fakeVNode{VNode: new(mocks.VNode), get: func(key string) ([]byte, error) {
		// /tunnel/bundle/<host>/<k>
		rest := strings.TrimPrefix(key, "/tunnel/bundle/")
		j := strings.LastIndex(rest, "/")
		host := rest[:j]
		k, _ := strconv.Atoi(rest[j+1:])
		c := w.caseOfPeer(host)
		if c == nil || k < 1 || k > 3 {
			return nil, errors.New("unknown key " + key)
		}
		s := c.slots[k-1]
		switch s[0] {
		case 'E':
			return nil, nil
		case 'X':
			return nil, errors.New("scripted lookup failure")
		case 'U':
			return []byte{0xff, 0xff, 0xff}, nil
		default:
			b, _ := routeFor(host, k-1, s).MarshalVT()
			return b, nil
		}
	}}
	onClose := func(c *fakeConn) {
		w.mu.Lock()
		w.closed = append(w.closed, strconv.Itoa(c.slot))
		w.mu.Unlock()
	}
	tunT := &fakeTransport{Transport: new(mocks.Transport), id: &protocol.Node{Address: myTunnel, Id: 900},
		dial: func(peer *protocol.Node, kind protocol.Stream_Type) (net.Conn, error) {
			w.ev("D" + strconv.FormatUint(peer.GetId(), 10))
			if kind != protocol.Stream_DIRECT {
				return nil, errors.New("harness: unexpected stream kind on tunnel transport")
			}
			i := int(peer.GetId()/10) - 1
			if cur == nil || i < 0 || i > 2 {
				return nil, errors.New("harness: unknown client")
			}
			e := cur.envs[i]
			switch e.dial {
			case "n":
				return nil, noDirectErr(e.variant)
			case "e":
				return nil, hardErr(e.variant)
			}
			fa := -1
			if e.linkFail {
				fa = 0
			}
			c := newConn(i, nil, fa)
			c.onClose = onClose
			return c, nil
		}}
	chT := &fakeTransport{Transport: new(mocks.Transport), id: &protocol.Node{Address: "chord:me", Id: 800},
		dial: func(peer *protocol.Node, kind protocol.Stream_Type) (net.Conn, error) {
			w.ev("P" + strconv.FormatUint(peer.GetId(), 10))
			if kind != protocol.Stream_PROXY {
				return nil, errors.New("harness: unexpected stream kind on chord transport")
			}
			if w.remoteDial != nil {
				return w.remoteDial(peer)
			}
			i := int(peer.GetId()) - 100
			if cur == nil || i < 0 || i > 2 {
				return nil, errors.New("harness: unknown chord node")
			}
			e := cur.envs[i]
			switch e.dial {
			case "n":
				return nil, noDirectErr(e.variant)
			case "e":
				return nil, hardErr(e.variant)
			}
			fa := -1
			if e.sendFail {
				fa = 0
			} else if e.linkFail {
				fa = 1
			}
			c := newConn(i, statusBytes(e), fa)
			c.onClose = onClose
			return c, nil
		}}
	w.srv = server.New(server.Config{
		ParentContext:   context.Background(),
		Logger:          zap.NewNop(),
		Chord:           chord.WrapRetryKV(kv, time.Millisecond, 3),
		TunnelTransport: tunT,
		ChordTransport:  chT,
		Apex:            "hello.com",
		Acme:            "acme.example.com",
	})
	w.bTun = &fakeTransport{Transport: new(mocks.Transport), id: &protocol.Node{Address: myTunnel, Id: 900}}
	w.b = server.New(server.Config{
		ParentContext: context.Background(), Logger: zap.NewNop(),
		Chord:           new(mocks.VNode),
		ChordTransport:  &fakeTransport{Transport: new(mocks.Transport), id: &protocol.Node{Address: "chord:b", Id: 801}},
		TunnelTransport: w.bTun,
	})
	return w
}

func errTok(err error) string {
	switch {
	case err == nil:
		return "nil"
	case errors.Is(err, tun.ErrDestinationNotFound):
		return "notfound"
	case errors.Is(err, tun.ErrTunnelClientNotConnected):
		return "notconnected"
	case errors.Is(err, tun.ErrLookupFailed):
		return "lookupfailed"
	default:
		return "err"
	}
}

// parse the frames a receiver got: returns list of payloads
func frames(b []byte) [][]byte {
	var out [][]byte
	for len(b) >= 4 {
		n := int(binary.BigEndian.Uint32(b))
		if len(b) < 4+n {
			break
		}
		out = append(out, b[4:4+n])
		b = b[4+n:]
	}
	return out
}

func classify(c *dcase) string {
	routes, errs, ok, nd := 0, 0, false, false
	for i, s := range c.slots {
		switch s[0] {
		case 'X', 'U':
			errs++
		case 'L', 'R':
			routes++
			e := c.envs[i]
			switch {
			case e.dial == "n":
				nd = true
			case e.dial == "e":
			case s[0] == 'L':
				ok = ok || !e.linkFail
			case e.sendFail || e.status < 0:
			case e.status == 0:
				ok = ok || !e.linkFail
			case e.status == 2:
				nd = true
			}
		}
	}
	switch {
	case errs == 3:
		return "cls=lookupfail"
	case routes == 0 && errs > 0:
		// no lookup returned a route, but not all of them answered: the loader caches an EMPTY route list
		return "cls=noroutes-partial"
	case routes == 0:
		return "cls=noroutes"
	case ok:
		return "cls=reachable"
	case nd:
		return "cls=nodirect"
	default:
		return "cls=allhard"
	}
}

func (w *world) runDial(r *hlib.Run, c *dcase) {
	w.mu.Lock()
	w.cases[c.host] = c
	w.events, w.closed = nil, nil
	w.mu.Unlock()
	cur = c
	link := &protocol.Link{Alpn: protocol.Link_ALPN(c.alpn), Hostname: c.host, Remote: "203.0.113.9:4433"}
	var conn net.Conn
	var err error
	panicked := false
	func() {
		defer func() {
			if p := recover(); p != nil {
				panicked = true
			}
		}()
		conn, err = w.srv.DialClient(context.Background(), link)
	}()
	out, got := errTok(err), "-"
	if panicked {
		out = "panic"
	} else if err == nil {
		fc, ok := conn.(*fakeConn)
		if !ok {
			out = "foreignconn"
		} else {
			out = "found:" + strconv.Itoa(fc.slot)
			fr := frames(fc.written())
			rc, rh := "-", "-"
			if c.slots[fc.slot][0] == 'R' && len(fr) > 0 {
				rt := &protocol.TunnelRoute{}
				if rt.UnmarshalVT(fr[0]) == nil {
					rc, rh = strconv.FormatUint(rt.GetClientDestination().GetId(), 10), hlib.HexS(rt.GetHostname())
				}
				fr = fr[1:]
			}
			lh, la := "-", "-"
			if len(fr) == 1 {
				l := &protocol.Link{}
				if l.UnmarshalVT(fr[0]) == nil {
					lh, la = hlib.HexS(l.GetHostname()), strconv.Itoa(int(l.GetAlpn()))
				}
			}
			got = lh + ":" + la + ":" + rc + ":" + rh
		}
	}
	w.mu.Lock()
	tried, closed := hlib.Join(w.events, ","), hlib.Join(w.closed, ",")
	w.mu.Unlock()
	cls := classify(c)
	lhs := "dial " + hlib.HexS(c.host) + " " + strconv.Itoa(c.alpn) + " " + strings.Join(c.slots[:], " ") + " " +
		c.envs[0].tok() + " " + c.envs[1].tok() + " " + c.envs[2].tok() + " " + cls
	r.Emit(lhs, out+" "+tried+" "+closed+" "+got)
	key := strings.Join(c.slots[:], " ") + c.envs[0].tok() + c.envs[1].tok() + c.envs[2].tok()
	if cls == "cls=noroutes" || cls == "cls=lookupfail" {
		key = "" // trivial: every lookup gave the same answer, no route is ever dialled
	}
	r.Case(key)
	r.Count(cls)
	r.Count("outcome:" + strings.SplitN(out, ":", 2)[0])
}

// ---------- proxy (remote side) ----------

func (w *world) runProxy(r *hlib.Run, recv string, cdial string, variant int) {
	var in []byte
	kind, cid := recv, uint64(0)
	if i := strings.Index(recv, ":"); i >= 0 {
		kind = recv[:i]
		cid, _ = strconv.ParseUint(recv[i+1:], 10, 64)
	}
	rt := &protocol.TunnelRoute{
		ClientDestination: &protocol.Node{Id: cid, Address: "client:x"},
		ChordDestination:  &protocol.Node{Id: 800, Address: "chord:me"},
		Hostname:          "proxied.example",
	}
	switch kind {
	case "bad":
		switch variant % 4 {
		case 0:
			in = nil
		case 1:
			in = []byte{0, 0, 1}
		case 2:
			in = make([]byte, 4+3000)
			binary.BigEndian.PutUint32(in, 3000) // over the 2048 bound
		default:
			in = []byte{0, 0, 0, 3, 0xff, 0xff, 0xff}
		}
	case "me":
		rt.TunnelDestination = &protocol.Node{Address: myTunnel, Id: 900}
		in = frame(rt)
	case "other":
		addrs := []string{"tunnel:other0", "tunnel:me ", "TUNNEL:ME", ""}
		rt.TunnelDestination = &protocol.Node{Address: addrs[variant%4], Id: 900} // same id, different address
		in = frame(rt)
	case "nil":
		in = frame(rt)
	}
	payloadIn, payloadBack := []byte("GATEWAY->CLIENT"), []byte("CLIENT->GATEWAY")
	deleg := newConn(0, in, -1)
	if kind != "bad" {
		deleg = newConn(0, append(append([]byte{}, in...), payloadIn...), -1)
		deleg.block = true
	}
	var client *fakeConn
	dialed := "-"
	w.bTun.id = &protocol.Node{Address: myTunnel, Id: 900}
	w.bTun.dial = func(peer *protocol.Node, kind protocol.Stream_Type) (net.Conn, error) {
		dialed = strconv.FormatUint(peer.GetId(), 10)
		if kind != protocol.Stream_DIRECT {
			dialed += "!kind"
		}
		switch cdial {
		case "n":
			return nil, noDirectErr(variant)
		case "e":
			return nil, hardErr(variant)
		}
		client = newConn(1, payloadBack, -1)
		client.block = true
		return client, nil
	}
	srv := w.b
	panicked := false
	func() {
		defer func() {
			if p := recover(); p != nil {
				panicked = true
			}
		}()
		srv.VerifC27HandleProxyConn(context.Background(), &transport.StreamDelegate{
			Conn: deleg, Identity: &protocol.Node{Id: 7}, Kind: protocol.Stream_PROXY})
	}()
	status, piped, fwd, back := "-", "0", "0", "0"
	if client != nil {
		// piping is asynchronous: wait until both payloads crossed (bounded), then close
		dl := time.Now().Add(2 * time.Second)
		for time.Now().Before(dl) {
			if bytes.HasSuffix(client.written(), payloadIn) && bytes.HasSuffix(deleg.written(), payloadBack) {
				break
			}
			time.Sleep(200 * time.Microsecond)
		}
		if bytes.Equal(client.written(), payloadIn) {
			fwd = "1"
		}
	}
	wr := deleg.written()
	if fr := frames(wr); len(fr) >= 1 {
		st := &protocol.TunnelStatus{}
		if st.UnmarshalVT(fr[0]) == nil {
			status = strconv.Itoa(int(st.GetStatus()))
		}
		if rest := wr[4+len(fr[0]):]; bytes.Equal(rest, payloadBack) {
			back = "1"
		}
	}
	deleg.mu.Lock()
	dclosed := deleg.closed
	deleg.mu.Unlock()
	if client != nil && !dclosed {
		piped = "1"
	}
	deleg.Close()
	if client != nil {
		client.Close()
	}
	if panicked {
		status = "panic"
	}
	r.Emit("proxy "+recv+" "+cdial+" "+strconv.Itoa(variant), status+" "+dialed+" "+piped+" "+fwd+" "+back)
	r.Case("proxy " + recv + cdial + strconv.Itoa(variant%4))
	r.Count("proxy:" + kind + ":" + cdial)
}

// ---------- e2e: gateway A -> real remote B (handleProxyConn) -> scripted client ----------

func (w *world) runE2E(r *hlib.Run, host string, alpn int, client uint64, cdial string, linkFail bool) {
	slot := "R" + strconv.FormatUint(client, 10)
	c := &dcase{host: host, alpn: alpn, slots: [3]string{slot, "E", "E"}}
	dialed := "-"
	var cc *fakeConn
	w.bTun.id = &protocol.Node{Address: "tunnel:other0", Id: 910}
	w.bTun.dial = func(peer *protocol.Node, kind protocol.Stream_Type) (net.Conn, error) {
		dialed = strconv.FormatUint(peer.GetId(), 10)
		switch cdial {
		case "n":
			return nil, noDirectErr(int(client))
		case "e":
			return nil, hardErr(int(client))
		}
		cc = newConn(0, nil, -1)
		cc.block = true
		return cc, nil
	}
	remote := w.b
	done := make(chan struct{})
	w.remoteDial = func(peer *protocol.Node) (net.Conn, error) {
		c1, c2 := bufconn.BufferedPipe(8192)
		go func() {
			defer close(done)
			defer func() { recover() }()
			remote.VerifC27HandleProxyConn(context.Background(), &transport.StreamDelegate{
				Conn: c2, Identity: &protocol.Node{Id: 800}, Kind: protocol.Stream_PROXY})
		}()
		var conn net.Conn = c1
		if linkFail {
			conn = &failSecondWrite{Conn: c1}
		}
		return conn, nil
	}
	defer func() { w.remoteDial = nil }()
	w.mu.Lock()
	w.cases[c.host] = c
	w.events, w.closed = nil, nil
	w.mu.Unlock()
	cur = c
	link := &protocol.Link{Alpn: protocol.Link_ALPN(alpn), Hostname: host, Remote: "203.0.113.9:4433"}
	conn, err := w.srv.DialClient(context.Background(), link)
	<-done
	out, got := errTok(err), "-"
	if err == nil {
		out = "found:0"
		want := frame(link)
		dl := time.Now().Add(2 * time.Second)
		for cc != nil && time.Now().Before(dl) && len(cc.written()) < len(want) {
			time.Sleep(200 * time.Microsecond)
		}
		if cc != nil {
			if fr := frames(cc.written()); len(fr) == 1 {
				l := &protocol.Link{}
				if l.UnmarshalVT(fr[0]) == nil {
					got = hlib.HexS(l.GetHostname()) + ":" + strconv.Itoa(int(l.GetAlpn()))
				}
			}
		}
		conn.Close()
	}
	if cc != nil {
		cc.Close()
	}
	r.Emit("e2e "+hlib.HexS(host)+" "+strconv.Itoa(alpn)+" "+strconv.FormatUint(client, 10)+" "+cdial+" "+b01(linkFail), out+" "+dialed+" "+got)
	r.Case("e2e" + cdial + b01(linkFail))
	r.Count("e2e:" + cdial)
}

// the second Write (the link frame, after the route frame) fails
type failSecondWrite struct {
	net.Conn
	n int
}

func (f *failSecondWrite) Write(p []byte) (int, error) {
	f.n++
	if f.n == 2 {
		return 0, errors.New("scripted write failure")
	}
	return f.Conn.Write(p)
}

// ---------- generators ----------

var localEnvs = []env{
	{dial: "c", status: -1}, {dial: "c", status: -1, linkFail: true}, {dial: "n", status: -1}, {dial: "e", status: -1},
}
var remoteEnvs = []env{
	{dial: "e", status: -1}, {dial: "n", status: -1}, {dial: "c", sendFail: true, status: 0}, {dial: "c", status: -1},
	{dial: "c", status: 0}, {dial: "c", status: 0, linkFail: true}, {dial: "c", status: 1}, {dial: "c", status: 2}, {dial: "c", status: 7},
}

type slotOpt struct {
	kind byte
	e    env
}

func slotOptions() []slotOpt {
	o := []slotOpt{{kind: 'E'}, {kind: 'X'}, {kind: 'U'}}
	for _, e := range localEnvs {
		o = append(o, slotOpt{'L', e})
	}
	for _, e := range remoteEnvs {
		o = append(o, slotOpt{'R', e})
	}
	return o
}

func main() {
	r := hlib.Start()
	r.Rule = "dial: 3 lookup slots x per-route behaviour, ALL 16^3 combinations of {empty, lookup error, undecodable, local x {ok, link-send fails, no-direct, hard error}, remote x {dial error, dial no-direct, route-send fails, status unreadable, status OK, OK+link fails, UNKNOWN_ERROR, NO_DIRECT, unknown code}} with randomised client ids / error flavours / hostnames, plus cache-hit re-dials; proxy: every received-frame kind x client dial result x flavour; e2e: gateway -> real remote handleProxyConn. non-trivial = a case where at least one route is dialled, or no lookup returned a route while the lookups disagree (absent / failed / undecodable mixed: the loader's empty route list)"
	rng := hlib.NewRng(r.Seed)
	w := newWorld()

	if r.Replay != "" {
		for _, t := range r.ReplayLines() {
			switch t[0] {
			case "dial":
				c := &dcase{host: string(hlib.UnHex(t[1]))}
				c.alpn, _ = strconv.Atoi(t[2])
				copy(c.slots[:], t[3:6])
				for i := 0; i < 3; i++ {
					c.envs[i] = parseEnv(t[6+i])
				}
				w.runDial(r, c)
			case "proxy":
				v, _ := strconv.Atoi(t[3])
				w.runProxy(r, t[1], t[2], v)
			case "e2e":
				a, _ := strconv.Atoi(t[2])
				cl, _ := strconv.ParseUint(t[3], 10, 64)
				w.runE2E(r, string(hlib.UnHex(t[1]))+".replay", a, cl, t[4], t[5] == "1")
			}
		}
		r.Finish()
		return
	}

	n := 0
	mk := func(o [3]slotOpt) *dcase {
		n++
		hosts := []string{"h%d.example.com", "H%d.Example.COM", "xn--%d-bcher.example", "%d", "a.b.c.d.%d.hello.com"}
		c := &dcase{host: fmt.Sprintf(hlib.Pick(rng, hosts), n), alpn: rng.Intn(4)}
		for i := 0; i < 3; i++ {
			c.slots[i] = string(o[i].kind)
			if o[i].kind == 'L' || o[i].kind == 'R' {
				c.slots[i] += strconv.Itoa(10*(i+1) + rng.Intn(10))
			}
			c.envs[i] = o[i].e
			if c.envs[i].dial == "" {
				c.envs[i] = env{dial: "c", status: -1}
			}
			c.envs[i].variant = rng.Intn(12)
		}
		return c
	}
	opts := slotOptions()
	rounds := 1
	if r.Thorough() {
		rounds = 6
	}
	for round := 0; round < rounds; round++ {
		for _, a := range opts {
			for _, b := range opts {
				for _, c := range opts {
					dc := mk([3]slotOpt{a, b, c})
					w.runDial(r, dc)
					if rng.Intn(8) == 0 {
						// same hostname again (route cache hit), different world behaviour
						d2 := *dc
						for i := 0; i < 3; i++ {
							if dc.slots[i][0] == 'L' {
								d2.envs[i] = hlib.Pick(rng, localEnvs)
							} else if dc.slots[i][0] == 'R' {
								d2.envs[i] = hlib.Pick(rng, remoteEnvs)
							}
							d2.envs[i].variant = rng.Intn(12)
						}
						r.Count("redial")
						w.runDial(r, &d2)
					}
				}
			}
		}
	}
	pv := 8
	if r.Thorough() {
		pv = 48
	}
	for v := 0; v < pv; v++ {
		for _, recv := range []string{"bad", "me", "other", "nil"} {
			for _, cd := range []string{"c", "n", "e"} {
				rc := recv
				if recv != "bad" {
					rc += ":" + strconv.Itoa(1+rng.Intn(1000))
				}
				w.runProxy(r, rc, cd, v)
			}
		}
	}
	for v := 0; v < pv; v++ {
		for _, cd := range []string{"c", "n", "e"} {
			for _, lf := range []bool{false, true} {
				n++
				w.runE2E(r, fmt.Sprintf("e2e-%d.example.com", n), rng.Intn(4), uint64(10+rng.Intn(10)), cd, lf)
			}
		}
	}
	r.Finish()
}
