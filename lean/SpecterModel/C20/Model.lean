import SpecterModel.C21.Model
/-!
# C20 — crash points of the append-only log store (model)

The writer loop of `DiskKV.Start` is cut at its atomic file-level actions. For the `n+1`-th mutation:

```
issued                                   (request queued; nothing happened yet)
checkMutation            → rejected: acknowledged with the error, nothing was written
appendLog  = wal.Write   → ONE write(2) appending the frame to the tail segment
handleMutation           → memory only
  on error rollbackOne = wal.TruncateBack:
      atomicWrite <seg>.END   (TEMP file + rename: the END file appears atomically, TEMP is ignored by load)
      remove <seg>
      rename <seg>.END → <seg>
acknowledged
```

A process crash (SIGKILL, panic, OOM) keeps every completed `write(2)`; nothing is torn. The periodic
`Sync` does not change file contents and is therefore not a crash point of its own.
`precheck = false` is the code before the repair (no `checkMutation`), kept to state the regression.
-/
namespace Specter.Aof

/-- the WAL directory -/
structure Disk where
  seg : Option (List Mutation) := some []     -- tail segment file (`none`: removed during TruncateBack)
  endf : Option (List Mutation) := none       -- `<seg>.END` left by an unfinished TruncateBack
deriving DecidableEq, Repr

/-- `wal.Open` → `load`: an END file completes the truncation (the segment it replaces is removed, END is
renamed); a directory without segment files starts a new empty log -/
def walOpen (d : Disk) : List Mutation :=
  match d.endf with
  | some e => e
  | none =>
    match d.seg with
    | some l => l
    | none => []

/-- a crash point: directory content, number of mutations issued and acknowledged so far -/
structure Pt where
  disk : Disk
  issued : Nat
  acked : Nat
deriving DecidableEq, Repr

/-- One writer-loop iteration for the `n+1`-th mutation, with every crash point on the way.
Returns the crash points and the same result as `submitG`. -/
def stepG (pre : Bool) (s : Store) (n : Nat) (mu : Mutation) : List Pt × (Store × Option Err) :=
  let d0 : Disk := { seg := some s.log }
  let p0 : Pt := ⟨d0, n + 1, n⟩
  match (if pre then check s.mem mu else none) with
  | some e => ([p0, ⟨d0, n + 1, n + 1⟩], (s, some e))
  | none =>
    let s1 : Store := { s with log := s.log ++ [mu], counter := s.counter + 1 }
    let d1 : Disk := { seg := some s1.log }
    match handle s1.mem mu with
    | .ok m' => ([p0, ⟨d1, n + 1, n⟩, ⟨d1, n + 1, n + 1⟩], ({ s1 with mem := m' }, none))
    | .error e =>
      let kept := s1.log.dropLast
      let d2 : Disk := { seg := some s1.log, endf := some kept }
      let d3 : Disk := { seg := none, endf := some kept }
      let d4 : Disk := { seg := some kept }
      ([p0, ⟨d1, n + 1, n⟩, ⟨d2, n + 1, n⟩, ⟨d3, n + 1, n⟩, ⟨d4, n + 1, n⟩, ⟨d4, n + 1, n + 1⟩],
        ({ s1 with log := kept, counter := s1.counter - 1 }, some e))

/-- all crash points of running `rest` from store `s` after `n` mutations -/
def ptsFrom (pre : Bool) (s : Store) (n : Nat) : List Mutation → List Pt
  | [] => []
  | mu :: rest => (stepG pre s n mu).1 ++ ptsFrom pre (stepG pre s n mu).2.1 (n + 1) rest

/-- every crash point of a history on a fresh store (the first point: opened, nothing issued) -/
def crashPts (pre : Bool) (hist : List Mutation) : List Pt :=
  ⟨{}, 0, 0⟩ :: ptsFrom pre Store.init 0 hist

/-- `aof.New` on a crash image -/
def recover (d : Disk) : Except Err Store := reopenLog (walOpen d)

def recovers (pt : Pt) : Bool :=
  match recover pt.disk with
  | .ok _ => true
  | .error _ => false

end Specter.Aof
