// C24 correspondence: every fabricated on-disk configuration (user_version × subset of v1 objects ×
// rows) is opened with the real sqlite3.New; outcome, user_version, schema, rows and file bytes are
// compared with the Lean model and the property's spec.
package main

import (
	"bytes"
	"crypto/sha256"
	"database/sql"
	"fmt"
	"os"
	"path/filepath"
	"sort"
	"strconv"
	"strings"
	"sync"
	"sync/atomic"

	sq "go.miragespace.co/specter/kv/sqlite3"
	"go.miragespace.co/specter/spec/chord"
	"go.uber.org/zap"
	"verif/harness/hlib"
)

var objNames = []string{"key_trackers", "simple_entries", "prefix_entries", "lease_entries", "idx_hash"}

// legacy (GORM AutoMigrate) DDL of the v1 tables
var legacyDDL = []string{
	"CREATE TABLE `key_trackers` (`key` blob,`hash` integer,`flags` integer,PRIMARY KEY (`key`))",
	"CREATE TABLE `simple_entries` (`key` blob,`value` blob,PRIMARY KEY (`key`))",
	"CREATE TABLE `prefix_entries` (`prefix` blob,`child` blob,PRIMARY KEY (`prefix`,`child`))",
	"CREATE TABLE `lease_entries` (`owner` blob,`token` integer,PRIMARY KEY (`owner`))",
}
var firstCol = []string{"key", "key", "prefix", "owner"}

func dsn(path, jm string) string {
	if jm == "wal" { // exactly the DSN of kv/sqlite3.openSQLite
		return fmt.Sprintf("file:%s?_pragma=journal_mode(WAL)&_pragma=foreign_keys(1)&_pragma=busy_timeout(5000)&_pragma=synchronous(1)&_txlock=immediate", path)
	}
	return fmt.Sprintf("file:%s?_pragma=journal_mode(DELETE)&_pragma=busy_timeout(5000)", path)
}

type config struct {
	uv      int
	mask    int
	rows    [4]int
	jm      string
	foreign bool
	// coll bit i: a foreign object of the OTHER kind carries the name of v1 object i (tables and
	// indexes share one name space in SQLite): an index called key_trackers/…/lease_entries on the
	// foreign table zz_other, a table called idx_hash. The v1 object itself is absent (coll&mask == 0);
	// the opener's tableExists/indexExists do not see the foreign object, but the CREATE statement of
	// the migration script that wants the name fails, so the script breaks off part-way.
	coll int
	seed uint64 // row contents
}

func must(err error) {
	if err != nil {
		panic(err)
	}
}

func fabricate(path string, c config) {
	db, err := sql.Open("sqlite3", dsn(path, c.jm))
	must(err)
	defer db.Close()
	db.SetMaxOpenConns(1)
	rng := hlib.NewRng(c.seed)
	for i := 0; i < 4; i++ {
		if c.mask>>i&1 == 1 {
			_, err = db.Exec(legacyDDL[i])
			must(err)
		}
	}
	if c.coll&c.mask != 0 {
		panic("coll overlaps mask")
	}
	if c.foreign || (c.mask>>4&1 == 1 && c.mask&15 == 0) || c.coll&15 != 0 {
		_, err = db.Exec("CREATE TABLE `zz_other` (`x` blob, `y` integer)")
		must(err)
		for j := 0; j < 3; j++ {
			_, err = db.Exec("INSERT INTO `zz_other` VALUES (?, ?)", rng.Bytes(5), int64(rng.Intn(1000)))
			must(err)
		}
	}
	for i := 0; i < 4; i++ {
		if c.coll>>i&1 == 1 {
			_, err = db.Exec(fmt.Sprintf("CREATE INDEX `%s` ON `zz_other`(`%s`)", objNames[i], hlib.Pick(rng, []string{"x", "y"})))
			must(err)
		}
	}
	if c.coll>>4&1 == 1 {
		_, err = db.Exec("CREATE TABLE `idx_hash` (`note` blob, `n` integer)")
		must(err)
		for j := 0; j < 1+rng.Intn(3); j++ {
			_, err = db.Exec("INSERT INTO `idx_hash` VALUES (?, ?)", rng.Bytes(4), int64(rng.Intn(1000)))
			must(err)
		}
	}
	if c.mask>>4&1 == 1 {
		// idx_hash: on key_trackers(hash) when that table exists; otherwise an index of that *name* on
		// whatever table there is (the opener inspects names only)
		switch {
		case c.mask&1 == 1:
			_, err = db.Exec("CREATE INDEX `idx_hash` ON `key_trackers`(`hash`)")
		case c.mask&15 != 0:
			for i := 1; i < 4; i++ {
				if c.mask>>i&1 == 1 {
					_, err = db.Exec(fmt.Sprintf("CREATE INDEX `idx_hash` ON `%s`(`%s`)", objNames[i], firstCol[i]))
					break
				}
			}
		default:
			_, err = db.Exec("CREATE INDEX `idx_hash` ON `zz_other`(`y`)")
		}
		must(err)
	}
	for i := 0; i < 4; i++ {
		if c.mask>>i&1 == 0 {
			continue
		}
		for j := 0; j < c.rows[i]; j++ {
			k := append([]byte{byte(j)}, rng.Bytes(1+rng.Intn(6))...)
			switch i {
			case 0:
				_, err = db.Exec("INSERT INTO `key_trackers` VALUES (?, ?, ?)", k, int64(rng.U64()>>16), int64(1+rng.Intn(7)))
			case 1:
				_, err = db.Exec("INSERT INTO `simple_entries` VALUES (?, ?)", k, rng.Bytes(rng.Intn(9)))
			case 2:
				_, err = db.Exec("INSERT INTO `prefix_entries` VALUES (?, ?)", k, rng.Bytes(1+rng.Intn(5)))
			case 3:
				_, err = db.Exec("INSERT INTO `lease_entries` VALUES (?, ?)", k, int64(rng.U64()>>2))
			}
			must(err)
		}
	}
	_, err = db.Exec(fmt.Sprintf("PRAGMA user_version = %d", c.uv))
	must(err)
}

type snapshot struct {
	uv     int
	schema []string          // type|name|tbl_name|sql, sorted
	rows   map[string]string // table -> digest of all rows
	counts map[string]int
}

func snap(path string) snapshot {
	db, err := sql.Open("sqlite3", fmt.Sprintf("file:%s?_pragma=busy_timeout(5000)", path))
	must(err)
	defer db.Close()
	db.SetMaxOpenConns(1)
	s := snapshot{rows: map[string]string{}, counts: map[string]int{}}
	must(db.QueryRow("PRAGMA user_version").Scan(&s.uv))
	rs, err := db.Query("SELECT type, name, tbl_name, ifnull(sql,'') FROM sqlite_schema")
	must(err)
	var tables []string
	for rs.Next() {
		var t, n, tn, q string
		must(rs.Scan(&t, &n, &tn, &q))
		s.schema = append(s.schema, t+"|"+n+"|"+tn+"|"+q)
		if t == "table" {
			tables = append(tables, n)
		}
	}
	rs.Close()
	sort.Strings(s.schema)
	for _, t := range tables {
		r, err := db.Query(fmt.Sprintf("SELECT * FROM `%s`", t))
		must(err)
		cols, _ := r.Columns()
		var lines []string
		for r.Next() {
			vals := make([]any, len(cols))
			ptrs := make([]any, len(cols))
			for i := range vals {
				ptrs[i] = &vals[i]
			}
			must(r.Scan(ptrs...))
			lines = append(lines, fmt.Sprintf("%#v", vals))
		}
		r.Close()
		sort.Strings(lines)
		h := sha256.Sum256([]byte(strings.Join(lines, "\n")))
		s.rows[t] = fmt.Sprintf("%x", h[:8])
		s.counts[t] = len(lines)
	}
	return s
}

func (s snapshot) mask() int {
	m := 0
	for _, l := range s.schema {
		p := strings.SplitN(l, "|", 4)
		for i, n := range objNames {
			want := "table"
			if i == 4 {
				want = "index"
			}
			if p[0] == want && p[1] == n {
				m |= 1 << i
			}
		}
	}
	return m
}

func (s snapshot) countStr() string {
	var xs []string
	for i := 0; i < 4; i++ {
		xs = append(xs, strconv.Itoa(s.counts[objNames[i]]))
	}
	return strings.Join(xs, ",")
}

func fileBytes(path string) []byte {
	b, err := os.ReadFile(path)
	if err != nil {
		return nil
	}
	return b
}

func main() {
	r := hlib.Start()
	r.Rule = "configurations (user_version, subset of the 5 v1 objects, rows per table, journal mode, foreign table); non-trivial = distinct configuration; exhaustive over user_version∈{0,1,2}(thorough: also -1,3)×2^5 subsets×{empty,rows} with the repo's own DSN, newer-version files (user_version 2, 3, max) with the complete or nearly complete v1 schema, rows and an unknown table, files in which a foreign index/table occupies the name of an absent v1 object so that the migration script fails part-way (fresh files × every non-empty set of occupied names, every other user_version∈{0,1,2,-1}×subset with one random set, thorough: all 3^5 disjoint pairs), then seeded variants (DELETE journal, foreign table, occupied names, extreme user_version, other row contents)"
	cache := os.Getenv("WAZERO_CACHE")
	if cache == "" {
		cache = filepath.Join(os.TempDir(), "verif-wazero")
	}
	os.MkdirAll(cache, 0o755)
	must(sq.Initialize(cache))
	base := os.Getenv("VERIF_SCRATCH")
	if base == "" {
		base, _ = os.MkdirTemp("", "c24")
	}
	root := filepath.Join(base, "c24dbs")
	os.RemoveAll(root)
	logger := zap.NewNop()
	byteDiffRefusedDelete := 0
	caseNo := 0
	type result struct {
		c                         config
		out, rowsSame, schema, bs string
		s1                        snapshot
	}
	eval := func(n int, c config) (res result) {
		dir := filepath.Join(root, strconv.Itoa(n))
		defer os.RemoveAll(dir)
		must(os.MkdirAll(filepath.Join(dir, "sqlite3"), 0o750))
		path := filepath.Join(dir, "sqlite3", "db")
		fabricate(path, c)
		b0 := fileBytes(path)
		s0 := snap(path)
		if b := fileBytes(path); !bytes.Equal(b, b0) {
			// the observer itself must not change the file, else the byte comparison means nothing
			panic("snapshot connection modified the database file")
		}
		out := "ok"
		func() {
			defer func() {
				if e := recover(); e != nil {
					out = "panic"
				}
			}()
			kv, err := sq.New(sq.Config{Logger: logger, HashFn: chord.Hash, DataDir: dir})
			if err != nil {
				out = "refuse"
				return
			}
			kv.Close()
		}()
		b1 := fileBytes(path)
		s1 := snap(path)
		rowsSame := "same"
		for t, d := range s0.rows {
			if s1.rows[t] != d {
				rowsSame = "changed"
			}
		}
		old := map[string]bool{}
		for _, l := range s1.schema {
			old[l] = true
		}
		schema := "eq"
		for _, l := range s0.schema {
			if !old[l] {
				schema = "changed"
			}
		}
		if schema == "eq" && len(s1.schema) != len(s0.schema) {
			schema = "sup"
		}
		bs := "same"
		if !bytes.Equal(b0, b1) {
			bs = "diff"
		}
		return result{c, out, rowsSame, schema, bs, s1}
	}
	emit := func(res result) {
		c, out, rowsSame, schema, bs, s1 := res.c, res.out, res.rowsSame, res.schema, res.bs, res.s1
		caseNo++
		r.Raw(fmt.Sprintf("# case %d", caseNo))
		lhs := fmt.Sprintf("open %d %d %d,%d,%d,%d %s %s", c.uv, c.mask, c.rows[0], c.rows[1], c.rows[2], c.rows[3], c.jm, hlib.B(c.foreign))
		key := fmt.Sprintf("%d/%d/%v/%s/%v", c.uv, c.mask, c.rows, c.jm, c.foreign)
		if c.coll != 0 {
			lhs += fmt.Sprintf(" %d", c.coll)
			key += fmt.Sprintf("/coll%d", c.coll)
		}
		r.Emit(lhs, fmt.Sprintf("%s %d %d %s %s %s %s", out, s1.uv, s1.mask(), s1.countStr(), rowsSame, schema, bs))
		r.Case(key)
		r.Count("outcome:" + out)
		if c.coll != 0 {
			r.Count("foreign-object-on-a-v1-name:" + out)
			// would the migration script run (uv below current, not refused by the partial-schema test)
			// and hit the occupied name only after creating something?
			runs := c.uv < 0 || (c.uv == 0 && c.mask == 0)
			if runs && out == "refuse" {
				first := -1
				for _, i := range []int{0, 4, 1, 2, 3} { // statement order of 0001-initial-schema.sql
					if c.coll>>i&1 == 1 {
						break
					}
					if c.mask>>i&1 == 0 {
						first = i
						break
					}
				}
				if first >= 0 {
					r.Count("migration-script-fails-after-creating-objects")
				} else {
					r.Count("migration-script-fails-before-creating-anything")
				}
			}
		}
		switch {
		case c.uv < 0:
			r.Count("uv:negative")
		case c.uv <= 2:
			r.Count("uv:" + strconv.Itoa(c.uv))
		default:
			r.Count("uv:>2")
		}
		if c.uv > 1 && c.mask == 31 {
			r.Count("newer-version-file-with-complete-v1-schema:" + out)
		}
		switch c.mask {
		case 0:
			r.Count("objects:none")
		case 31:
			r.Count("objects:all")
		default:
			r.Count("objects:partial")
		}
		if out == "refuse" && bs == "diff" && c.jm == "delete" {
			byteDiffRefusedDelete++
		}
		if out == "ok" && c.uv == 1 && s1.mask()&16 == 0 {
			r.Count("observation:stamped-current-db-without-idx_hash-opened-as-is")
		}
	}
	var pending []config
	run := func(c config) { pending = append(pending, c) }
	flush := func() {
		results := make([]result, len(pending))
		var wg sync.WaitGroup
		next := int64(-1)
		for w := 0; w < 6; w++ {
			wg.Add(1)
			go func() {
				defer wg.Done()
				for {
					i := int(atomic.AddInt64(&next, 1))
					if i >= len(pending) {
						return
					}
					results[i] = eval(i, pending[i])
				}
			}()
		}
		wg.Wait()
		for _, res := range results {
			emit(res)
		}
		pending = nil
	}
	mk := func(uv, mask int, withRows bool, jm string, foreign bool, seed uint64) config {
		c := config{uv: uv, mask: mask, jm: jm, foreign: foreign, seed: seed}
		if withRows {
			rg := hlib.NewRng(seed ^ 0xabc)
			for i := 0; i < 4; i++ {
				if mask>>i&1 == 1 {
					c.rows[i] = 1 + rg.Intn(4)
				}
			}
		}
		return c
	}
	if r.Replay != "" {
		for _, t := range r.ReplayLines() {
			if t[0] != "open" || len(t) < 6 {
				continue
			}
			uv, _ := strconv.Atoi(t[1])
			mask, _ := strconv.Atoi(t[2])
			c := config{uv: uv, mask: mask, jm: t[4], foreign: t[5] == "true", seed: r.Seed}
			if len(t) >= 7 {
				c.coll, _ = strconv.Atoi(t[6])
			}
			for i, x := range strings.Split(t[3], ",") {
				if i < 4 {
					c.rows[i], _ = strconv.Atoi(x)
				}
			}
			run(c)
		}
		flush()
		r.Finish()
		return
	}
	rng := hlib.NewRng(r.Seed)
	// the property's quantifier, exhaustively: user_version {0,1,2} × 2^5 subsets × {rows, no rows}
	for _, uv := range []int{0, 1, 2} {
		for mask := 0; mask < 32; mask++ {
			run(mk(uv, mask, false, "wal", false, rng.U64()))
			if mask&15 != 0 {
				run(mk(uv, mask, true, "wal", false, rng.U64()))
			}
		}
	}
	// files from a newer version as they really look: the complete v1 schema (or all of it but one
	// object) with rows, optionally next to a table this release does not know, in both journal modes
	for _, uv := range []int{2, 3, 2147483647} {
		for _, mask := range []int{31, 15, 30, 23} {
			for _, foreign := range []bool{false, true} {
				jm := "wal"
				if foreign && mask != 31 {
					jm = "delete"
				}
				run(mk(uv, mask, true, jm, foreign, rng.U64()))
			}
		}
		run(mk(uv, 31, true, "delete", false, rng.U64()))
	}
	// a migration script that breaks off part-way: a foreign object of the other kind sits on the name
	// of an absent v1 object, so one CREATE of the script fails after earlier ones have run. Fresh
	// files (user_version 0, no v1 object) with every non-empty set of occupied names; every other
	// (user_version, object subset) with one random non-empty set of occupied names among the absent
	// objects (thorough: all of them), negative user_version included (the script then runs on top of
	// whatever objects exist).
	subsetOf := func(free int) int {
		for {
			if x := rng.Intn(32) & free; x != 0 {
				return x
			}
		}
	}
	collUvs := []int{0, 1, 2, -1}
	for _, uv := range collUvs {
		for mask := 0; mask < 31; mask++ {
			free := 31 &^ mask
			for coll := 1; coll < 32; coll++ {
				if coll&^free != 0 {
					continue
				}
				if !(r.Thorough() || (uv == 0 && mask == 0)) {
					coll = subsetOf(free)
				}
				c := mk(uv, mask, mask&15 != 0 && rng.Chance(60), "wal", rng.Chance(30), rng.U64())
				c.coll = coll
				run(c)
				if !(r.Thorough() || (uv == 0 && mask == 0)) {
					break
				}
			}
		}
	}
	extra := 60
	if r.Thorough() {
		extra = 2500
		for _, uv := range []int{-1, 3} {
			for mask := 0; mask < 32; mask++ {
				run(mk(uv, mask, mask&15 != 0, "wal", false, rng.U64()))
			}
		}
	}
	uvs := []int{0, 0, 0, 1, 1, 2, -1, 3, 7, 2147483647, -2147483648}
	for i := 0; i < extra; i++ {
		mask := rng.Intn(32)
		if rng.Chance(30) {
			mask = hlib.Pick(rng, []int{0, 31, 15, 30, 23, 27, 29, 16, 1})
		}
		jm := "wal"
		if rng.Chance(35) {
			jm = "delete"
		}
		c := mk(hlib.Pick(rng, uvs), mask, rng.Chance(70), jm, rng.Chance(40), rng.U64())
		if mask != 31 && rng.Chance(30) {
			c.coll = subsetOf(31 &^ mask)
		}
		run(c)
	}
	flush()
	r.Extra["refused_opens_with_byte_level_change_on_DELETE_journal_files"] = byteDiffRefusedDelete
	os.RemoveAll(root)
	r.Finish()
}
