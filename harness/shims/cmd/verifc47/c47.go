//go:build verif

// Package verifc47 forwards to cmd/internal/listen (an internal package, importable only from inside
// go.miragespace.co/specter/cmd/...). Injected by overlay as /repo/cmd/verifc47/; adds nothing to /repo.
package verifc47

import "go.miragespace.co/specter/cmd/internal/listen"

type Address = listen.Address

const FlyGlobalServicesHost = listen.FlyGlobalServicesHost

func ParseAddresses(proto string, base []string, overrides []string) ([]Address, error) {
	return listen.ParseAddresses(proto, base, overrides)
}
