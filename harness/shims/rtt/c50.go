//go:build verif

package rtt

import "time"

// VerifC50RecordAged records a latency through the real RecordLatency and then moves the timestamp of the point just
// appended into the past by `age` (the recorder reads the wall clock; this is the only way to obtain stale points
// without sleeping).
func (i *Instrumentation) VerifC50RecordAged(key string, value float64, age time.Duration) {
	i.RecordLatency(key, value)
	c := i.getContainer(key)
	c.mu.Lock()
	if n := len(c.data); n > 0 {
		c.data[n-1].time = c.data[n-1].time.Add(-age)
	}
	c.mu.Unlock()
}
