import SpecterModel.C16.Props
import SpecterModel.C11.Props
/-!
# C17 — key-range transfer primitives are exact

About the shared back-end model `Specter.Kv` (tied to kv/memory, kv/aof, kv/sqlite3 differentially by
`harness/cmd/c17`). All theorems hold for every back-end `b`, every well-formed store (every
reachable one, `exec_wf`), every hash function into the ring.

* `rangeKeys_exact`: `RangeKeys(low, high)` lists exactly the keys holding data whose hash lies in the
  circular range `(low, high]` of C11 (`inClosed`), everything when `low = high` (`rangeKeys_full`),
  no key twice. memory uses `chord.Between` (the C11 translation, `between_closed_spec`); sqlite uses
  the norm/wrap query pair on signed integers, proved equal to it below 2^63 (`sqlRange_eq_between`).
* `import_export_roundtrip`: exporting keys and importing the result into an EMPTY store reproduces
  simple values (modulo empty ≡ absent; exactly on memory/aof), prefix children and lease tokens, and
  creates nothing else (`import_creates_nothing_else`).
* `removeKeys_exact`: `RemoveKeys` empties exactly the given keys (`removeKeys_dom`: and drops them
  from every listing), `removeKeys_chunks`: any batching of the key list gives the same store
  (sqlite deletes in batches of 200).
-/
namespace Specter.Kv
open Specter.C11

/-! ## ranges -/

theorem toNat_ofNat_of_lt {x : Nat} (h : x < 2^63) : (BitVec.ofNat 64 x).toNat = x := by
  simp only [BitVec.toNat_ofNat]; omega

theorem sqlInt_of_lt {x : Nat} (h : x < 2^63) : sqlInt x = (x : Int) := by
  unfold sqlInt
  rw [BitVec.toInt_eq_toNat_cond, toNat_ofNat_of_lt h]
  have : 2 * x < 2^64 := by omega
  simp [this]

/-- the sqlite range queries select exactly what `chord.Between(low, ·, high, true)` selects -/
theorem sqlRange_eq_between (lo t hi : Nat) (hl : lo < 2^63) (ht : t < 2^63) (hh : hi < 2^63) :
    sqlRange lo t hi = between lo t hi := by
  unfold sqlRange between
  rw [between_nat, sqlInt_of_lt hl, sqlInt_of_lt ht, sqlInt_of_lt hh,
    toNat_ofNat_of_lt hl, toNat_ofNat_of_lt ht, toNat_ofNat_of_lt hh]
  unfold natBetween
  have e1 : lo % 2^64 = lo := by omega
  have e2 : hi % 2^64 = hi := by omega
  rw [e1, e2, Bool.eq_iff_iff]
  by_cases c : hi > lo <;> simp [c] <;> omega

theorem between_iff_inClosed (lo t hi : Nat) (hl : lo < M) (ht : t < M) (hh : hi < M) :
    between lo t hi = true ↔ inClosed lo t hi := by
  have h63 : M ≤ 2^63 := by unfold M; omega
  unfold between
  rw [between_closed_spec] <;>
    simp only [toNat_ofNat_of_lt (Nat.lt_of_lt_of_le hl h63), toNat_ofNat_of_lt (Nat.lt_of_lt_of_le ht h63),
      toNat_ofNat_of_lt (Nat.lt_of_lt_of_le hh h63)] <;> assumption

theorem inRange_iff_inClosed (b : Backend) (lo t hi : Nat) (hl : lo < M) (ht : t < M) (hh : hi < M) :
    inRange b lo t hi = true ↔ inClosed lo t hi := by
  have h63 : M ≤ 2^63 := by unfold M; omega
  unfold inRange
  by_cases q : b.isSql = true
  · simp only [q, if_true]
    rw [sqlRange_eq_between _ _ _ (by omega) (by omega) (by omega)]
    exact between_iff_inClosed lo t hi hl ht hh
  · simp only [q]
    exact between_iff_inClosed lo t hi hl ht hh

/-- the executable range predicate of the contract / driver is the C11 interval -/
theorem inRing_iff_inClosed (lo t hi : Nat) (hl : lo < M) (ht : t < M) (hh : hi < M) :
    Spec.inRing lo t hi = true ↔ inClosed lo t hi := by
  unfold Spec.inRing inClosed inOpen dist; simp only [M] at *
  by_cases c : lo < hi
  · simp [c]; omega
  · simp [c]; omega

theorem held_of_mem_dom {s : Store} (wf : WF s) {k : Key} (h : (s.ent k).held = true) : k ∈ s.dom := by
  apply Classical.byContradiction
  intro hn
  rw [wf.support k hn] at h
  simp [Entry.held] at h

/-- **C17 range**: exactly the keys holding data with hash in `(low, high]` -/
theorem rangeKeys_exact (b : Backend) (hash : Key → Nat) (s : Store) (wf : WF s) (lo hi : Nat)
    (hl : lo < M) (hh : hi < M) (hhash : ∀ k, hash k < M) (k : Key) :
    k ∈ rangeKeys b hash s lo hi ↔ ((s.ent k).held = true ∧ inClosed lo (hash k) hi) := by
  unfold rangeKeys
  simp only [List.mem_filter, Bool.and_eq_true, inRange_iff_inClosed b lo (hash k) hi hl (hhash k) hh]
  constructor
  · rintro ⟨_, h1, h2⟩; exact ⟨h1, h2⟩
  · rintro ⟨h1, h2⟩; exact ⟨held_of_mem_dom wf h1, h1, h2⟩

theorem inClosed_full (l t : Nat) (hl : l < M) (ht : t < M) : inClosed l t l := by
  have := (between_iff_inClosed l t l hl ht hl).mp
  apply this
  unfold between
  exact between_full_circle_closed _ _

/-- `low = high`: everything that holds data -/
theorem rangeKeys_full (b : Backend) (hash : Key → Nat) (s : Store) (wf : WF s) (lo : Nat)
    (hl : lo < M) (hhash : ∀ k, hash k < M) (k : Key) :
    k ∈ rangeKeys b hash s lo lo ↔ (s.ent k).held = true := by
  rw [rangeKeys_exact b hash s wf lo lo hl hl hhash]
  exact ⟨fun h => h.1, fun h => ⟨h, inClosed_full lo (hash k) hl (hhash k)⟩⟩

theorem rangeKeys_nodup (b : Backend) (hash : Key → Nat) (s : Store) (wf : WF s) (lo hi : Nat) :
    (rangeKeys b hash s lo hi).Nodup := by
  unfold rangeKeys
  exact wf.nodupDom.filter _

/-! ## export / import -/

/-- what `Export(keys)` hands to `Import`: each key with its entry -/
def transfer (s : Store) (ks : List Key) : List (Key × Entry) := ks.map fun k => (k, s.ent k)

theorem transfer_eq_zip (s : Store) (ks : List Key) : transfer s ks = ks.zip (exportAll s ks) := by
  unfold transfer exportAll
  induction ks with
  | nil => rfl
  | cons k ks ih => simp [ih]

theorem importAll_other (b : Backend) (kvs : List (Key × Entry)) (s : Store) (k : Key)
    (h : k ∉ kvs.map Prod.fst) : (importAll b s kvs).ent k = s.ent k := by
  unfold importAll
  induction kvs generalizing s with
  | nil => rfl
  | cons kv kvs ih =>
    simp only [List.map_cons, List.mem_cons, not_or] at h
    simp only [List.foldl_cons]
    rw [ih _ h.2, Store.upd_ent_other _ _ _ _ h.1]

theorem importAll_mem (b : Backend) (kvs : List (Key × Entry)) (s : Store) (k : Key) (t : Entry)
    (hn : (kvs.map Prod.fst).Nodup) (h : (k, t) ∈ kvs) :
    (importAll b s kvs).ent k = importEntry b t (s.ent k) := by
  induction kvs generalizing s with
  | nil => simp at h
  | cons kv kvs ih =>
    simp only [List.map_cons, List.nodup_cons] at hn
    rcases List.mem_cons.mp h with e | h'
    · subst e
      have := importAll_other b kvs (s.upd k (importEntry b t)) k hn.1
      simp only [importAll, List.foldl_cons] at this ⊢
      rw [this, Store.upd_ent_same]
    · have hne : k ≠ kv.1 := by
        intro e
        exact hn.1 (e ▸ List.mem_map_of_mem (f := Prod.fst) h')
      have := ih (s.upd kv.1 (importEntry b kv.2)) hn.2 h'
      simp only [importAll, List.foldl_cons] at this ⊢
      rw [this, Store.upd_ent_other _ _ _ _ hne]

theorem addChildren_of_nodup (new cs : List Bytes) (h : (cs ++ new).Nodup) :
    addChildren cs new = cs ++ new := by
  unfold addChildren
  induction new generalizing cs with
  | nil => simp
  | cons c new ih =>
    have hc : c ∉ cs := by
      intro m
      have := List.nodup_append.mp h
      exact this.2.2 c m c (by simp) rfl
    simp only [List.foldl_cons, hc, if_false]
    have h' : ((cs ++ [c]) ++ new).Nodup := by simpa using h
    rw [ih _ h']; simp

/-- the data of two entries agree (simple value modulo empty ≡ absent) -/
def Entry.same (e e' : Entry) : Prop :=
  norm e.simple = norm e'.simple ∧ e.children = e'.children ∧ e.lease = e'.lease

theorem importEntry_into_empty (b : Backend) (t : Entry) (h : t.children.Nodup) :
    Entry.same (importEntry b t {}) t ∧ (b.isSql = false → importEntry b t {} = t) := by
  have hc : addChildren [] t.children = t.children := by
    have := addChildren_of_nodup t.children [] (by simpa using h)
    simpa using this
  unfold importEntry Entry.same
  by_cases q : b.isSql = true
  · simp only [q, if_true, hc]
    refine ⟨⟨?_, trivial, ?_⟩, by intro h'; simp at h'⟩
    · unfold sqlImportedSimple
      cases hs : t.simple with
      | some v => simp
      | none =>
        by_cases c : (t.children.isEmpty && t.lease == 0) = true <;> simp [c, norm]
    · by_cases c : t.lease = 0 <;> simp [c]
  · simp only [q, hc]
    refine ⟨⟨?_, ?_, ?_⟩, fun _ => ?_⟩ <;> first | trivial | rfl

/-- **C17 export/import**: importing the export of `ks` into an empty store reproduces, for every
exported key, the simple value (modulo empty ≡ absent), the prefix children and the lease token. -/
theorem import_export_roundtrip (b : Backend) (s : Store) (wf : WF s) (ks : List Key) (hn : ks.Nodup)
    (k : Key) (hk : k ∈ ks) :
    Entry.same ((importAll b Store.init (transfer s ks)).ent k) (s.ent k) ∧
    (b.isSql = false → (importAll b Store.init (transfer s ks)).ent k = s.ent k) := by
  have hfst : (transfer s ks).map Prod.fst = ks := by
    unfold transfer; rw [List.map_map]; simp [Function.comp_def]
  have hmem : (k, s.ent k) ∈ transfer s ks := List.mem_map.mpr ⟨k, hk, rfl⟩
  rw [importAll_mem b _ _ k (s.ent k) (by rw [hfst]; exact hn) hmem]
  exact importEntry_into_empty b (s.ent k) (wf.nodupCh k)

/-- as answer lists: a second `Export` from the target equals the first one entry by entry -/
theorem export_after_import (b : Backend) (hb : b.isSql = false) (s : Store) (wf : WF s) (ks : List Key)
    (hn : ks.Nodup) : exportAll (importAll b Store.init (transfer s ks)) ks = exportAll s ks := by
  unfold exportAll
  apply List.map_congr_left
  intro k hk
  exact (import_export_roundtrip b s wf ks hn k hk).2 hb

/-- … and creates nothing else -/
theorem import_creates_nothing_else (b : Backend) (s : Store) (ks : List Key) (k : Key) (hk : k ∉ ks) :
    (importAll b Store.init (transfer s ks)).ent k = {} := by
  have hfst : (transfer s ks).map Prod.fst = ks := by
    unfold transfer; rw [List.map_map]; simp [Function.comp_def]
  rw [importAll_other b _ _ k (by rw [hfst]; exact hk)]
  rfl

/-! ## RemoveKeys -/

/-- **C17 remove**: all data of the given keys is gone, every other key is untouched -/
theorem removeKeys_exact (s : Store) (ks : List Key) (k : Key) :
    (removeAll s ks).ent k = if k ∈ ks then {} else s.ent k := by
  unfold removeAll
  induction ks generalizing s with
  | nil => simp
  | cons a ks ih =>
    simp only [List.foldl_cons, List.mem_cons]
    rw [ih, Store.drop_ent]
    by_cases c1 : k ∈ ks <;> by_cases c2 : k = a <;> simp [c1, c2]

theorem removeKeys_dom (s : Store) (wf : WF s) (ks : List Key) (k : Key) :
    k ∈ (removeAll s ks).dom ↔ (k ∈ s.dom ∧ k ∉ ks) := by
  unfold removeAll
  induction ks generalizing s with
  | nil => simp
  | cons a ks ih =>
    simp only [List.foldl_cons, List.mem_cons, not_or]
    rw [ih _ (wf.drop a)]
    simp only [Store.drop, wf.nodupDom.mem_erase_iff]
    constructor
    · rintro ⟨⟨h1, h2⟩, h3⟩; exact ⟨h2, h1, h3⟩
    · rintro ⟨h2, h1, h3⟩; exact ⟨⟨h1, h2⟩, h3⟩

/-- removed keys disappear from range listings; the others stay exactly as listed before -/
theorem rangeKeys_after_remove (b : Backend) (hash : Key → Nat) (s : Store) (wf : WF s) (ks : List Key)
    (lo hi : Nat) (k : Key) :
    k ∈ rangeKeys b hash (removeAll s ks) lo hi ↔ (k ∈ rangeKeys b hash s lo hi ∧ k ∉ ks) := by
  unfold rangeKeys
  simp only [List.mem_filter, removeKeys_dom s wf, removeKeys_exact]
  by_cases c : k ∈ ks
  · simp [c]
  · simp [c]

/-- any batching of the key list (sqlite: 200 per batch) removes the same -/
theorem removeKeys_chunks (s : Store) (chunks : List (List Key)) :
    removeAll s chunks.flatten = chunks.foldl removeAll s := by
  induction chunks generalizing s with
  | nil => rfl
  | cons c cs ih =>
    simp only [List.flatten_cons, List.foldl_cons]
    rw [← ih]
    unfold removeAll
    rw [List.foldl_append]

/-! ## non-vacuity -/

-- a store with colliding hashes, a wrap-around range and a boundary hash equal to `high`
example :
    let h : Key → Nat := fun k => if k = [1] then 5 else if k = [2] then 5 else if k = [3] then 2^48 - 1 else 9
    let s := exec (step .sqlite h) Store.init
      [.put [1] (some [7]), .pappend [2] [8], .acquire [3] 1000000000 50, .put [4] (some [1]), .delete [4]]
    rangeKeys .sqlite h s (2^48 - 2) 5 = [[1], [2], [3]] ∧ rangeKeys .memory h s 5 5 = [[1], [2], [3]] ∧
    rangeKeys .memory h s 5 (2^48 - 2) = [] := by decide

example :
    let s := exec (step .sqlite (fun _ => 0)) Store.init
      [.put [1] (some [7]), .pappend [1] [8], .pappend [1] [9], .acquire [1] 1000000000 50, .pappend [2] [3]]
    exportAll (importAll .sqlite Store.init (transfer s [[1], [2]])) [[1], [2], [5]] =
      [⟨some [7], [[8], [9]], 1000000050⟩, ⟨none, [[3]], 0⟩, ⟨none, [], 0⟩] := by decide

example :
    let s := exec (step .memory (fun _ => 0)) Store.init [.put [1] (some [7]), .pappend [2] [3], .put [3] (some [1])]
    exportAll (removeAll s [[1], [2]]) [[1], [2], [3]] = [{}, {}, ⟨some [1], [], 0⟩] := by decide

end Specter.Kv
