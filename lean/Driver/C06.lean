import SpecterModel.C06.Drv

def main : IO Unit := Specter.C06.main
