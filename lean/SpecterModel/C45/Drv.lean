import SpecterModel.Util
import SpecterModel.C45.Model
/-! C45 line-protocol driver (one case = one strace-recorded configuration save).

```
reset
scenario <hex json: how the harness re-creates this save>      => ok
init <hex old content> <hex stale tmp content | _>           => ok
op <openTrunc fd name | write fd hex | fsync fd | close fd | rename a b | unlink a | other what>
       => <content of cfg with everything written: hex|absent> <real reader: old|new|…>
          <content of cfg with unsynced data lost: hex|absent> <real reader: old|new|…>
shape  => atomic <hex of all bytes written>
```
The config path is the name `cfg`. Each `op` line is one prefix of the recorded list: the harness
rebuilt both crash images on disk with real system calls and parsed them with the real `NewConfig`;
the model computes the same two images (DIFF when the bytes differ); the verdict of the real reader
must be `old` or `new` (SPEC otherwise). `shape`: the recorded list must satisfy `isAtomicReplace`
(the hypothesis of `atomic_replace_safe`). -/
namespace Specter.C45
open Specter.Util

structure St where
  fs : Fs
  ops : List FsOp      -- reversed

def emptyFs : Fs := { dir := fun _ => none, file := fun _ => ⟨[], 0⟩, fd := fun _ => none, next := 0 }

def initFs (old : List Nat) (stale : Option (List Nat)) : Fs :=
  { dir := fun p => if p = "cfg" then some 0 else if p = "tmp" ∧ stale.isSome then some 1 else none,
    file := fun i => if i = 0 then ⟨old, old.length⟩ else
      match stale with
      | some st => if i = 1 then ⟨st, st.length⟩ else ⟨[], 0⟩
      | none => ⟨[], 0⟩,
    fd := fun _ => none, next := 2 }

def parseOp : List String → Option FsOp
  | ["openTrunc", fd, p] => fd.toNat?.map (.openTrunc · p)
  | ["write", fd, h] => do some (.write (← fd.toNat?) (← hexToBytes h))
  | ["fsync", fd] => fd.toNat?.map .fsync
  | ["close", fd] => fd.toNat?.map .close
  | ["rename", a, b] => some (.rename a b)
  | ["unlink", a] => some (.unlink a)
  | ["other", w] => some (.other w)
  | _ => none

def showImage : Option (List Nat) → String
  | none => "absent"
  | some bs => bytesToHex bs

def okVerdict (v : String) : Bool := v = "old" || v = "new"

def shapeName (ops : List FsOp) : String :=
  if isAtomicReplace "cfg" ops then "atomic"
  else if isTruncateInPlace "cfg" ops then "truncate-in-place"
  else "other"

def step' (st : St) (toks : List String) (rhs : String) : St × Verdict :=
  match toks with
  | ["reset"] => (⟨emptyFs, []⟩, .ok)
  | ["scenario", _] => (st, .ok)          -- replay information for the harness only
  | ["init", o, stale] =>
    match hexToBytes o, (if stale = "_" then some none else (hexToBytes stale).map some) with
    | some old, some st => (⟨initFs old st, []⟩, .ok)
    | _, _ => (st, .bad "init args")
  | "op" :: optoks =>
    match parseOp optoks, rhs.splitOn " " with
    | some op, [syncHex, syncV, lossyHex, lossyV] =>
      let fs := step st.fs op
      let st' : St := ⟨fs, op :: st.ops⟩
      let k := st'.ops.length
      if !okVerdict syncV then
        (st', .spec s!"crash after operation {k}: the config file is neither the previous nor the new configuration (reader: {syncV})")
      else if !okVerdict lossyV then
        (st', .spec s!"crash after operation {k} with unsynced data lost: the config file is neither the previous nor the new configuration (reader: {lossyV})")
      else
        let m := showImage (imageSync fs "cfg") ++ " " ++ showImage (imageLossy fs "cfg")
        if m ≠ syncHex ++ " " ++ lossyHex then (st', .diff m) else (st', .ok)
    | _, _ => (st, .bad "op args")
  | ["shape"] =>
    let ops := st.ops.reverse
    let m := shapeName ops ++ " " ++ bytesToHex (pending ops)
    if m ≠ rhs then (st, .diff m) else (st, .ok)
  | _ => (st, .bad "unknown op")

def main : IO Unit := runLoop (⟨emptyFs, []⟩ : St) step'

end Specter.C45
