import SpecterModel.C23.Drv

def main : IO Unit := Specter.C23.main
