import SpecterModel.C20.Model
import SpecterModel.C21.Props
/-!
# C20 — The append-only log store recovers from a crash at any point
-/
namespace Specter.Aof

/-- the crash-point semantics computes exactly the writer-loop iteration of the C21 model -/
theorem stepG_store (pre : Bool) (s : Store) (n : Nat) (mu : Mutation) :
    (stepG pre s n mu).2 = submitG pre s mu := by
  unfold stepG submitG
  cases (if pre = true then check s.mem mu else none) with
  | some e => rfl
  | none =>
    simp only
    cases handle s.mem mu <;> rfl

theorem submit_mem_spec (s : Store) (mu : Mutation) : (submitG true s mu).1.mem = specStep s.mem mu := by
  unfold submitG specStep
  cases hchk : check s.mem mu with
  | some e => simp [check_some_handle_error _ _ _ hchk]
  | none =>
    simp only [if_true]
    cases hh : handle s.mem mu <;> simp

/-- what the property demands of one crash point: reopening succeeds and yields the reference state of
a prefix of the issued mutations that contains every acknowledged one -/
def Good (hist : List Mutation) (pt : Pt) : Prop :=
  ∃ p st, pt.acked ≤ p ∧ p ≤ pt.issued ∧ p ≤ hist.length ∧
    recover pt.disk = .ok st ∧ st.mem = specState Mem.empty (hist.take p)

theorem recover_log (l : List Mutation) (m : Mem) (h : replay l = .ok m) :
    ∃ st, recover { seg := some l } = .ok st ∧ st.mem = m := by
  refine ⟨{ log := l, mem := m, counter := l.length + 1 }, ?_, rfl⟩
  simp [recover, walOpen, reopenLog, h]

theorem specState_snoc (m : Mem) (l : List Mutation) (mu : Mutation) :
    specState m (l ++ [mu]) = specStep (specState m l) mu := by
  simp [specState, List.foldl_append]

theorem crash_core (rest : List Mutation) : ∀ (done : List Mutation) (s : Store),
    Inv s → s.mem = specState Mem.empty done → (∀ mu ∈ rest, mu.WF) →
    ∀ pt ∈ ptsFrom true s done.length rest, Good (done ++ rest) pt := by
  induction rest with
  | nil => intro done s _ _ _ pt hpt; simp [ptsFrom] at hpt
  | cons mu rest ih =>
    intro done s hinv hmem hwf pt hpt
    have htake0 : (done ++ mu :: rest).take done.length = done := List.take_left' rfl
    have htake1 : (done ++ mu :: rest).take (done.length + 1) = done ++ [mu] := by
      have : done ++ mu :: rest = (done ++ [mu]) ++ rest := by simp
      rw [this]; exact List.take_left' (by simp)
    have hlen : done.length + 1 ≤ (done ++ mu :: rest).length := by simp
    simp only [ptsFrom, List.mem_append] at hpt
    rcases hpt with hpt | hpt
    · -- crash points of this iteration
      obtain ⟨hr, hc⟩ := hinv
      -- state of the log without / with the new entry
      have good_old : ∀ a i, a ≤ done.length → done.length ≤ i →
          Good (done ++ mu :: rest) ⟨{ seg := some s.log }, i, a⟩ := by
        intro a i ha hi
        obtain ⟨st, hst, hm⟩ := recover_log s.log s.mem hr
        exact ⟨done.length, st, ha, hi, by omega, hst, by rw [hm, htake0, hmem]⟩
      unfold stepG at hpt
      cases hchk : check s.mem mu with
      | some e =>
        simp only [hchk, if_true, List.mem_cons, List.not_mem_nil, or_false] at hpt
        rcases hpt with rfl | rfl
        · exact good_old _ _ (Nat.le_refl _) (Nat.le_succ _)
        · -- acknowledged with an error: the prefix including the rejected mutation has the same state
          obtain ⟨st, hst, hm⟩ := recover_log s.log s.mem hr
          refine ⟨done.length + 1, st, Nat.le_refl _, Nat.le_refl _, hlen, hst, ?_⟩
          rw [hm, htake1, specState_snoc, ← hmem, specStep, check_some_handle_error _ _ _ hchk]
      | none =>
        obtain ⟨m', hh⟩ := rollback_unreachable s.mem mu (hwf mu (List.mem_cons_self)) hchk
        simp only [hchk, if_true, hh, List.mem_cons, List.not_mem_nil, or_false] at hpt
        have good_new : ∀ a, a ≤ done.length + 1 →
            Good (done ++ mu :: rest) ⟨{ seg := some (s.log ++ [mu]) }, done.length + 1, a⟩ := by
          intro a ha
          have hrep : replay (s.log ++ [mu]) = .ok m' := by
            unfold replay at hr ⊢
            rw [replayG_reset_append, hr]; exact hh
          obtain ⟨st, hst, hm⟩ := recover_log _ _ hrep
          refine ⟨done.length + 1, st, ha, Nat.le_refl _, hlen, hst, ?_⟩
          rw [hm, htake1, specState_snoc, ← hmem, specStep, hh]
        rcases hpt with rfl | rfl | rfl
        · exact good_old _ _ (Nat.le_refl _) (Nat.le_succ _)
        · exact good_new _ (Nat.le_succ _)
        · exact good_new _ (Nat.le_refl _)
    · -- later iterations
      have h1 : (stepG true s done.length mu).2.1 = (submitG true s mu).1 := by rw [stepG_store]
      rw [h1] at hpt
      have := ih (done ++ [mu]) (submitG true s mu).1
        (submit_preserves_replay_inv true s mu hinv)
        (by rw [submit_mem_spec, specState_snoc, hmem])
        (fun x hx => hwf x (List.mem_cons_of_mem _ hx)) pt
        (by simpa using hpt)
      simpa using this

/-- **C20.** For every history (of well-formed mutations) and every crash point of the current code,
reopening succeeds and the recovered data equal the reference state of some prefix of the issued
mutations that contains every acknowledged mutation; rejected mutations contribute nothing
(`specState` skips them). -/
theorem crash_recovers (hist : List Mutation) (hwf : ∀ mu ∈ hist, mu.WF) :
    ∀ pt ∈ crashPts true hist, Good hist pt := by
  intro pt hpt
  simp only [crashPts, List.mem_cons] at hpt
  rcases hpt with rfl | hpt
  · exact ⟨0, { log := [], mem := Mem.empty, counter := 1 }, Nat.le_refl _, Nat.le_refl _, Nat.zero_le _,
      rfl, rfl⟩
  · have := crash_core hist [] Store.init inv_init rfl hwf pt (by simpa using hpt)
    simpa using this

/-- corollary in executable form: every crash image of the current code reopens -/
theorem crash_images_reopen (hist : List Mutation) (hwf : ∀ mu ∈ hist, mu.WF) :
    (crashPts true hist).all recovers = true := by
  rw [List.all_eq_true]
  intro pt hpt
  obtain ⟨p, st, _, _, _, hst, _⟩ := crash_recovers hist hwf pt hpt
  simp [recovers, hst]

/-! ### The regression the repair protects against -/

def conflictWitness : List Mutation :=
  [{ type := tAppend, key := [1], value := [7] }, { type := tAppend, key := [1], value := [7] }]

/-- Before the repair (log first, roll back on rejection) the theorem is false: after the `write(2)` of
the rejected duplicate `PREFIX_APPEND` and before the END file of the rollback exists, the directory
holds an entry that replay cannot apply, so `aof.New` fails (forever). -/
theorem prefix_old_violates :
    ∃ pt ∈ crashPts false conflictWitness, recovers pt = false ∧
      pt.disk = { seg := some conflictWitness } ∧ pt.issued = 2 ∧ pt.acked = 1 := by
  refine ⟨⟨{ seg := some conflictWitness }, 2, 1⟩, ?_, ?_, rfl, rfl, rfl⟩ <;> decide

/-- … and that window is the only bad crash point of the witness: once the END file exists, `wal.Open`
completes the truncation -/
theorem prefix_old_window_only :
    (crashPts false conflictWitness).map recovers =
      [true, true, true, true, true, false, true, true, true, true] := by decide

/-! ### Concurrent callers -/

theorem proj_take_prefix (t : Nat) (h : List Req) (p : Nat) : proj t (h.take p) <+: proj t h := by
  unfold proj
  have h1 : h.take p <+: h := List.take_prefix p h
  exact (h1.filter _).map _

theorem proj_take_mono (t : Nat) (h : List Req) {a p : Nat} (hap : a ≤ p) :
    proj t (h.take a) <+: proj t (h.take p) := by
  have : h.take a = (h.take p).take a := by rw [List.take_take, Nat.min_eq_left hap]
  rw [this]; exact proj_take_prefix t _ a

/-- **C20 with concurrent callers.** Whatever the callers' programs and whatever order `h` the writer
received their requests in, at every crash point reopening succeeds and the recovered data are the
reference state of a linearisation `h.take p` of issued requests (`p ≤ issued`) which holds, for every
caller `t`, a prefix of `t`'s program that contains all of `t`'s acknowledged requests; rejected requests
contribute nothing (`specState`). -/
theorem crash_recovers_concurrent (h : List Req) (hwf : ∀ r ∈ h, r.2.WF) :
    ∀ pt ∈ crashPtsC h, ∃ p st, pt.acked ≤ p ∧ p ≤ pt.issued ∧ p ≤ h.length ∧
      recover pt.disk = .ok st ∧ st.mem = specState Mem.empty (muts (h.take p)) ∧
      ∀ t, proj t (h.take pt.acked) <+: proj t (h.take p) ∧ proj t (h.take p) <+: proj t h := by
  intro pt hpt
  have hwf' : ∀ mu ∈ muts h, mu.WF := by
    intro mu hmu
    obtain ⟨r, hr, rfl⟩ := List.mem_map.mp hmu
    exact hwf r hr
  obtain ⟨p, st, hap, hpi, hpl, hrec, hmem⟩ := crash_recovers (muts h) hwf' pt hpt
  refine ⟨p, st, hap, hpi, by simpa [muts] using hpl, hrec, ?_, fun t => ⟨proj_take_mono t h hap, proj_take_prefix t h p⟩⟩
  rw [hmem]; simp [muts, List.map_take]

/-- executable corollary -/
theorem crash_images_reopen_concurrent (h : List Req) (hwf : ∀ r ∈ h, r.2.WF) :
    (crashPtsC h).all recovers = true := by
  rw [List.all_eq_true]
  intro pt hpt
  obtain ⟨p, st, _, _, _, hst, _⟩ := crash_recovers_concurrent h hwf pt hpt
  simp [recovers, hst]

/-- the writer iteration of the code as it is: the rejection test reads the writer's own memory -/
theorem stepSeen_current (s : Store) (n : Nat) (mu : Mutation) :
    stepSeen s.mem s n mu = stepG true s n mu := by
  unfold stepSeen stepG
  cases check s.mem mu <;> simp

/-- Regression: a rejection test evaluated on memory that is one applied request behind (two callers
issue the same `PREFIX_APPEND`, both are tested before the writer applies the first) lets the duplicate
into the log; the crash point after its `write(2)` leaves a log that `aof.New` rejects. -/
theorem stale_check_violates :
    let s1 := (submit Store.init conflictWitness[0]).1
    (∃ pt ∈ (stepSeen Mem.empty s1 1 conflictWitness[0]).1, recovers pt = false ∧
      pt.disk = { seg := some conflictWitness } ∧ pt.issued = 2 ∧ pt.acked = 1) ∧
    ((stepSeen s1.mem s1 1 conflictWitness[0]).1).all recovers = true := by
  refine ⟨⟨⟨{ seg := some conflictWitness }, 2, 1⟩, ?_, ?_, rfl, rfl, rfl⟩, ?_⟩ <;> decide

/-! ### Non-vacuity -/

example : (crashPts true conflictWitness).length = 6 := by decide
example : (crashPts true conflictWitness).all recovers = true := by decide
example : ∀ mu ∈ exHist, mu.WF := by decide
example : (crashPts true exHist).length = 18 ∧
    (crashPts true exHist).getLast? = some ⟨{ seg := some (runHist Store.init exHist).log }, 6, 6⟩ := by decide

def concWitness : List Req :=
  [(0, { type := tAppend, key := [1], value := [7] }), (1, { type := tAppend, key := [1], value := [7] }),
   (1, { type := tPut, key := [2], value := [9] }), (0, { type := tRemove, key := [1], value := [7] })]
example : ∀ r ∈ concWitness, r.2.WF := by decide
example : (crashPtsC concWitness).length = 12 ∧ proj 1 concWitness = [concWitness[1].2, concWitness[2].2] := by decide

end Specter.Aof
