import SpecterModel.C13.Gen
/-!
C13 executable model (core Lean only).

* `Seq`: the word-level sequential model of `nodeState` assembled from the GENERATED packing
  expressions (`Gen.C13.tr_prev`, `tr_next`, …): `Transition`, `Set`, `Get`, `History` when one
  goroutine runs at a time. Used for the exact differential tie.
* `checkRound`: validator of one *concurrent* round (k goroutines racing `Transition` / `Set`
  on the real object, started from a quiescent state): decides from the property statement whether
  the results + final history are a behaviour in which every successful transition consumed the
  previous recorded state, in order, exactly once.
-/
namespace Specter.C13
open Gen.C13

/-- word-level state: the atomic word and the history map (index ↦ state) as an association list -/
structure Seq where
  word : BitVec 64
  hist : List (Nat × Nat)
deriving Repr, DecidableEq

def histStore (h : List (Nat × Nat)) (i v : Nat) : List (Nat × Nat) :=
  (i, v) :: h.filter (fun p => p.1 ≠ i)

/-- insertion sort by key: `History()` ranges the skipmap in ascending index order -/
def insertKV (p : Nat × Nat) : List (Nat × Nat) → List (Nat × Nat)
  | [] => [p]
  | q :: rest => if p.1 ≤ q.1 then p :: q :: rest else q :: insertKV p rest

def history (s : Seq) : List Nat := (s.hist.foldr insertKV []).map (·.2)

def Seq.new (initial : Nat) : Seq :=
  { word := initWord (BitVec.ofNat 64 initial), hist := [(0, initial)] }

/-- `Transition(exp, nxt)` executed without interference: load, CAS, history store -/
def Seq.transition (s : Seq) (exp nxt : Nat) : Seq × Nat × Bool :=
  let curr := s.word
  let e := BitVec.ofNat 64 exp
  let n := BitVec.ofNat 64 nxt
  if s.word = tr_prev curr e n then
    ({ word := tr_next curr e n, hist := histStore s.hist (tr_nextIndex curr e n).toNat nxt }, nxt, true)
  else (s, (tr_failState curr e n).toNat, false)

def Seq.get (s : Seq) : Nat := (getState s.word).toNat

/-- `Set(val)` without interference: `Transition(Get(), val)` succeeds at the first iteration when the
state fits the packing; the loop is bounded here by fuel 2 and reports `none` if it would spin. -/
def Seq.set (s : Seq) (val : Nat) : Option Seq :=
  let (s1, _, ok) := s.transition s.get val
  if ok then some s1 else
  let (s2, _, ok2) := s1.transition s1.get val
  if ok2 then some s2 else none

/-! ### concurrent round validation -/

inductive Op where
  | tr (exp nxt : Nat) (got : Nat) (ok : Bool)   -- Transition(exp, nxt) returned (got, ok)
  | set (val : Nat)                               -- Set(val) returned
deriving Repr, DecidableEq

def Op.succeeded : Op → Bool
  | .tr _ _ _ ok => ok
  | .set _ => true

/-- remove the first element equal to `x`; `none` when absent -/
def removeFirst [DecidableEq α] (x : α) : List α → Option (List α)
  | [] => none
  | y :: ys => if x = y then some ys else (removeFirst x ys).map (y :: ·)

/-- consecutive pairs (h[i], h[i+1]) -/
def pairs : List Nat → List (Nat × Nat)
  | a :: b :: rest => (a, b) :: pairs (b :: rest)
  | _ => []

def removeAll [DecidableEq α] (xs : List α) (from_ : List α) : Option (List α) :=
  xs.foldlM (fun acc x => removeFirst x acc) from_

/-- Verdict of one round. `before`: recorded history at the quiescent start (non-empty);
`after`: recorded history at the quiescent end; `get`: `Get()` at the end. `none` = accepted. -/
def checkRound (before : List Nat) (ops : List Op) (after : List Nat) (get : Nat) : Option String :=
  match before.getLast?, after.getLast? with
  | none, _ => some "empty history before round"
  | _, none => some "empty history after round"
  | some cur, some last =>
  if after.take before.length ≠ before then some "recorded history was rewritten"
  else if get ≠ last then some s!"Get()={get} but last recorded state is {last}"
  else
    let wins := (ops.filter Op.succeeded).length
    if wins + before.length ≠ after.length then
      some s!"{wins} successful transitions but history grew by {after.length - before.length}"
    else
      -- chain of (previous state, new state) pairs recorded in this round
      let chain := pairs (after.drop (before.length - 1))
      let okTr := ops.filterMap fun | .tr e n _ true => some (e, n) | _ => none
      let sets := ops.filterMap fun | .set v => some v | _ => none
      match removeAll okTr chain with
      | none => some "a successful Transition(exp,nxt) has no matching consecutive pair in the history"
      | some restPairs =>
        match removeAll sets (restPairs.map (·.2)) with
        | none => some "a Set(val) has no matching history entry"
        | some _ =>
          let seen := after.drop (before.length - 1)
          let racers := ops.any fun | .tr e _ _ _ => e == cur | .set _ => true
          if racers && wins == 0 then some s!"attempts from the current state {cur} but no winner"
          else if ops.any (fun | .tr _ _ g false => !(seen.contains g) | _ => false) then
            some "failed Transition reported a state that was never current in this round"
          else none

end Specter.C13
