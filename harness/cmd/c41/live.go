package main

import (
	"context"
	"crypto/ecdsa"
	"crypto/elliptic"
	"crypto/rand"
	"crypto/tls"
	"crypto/x509"
	"crypto/x509/pkix"
	"errors"
	"fmt"
	"math/big"
	"net"
	"sort"
	"strings"
	"sync"
	"time"

	"github.com/quic-go/quic-go"
	"go.miragespace.co/specter/overlay"
	"go.miragespace.co/specter/spec/protocol"
	"go.uber.org/zap"
	"verif/harness/hlib"
)

func selfSigned() tls.Certificate {
	key, _ := ecdsa.GenerateKey(elliptic.P256(), rand.Reader)
	tmpl := &x509.Certificate{
		SerialNumber: big.NewInt(1), Subject: pkix.Name{CommonName: "c41"},
		NotBefore: time.Now().Add(-time.Hour), NotAfter: time.Now().Add(24 * time.Hour),
		IPAddresses: []net.IP{net.ParseIP("127.0.0.1")}, DNSNames: []string{"localhost"},
		KeyUsage: x509.KeyUsageDigitalSignature, ExtKeyUsage: []x509.ExtKeyUsage{x509.ExtKeyUsageServerAuth, x509.ExtKeyUsageClientAuth},
	}
	der, _ := x509.CreateCertificate(rand.Reader, tmpl, tmpl, &key.PublicKey, key)
	return tls.Certificate{Certificate: [][]byte{der}, PrivateKey: key}
}

type livePeer struct {
	pc   net.PacketConn
	tr   *quic.Transport
	ln   *quic.EarlyListener
	t    *overlay.QUIC
	addr string
	stop context.CancelFunc
}

func newLivePeer(cert tls.Certificate) (*livePeer, error) {
	pc, err := net.ListenPacket("udp", "127.0.0.1:0")
	if err != nil {
		return nil, err
	}
	tr := &quic.Transport{Conn: pc}
	srvTLS := &tls.Config{Certificates: []tls.Certificate{cert}, NextProtos: []string{"c41"}}
	cliTLS := &tls.Config{InsecureSkipVerify: true, NextProtos: []string{"c41"}}
	ln, err := tr.ListenEarly(srvTLS, overlay.VerifQuicConfig())
	if err != nil {
		return nil, err
	}
	addr := pc.LocalAddr().String()
	t := overlay.NewQUIC(overlay.TransportConfig{
		Logger: zap.NewNop(), QuicTransport: tr, Endpoint: &protocol.Node{Address: addr},
		ClientTLS: cliTLS, VirtualTransport: true,
	})
	ctx, cancel := context.WithCancel(context.Background())
	go t.AcceptWithListener(ctx, ln)
	return &livePeer{pc: pc, tr: tr, ln: ln, t: t, addr: addr, stop: cancel}, nil
}

func (p *livePeer) close() {
	p.stop()
	p.ln.Close()
	p.tr.Close()
	p.pc.Close()
}

func errKind(err error) string {
	if err == nil {
		return "ok"
	}
	var ae *quic.ApplicationError
	if errors.As(err, &ae) {
		return fmt.Sprintf("app%d", uint64(ae.ErrorCode))
	}
	s := err.Error()
	switch {
	case strings.Contains(s, "invalid state"):
		return "reuse-error"
	case strings.Contains(s, "timeout"), strings.Contains(s, "deadline"):
		return "timeout"
	}
	return "other"
}

// one trial: two fresh transports dial each other at the same moment.
func liveTrial(cert tls.Certificate) (string, string) {
	p, err := newLivePeer(cert)
	if err != nil {
		return "setup", err.Error()
	}
	defer p.close()
	q, err := newLivePeer(cert)
	if err != nil {
		return "setup", err.Error()
	}
	defer q.close()
	ctx, cancel := context.WithTimeout(context.Background(), 20*time.Second)
	defer cancel()
	var wg sync.WaitGroup
	start := make(chan struct{})
	res := make([]string, 2)
	dial := func(i int, from, to *livePeer) {
		defer wg.Done()
		<-start
		c, err := from.t.DialStream(ctx, &protocol.Node{Address: to.addr, Id: 1}, protocol.Stream_RPC)
		res[i] = errKind(err)
		if err == nil {
			// use the stream: a reused-but-closed connection shows up here at the latest
			c.SetDeadline(time.Now().Add(2 * time.Second))
			if _, werr := c.Write([]byte("ping")); werr != nil {
				res[i] = "write-" + errKind(werr)
			}
			time.Sleep(50 * time.Millisecond)
			if _, werr := c.Write([]byte("ping")); werr != nil {
				res[i] = "write-" + errKind(werr)
			}
		}
	}
	wg.Add(2)
	go dial(0, p, q)
	go dial(1, q, p)
	close(start)
	wg.Wait()
	describe := func(x *livePeer) (string, string) {
		cs := x.t.VerifCached()
		if len(cs) == 0 {
			return "-", ""
		}
		c := cs[0]
		id := []string{c.Local, c.Remote}
		sort.Strings(id)
		st := "open"
		if c.Closed {
			st = fmt.Sprintf("closed%d", c.CloseCode)
		}
		return st, strings.Join(id, "~")
	}
	ps, pid := describe(p)
	qs, qid := describe(q)
	same := "n/a"
	if pid != "" && qid != "" {
		same = "same"
		if pid != qid {
			same = "different"
		}
	}
	detail := fmt.Sprintf("dialP=%s;dialQ=%s;cacheP=%s;cacheQ=%s;conn=%s", res[0], res[1], ps, qs, same)
	switch {
	case res[0] == "ok" && res[1] == "ok" && same == "same" && ps == "open" && qs == "open":
		return "converged", detail
	case same == "different" || strings.HasPrefix(res[0], "write-") || strings.HasPrefix(res[1], "write-") || strings.HasPrefix(res[0], "app") || strings.HasPrefix(res[1], "app"):
		return "cross", detail
	}
	return "other", detail
}

// live: simultaneous dials between two real overlay.QUIC transports over loopback UDP.
func live(r *hlib.Run, n int) {
	cert := selfSigned()
	for i := 0; i < n; i++ {
		kind, detail := liveTrial(cert)
		r.Raw("# case live")
		rhs := "ok:" + kind + ";" + detail
		if kind == "cross" {
			rhs = "cross:simultaneous-open-left-the-peers-with-closed-or-different-connections;" + detail
		}
		r.Emit(fmt.Sprintf("live %d", i), rhs)
		r.Case("")
		r.Count("live:" + kind)
	}
}

// ---------- relive: connect, the connection dies, reconnect the other way round, late second reap ----------

// the same value at both ends of one connection, different for different connections
func connID(c *quic.Conn) string {
	if c == nil {
		return ""
	}
	st := c.ConnectionState().TLS
	b, err := st.ExportKeyingMaterial("verif c41 connection identity", nil, 16)
	if err != nil {
		return ""
	}
	return fmt.Sprintf("%x", b)
}

func eventually(d time.Duration, cond func() bool) bool {
	deadline := time.Now().Add(d)
	for {
		if cond() {
			return true
		}
		if time.Now().After(deadline) {
			return false
		}
		time.Sleep(10 * time.Millisecond)
	}
}

// one trial. A dials B (both cache c1); c1 dies and both sides reap it; B dials A (both cache c2); then reapPeer
// runs a SECOND time for c1 at A — what the periodic reaper() does with a dead candidate that it collected just before
// the connection-close goroutine reaped it. Reported: the two caches once things have settled, and a further dial.
func reliveTrial(cert tls.Certificate) (string, string) {
	a, err := newLivePeer(cert)
	if err != nil {
		return "setup", "peer"
	}
	defer a.close()
	bp, err := newLivePeer(cert)
	if err != nil {
		return "setup", "peer"
	}
	defer bp.close()
	nodeOf := func(x *livePeer) *protocol.Node { return &protocol.Node{Address: x.addr, Id: 1} }
	ids := map[*quic.Conn]string{}
	cached := func(x, other *livePeer) *quic.Conn {
		c := x.t.VerifCachedQuic(nodeOf(other))
		if c != nil && ids[c] == "" {
			ids[c] = connID(c)
		}
		return c
	}
	live := func(c *quic.Conn) bool { return c != nil && c.Context().Err() == nil }
	dial := func(from, to *livePeer) string {
		ctx, cancel := context.WithTimeout(context.Background(), 10*time.Second)
		defer cancel()
		c, err := from.t.DialStream(ctx, nodeOf(to), protocol.Stream_RPC)
		if err == nil {
			c.Close()
		}
		return errKind(err)
	}
	shared := func() bool {
		ca, cb := cached(a, bp), cached(bp, a)
		return live(ca) && live(cb) && ids[ca] != "" && ids[ca] == ids[cb]
	}
	// 1. A dials B: both cache c1
	if k := dial(a, bp); k != "ok" {
		return "setup", "dial1-" + k
	}
	if !eventually(5*time.Second, shared) {
		return "setup", "c1-not-shared"
	}
	c1A := cached(a, bp)
	// 2. c1 dies (B's end goes away): both sides notice and reap it
	cached(bp, a).CloseWithError(0, "verif: connection lost")
	if !eventually(10*time.Second, func() bool { return cached(a, bp) == nil && cached(bp, a) == nil }) {
		return "setup", "c1-not-reaped"
	}
	// 3. B dials A: both cache the replacement c2
	if k := dial(bp, a); k != "ok" {
		return "setup", "dial2-" + k
	}
	if !eventually(5*time.Second, shared) || cached(a, bp) == c1A {
		return "setup", "c2-not-shared"
	}
	// 4. the late, second reap of the long dead c1 at A
	a.t.VerifReapPeer(c1A, nodeOf(bp))
	// 5. let the consequences happen (the other side's close-watcher), then look at the caches
	agreed := func() bool {
		ca, cb := cached(a, bp), cached(bp, a)
		if !live(ca) && !live(cb) {
			return ca == nil && cb == nil
		}
		return shared()
	}
	settled := eventually(3*time.Second, agreed)
	describe := func(c *quic.Conn) string {
		switch {
		case c == nil:
			return "-"
		case live(c):
			return "open"
		}
		return "closed"
	}
	ca, cb := cached(a, bp), cached(bp, a)
	same := "n/a"
	if ca != nil && cb != nil {
		same = "no"
		if ids[ca] != "" && ids[ca] == ids[cb] {
			same = "yes"
		}
	}
	detail := fmt.Sprintf("cacheA=%s;cacheB=%s;same=%s;redial=%s", describe(ca), describe(cb), same, dial(a, bp))
	if settled {
		return "converged", detail
	}
	return "diverged", detail
}

// relive: reap -> redial -> late reap between two real overlay.QUIC transports over loopback UDP.
func relive(r *hlib.Run, n int) {
	cert := selfSigned()
	for i := 0; i < n; i++ {
		kind, detail := reliveTrial(cert)
		r.Raw("# case relive")
		rhs := "late-reap:" + kind + ";" + detail
		if kind == "setup" {
			rhs = "setup:" + detail
		}
		r.Emit(fmt.Sprintf("relive %d", i), rhs)
		r.Case("")
		r.Count("relive:" + kind)
	}
}

// ---------- redial: a further dial between two peers that share a cached connection ----------

// one trial. Both transports run their real accept loop. The side that dials e (P when eByP, else Q) calls DialStream:
// both cache e. Then P dials a further connection c to Q's listener - what getCachedConnection does after a cache miss
// (its cache check raced with the cache being populated, or a second caller dialed at the same time) - and runs the
// real handleOutgoing on it; Q's accept loop runs the real handleIncoming on the other end. The harness does nothing
// else: no connection is killed, no reap is injected. It waits until the connection that lost the negotiation is closed
// and until everything has settled (closes reached the other end, close-watchers reaped what they watch), then
// reports, in the vocabulary of the win lines, the two caches, what P's end returned and which connections are closed
// (lower case: application error 508 / 406, upper case: any other way). Pc=cut: P's end never decided - Q's end decided
// first and closed c (508) before P's end had read Q's report, so handleOutgoing failed with that application error.
func redialTrial(cert tls.Certificate, eByP bool) (string, string) {
	ctx, cancel := context.WithTimeout(context.Background(), 30*time.Second)
	defer cancel()
	p, err := newLivePeer(cert)
	if err != nil {
		return "", "peer"
	}
	defer p.close()
	q, err := newLivePeer(cert)
	if err != nil {
		return "", "peer"
	}
	defer q.close()
	nodeOf := func(x *livePeer) *protocol.Node { return &protocol.Node{Address: x.addr, Id: 1} }
	cachedP := func() *quic.Conn { return p.t.VerifCachedQuic(nodeOf(q)) }
	cachedQ := func() *quic.Conn { return q.t.VerifCachedQuic(nodeOf(p)) }
	live := func(c *quic.Conn) bool { return c != nil && c.Context().Err() == nil }

	from, to := p, q
	if !eByP {
		from, to = q, p
	}
	dctx, dcancel := context.WithTimeout(ctx, 10*time.Second)
	st, err := from.t.DialStream(dctx, nodeOf(to), protocol.Stream_RPC)
	dcancel()
	if err != nil {
		return "", "dial-e-" + errKind(err)
	}
	st.Close()
	if !eventually(5*time.Second, func() bool { return live(cachedP()) && live(cachedQ()) }) {
		return "", "e-not-shared"
	}
	eP, eQ := cachedP(), cachedQ()
	if connID(eP) == "" || connID(eP) != connID(eQ) {
		return "", "e-not-shared"
	}

	// the further dial, as in getCachedConnection after the cache check
	addr, err := net.ResolveUDPAddr("udp", q.addr)
	if err != nil {
		return "", "resolve"
	}
	cfg := &tls.Config{InsecureSkipVerify: true, NextProtos: []string{"c41"}, ServerName: "127.0.0.1"}
	cctx, ccancel := context.WithTimeout(ctx, 10*time.Second)
	cP, err := p.tr.DialEarly(cctx, addr, cfg, overlay.VerifQuicConfig())
	if err != nil {
		ccancel()
		return "", "dial-c-" + errKind(err)
	}
	got, herr := p.t.VerifHandleOutgoing(cctx, cP)
	ccancel()
	defer cP.CloseWithError(0, "verif: trial over")

	// the connection that lost the negotiation is closed by it; then let the consequences happen
	eventually(5*time.Second, func() bool { return cP.Context().Err() != nil })
	settled := func() bool {
		if live(eP) != live(eQ) {
			return false
		}
		for _, c := range []*quic.Conn{cachedP(), cachedQ()} {
			if c != nil && !live(c) {
				return false
			}
		}
		return true
	}
	time.Sleep(400 * time.Millisecond)
	ok := eventually(5*time.Second, settled)
	time.Sleep(250 * time.Millisecond)
	if !ok || !eventually(2*time.Second, settled) {
		return "", "unsettled"
	}

	idC := connID(cP)
	name := func(c *quic.Conn) string {
		switch {
		case c == nil:
			return "-"
		case c == eP || c == eQ:
			return "e"
		case c == cP || (idC != "" && connID(c) == idC):
			return "c"
		}
		return "?"
	}
	entryOf := func(x *livePeer, c *quic.Conn) string {
		if c == nil {
			return "-"
		}
		d := "?"
		for _, v := range x.t.VerifCached() {
			switch v.Direction {
			case "Incoming":
				d = "in"
			case "Outgoing":
				d = "out"
			}
		}
		return name(c) + ":" + d
	}
	res := "fresh"
	switch {
	case herr != nil && errKind(herr) == "app508":
		// the other end decided first and closed c (508) before this end had read its cache-status report: the
		// negotiation stream was cut, this end never decided (a failed dial, outside the model)
		res = "cut"
	case herr != nil:
		res = "err"
	case got != cP:
		res = "reused:" + name(got)
	}
	closed := ""
	for _, pair := range []struct {
		a, b *quic.Conn
		n    string
	}{{eP, eQ, "e"}, {cP, nil, "c"}} {
		ka, kb := closeKind(pair.a), closeKind(pair.b)
		switch {
		case ka == "neg" || kb == "neg":
			closed += pair.n
		case ka != "" || kb != "":
			closed += strings.ToUpper(pair.n)
		}
	}
	if closed == "" {
		closed = "-"
	}
	return fmt.Sprintf("P=%s;Q=%s;closed=%s;Pc=%s", entryOf(p, cachedP()), entryOf(q, cachedQ()), closed, res), ""
}

func redialOne(r *hlib.Run, eByP bool) {
	cert := selfSigned()
	rhs, setup := redialTrial(cert, eByP)
	// one more attempt on a loaded machine; and prefer a trial in which P's end got to decide
	for i := 0; i < 3 && (setup != "" || strings.HasSuffix(rhs, "Pc=cut")); i++ {
		if setup == "" {
			r.Count("redial:negotiation-stream-cut")
		}
		rhs, setup = redialTrial(cert, eByP)
	}
	pre := "e:in e:out"
	if eByP {
		pre = "e:out e:in"
	}
	r.Raw("# case redial")
	if setup != "" {
		rhs = "setup:" + setup
		r.Count("redial:setup-failed")
	} else {
		r.Count("redial:executed")
		if strings.Contains(rhs, "Pc=reused:e") {
			r.Count("redial:cached-connection-reused")
		}
	}
	r.Emit("redial "+pre, rhs)
	r.Case("redial " + pre)
}

// redial: n rounds of both directions of the shared connection
func redial(r *hlib.Run, n int) {
	for i := 0; i < n; i++ {
		redialOne(r, i%2 == 0)
	}
}
