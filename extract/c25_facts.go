package main

// c25-facts: facts about the client-facing RPC surface of tun/server, printed as a Lean module.
//   usage: extract c25-facts <tunnel.twirp.go> <keyless.twirp.go> <client_rpc.go>
// Facts: the method sets of the TunnelService / KeylessService interfaces (generated twirp code), the
// allow-list of (*Server).verifyClientIdentity (string literals of the `switch method` cases whose body does
// not authenticate), whether the default branch authenticates (calls extractAuthenticated and
// getClientByToken), and the services that attachRPC constructs with `RequestRouted: s.verifyClientIdentity`.

import (
	"fmt"
	"go/ast"
	"go/parser"
	"go/token"
	"os"
	"strconv"
	"strings"
)

func init() { factCmds["c25-facts"] = runC25Facts }

func c25fail(format string, a ...any) {
	fmt.Fprintf(os.Stderr, "c25-facts: "+format+"\n", a...)
	os.Exit(3)
}

func c25parse(path string) *ast.File {
	f, err := parser.ParseFile(token.NewFileSet(), path, nil, 0)
	if err != nil {
		c25fail("%v", err)
	}
	return f
}

func ifaceMethods(f *ast.File, name string) []string {
	var out []string
	found := false
	ast.Inspect(f, func(n ast.Node) bool {
		ts, ok := n.(*ast.TypeSpec)
		if !ok || ts.Name.Name != name {
			return true
		}
		it, ok := ts.Type.(*ast.InterfaceType)
		if !ok {
			return true
		}
		found = true
		for _, m := range it.Methods.List {
			for _, id := range m.Names {
				out = append(out, id.Name)
			}
		}
		return false
	})
	if !found {
		c25fail("interface %s not found", name)
	}
	return out
}

func callsTo(n ast.Node, names ...string) map[string]bool {
	res := map[string]bool{}
	ast.Inspect(n, func(x ast.Node) bool {
		c, ok := x.(*ast.CallExpr)
		if !ok {
			return true
		}
		var fn string
		switch f := c.Fun.(type) {
		case *ast.Ident:
			fn = f.Name
		case *ast.SelectorExpr:
			fn = f.Sel.Name
		}
		for _, w := range names {
			if fn == w {
				res[w] = true
			}
		}
		return true
	})
	return res
}

func leanList(xs []string) string {
	q := make([]string, len(xs))
	for i, x := range xs {
		q[i] = strconv.Quote(x)
	}
	return "[" + strings.Join(q, ", ") + "]"
}

func runC25Facts(args []string) {
	if len(args) != 3 {
		c25fail("want 3 files")
	}
	tunnel := ifaceMethods(c25parse(args[0]), "TunnelService")
	keyless := ifaceMethods(c25parse(args[1]), "KeylessService")
	rpc := c25parse(args[2])

	var allow []string
	defaultGuarded, delegationFirst, sawSwitch := false, false, false
	var hooked []string
	for _, d := range rpc.Decls {
		fd, ok := d.(*ast.FuncDecl)
		if !ok || fd.Body == nil {
			continue
		}
		switch fd.Name.Name {
		case "verifyClientIdentity":
			// the delegation nil-check must precede the switch
			for _, st := range fd.Body.List {
				if is, ok := st.(*ast.IfStmt); ok && !sawSwitch {
					if be, ok := is.Cond.(*ast.BinaryExpr); ok && be.Op == token.EQL {
						if x, ok := be.X.(*ast.Ident); ok && x.Name == "delegation" {
							if len(is.Body.List) == 1 {
								if r, ok := is.Body.List[0].(*ast.ReturnStmt); ok && len(r.Results) == 2 {
									if id, ok := r.Results[0].(*ast.Ident); ok && id.Name == "nil" {
										delegationFirst = true
									}
								}
							}
						}
					}
				}
				sw, ok := st.(*ast.SwitchStmt)
				if !ok {
					continue
				}
				if id, ok := sw.Tag.(*ast.Ident); !ok || id.Name != "method" {
					continue
				}
				sawSwitch = true
				for _, cc := range sw.Body.List {
					clause := cc.(*ast.CaseClause)
					auth := callsTo(clause, "extractAuthenticated", "getClientByToken")
					if clause.List == nil {
						defaultGuarded = auth["extractAuthenticated"] && auth["getClientByToken"]
						continue
					}
					if auth["extractAuthenticated"] && auth["getClientByToken"] {
						continue // an explicitly listed but authenticated case
					}
					for _, e := range clause.List {
						lit, ok := e.(*ast.BasicLit)
						if !ok || lit.Kind != token.STRING {
							c25fail("non-literal case in the method switch")
						}
						s, _ := strconv.Unquote(lit.Value)
						allow = append(allow, s)
					}
				}
			}
		case "attachRPC":
			ast.Inspect(fd.Body, func(n ast.Node) bool {
				c, ok := n.(*ast.CallExpr)
				if !ok {
					return true
				}
				sel, ok := c.Fun.(*ast.SelectorExpr)
				if !ok || !strings.HasPrefix(sel.Sel.Name, "New") || !strings.HasSuffix(sel.Sel.Name, "Server") {
					return true
				}
				svc := strings.TrimSuffix(strings.TrimPrefix(sel.Sel.Name, "New"), "Server")
				ok2 := false
				ast.Inspect(c, func(m ast.Node) bool {
					kv, ok := m.(*ast.KeyValueExpr)
					if !ok {
						return true
					}
					k, ok := kv.Key.(*ast.Ident)
					if !ok || k.Name != "RequestRouted" {
						return true
					}
					if v, ok := kv.Value.(*ast.SelectorExpr); ok && v.Sel.Name == "verifyClientIdentity" {
						ok2 = true
					}
					return true
				})
				if ok2 {
					hooked = append(hooked, svc)
				} else {
					hooked = append(hooked, "UNHOOKED:"+svc)
				}
				return true
			})
		}
	}
	if !sawSwitch {
		c25fail("switch on method not found in verifyClientIdentity")
	}
	b := func(x bool) string {
		if x {
			return "true"
		}
		return "false"
	}
	fmt.Println("/- GENERATED by extract/c25-facts from spec/protocol/{tunnel,keyless}.twirp.go and tun/server/client_rpc.go — do not edit -/")
	fmt.Println("namespace Gen.C25")
	fmt.Println()
	fmt.Println("def tunnelMethods : List String := " + leanList(tunnel))
	fmt.Println()
	fmt.Println("def keylessMethods : List String := " + leanList(keyless))
	fmt.Println()
	fmt.Println("/-- cases of `switch method` in verifyClientIdentity that pass without authentication -/")
	fmt.Println("def allowList : List String := " + leanList(allow))
	fmt.Println()
	fmt.Println("/-- the default branch calls extractAuthenticated and getClientByToken -/")
	fmt.Println("def defaultGuarded : Bool := " + b(defaultGuarded))
	fmt.Println()
	fmt.Println("/-- `if delegation == nil { return nil, … }` precedes the switch -/")
	fmt.Println("def delegationCheckedFirst : Bool := " + b(delegationFirst))
	fmt.Println()
	fmt.Println("/-- twirp servers built in attachRPC with `RequestRouted: s.verifyClientIdentity` -/")
	fmt.Println("def hookedServices : List String := " + leanList(hooked))
	fmt.Println()
	fmt.Println("end Gen.C25")
}
