import SpecterModel.Util
import SpecterModel.C15.Model
/-! C15 line-protocol driver.
`retry <method> <attempts> <cancelAt|-> <script> => calls=<n> res=<ok<v>|err@<i>|ctx> args=<ok|bad>`
script: `o<v>` success with value v, `R<k>` retryable error kind k, `N<k>` non-retryable error kind k,
joined by `,` (`-` empty). Calls past the end of the script get a non-retryable "exhausted" error
whose index is the script length. `cancelAt = c`: the context is cancelled once c calls were made. -/
namespace Specter.C15
open Specter.Util

structure Err where
  idx : Nat
  retry : Bool
deriving DecidableEq, Repr

def parseEntry (idx : Nat) (s : String) : Option (Res Err) :=
  match s.toList with
  | 'o' :: rest => (String.ofList rest).toNat?.map .ok
  | 'R' :: rest => (String.ofList rest).toNat?.map fun _ => .err ⟨idx, true⟩
  | 'N' :: rest => (String.ofList rest).toNat?.map fun _ => .err ⟨idx, false⟩
  | _ => none

def parseScript (s : String) : Option (List (Res Err)) :=
  if s = "-" then some [] else
  let rec go (i : Nat) : List String → Option (List (Res Err))
    | [] => some []
    | t :: ts => match parseEntry i t, go (i + 1) ts with
      | some e, some r => some (e :: r)
      | _, _ => none
  go 0 (s.splitOn ",")

def stream (script : List (Res Err)) (i : Nat) : Res Err :=
  match script[i]? with
  | some r => r
  | none => .err ⟨script.length, false⟩      -- the harness' "script exhausted" error

def showOut : Out Err → String
  | .ok v => s!"ok{v}"
  | .err e => s!"err@{e.idx}"
  | .ctx => "ctx"

def render (c : Nat) (o : Out Err) : String := s!"calls={c} res={showOut o} args=ok"

def step (_ : Unit) (toks : List String) (rhs : String) : Unit × Verdict :=
  match toks with
  | ["retry", _method, attempts, cancel, script] =>
    match attempts.toNat?, parseScript script with
    | some attempts, some script =>
      let cancelAt : Option Nat := if cancel = "-" then none else cancel.toNat?
      if cancel ≠ "-" ∧ cancelAt.isNone then ((), .bad "cancel") else
      let rs := stream script
      let done : Nat → Bool := match cancelAt with
        | none => fun _ => false
        | some c => fun k => decide (c ≤ k)
      -- spec oracle: inside the property's quantifier (attempts ≥ 1).  Context alive: exactly the
      -- statement's call count and result.  Context ending at `cancelAt`: the statement's result, or
      -- the context's cause only when the context had ended before a further attempt was due
      -- (`specAllowed`; the model is in it by `retryDo_allowed`) — a result obtained from the final
      -- attempt may not be replaced by the context's error.
      let allowed := (specAllowed Err.retry attempts rs done).map fun p => render p.1 p.2
      if attempts ≥ 1 ∧ !allowed.contains rhs then
        ((), .spec ("want " ++ " or ".intercalate allowed ++
          (if cancelAt.isSome then " (first success or last error is what the caller gets)" else "")))
      else
        match retryDo Err.retry attempts rs done (script.length + 2) with
        | some (c, o) => if rhs ≠ render c o then ((), .diff (render c o)) else ((), .ok)
        | none => ((), .diff "model-does-not-terminate")
    | _, _ => ((), .bad "args")
  | _ => ((), .bad "unknown op")

def main : IO Unit := runLoop () step

end Specter.C15
