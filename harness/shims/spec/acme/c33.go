//go:build verif

package acme

// VerifRemoveSpace exposes the unexported whitespace filter to the C33 correspondence harness.
func VerifRemoveSpace(s string) string { return removeSpace(s) }
