import SpecterModel.C37.Drv

def main : IO Unit := Specter.C37.main
