#!/usr/bin/env python3
import json, sys
props = {json.loads(l)["id"]: json.loads(l) for l in open("/verif/properties.jsonl")}
p = props[sys.argv[1]]
rnd = sys.argv[2] if len(sys.argv) > 2 else "1"
base = "/tmp/seed" if rnd == "1" else "/tmp/seed%s" % rnd
prior = ""
if rnd != "1":
    import os
    ms = []
    for r in range(1, int(rnd)):
        f = "/verif/seeded/%s-%d/meta.json" % (p["id"], r)
        if os.path.exists(f):
            m = json.load(open(f))
            ms.append("- files %s: %s" % (m.get("touched_files"), (m.get("agent_meta", {}).get("summary") or "")[:220]))
    if ms:
        prior = ("\nAn earlier engineer already produced the following change(s) for this property. Yours must be DIFFERENT in kind: "
                 "another function or mechanism, another failure mode (do not just move the same idea elsewhere):\n" + "\n".join(ms) + "\n")
print(f"""You are a careful adversarial engineer. You have your own scratch git worktree of a Go repository at {base}/{p['id']}
(module go.miragespace.co/specter: a reverse-tunnel overlay network whose nodes form a Chord DHT with KV stores; Go toolchain installed;
the sandbox is OFFLINE: always `export GOFLAGS=-mod=mod GOPROXY=off` and leave GOTOOLCHAIN/GOSUMDB unset). Work ONLY inside that
directory. Do not read or use anything under /verif, and do not touch /repo.

Here is a semantic property the code is supposed to satisfy:

  {p['id']} — {p['title']}
  Statement: {p['statement']}
  Quantifier: {', '.join(p['quantifier']['over'])} — {p['quantifier']['text']}
  Code anchors: files {p['anchors']['files']}; mechanisms {[m.get('name','') for m in p['anchors']['mechanism']]}

{prior}
Your task: write ONE small change to the NON-TEST source code that BREAKS this property, such that
  (a) the repository still compiles (`go build ./...` for the touched packages; note package tun/client does not build in this snapshot
      unless a build overlay supplies the missing embedded UI file: `mkdir -p .ov && echo '<html></html>' > .ov/index.html && echo '{{"Replace": {{"'$PWD'/tun/client/ui/build/index.html": "'$PWD'/.ov/index.html"}}}}' > .ov/overlay.json`, then pass `-overlay $PWD/.ov/overlay.json` to go build / go test),
  (b) the EXISTING tests of the touched packages still pass, unedited (`go test -vet=off -count=1 ./<pkg>/...`), and
  (c) the breakage needs something SPECIFIC to manifest — a particular interleaving, a crash or fault at a particular point, a multi-step
      sequence of operations, an unusual/boundary input, or two cooperating sites that each look fine alone — NOT something ordinary use
      or a casual test would expose at once. Prefer a realistic bug (an off-by-one at a boundary, a missed case, a wrong comparison, a
      dropped step on an error path, a stale-state reuse) over vandalism.
Also write a DEMONSTRATION: a Go test file (new file, e.g. zz_seed_demo_test.go in the relevant package; internal tests may access
unexported identifiers) or a small program that FAILS with your change applied and PASSES on the original code. Verify both directions yourself
(save your change with `git diff > {base}/<id>.mine.diff`, revert with `git checkout -- <files>`, re-apply with `git apply`; do NOT use `git stash`: the stash is shared between worktrees).

Deliver, inside your worktree, a directory .seed/ containing:
  patch.diff   — `git diff` of your change to non-test files only (must apply with `git apply` to a clean checkout of the same commit)
  demo/        — the demonstration file(s) (copy of the test file or program) plus a file RUN.txt with the exact command to run it
  meta.json    — {{"property": "{p['id']}", "summary": "...what the change does...", "needs": "...what specific condition makes it manifest...",
                  "touched_files": [...], "existing_tests_run": "...command and result...", "demo_result_with_change": "...", "demo_result_without_change": "..."}}
Leave the worktree with the change REVERTED (clean `git status` apart from .seed/ and your demo file is fine either way).
Final answer: a 5-line summary (what, needs, files, test results).""")
