import SpecterModel.C01.Sim
import SpecterModel.C08.Props
import SpecterModel.C08.LocksProps
/-! C08 driver: a join request must be answered with success, a retryable refusal, the duplicate-id
refusal or a routing (lookup/transport) error — never a panic, a crash, a hang or another error.
(LocksProps is imported so that the lock-order obligation is part of every build of the driver.) -/
namespace Specter.C08
open Specter.Util Specter.Ring

def allowedRefusals : List String :=
  ([Err.joinInvalidState, .joinInvalidSuccessor, .joinTransferFailure, .leaveInvalidState, .leaveTransferFailure,
    .kvStale].filter (·.retryable)).map (fun e => "err:" ++ e.name) ++
  ["err:ErrDuplicateJoinerID"] ++
  ([Err.notStarted, .gone, .noSuccessor, .unreachable].filter isLookupError).map (fun e => "err:" ++ e.name)

def lookupErrNames : List String :=
  ([Err.notStarted, .gone, .noSuccessor, .unreachable].filter isLookupError).map (fun e => "err:" ++ e.name)

/-- what the model answers to the same request on the same (validated) net -/
def modelAnswer (net : Net) (toks : List String) : Option String :=
  (simOp net toks).map (·.2)

def spec (net _net' : Net) (toks : List String) (ires : String) : Option String :=
  match toks with
  | "reqjoin" :: _ | "reqjoinrace" :: _ =>
    if ires.startsWith "ok:" || (allowedRefusals.contains ires && !lookupErrNames.contains ires) then none
    else if lookupErrNames.contains ires then
      -- a non-retryable lookup error is admitted only when the request really could not be routed to a node
      -- responsible for the joiner (dead / departed / not started node on the route): the model's routing over
      -- the same pointers must fail with the same error
      if modelAnswer net toks == some ires then none
      else some s!"join request answered with the non-retryable {ires} although it reached a node that could refuse it retryably (model: {(modelAnswer net toks).getD "?"})"
    else some s!"join request answered with {ires}"
  | _ => none

/-- `reqjoinstab <b> <j> => <answer>`: a join request sent to the sole survivor `b` of a ring while b's own
stabilize round stores the collapsed successor list inside the request's key transfer (two real goroutines, forced
interleaving). No model comparison (the model is sequential; the net is left as it was and the case ends here):
the line is judged by the property's oracle alone — the request is at b, which is alive, Active and responsible
for the joiner, so the answer has to be the hand-off or a retryable refusal; `timeout` (never answered: the node
is wedged), `crash` or any other error violate C08. -/
def survivorVerdict (ires : String) : Verdict :=
  if ires.startsWith "ok:" || (allowedRefusals.contains ires && !lookupErrNames.contains ires) then .ok
  else if ires == "timeout" then
    .spec "join request sent to the sole survivor of a ring was never answered (its stabilize stored the collapsed successor list inside the key transfer: the node is wedged)"
  else .spec s!"join request sent to the sole survivor of a ring while its stabilize stores the collapsed successor list answered with {ires}"

def step (net : Net) (toks : List String) (rhs : String) : Net × Verdict :=
  match toks with
  | "reqjoinstab" :: _ => (net, survivorVerdict (splitRhs rhs).1)
  | ["reqjoinfault", s, j] =>
    -- a join request whose key hand-off fails (the joiner's Import is made to fail): the answer must be a
    -- retryable refusal that changes nothing (judged by the oracle; the fault is not part of the model); when the
    -- hand-off range was empty no Import happened and the line is an ordinary request
    let (ires, d) := splitRhs rhs
    if ires.startsWith "ok:" then ringStep spec net ["reqjoin", s, j] rhs
    else match spec net net ["reqjoin", s, j] ires with
      | some why => (net, .spec (why ++ " (key hand-off to the joiner failing)"))
      | none =>
        if ires != "err:ErrJoinTransferFailure" && !(lookupErrNames.contains ires) && ires != "err:ErrDuplicateJoinerID"
            && ires != "err:ErrJoinInvalidState" && ires != "err:ErrJoinInvalidSuccessor" then
          (net, .spec s!"join request whose hand-off failed answered with {ires}")
        else if d == dump net then (net, .ok)
        else (net, .spec "a refused join request (failed hand-off) changed the state of a node")
  | _ => ringStep spec net toks rhs

def main : IO Unit := runLoop ([] : Net) step

end Specter.C08
