import SpecterModel.Util
import SpecterModel.C48.Model
/-! C48 line-protocol driver: model = `serve` over the configuration / stored challenges of the case;
SPEC = `specOk` (label-boundary classification of the query name, from the property statement). -/
namespace Specter.C48
open Specter.Util

structure DState where
  cfg : Cfg := ⟨[], []⟩
  store : List (Name × List Bytes) := []     -- label ↦ set of values (as the prefix keyspace of the KV)
  fail : Bool := false

def hexName (s : String) : Option Name := (hexToBytes s).map (·.map Char.ofNat)
def nameHex (p : Name) : String := bytesToHex (p.map Char.toNat)

def parseRec (s : String) : Option (Name × Nat × String) :=
  match s.splitOn ":" with
  | [o, t, i] => match hexName o, t.toNat? with
    | some o, some t => some (o, t, "S" ++ i)
    | _, _ => none
  | _ => none

def storeFn (d : DState) : Name → Option (List Bytes) :=
  fun l => if d.fail then none else some ((d.store.lookup l).getD [])

def renderAns : Ans → String
  | .static r => r
  | .txt o v => "T" ++ nameHex o ++ ":" ++ bytesToHex v

def renderResp (r : Resp) : String :=
  let ans := (r.answers.map renderAns).mergeSort (fun a b => decide (a ≤ b))
  s!"rc={r.rcode} aa={boolStr r.auth} ans={if ans.isEmpty then "-" else ",".intercalate ans} soa={if r.soa then "1" else "0"} opt={if r.opt then "1" else "0"}"

def parseAns (s : String) : Option Ans :=
  if s.startsWith "T" then
    match ((s.drop 1).toString).splitOn ":" with
    | [o, v] => match hexName o, hexToBytes v with
      | some o, some v => some (.txt o v)
      | _, _ => none
    | _ => none
  else if s.startsWith "S" then some (.static s) else none

def kvOf (s : String) : String := ((s.splitOn "=").getD 1 "")

def parseResp (rhs : String) : Option Resp :=
  match rhs.splitOn " " with
  | [rc, aa, ans, soa, opt] =>
    let ansS := kvOf ans
    let as : Option (List Ans) := if ansS = "-" then some [] else (ansS.splitOn ",").mapM parseAns
    match (kvOf rc).toNat?, parseBool (kvOf aa), as with
    | some rc, some aa, some as =>
      if kvOf soa = "x" then none
      else some { rcode := rc, auth := aa, answers := as, soa := kvOf soa = "1", opt := kvOf opt = "1" }
    | _, _, _ => none
  | _ => none

def step (d : DState) (toks : List String) (rhs : String) : DState × Verdict :=
  match toks with
  | ["reset"] => ({}, .ok)
  | ["cfg", z, recs] =>
    match hexName z, (if recs = "-" then some [] else (recs.splitOn ";").mapM parseRec) with
    | some z, some rs => ({ cfg := ⟨z, rs⟩ }, .ok)
    | _, _ => (d, .bad "cfg args")
  | ["put", l, v] =>
    match hexName l, hexToBytes v with
    | some l, some v =>
      let cur := (d.store.lookup l).getD []
      if cur.contains v then (d, if rhs = "conflict" then .ok else .diff "conflict")
      else ({ d with store := (l, cur ++ [v]) :: d.store.filter (·.1 != l) }, if rhs = "ok" then .ok else .diff "ok")
    | _, _ => (d, .bad "put args")
  | ["del", l, v] =>
    match hexName l, hexToBytes v with
    | some l, some v =>
      let cur := (d.store.lookup l).getD []
      ({ d with store := (l, cur.filter (· != v)) :: d.store.filter (·.1 != l) }, if rhs = "ok" then .ok else .diff "ok")
    | _, _ => (d, .bad "del args")
  | ["fail", b] =>
    match parseBool b with
    | some b => ({ d with fail := b }, .ok)
    | none => (d, .bad "fail args")
  | ["q", n, qt, e, op, _tag] =>
    match hexName n, qt.toNat?, op.toNat? with
    | some n, some qt, some op =>
      let edns : Option Nat := if e = "-" then none else e.toNat?
      let m := serve d.cfg (storeFn d) n qt edns (op == 0)
      -- SPEC only for plain queries (the statement's quantifier): opcode QUERY, no EDNS
      let sp : Option String :=
        if op == 0 ∧ edns.isNone then
          match parseResp rhs with
          | some r => specOk d.cfg (storeFn d) n qt r
          | none => some s!"no well-formed response ({rhs})"
        else none
      match sp with
      | some w => (d, .spec w)
      | none => if renderResp m = rhs then (d, .ok) else (d, .diff (renderResp m))
    | _, _, _ => (d, .bad "q args")
  | _ => (d, .bad "unknown op")

def main : IO Unit := runLoop ({} : DState) step

end Specter.C48
