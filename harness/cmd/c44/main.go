// C44 tie: a real tunnel Client (real Config / router / proxy cache / handleIncomingDelegation /
// getHTTPProxy / RebuildTunnels / doReload / UnpublishTunnel) is driven through configuration
// changes; every "incoming" is a real HTTP exchange through the delegation pipe to local backends,
// so the observation is the backend that was actually reached, the Host header it saw and the
// proxy's header timeout. Two kinds of cases:
//   seq — operations strictly one after the other (the proved sequential theorem's quantifier)
//   win — a connection is injected at the mechanical yield point between closeOutdatedProxies and
//         buildRouter of the real RebuildTunnels (zap hook on "Shutting down proxy").
//   rej — the operator's edit (retarget / drop / add hostnames) first arrives in a file that
//         validation rejects (typo in a scheme, unknown header mode, …) or that cannot be read at
//         all, then in a corrected file; connections before, in between and after.
// Every state line also carries the tunnel list the client itself holds (Configuration.Tunnels).
package main

import (
	"bufio"
	"fmt"
	"io"
	"net"
	"net/http"
	"net/http/httptest"
	"os"
	"path/filepath"
	"sort"
	"strconv"
	"strings"
	"time"

	"go.miragespace.co/specter/tun/client"
	"verif/harness/hlib"
)

type tun struct {
	host, target string // target = backend name b0.. / s0..
	insecure     bool
	timeout      int
	hdrHost      string
	hdrMode      string
}

func (t tun) tok() string {
	return fmt.Sprintf("%s;%s;%s;%d;%s;%s", t.host, t.target, b01(t.insecure), t.timeout, t.hdrHost, t.hdrMode)
}
func b01(b bool) string {
	if b {
		return "1"
	}
	return "0"
}
func toks(ts []tun) string {
	xs := make([]string, len(ts))
	for i, t := range ts {
		xs[i] = t.tok()
	}
	return list(xs)
}
func list(xs []string) string {
	if len(xs) == 0 {
		return "_"
	}
	return strings.Join(xs, ",")
}
func sortedList(xs []string) string {
	ys := append([]string{}, xs...)
	sort.Strings(ys)
	return list(ys)
}
func parseTuns(s string) []tun {
	if s == "_" {
		return nil
	}
	var ts []tun
	for _, it := range strings.Split(s, ",") {
		f := strings.Split(it, ";")
		to, _ := strconv.Atoi(f[3])
		ts = append(ts, tun{f[0], f[1], f[2] == "1", to, f[4], f[5]})
	}
	return ts
}

// symbolic targets that Config.validate rejects
var badTarget = map[string]string{
	"!scheme": "htp://127.0.0.1:1", // typo in the scheme
	"!parse":  "http://[::1",       // url.Parse fails
	"!empty":  "",                  // no target at all
	"!ftp":    "ftp://127.0.0.1:21",
}

// accepted mirrors, for the generator's bookkeeping only (which list the NEXT edit starts from),
// whether a reload of ts is expected to be applied; the verdict on the client's behaviour is the model's.
func accepted(ts []tun) bool {
	for _, t := range ts {
		if strings.HasPrefix(t.target, "!") {
			return false
		}
		switch t.hdrMode {
		case "", "target", "hostname":
		case "custom":
			if t.hdrHost == "" {
				return false
			}
		default:
			return false
		}
	}
	return true
}

var (
	backendURL  = map[string]string{} // name -> URL
	backendHost = map[string]string{} // 127.0.0.1:port -> name
	workdir     string
	caseNo      int
)

func startBackends() {
	mk := func(name string, tls bool) {
		h := http.HandlerFunc(func(w http.ResponseWriter, r *http.Request) {
			w.Header().Set("Connection", "close")
			fmt.Fprintf(w, "id=%s;host=%s", name, r.Host)
		})
		var s *httptest.Server
		if tls {
			s = httptest.NewTLSServer(h)
		} else {
			s = httptest.NewServer(h)
		}
		s.Config.ErrorLog = nil
		backendURL[name] = s.URL
		backendHost[strings.TrimPrefix(strings.TrimPrefix(s.URL, "https://"), "http://")] = name
	}
	for _, n := range []string{"b0", "b1", "b2"} {
		mk(n, false)
	}
	for _, n := range []string{"s0", "s1"} {
		mk(n, true)
	}
}

func real(ts []tun) []client.Tunnel {
	out := make([]client.Tunnel, len(ts))
	for i, t := range ts {
		target, ok := backendURL[t.target]
		if !ok {
			target = badTarget[t.target]
		}
		out[i] = client.Tunnel{Target: target, Hostname: t.host, Insecure: t.insecure,
			ProxyHeaderTimeout: time.Duration(t.timeout) * time.Second, ProxyHeaderHost: t.hdrHost, ProxyHeaderMode: t.hdrMode}
	}
	return out
}

func symTarget(u string) string {
	for n, x := range backendURL {
		if x == u {
			return n
		}
	}
	for n, x := range badTarget {
		if x == u {
			return n
		}
	}
	return "?" + u
}

func dump(v *client.VerifC44) string {
	r := v.Router()
	var ks []string
	for k := range r {
		ks = append(ks, k)
	}
	sort.Strings(ks)
	var rs []string
	for _, k := range ks {
		e := r[k]
		d, _ := time.ParseDuration(e[2])
		rs = append(rs, fmt.Sprintf("%s=%s;%s;%d;%s;%s", k, symTarget(e[0]), e[1], int(d/time.Second), e[3], e[4]))
	}
	p := v.Proxies()
	ks = ks[:0]
	for k := range p {
		ks = append(ks, k)
	}
	sort.Strings(ks)
	var ps []string
	for _, k := range ks {
		ps = append(ps, fmt.Sprintf("%s:%d", k, int(p[k]/time.Second)))
	}
	var cs []string
	for _, t := range v.Tunnels() {
		cs = append(cs, tun{t.Hostname, symTarget(t.Target), t.Insecure, int(t.ProxyHeaderTimeout / time.Second),
			t.ProxyHeaderHost, t.ProxyHeaderMode}.tok())
	}
	return list(rs) + " " + list(ps) + " " + list(cs)
}

var errPanic = fmt.Errorf("panic in handleIncomingDelegation")

// incoming performs one real connection for hostname h; returns the observation.
func incoming(v *client.VerifC44, h string, mayBlock bool) (obs string, late func() string) {
	c1, c2 := net.Pipe()
	errc := make(chan error, 1)
	go func() {
		// a panic inside the code under test is an observation, not a harness crash
		defer func() {
			if p := recover(); p != nil {
				errc <- errPanic
			}
		}()
		errc <- v.Incoming(h, c2)
	}()
	exchange := func() string {
		defer c1.Close()
		c1.SetDeadline(time.Now().Add(10 * time.Second))
		if _, err := io.WriteString(c1, "GET /probe HTTP/1.1\r\nHost: public.example\r\nConnection: close\r\n\r\n"); err != nil {
			return "noresponse"
		}
		resp, err := http.ReadResponse(bufio.NewReader(c1), nil)
		if err != nil {
			return "noresponse"
		}
		body, _ := io.ReadAll(resp.Body)
		resp.Body.Close()
		r := int(v.Proxies()[h] / time.Second)
		if resp.StatusCode == http.StatusBadGateway {
			return fmt.Sprintf("bad;R=%d", r)
		}
		var id, host string
		for _, kv := range strings.Split(string(body), ";") {
			if strings.HasPrefix(kv, "id=") {
				id = kv[3:]
			}
			if strings.HasPrefix(kv, "host=") {
				host = kv[5:]
			}
		}
		if n, ok := backendHost[host]; ok {
			host = "@" + n
		}
		return fmt.Sprintf("T=%s;H=%s;R=%d", id, host, r)
	}
	finish := func(err error) string {
		if err == errPanic {
			c1.Close()
			return "panic"
		}
		if err != nil {
			c1.Close()
			return "nf"
		}
		return exchange()
	}
	if mayBlock {
		select {
		case err := <-errc:
			return finish(err), nil
		case <-time.After(400 * time.Millisecond):
			return "blocked", func() string { return finish(<-errc) }
		}
	}
	return finish(<-errc), nil
}

type caseRun struct {
	dir  string
	r    *hlib.Run
	v    *client.VerifC44
	cur  []tun
	kind string
	dead bool // the client panicked while serving a connection: the rest of the case is skipped
}

func (c *caseRun) emit(lhs, obs string) {
	rhs := dump(c.v)
	if obs != "" {
		rhs = obs + " " + rhs
	}
	c.r.Emit(lhs, rhs)
}

func newCase(r *hlib.Run, kind string, ts []tun) *caseRun {
	caseNo++
	dir := filepath.Join(workdir, "c"+strconv.Itoa(caseNo))
	os.MkdirAll(dir, 0o755)
	v, err := client.VerifC44New(filepath.Join(dir, "client.yaml"), real(ts), "root.test")
	if err != nil {
		panic(err)
	}
	c := &caseRun{dir: dir, r: r, v: v, cur: ts, kind: kind}
	r.Raw("reset")
	c.emit("init "+toks(ts), "")
	return c
}

func (c *caseRun) close() { c.v.Shutdown(); os.RemoveAll(c.dir) }

func (c *caseRun) rebuild(ts []tun) {
	if c.dead {
		return
	}
	c.v.Rebuild(real(ts))
	c.cur = ts
	c.emit("rebuild "+toks(ts), "")
	c.r.Count("op:rebuild")
}
func (c *caseRun) reload(ts []tun) {
	if c.dead {
		return
	}
	if err := c.v.Reload(real(ts)); err != nil {
		panic(err)
	}
	if accepted(ts) {
		c.cur = ts
		c.r.Count("op:reload")
	} else {
		c.r.Count("op:reload-rejected")
	}
	c.emit("reload "+toks(ts), "")
}

// reloadx: the config file is gone / is not YAML when the reload is requested
func (c *caseRun) reloadx(kind string) {
	if c.dead {
		return
	}
	switch kind {
	case "missing":
		os.Remove(c.v.Path())
	default:
		kind = "garbage"
		os.WriteFile(c.v.Path(), []byte("version: 2\ntunnels: [ {target: \"http://127.0.0.1:1\", hostname: h1\n\t- oops"), 0o644)
	}
	c.v.ReloadFile()
	c.emit("reloadx "+kind, "")
	c.r.Count("op:reload-unreadable")
}
func (c *caseRun) unpublish(h string) {
	if c.dead {
		return
	}
	c.v.Unpublish(h)
	for i, t := range c.cur {
		if t.host == h {
			c.cur = append(append([]tun{}, c.cur[:i]...), c.cur[i+1:]...)
			break
		}
	}
	c.emit("unpublish "+h, "")
	c.r.Count("op:unpublish")
}
func (c *caseRun) incoming(h string) {
	if h == "" || c.dead { // "" is not a hostname (a tunnel whose hostname request failed): never probed
		return
	}
	obs, _ := incoming(c.v, h, false)
	c.dead = obs == "panic"
	c.emit("incoming "+h+" "+c.kind, obs)
	c.r.Count("op:incoming")
	c.r.Count("obs:" + strings.SplitN(strings.SplitN(obs, ";", 2)[0], "=", 2)[0])
	c.r.Case(c.kind + strconv.Itoa(caseNo) + ":" + h + ":" + toks(c.cur))
}

// window runs RebuildTunnels(ts) with the connections `during` injected at the yield point.
func (c *caseRun) window(ts []tun, during []string) {
	if c.dead {
		return
	}
	if !c.v.BeginRebuild(real(ts)) {
		// nothing to close: the rebuild ran to completion
		c.cur = ts
		c.emit("rebuild "+toks(ts), "")
		return
	}
	c.emit("wbegin "+toks(ts), "")
	var late []func() string
	var lateH []string
	for _, h := range during {
		obs, l := incoming(c.v, h, true)
		c.emit("incoming "+h+" "+c.kind, obs)
		c.r.Count("op:incoming-in-window")
		if l != nil {
			late, lateH = append(late, l), append(lateH, h)
		}
	}
	c.v.EndRebuild()
	c.cur = ts
	// connections that waited for the change are resolved as soon as the lock is released: collect
	// their observations first, then report the state (the wend line names them)
	obs := make([]string, len(late))
	for i, l := range late {
		obs[i] = l()
	}
	c.emit("wend "+list(lateH), "")
	for i := range late {
		c.emit("incoming "+lateH[i]+" "+c.kind, obs[i])
	}
	c.r.Count("op:window")
}

func main() {
	r := hlib.Start()
	r.Rule = "case = client on a random configuration + a sequence of RebuildTunnels / reload / UnpublishTunnel / incoming HTTP connections (real exchange with local backends); seq cases: operations strictly sequential; win cases: connections injected between closeOutdatedProxies and buildRouter of the real RebuildTunnels; evaluation = one incoming connection; rej cases: the edit arrives first in a config file that validation rejects (bad scheme / unparsable / empty target, unknown header mode, custom mode without header host; on a new or an existing tunnel, at any position) or that is missing / undecodable, then corrected by reload or rebuild, connections before / in between / after; non-trivial = distinct (configuration, hostname) probed; new lists differ from the old in exactly one of: target, insecure, header timeout, header host, header mode, removal, addition, duplicate hostname, order"
	rng := hlib.NewRng(r.Seed)
	wd, _ := os.Getwd()
	workdir = filepath.Join(wd, "c44work")
	os.MkdirAll(workdir, 0o755)
	defer os.RemoveAll(workdir)
	startBackends()

	if r.Replay != "" {
		var c *caseRun
		var pendingWin []tun
		var during []string
		inWin := false
		flush := func() {
			if inWin {
				c.window(pendingWin, during)
				inWin, during = false, nil
			}
		}
		for _, t := range r.ReplayLines() {
			switch t[0] {
			case "reset":
				if c != nil {
					flush()
					c.close()
				}
				c = nil
			case "init":
				c = newCase(r, "seq", parseTuns(t[1]))
			case "rebuild":
				c.rebuild(parseTuns(t[1]))
			case "reload":
				c.reload(parseTuns(t[1]))
			case "reloadx":
				c.reloadx(t[1])
			case "unpublish":
				c.unpublish(t[1])
			case "wbegin":
				pendingWin, inWin, during = parseTuns(t[1]), true, nil
			case "wend":
				flush()
			case "incoming":
				c.kind = t[2]
				if inWin {
					during = append(during, t[1])
				} else {
					c.incoming(t[1])
				}
			case "diff":
				r.Emit("diff "+t[1]+" "+t[2], sortedList(client.VerifC44Diff(real(parseTuns(t[1])), real(parseTuns(t[2])))))
			}
		}
		if c != nil {
			flush()
			c.close()
		}
		r.Finish()
		return
	}

	hosts := []string{"h1", "h2", "h3", "x.custom.dev"}
	plain := []string{"b0", "b1", "b2"}
	randTun := func(h string) tun {
		t := tun{host: h, target: hlib.Pick(rng, plain)}
		switch rng.Intn(8) {
		case 0:
			t.target, t.insecure = hlib.Pick(rng, []string{"s0", "s1"}), rng.Chance(70)
		case 1:
			t.timeout = hlib.Pick(rng, []int{5, 20})
		case 2:
			t.hdrHost = "hdr." + h
		case 3:
			t.hdrMode, t.hdrHost = "custom", "custom."+h
		case 4:
			t.hdrMode = hlib.Pick(rng, []string{"hostname", "target"})
		}
		return t
	}
	randList := func() []tun {
		var ts []tun
		for _, h := range hosts {
			if rng.Chance(65) {
				ts = append(ts, randTun(h))
			}
		}
		if rng.Chance(6) {
			ts = append(ts, tun{host: "", target: "b2"}) // a tunnel whose hostname request failed
		}
		return ts
	}
	// mutate changes exactly one aspect; returns the new list and the hostname concerned
	mutate := func(ts []tun) ([]tun, string, string) {
		n := append([]tun{}, ts...)
		if len(n) == 0 {
			h := hlib.Pick(rng, hosts)
			return append(n, randTun(h)), h, "add"
		}
		i := rng.Intn(len(n))
		h := n[i].host
		switch rng.Intn(10) {
		case 0:
			old := n[i].target
			for n[i].target == old {
				n[i].target = hlib.Pick(rng, plain)
			}
			n[i].insecure = false
			return n, h, "target"
		case 1:
			if strings.HasPrefix(n[i].target, "s") {
				n[i].insecure = !n[i].insecure
			} else {
				n[i].target, n[i].insecure = "s0", true
			}
			return n, h, "insecure"
		case 2:
			n[i].timeout = map[int]int{0: 5, 5: 20, 20: 0}[n[i].timeout]
			return n, h, "timeout"
		case 3:
			n[i].hdrHost = "hh" + strconv.Itoa(rng.Intn(100)) + "." + h
			return n, h, "headerHost"
		case 4:
			old := n[i].hdrMode
			for n[i].hdrMode == old {
				n[i].hdrMode = hlib.Pick(rng, []string{"", "hostname", "target", "custom"})
			}
			if n[i].hdrMode == "custom" && n[i].hdrHost == "" {
				n[i].hdrHost = "custom." + h
			}
			return n, h, "headerMode"
		case 5:
			return append(n[:i:i], n[i+1:]...), h, "remove"
		case 6:
			h2 := hlib.Pick(rng, hosts)
			return append(n, randTun(h2)), h2, "add-or-duplicate"
		case 7:
			for j := len(n) - 1; j > 0; j-- {
				k := rng.Intn(j + 1)
				n[j], n[k] = n[k], n[j]
			}
			return n, h, "reorder"
		case 8:
			return randList(), h, "replace-all"
		}
		return n, h, "same"
	}

	// breakList makes a list that validation rejects out of a valid one: one tunnel (a new one, or an
	// existing one, at any position) gets an unusable target or header mode
	breakList := func(ts []tun) ([]tun, string) {
		n := append([]tun{}, ts...)
		bad := hlib.Pick(rng, []string{"!scheme", "!scheme", "!parse", "!empty", "!ftp"})
		switch k := rng.Intn(6); {
		case k <= 1 || len(n) == 0: // a new tunnel with a typo, somewhere in the list
			t := tun{host: hlib.Pick(rng, []string{"typo.dev", "h4", "h1"}), target: bad}
			i := rng.Intn(len(n) + 1)
			n = append(n[:i:i], append([]tun{t}, n[i:]...)...)
			return n, "new-bad-target"
		case k == 2:
			n[rng.Intn(len(n))].target = bad
			return n, "bad-target"
		case k == 3:
			n[rng.Intn(len(n))].hdrMode = hlib.Pick(rng, []string{"bogus", "Hostname", "host"})
			return n, "bad-mode"
		case k == 4:
			i := rng.Intn(len(n))
			n[i].hdrMode, n[i].hdrHost = "custom", ""
			return n, "custom-without-host"
		default:
			t := tun{host: "typo.dev", target: hlib.Pick(rng, plain), hdrMode: "custom"}
			return append(n, t), "new-custom-without-host"
		}
	}
	// rejCase: every hostname has a cached proxy; the operator's edit arrives first in a rejected
	// file (connections meanwhile), then corrected — by reload, by a rebuild, or after a second
	// rejected attempt; afterwards every hostname is probed
	rejCase := func() {
		ts := randList()
		for _, h := range hosts {
			if len(ts) >= 2 {
				break
			}
			have := false
			for _, t := range ts {
				have = have || t.host == h
			}
			if !have {
				ts = append(ts, randTun(h))
			}
		}
		c := newCase(r, "rej", ts)
		defer c.close()
		c.rebuild(c.cur)
		for _, t := range c.cur {
			c.incoming(t.host)
		}
		good := c.cur
		var concerned []string
		for k, m := 0, 1+rng.Intn(3); k < m; k++ {
			var h, what string
			good, h, what = mutate(good)
			concerned = append(concerned, h)
			r.Count("change:" + what)
		}
		if rng.Chance(12) {
			c.reloadx(hlib.Pick(rng, []string{"missing", "garbage"}))
		}
		bad, why := breakList(good)
		r.Count("rejected:" + why)
		c.reload(bad)
		if rng.Chance(50) {
			c.incoming(hlib.Pick(rng, concerned))
		}
		switch x := rng.Intn(10); {
		case x < 5:
			c.reload(good)
			r.Count("corrected:reload")
		case x < 7:
			c.rebuild(good)
			r.Count("corrected:rebuild")
		case x < 9:
			bad2, why2 := breakList(good)
			r.Count("rejected:" + why2)
			c.reload(bad2)
			c.reload(good)
			r.Count("corrected:second-attempt")
		default:
			r.Count("corrected:never")
		}
		for _, h := range hosts {
			c.incoming(h)
		}
		r.Count("case:rej")
	}

	seqCase := func() {
		c := newCase(r, "seq", randList())
		defer c.close()
		c.rebuild(c.cur) // the initial SyncConfigTunnels
		steps := 6 + rng.Intn(10)
		for i := 0; i < steps; i++ {
			switch x := rng.Intn(100); {
			case x < 50:
				c.incoming(hlib.Pick(rng, hosts))
			case x < 75:
				n, h, what := mutate(c.cur)
				c.rebuild(n)
				r.Count("change:" + what)
				c.incoming(h)
			case x < 86:
				n, h, what := mutate(c.cur)
				c.reload(n)
				r.Count("change:" + what)
				c.incoming(h)
			case x < 91:
				n, h, what := mutate(c.cur)
				bad, why := breakList(n)
				c.reload(bad)
				r.Count("change:" + what)
				r.Count("rejected:" + why)
				c.incoming(h)
			case x < 92:
				c.reloadx(hlib.Pick(rng, []string{"missing", "garbage"}))
				c.incoming(hlib.Pick(rng, hosts))
			default:
				h := hlib.Pick(rng, hosts)
				c.unpublish(h)
				c.incoming(h)
			}
		}
	}
	winCase := func() {
		ts := randList()
		if len(ts) == 0 {
			ts = []tun{randTun("h1")}
		}
		c := newCase(r, "win", ts)
		defer c.close()
		c.rebuild(c.cur)
		h := c.cur[rng.Intn(len(c.cur))].host
		c.incoming(h) // a proxy for h is cached
		// change (or remove) exactly h's tunnel(s): the only cached proxy in the diff is h's
		var n []tun
		removed := rng.Chance(30)
		for _, t := range c.cur {
			if t.host != h {
				n = append(n, t)
				continue
			}
			if removed {
				continue
			}
			t2 := t
			old := t2.target
			for t2.target == old {
				t2.target = hlib.Pick(rng, plain)
			}
			t2.insecure = false
			n = append(n, t2)
		}
		during := []string{h}
		if rng.Chance(30) {
			during = append(during, hlib.Pick(rng, hosts))
		}
		c.window(n, during)
		c.incoming(h)
		if removed { // configure it again, elsewhere
			t := randTun(h)
			c.rebuild(append(append([]tun{}, c.cur...), t))
			c.incoming(h)
		}
		r.Count("case:win")
	}
	diffLine := func() {
		a, b := randList(), randList()
		if rng.Chance(50) {
			b, _, _ = mutate(a)
		}
		if rng.Chance(20) {
			a = append(a, tun{host: "", target: "b0"})
		}
		r.Emit("diff "+toks(a)+" "+toks(b), sortedList(client.VerifC44Diff(real(a), real(b))))
		r.Count("op:diff")
	}

	nSeq, nWin, nRej, nDiff := 60, 6, 25, 2000
	if r.Thorough() {
		nSeq, nWin, nRej, nDiff = 1200, 60, 500, 60000
	}
	for i := 0; i < nDiff; i++ {
		diffLine()
	}
	for i := 0; i < nSeq; i++ {
		seqCase()
		r.Count("case:seq")
	}
	for i := 0; i < nRej; i++ {
		rejCase()
	}
	for i := 0; i < nWin; i++ {
		winCase()
	}
	r.Finish()
}
