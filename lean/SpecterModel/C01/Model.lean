import SpecterModel.C11.Spec
/-!
# Executable model of the Chord node (`/repo/chord/local_*.go`), shared by C01–C10.

One `Net` = all nodes of an in-process ring. Every definition mirrors the Go function of the
same name, including its error results. Cross-node calls are function calls on the `Net`
(the harness runs real `LocalNode`s in one process, serially, so each public call below is
one atomic step). Core Lean only.
-/
namespace Specter.Ring

def M : Nat := 2^48

/-- `spec/chord.Between` on naturals (tied to the Go source by C11). -/
def between (low target high : Nat) (incl : Bool) : Bool :=
  if high > low then (decide (low < target) && decide (target < high)) || (incl && target == high)
  else decide (low < target) || decide (target < high) || (incl && target == high)

def moduloSum (x y : Nat) : Nat := (x % M + y % M) % M

inductive St where
  | inactive | joining | active | transferring | leaving | left
deriving DecidableEq, Repr, Inhabited

def St.name : St → String
  | .inactive => "Inactive" | .joining => "Joining" | .active => "Active"
  | .transferring => "Transferring" | .leaving => "Leaving" | .left => "Left"

/-- errors of spec/chord/errors.go that the ring operations can return (+ modelling outcomes) -/
inductive Err where
  | notStarted | gone | noSuccessor | duplicateJoiner
  | joinInvalidState | joinInvalidSuccessor | joinTransferFailure
  | leaveInvalidState | leaveTransferFailure
  | kvStale | kvPrefixConflict
  | notInactive            -- Join/Create on a node that is not Inactive
  | nilPredecessor         -- executeLeave: "retrying on nil predecessor"
  | unreachable            -- transport failure (crashed node)
  | unstable               -- ListKeys: "ring is unstable"
  | fuel                   -- model fuel exhausted (divergence)
  | panic                  -- nil dereference in the Go code
deriving DecidableEq, Repr, Inhabited

def Err.name : Err → String
  | .notStarted => "ErrNodeNotStarted" | .gone => "ErrNodeGone" | .noSuccessor => "ErrNodeNoSuccessor"
  | .duplicateJoiner => "ErrDuplicateJoinerID" | .joinInvalidState => "ErrJoinInvalidState"
  | .joinInvalidSuccessor => "ErrJoinInvalidSuccessor" | .joinTransferFailure => "ErrJoinTransferFailure"
  | .leaveInvalidState => "ErrLeaveInvalidState" | .leaveTransferFailure => "ErrLeaveTransferFailure"
  | .kvStale => "ErrKVStaleOwnership" | .kvPrefixConflict => "ErrKVPrefixConflict"
  | .notInactive => "NotInactive" | .nilPredecessor => "NilPredecessor" | .unreachable => "Unreachable"
  | .unstable => "RingUnstable" | .fuel => "FUEL" | .panic => "PANIC"

/-- retryability as declared in spec/chord/errors.go (checked against the generated registry in C14) -/
def Err.retryable : Err → Bool
  | .joinInvalidState | .joinInvalidSuccessor | .joinTransferFailure
  | .leaveInvalidState | .leaveTransferFailure | .kvStale => true
  | _ => false

/-- one key of the local store (memory back-end semantics; values are opaque tokens) -/
structure KEntry where
  key      : String
  hash     : Nat
  simple   : Option String          -- none = nil
  children : List String            -- kept sorted, no duplicates
deriving DecidableEq, Repr, Inhabited

def KEntry.isDeleted (e : KEntry) : Bool := e.simple.isNone && e.children.isEmpty

structure Node where
  state     : St := .inactive
  pred      : Option Nat := none
  succs     : List Nat := []
  surrogate : Option Nat := none
  fingers   : List (Option Nat) := List.replicate 48 none     -- index k-1 holds finger k
  store     : List KEntry := []
  crashed   : Bool := false          -- harness-level fault: every RPC to this node fails
  joinLocals : Option (Nat × Option Nat) := none   -- `Join`'s local variables (predecessor, successors[0]) while it is in flight
deriving Repr, Inhabited

abbrev Net := List (Nat × Node)

def Net.get (net : Net) (n : Nat) : Option Node := (net.find? (·.1 == n)).map (·.2)

def Net.set (net : Net) (n : Nat) (nd : Node) : Net :=
  if net.any (·.1 == n) then net.map (fun p => if p.1 == n then (n, nd) else p) else net ++ [(n, nd)]

def Net.upd (net : Net) (n : Nat) (f : Node → Node) : Net :=
  net.map (fun p => if p.1 == n then (n, f p.2) else p)

/-- `checkNodeState(leavingIsError)`; a crashed node is unreachable -/
def checkNodeState (nd : Node) (leavingIsError : Bool) : Option Err :=
  if nd.crashed then some .unreachable else
  match nd.state with
  | .inactive => some .notStarted
  | .leaving => if leavingIsError then some .gone else none
  | .left => some .gone
  | _ => none

/-- `MakeSuccListByID` (C12 proves its properties) -/
def makeSuccList (immediate : Nat) (cands : List Nat) (maxLen : Nat) : List Nat :=
  let rec go (acc : List Nat) : List Nat → List Nat
    | [] => acc
    | c :: cs => if acc.length ≥ maxLen then acc else if acc.contains c then go acc cs else go (acc ++ [c]) cs
  go [immediate] cands

/-- `closestPrecedingNode`: scan fingers k = 48 … 1, first non-nil finger in (n, key); else self -/
def closestPreceding (self key : Nat) (fingers : List (Option Nat)) : Nat :=
  match (fingers.reverse.filterMap id).find? (fun f => between self f key false) with
  | some f => f
  | none => self

inductive Res where
  | found (id : Nat)
  | err (e : Err)
deriving DecidableEq, Repr, Inhabited

/-- the predecessor-range test of `FindSuccessor`: `pre != nil && Between(pre, key, n, true)` -/
def inPredRange (pred : Option Nat) (key n : Nat) : Bool :=
  match pred with
  | some p => between p key n true
  | none => false

/-- next hop: the closest preceding finger, or the successor when no finger precedes the key
    (the C09 repair: never forward to self) -/
def hop (n key s : Nat) (fingers : List (Option Nat)) : Nat :=
  if closestPreceding n key fingers == n then s else closestPreceding n key fingers

/-- `FindSuccessor` -/
def findSucc (net : Net) : Nat → Nat → Nat → Res
  | 0, _, _ => .err .fuel
  | fuel+1, n, key =>
    match net.get n with
    | none => .err .unreachable
    | some nd =>
      match checkNodeState nd false with
      | some e => .err e
      | none =>
        if inPredRange nd.pred key n then .found n
        else match nd.succs.head? with
          | none => .err .noSuccessor
          | some s =>
            if between n key s true then .found s
            else findSucc net fuel (hop n key s nd.fingers) key

def FUEL : Nat := 256

/-- `Ping` -/
def ping (net : Net) (n : Nat) : Bool :=
  match net.get n with
  | none => false
  | some nd => (checkNodeState nd true).isNone

/-- `Notify(predecessor)` executed at node `n` -/
def notify (net : Net) (n p : Nat) : Net :=
  match net.get n with
  | none => net
  | some nd =>
    if (checkNodeState nd false).isSome then net else
    let cand : Option Nat :=
      match nd.pred with
      | none => some p
      | some old =>
        if old == p then none
        else if ping net old then (if between old p n false then some p else none)
        else some p
    match cand with
    | none => net
    | some c => net.upd n (fun nd => { nd with surrogate := if c == n then none else some c, pred := some c })

/-- GetPredecessor / GetSuccessors of a remote head, both under `checkNodeState(false)` -/
def getPredSuccs (net : Net) (h : Nat) : Option (Option Nat × List Nat) :=
  match net.get h with
  | none => none
  | some nd => if (checkNodeState nd false).isSome then none else some (nd.pred, nd.succs)

def succEntries : Nat := 4

/-- the successor-list repair loop of `stabilize` -/
def stabilizeList (net : Net) (n : Nat) : List Nat → Option (List Nat)
  | [] => none
  | head :: rest =>
    match getPredSuccs net head with
    | some (newSucc, newList) =>
      let l := makeSuccList head newList succEntries
      match newSucc with
      | some ns =>
        if between n ns head false then
          match getPredSuccs net ns with
          | some (_, l2) => some (makeSuccList ns l2 succEntries)
          | none => some l
        else some l
      | none => some l
    | none => stabilizeList net n rest

/-- a list that reaches the node itself has closed the cycle: what follows is cut (C02 repair) -/
def cutAfterSelf (n : Nat) : List Nat → List Nat
  | [] => []
  | x :: xs => if x == n then [x] else x :: cutAfterSelf n xs

def stabilize (net : Net) (n : Nat) : Net :=
  match net.get n with
  | none => net
  | some nd =>
    match (stabilizeList net n nd.succs).map (cutAfterSelf n) with
    | none => net
    | some l =>
      let net := net.upd n (fun nd => { nd with succs := l })
      match l.head? with
      | some s => if (checkNodeState nd true).isNone then notify net s n else net
      | none => net

def fixK (net : Net) (n k : Nat) : Net :=
  match findSucc net FUEL n (moduloSum n (2^(k-1))) with
  | .found f => net.upd n (fun nd => { nd with fingers := nd.fingers.set (k-1) (some f) })
  | .err _ => net

def fixFinger (net : Net) (n : Nat) : Net :=
  (List.range 48).foldl (fun net i => fixK net n (i+1)) net

def checkPredecessor (net : Net) (n : Nat) : Net :=
  match net.get n with
  | none => net
  | some nd =>
    match nd.pred with
    | none => net
    | some p => if p == n then net else if ping net p then net else net.upd n (fun nd => { nd with pred := none })

/-! ### local KV store (memory back-end semantics) -/

def kvFind (st : List KEntry) (k : String) : Option KEntry := st.find? (·.key == k)

def kvUpsert (st : List KEntry) (k : String) (h : Nat) (f : KEntry → KEntry) : List KEntry :=
  if st.any (·.key == k) then st.map (fun e => if e.key == k then f e else e)
  else st ++ [f { key := k, hash := h, simple := none, children := [] }]

def insertSorted (c : String) : List String → List String
  | [] => [c]
  | x :: xs => if c < x then c :: x :: xs else if c == x then x :: xs else x :: insertSorted c xs

/-- `RangeKeys(low, high)`: keys holding data whose hash is in (low, high] -/
def rangeKeys (st : List KEntry) (low high : Nat) : List KEntry :=
  st.filter (fun e => between low e.hash high true && !e.isDeleted)

/-- `Import`: overwrite the simple value, add the children -/
def importEntries (st : List KEntry) (es : List KEntry) : List KEntry :=
  es.foldl (fun st e => kvUpsert st e.key e.hash
    (fun old => { old with simple := e.simple, children := e.children.foldl (fun cs c => insertSorted c cs) old.children })) st

def removeKeys (st : List KEntry) (es : List KEntry) : List KEntry :=
  st.filter (fun e => !(es.any (·.key == e.key)))

/-- LocalNode.Import at node `n` (state gate) -/
def importAt (net : Net) (n : Nat) (es : List KEntry) : Option Net :=
  match net.get n with
  | none => none
  | some nd =>
    if nd.crashed then none else
    match nd.state with
    | .inactive | .leaving | .left => none
    | _ => some (net.upd n (fun nd => { nd with store := importEntries nd.store es }))

/-! ### membership -/

def create (net : Net) (n : Nat) : Net × Option Err :=
  match net.get n with
  | none => (net, some .unreachable)
  | some nd =>
    if nd.state != .inactive then (net, some .notInactive) else
    let net := net.upd n (fun nd => { nd with state := .joining, succs := [n], fingers := List.replicate 48 (some n) })
    -- startTasks: stabilize, fixFinger
    let net := fixFinger (stabilize net n) n
    (net.upd n (fun nd => { nd with state := .active }), none)

/-- `transferKeysUpward(prev, j)` at node `s`: RangeKeys(prev, j]; Export; Import@j; RemoveKeys -/
def transferUp (net : Net) (s j prev : Nat) (store : List KEntry) : Option Net :=
  let moved := rangeKeys store prev j
  if moved.isEmpty then some net
  else match importAt net j moved with
    | some net' => some (net'.upd s (fun nd => { nd with store := removeKeys nd.store moved }))
    | none => none

/-- the local part of `RequestToJoin` at the responsible node `s`: membership lock, range check,
    key hand-off, pointer update. Returns (prevPredecessor, successor list). -/
def handOff (net : Net) (s j : Nat) : Net × Except Err (Nat × List Nat) :=
  match net.get s with
  | none => (net, .error .unreachable)
  | some nd =>
    if nd.state != .active then (net, .error .joinInvalidState) else
    match nd.pred with
    | none => (net, .error .joinInvalidState)            -- repaired: was a nil dereference
    | some prev =>
      if !between prev j s false then (net, .error .joinInvalidSuccessor) else
      match transferUp net s j prev nd.store with
      | none => (net, .error .joinTransferFailure)
      | some net' =>
        (net'.upd s (fun nd => { nd with state := .transferring, pred := some j, surrogate := some j }),
         .ok (prev, makeSuccList s nd.succs succEntries))

/-- `RequestToJoin(joiner)` at node `s` (routing + hand-off). -/
def requestToJoin (net : Net) : Nat → Nat → Nat → Net × Except Err (Nat × List Nat)
  | 0, _, _ => (net, .error .fuel)
  | fuel+1, s, j =>
    match net.get s with
    | none => (net, .error .unreachable)
    | some nd0 =>
    if nd0.crashed then (net, .error .unreachable) else
    match findSucc net FUEL s j with
    | .err e => (net, .error e)
    | .found succ =>
      if succ == j then (net, .error .duplicateJoiner)
      else if succ != s then requestToJoin net fuel succ j
      else handOff net s j

/-- `RequestToJoin` interleaved with concurrent pointer maintenance `g` (e.g. another goroutine's
    `checkPredecessor`) that runs at the responsible node after routing decided "the joiner is mine" and
    before the membership lock is taken; the hand-off then reads the pointers under the lock. -/
def requestToJoinWith (g : Net → Net) (net : Net) : Nat → Nat → Nat → Net × Except Err (Nat × List Nat)
  | 0, _, _ => (net, .error .fuel)
  | fuel+1, s, j =>
    match net.get s with
    | none => (net, .error .unreachable)
    | some nd0 =>
    if nd0.crashed then (net, .error .unreachable) else
    match findSucc net FUEL s j with
    | .err e => (net, .error e)
    | .found succ =>
      if succ == j then (net, .error .duplicateJoiner)
      else if succ != s then requestToJoinWith g net fuel succ j
      else handOff (g net) s j

/-- `stabilize` whose final `Notify` to the successor is lost / not yet delivered -/
def stabilizeNoNotify (net : Net) (n : Nat) : Net :=
  match net.get n with
  | none => net
  | some nd =>
    match (stabilizeList net n nd.succs).map (cutAfterSelf n) with
    | none => net
    | some l => net.upd n (fun nd => { nd with succs := l })

/-- `FinishJoin/FinishLeave(stabilize, release)` at node `n` -/
def finish (net : Net) (n : Nat) (stab release : Bool) : Net :=
  match net.get n with
  | none => net
  | some nd0 =>
    if nd0.crashed then net else
    let net := if stab then fixFinger (stabilize net n) n else net
    if release then
      net.upd n (fun nd => if nd.state == .transferring then { nd with state := .active } else nd)
    else net

/-- first half of `Join(peer)`: Inactive→Joining, `RequestToJoin`, neighbour pointers assigned
    (the state in which the joiner's finger table is still empty) -/
def joinBegin (net : Net) (j peer : Nat) : Net × Option Err :=
  match net.get j with
  | none => (net, some .unreachable)
  | some nd =>
    if nd.state != .inactive then (net, some .notInactive) else
    let net := net.upd j (fun nd => { nd with state := .joining })
    match requestToJoin net FUEL peer j with
    | (net', .error e) => (net'.upd j (fun nd => { nd with state := .inactive }), some e)
    | (net', .ok (prev, succs)) =>
      (net'.upd j (fun nd => { nd with succs := succs, pred := some prev, joinLocals := some (prev, succs.head?) }), none)

/-- `Join` after the pointer assignment, step 1: startTasks (stabilize, fixFinger; the periodic
    predecessor check starts at once). Pending afterwards: the advisory to the predecessor. -/
def joinTasks (net : Net) (j : Nat) : Net :=
  checkPredecessor (fixFinger (stabilize net j) j) j

/-- `Join`'s local variables (predecessor, successors[0]); fall back to the pointers when not recorded -/
def joinLocalsOf (nd : Node) : Option Nat × Option Nat :=
  match nd.joinLocals with
  | some (p, s) => (some p, s)
  | none => (nd.pred, nd.succs.head?)

/-- step 2: advisory `FinishJoin(stabilize)` to the predecessor, then Joining→Active.
    Pending afterwards: the release of the successor's membership lock. -/
def joinAdvise (net : Net) (j : Nat) : Net :=
  match net.get j with
  | none => net
  | some nd =>
    let net' := match (joinLocalsOf nd).1 with
      | some prev => finish net prev true false
      | none => net
    net'.upd j (fun nd => { nd with state := .active })

/-- step 3: `FinishJoin(release)` to the successor -/
def joinRelease (net : Net) (j : Nat) : Net :=
  match net.get j with
  | none => net
  | some nd =>
    let net' := net.upd j (fun nd => { nd with joinLocals := none })
    match (joinLocalsOf nd).2 with
    | some s => finish net' s false true
    | none => net'

/-- second half of `Join`: tasks, advisory, activation, release — in the order of the code -/
def joinEnd (net : Net) (j : Nat) : Net := joinRelease (joinAdvise (joinTasks net j) j) j

/-- `Join(peer)` at node `j` (single attempt of executeJoin) -/
def join (net : Net) (j peer : Nat) : Net × Option Err :=
  match joinBegin net j peer with
  | (net', some e) => (net', some e)
  | (net', none) => (joinEnd net' j, none)

/-- `RequestToLeave` at the successor -/
def requestToLeave (net : Net) (s : Nat) : Net × Option Err :=
  match net.get s with
  | none => (net, some .unreachable)
  | some nd =>
    if nd.crashed then (net, some .unreachable)
    else if nd.state == .active then (net.upd s (fun nd => { nd with state := .transferring }), none)
    else (net, some .leaveInvalidState)

/-- the asymmetric lock acquisition of `executeLeave` (successor first iff `l > succ`) -/
def leaveLocks (net : Net) (l succ : Nat) : Net × Option Err :=
  if l > succ then
    match requestToLeave net succ with
    | (net', some e) => (net', some e)
    | (net', none) =>
      if ((net'.get l).map (·.state)) == some .active then (net'.upd l (fun nd => { nd with state := .leaving }), none)
      else (finish net' succ false true, some .leaveInvalidState)
  else
    if ((net.get l).map (·.state)) != some .active then (net, some .leaveInvalidState) else
    let net' := net.upd l (fun nd => { nd with state := .leaving })
    match requestToLeave net' succ with
    | (net'', some e) => (net''.upd l (fun nd => { nd with state := .active }), some e)
    | (net'', none) => (net'', none)

/-- `transferKeysDownward(succ)` at node `l`: RangeKeys(0,0) (everything); Export; Import@succ; RemoveKeys -/
def transferDown (net : Net) (l succ : Nat) (store : List KEntry) : Option Net :=
  let moved := rangeKeys store 0 0
  if moved.isEmpty then some net
  else match importAt net succ moved with
    | some n2 => some (n2.upd l (fun nd => { nd with store := removeKeys nd.store moved }))
    | none => none

/-- `executeLeave()` at node `l`: one attempt. `ok none` = only node of the ring (nothing to do). -/
def executeLeave (net : Net) (l : Nat) : Net × Except Err (Option (Nat × Nat)) :=
  match net.get l with
  | none => (net, .error .unreachable)
  | some nd =>
    match nd.pred with
    | none => (net, .error .nilPredecessor)
    | some pre =>
    match nd.succs.head? with
    | none => (net, .error .noSuccessor)
    | some succ =>
      if pre == l && succ == l then (net, .ok none) else
      match leaveLocks net l succ with
      | (net', some e) => (net', .error e)
      | (net', none) =>
        match transferDown net' l succ nd.store with
        | none =>
          let net' := net'.upd l (fun nd => { nd with state := .active })
          (finish net' succ false true, .error .leaveTransferFailure)
        | some net' => (net'.upd l (fun nd => { nd with surrogate := some l }), .ok (some (pre, succ)))

/-- `Leave()` at node `l` (single attempt of executeLeave, then advisories and lock release) -/
def leave (net : Net) (l : Nat) : Net × Option Err :=
  match net.get l with
  | none => (net, some .unreachable)
  | some nd =>
    match nd.state with
    | .inactive | .leaving | .left => (net, none)
    | _ =>
      match executeLeave net l with
      | (net', .error e) => (net', some e)
      | (net', .ok none) => (net'.upd l (fun nd => { nd with state := .left }), none)
      | (net', .ok (some (pre, succ))) =>
        let net' := if pre != l then finish net' pre true false else net'
        let net' := net'.upd l (fun nd => { nd with state := .left })
        let net' := if succ != l then finish net' succ false true else net'
        (net', none)

/-! ### routed KV operations (`kvMiddleware`) -/

inductive KvOp where
  | put (v : String) | get | delete
  | pAppend (c : String) | pRemove (c : String) | pContains (c : String) | pList
deriving Repr, Inhabited

inductive KvOut where
  | unit | value (v : Option String) | bool (b : Bool) | list (l : List String) | err (e : Err)
deriving DecidableEq, Repr, Inhabited

/-- apply one operation to the local store of the responsible node -/
def kvLocal (st : List KEntry) (k : String) (h : Nat) : KvOp → List KEntry × KvOut
  | .put v => (kvUpsert st k h (fun e => { e with simple := some v }), .unit)
  | .get => (kvUpsert st k h id, .value ((kvFind st k).bind (·.simple)))
  | .delete => (kvUpsert st k h (fun e => { e with simple := none }), .unit)
  | .pAppend c =>
    match kvFind st k with
    | some e => if e.children.contains c then (st, .err .kvPrefixConflict)
                else (kvUpsert st k h (fun e => { e with children := insertSorted c e.children }), .unit)
    | none => (kvUpsert st k h (fun e => { e with children := [c] }), .unit)
  | .pRemove c => (kvUpsert st k h (fun e => { e with children := e.children.filter (· != c) }), .unit)
  | .pContains c => (kvUpsert st k h id, .bool (match kvFind st k with | some e => e.children.contains c | none => false))
  | .pList => (kvUpsert st k h id, .list (match kvFind st k with | some e => e.children | none => []))

def kvAt (net : Net) : Nat → Nat → String → Nat → KvOp → Net × KvOut
  | 0, _, _, _, _ => (net, .err .fuel)
  | fuel+1, n, k, h, op =>
    match net.get n with
    | none => (net, .err .unreachable)
    | some nd0 =>
    if nd0.crashed then (net, .err .unreachable) else
    match findSucc net FUEL n h with
    | .err .gone => (net, .err .kvStale)
    | .err .noSuccessor => (net, .err .kvStale)      -- C04 repair: a node still joining answers retryably
    | .err e => (net, .err e)
    | .found succ =>
      if succ != n then kvAt net fuel succ k h op else
      if nd0.state != .active then (net, .err .kvStale) else
      match nd0.surrogate with
      | some sg =>
        if between n h sg true then kvAt net fuel sg k h op
        else if (match nd0.pred with | some p => !between p h n true | none => false) then (net, .err .kvStale)
        else let (st, out) := kvLocal nd0.store k h op; (net.upd n (fun nd => { nd with store := st }), out)
      | none =>
        if (match nd0.pred with | some p => !between p h n true | none => false) then (net, .err .kvStale)
        else let (st, out) := kvLocal nd0.store k h op; (net.upd n (fun nd => { nd with store := st }), out)

/-- ring walk of `ListKeys`: the nodes visited starting from `n` -/
def ringWalk (net : Net) (n : Nat) : Nat → Nat → List Nat → Except Err (List Nat)
  | 0, _, _ => .error .fuel
  | fuel+1, cur, seen =>
    match findSucc net FUEL n (moduloSum cur 1) with
    | .err e => .error e
    | .found nx =>
      if nx == n then .ok (seen ++ [n])
      else if seen.contains nx then .error .unstable
      else ringWalk net n fuel nx (seen ++ [nx])

end Specter.Ring
