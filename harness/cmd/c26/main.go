// C26 correspondence: random multi-client histories of GenerateHostname / custom binding / PublishTunnel /
// UnpublishTunnel / ReleaseTunnel (+ a concurrently held lease, failing Put/Delete calls) run against the real
// handlers of tun/server over one recording in-memory DHT; after every call the whole DHT (routes, hostname
// registrations, custom bindings) is printed and compared with the Lean model and the executable statement.
package main

import (
	"context"
	"errors"
	"os"
	"sort"
	"strconv"
	"strings"
	"time"

	"github.com/twitchtv/twirp"
	"go.miragespace.co/specter/spec/protocol"
	"go.miragespace.co/specter/spec/rpc"
	"go.miragespace.co/specter/spec/transport"
	"go.miragespace.co/specter/spec/tun"
	"go.miragespace.co/specter/tun/server"
	"go.uber.org/zap"
	"verif/harness/cmd/c25/rig"
	"verif/harness/hlib"
)

type client struct {
	tok string // the token as extractAuthenticated derives it
	id  uint64
	cn  string // certificate CommonName
}

func main() {
	r := hlib.Start()
	r.Rule = "one case = a history of 10..40 calls by 2..4 clients over one DHT; non-trivial = distinct call line (op, caller, hostname kind, server list, faults) in a distinct history position; " +
		"hostnames: own (generated or custom-bound), foreign (another client's), never registered, already released; server lists: 0..6 entries with nil nodes, duplicates, " +
		"unknown servers and spoofed Id/Rendezvous fields; faults: failing Put/Delete per route slot, failing custom-hostname Delete, lease held by a concurrent call"
	rng := hlib.NewRng(r.Seed)
	logger := zap.NewNop()
	ctx := context.Background()

	tunnelID := &protocol.Node{Id: 11, Address: "s1"}
	chordID := &protocol.Node{Id: 12, Address: "c1"}
	node := rig.NewRecNode(chordID)
	srv := server.New(server.Config{
		ParentContext: ctx, Logger: logger, Chord: node, TunnelTransport: rig.NewTransport(tunnelID),
		ChordTransport: rig.NewTransport(chordID), Apex: "example.com", Acme: "acme.example.com",
	})

	clients := []client{
		{"alice", 1, "v1:1:alice"}, {"bob", 2, "v1:2:bob"},
		{"v2:3:carolhash", 3, "v2:3:carolhash"}, {"dave", 4, "v1:4:dave"},
	}
	servers := map[string]string{"s1": "c1", "s2": "c2", "s3": "c3", "s4": "c4"} // tunnel address -> chord address; s9 has no record
	callCtx := func(c client) context.Context {
		return rpc.WithDelegation(ctx, &transport.StreamDelegate{Certificate: rig.Cert(c.cn)})
	}
	codeOf := func(err error) string {
		if err == nil {
			return "ok"
		}
		if te, ok := err.(twirp.Error); ok {
			return string(te.Code())
		}
		return "nontwirp"
	}
	digest := func() string {
		var routes, owns, custom []string
		for _, e := range node.Entries() {
			switch {
			case strings.HasPrefix(e.Key, "/tunnel/bundle/"):
				rest := strings.TrimPrefix(e.Key, "/tunnel/bundle/")
				i := strings.LastIndex(rest, "/")
				if len(e.Simple) == 0 {
					continue
				}
				rt := &protocol.TunnelRoute{}
				if rt.UnmarshalVT(e.Simple) != nil {
					routes = append(routes, rest[:i]+"|"+rest[i+1:]+"|undecodable")
					continue
				}
				cd := rt.GetClientDestination()
				routes = append(routes, rest[:i]+"|"+rest[i+1:]+"|"+cd.GetAddress()+"|"+strconv.FormatUint(cd.GetId(), 10)+"|"+
					rt.GetChordDestination().GetAddress()+"|"+rt.GetTunnelDestination().GetAddress()+"|"+rt.GetHostname())
			case strings.HasPrefix(e.Key, "/tunnel/client/hostnames/"):
				t := strings.TrimPrefix(e.Key, "/tunnel/client/hostnames/")
				for _, h := range e.Children {
					owns = append(owns, t+"|"+h)
				}
			case strings.HasPrefix(e.Key, "/tunnel/client/custom/"):
				if len(e.Simple) == 0 {
					continue
				}
				ch := &protocol.CustomHostname{}
				ch.UnmarshalVT(e.Simple)
				custom = append(custom, strings.TrimPrefix(e.Key, "/tunnel/client/custom/")+"|"+string(ch.GetClientToken().GetToken())+"|"+
					strconv.FormatUint(ch.GetClientIdentity().GetId(), 10))
			}
		}
		sort.Strings(routes)
		sort.Strings(owns)
		sort.Strings(custom)
		return hlib.Join(routes, ";") + " " + hlib.Join(owns, ";") + " " + hlib.Join(custom, ";")
	}

	leases := map[string]uint64{}
	reset := func() {
		node.Reset()
		leases = map[string]uint64{}
		r.Raw("reset")
		addrs := make([]string, 0)
		for a := range servers {
			addrs = append(addrs, a)
		}
		sort.Strings(addrs)
		for _, a := range addrs {
			d := &protocol.TunnelDestination{Chord: &protocol.Node{Address: servers[a], Id: 70}, Tunnel: &protocol.Node{Address: a, Id: 71}}
			b, _ := d.MarshalVT()
			node.KV.Put(ctx, []byte(tun.DestinationByTunnelKey(&protocol.Node{Address: a})), b)
			r.Emit("dest "+a+" "+servers[a]+" "+a, "ok")
		}
	}
	setFaults := func(h string, slots []int, customFail bool) {
		node.FailPut = map[string]error{}
		for _, k := range slots {
			node.FailPut[tun.RoutingKey(h, k)] = errors.New("injected kv failure")
		}
		if customFail {
			node.FailPut[tun.CustomHostnameKey(h)] = errors.New("injected kv failure")
		}
	}
	slotTok := func(slots []int) string {
		s := make([]string, len(slots))
		for i, k := range slots {
			s[i] = strconv.Itoa(k)
		}
		return hlib.Join(s, ",")
	}
	guard := func(f func() string) (out string) {
		defer func() {
			if e := recover(); e != nil {
				out = "panic"
			}
		}()
		return f()
	}

	// --- operations (each prints one line) ---
	gen := func(c client) string {
		var h string
		code := guard(func() string {
			resp, err := srv.GenerateHostname(callCtx(c), &protocol.GenerateHostnameRequest{})
			if err == nil {
				h = resp.GetHostname()
			}
			return codeOf(err)
		})
		if code != "ok" {
			h = "err:" + code
		}
		r.Emit("gen "+c.tok+" "+strconv.FormatUint(c.id, 10), h+" "+digest())
		r.Count("op:gen")
		return h
	}
	bind := func(c client, h string) {
		tun.SaveCustomHostname(ctx, node.KV, h, &protocol.CustomHostname{
			ClientIdentity: &protocol.Node{Id: c.id, Address: c.tok, Rendezvous: true}, ClientToken: &protocol.ClientToken{Token: []byte(c.tok)}})
		node.KV.PrefixAppend(ctx, []byte(tun.ClientHostnamesPrefix(&protocol.ClientToken{Token: []byte(c.tok)})), []byte(h))
		r.Emit("bind "+c.tok+" "+strconv.FormatUint(c.id, 10)+" "+h, "ok "+digest())
		r.Count("op:bind")
	}
	pub := func(c client, h string, srvToks []string, slots []int, kind string) {
		var nodes []*protocol.Node
		for i, t := range srvToks {
			if t == "n" {
				nodes = append(nodes, nil)
				continue
			}
			// only the address matters: Id / Rendezvous are attacker-controlled noise
			nodes = append(nodes, &protocol.Node{Address: t[1:], Id: uint64(1000*i) + c.id, Rendezvous: i%2 == 0})
		}
		setFaults(h, slots, false)
		published := "-"
		code := guard(func() string {
			resp, err := srv.PublishTunnel(callCtx(c), &protocol.PublishTunnelRequest{Hostname: h, Servers: nodes})
			if err == nil {
				var p []string
				for _, n := range resp.GetPublished() {
					p = append(p, n.GetAddress())
				}
				published = hlib.Join(p, ",")
			}
			return codeOf(err)
		})
		node.FailPut = map[string]error{}
		lhs := "pub " + c.tok + " " + strconv.FormatUint(c.id, 10) + " " + h + " " + hlib.Join(srvToks, ",") + " " + slotTok(slots)
		r.Emit(lhs, code+" "+published+" "+digest())
		r.Case(lhs)
		r.Count("op:pub/" + kind + "/" + code)
	}
	unpub := func(c client, h string, slots []int, kind string) {
		setFaults(h, slots, false)
		code := guard(func() string {
			_, err := srv.UnpublishTunnel(callCtx(c), &protocol.UnpublishTunnelRequest{Hostname: h})
			return codeOf(err)
		})
		node.FailPut = map[string]error{}
		lhs := "unpub " + c.tok + " " + strconv.FormatUint(c.id, 10) + " " + h + " " + slotTok(slots)
		r.Emit(lhs, code+" - "+digest())
		r.Case(lhs)
		r.Count("op:unpub/" + kind + "/" + code)
	}
	rel := func(c client, h string, slots []int, customFail bool, kind string) {
		setFaults(h, slots, customFail)
		code := guard(func() string {
			_, err := srv.ReleaseTunnel(callCtx(c), &protocol.ReleaseTunnelRequest{Hostname: h})
			return codeOf(err)
		})
		node.FailPut = map[string]error{}
		cf := "0"
		if customFail {
			cf = "1"
		}
		lhs := "rel " + c.tok + " " + strconv.FormatUint(c.id, 10) + " " + h + " " + slotTok(slots) + " " + cf
		r.Emit(lhs, code+" - "+digest())
		r.Case(lhs)
		r.Count("op:rel/" + kind + "/" + code)
	}
	hold := func(c client, on bool) {
		key := []byte(tun.ClientLeaseKey(&protocol.ClientToken{Token: []byte(c.tok)}))
		b := "0"
		if on {
			if _, held := leases[c.tok]; held {
				return
			}
			t, err := node.KV.Acquire(ctx, key, 10*time.Minute)
			if err != nil {
				return
			}
			leases[c.tok] = t
			b = "1"
		} else {
			t, held := leases[c.tok]
			if !held {
				return
			}
			node.KV.Release(ctx, key, t)
			delete(leases, c.tok)
		}
		r.Emit("hold "+c.tok+" "+b, "ok "+digest())
		r.Count("op:hold")
	}

	if r.Replay != "" {
		byTok := map[string]client{}
		for _, c := range clients {
			byTok[c.tok] = c
		}
		ren := map[string]string{} // recorded generated hostname -> hostname generated now
		name := func(h string) string {
			if n, ok := ren[h]; ok {
				return n
			}
			return h
		}
		slotsOf := func(s string) []int {
			var out []int
			if s != "-" {
				for _, x := range strings.Split(s, ",") {
					k, _ := strconv.Atoi(x)
					out = append(out, k)
				}
			}
			return out
		}
		lines, _ := readReplay(r.Replay)
		started := false
		for _, ln := range lines {
			t := strings.Fields(ln.lhs)
			if len(t) == 0 {
				continue
			}
			if !started && t[0] != "reset" {
				reset()
			}
			started = true
			switch t[0] {
			case "reset":
				reset()
			case "gen":
				h := gen(byTok[t[1]])
				if f := strings.Fields(ln.rhs); len(f) > 0 {
					ren[f[0]] = h
				}
			case "bind":
				bind(byTok[t[1]], name(t[3]))
			case "pub":
				var st []string
				if t[4] != "-" {
					st = strings.Split(t[4], ",")
				}
				pub(byTok[t[1]], name(t[3]), st, slotsOf(t[5]), "replay")
			case "unpub":
				unpub(byTok[t[1]], name(t[3]), slotsOf(t[4]), "replay")
			case "rel":
				rel(byTok[t[1]], name(t[3]), slotsOf(t[4]), t[5] == "1", "replay")
			case "hold":
				hold(byTok[t[1]], t[2] == "1")
			}
		}
		r.Finish()
		return
	}

	histories := 150
	if r.Thorough() {
		histories = 5000
	}
	srvPool := []string{"as1", "as2", "as3", "as4", "as9", "n"}
	for hi := 0; hi < histories; hi++ {
		reset()
		nc := 2 + rng.Intn(3)
		cs := clients[:nc]
		owned := map[string][]string{} // token -> hostnames currently registered (harness bookkeeping for generation only)
		released := []string{}
		customN := 0
		// every client starts with a hostname or two
		for _, c := range cs {
			for k := 0; k < 1+rng.Intn(2); k++ {
				if h := gen(c); !strings.HasPrefix(h, "err:") {
					owned[c.tok] = append(owned[c.tok], h)
				}
			}
		}
		steps := 10 + rng.Intn(30)
		for s := 0; s < steps; s++ {
			c := hlib.Pick(rng, cs)
			// choose a hostname and remember what kind it is
			kind, h := "own", ""
			switch k := rng.Intn(100); {
			case k < 55 && len(owned[c.tok]) > 0:
				h = hlib.Pick(rng, owned[c.tok])
			case k < 80:
				o := hlib.Pick(rng, cs)
				if o.tok != c.tok && len(owned[o.tok]) > 0 {
					kind, h = "foreign", hlib.Pick(rng, owned[o.tok])
				}
			case k < 90 && len(released) > 0:
				kind, h = "released", hlib.Pick(rng, released)
			}
			if h == "" {
				kind, h = "unregistered", "ghost-"+strconv.Itoa(rng.Intn(3))+".example.org"
			}
			var slots []int
			if rng.Chance(15) {
				for k := 1; k <= 3; k++ {
					if rng.Chance(45) {
						slots = append(slots, k)
					}
				}
			}
			switch op := rng.Intn(100); {
			case op < 8:
				if hn := gen(c); !strings.HasPrefix(hn, "err:") {
					owned[c.tok] = append(owned[c.tok], hn)
				}
			case op < 12:
				customN++
				hn := "app" + strconv.Itoa(customN) + ".customer.net"
				bind(c, hn)
				owned[c.tok] = append(owned[c.tok], hn)
			case op < 60:
				n := rng.Intn(7)
				if rng.Chance(60) {
					n = 1 + rng.Intn(3)
				}
				st := make([]string, n)
				for i := range st {
					st[i] = hlib.Pick(rng, srvPool)
					if i > 0 && rng.Chance(25) {
						st[i] = st[i-1]
					}
					if rng.Chance(70) && st[i] == "as9" {
						st[i] = "as2"
					}
				}
				pub(c, h, st, slots, kind)
			case op < 75:
				unpub(c, h, slots, kind)
			case op < 92:
				cf := rng.Chance(10)
				before := digest()
				rel(c, h, slots, cf, kind)
				if kind == "own" && before != digest() {
					// bookkeeping: the registration is gone when the digest no longer lists it
					if !strings.Contains(digest(), c.tok+"|"+h) {
						xs := owned[c.tok][:0]
						for _, x := range owned[c.tok] {
							if x != h {
								xs = append(xs, x)
							}
						}
						owned[c.tok] = xs
						released = append(released, h)
					}
				}
			case op < 96:
				hold(c, true)
			default:
				hold(c, false)
			}
		}
	}
	r.Finish()
}

type replayLine struct{ lhs, rhs string }

func readReplay(path string) ([]replayLine, error) {
	b, err := os.ReadFile(path)
	if err != nil {
		return nil, err
	}
	var out []replayLine
	for _, l := range strings.Split(string(b), "\n") {
		l = strings.TrimSpace(l)
		if l == "" || strings.HasPrefix(l, "#") {
			continue
		}
		rl := replayLine{lhs: l}
		if i := strings.Index(l, " => "); i >= 0 {
			rl.lhs, rl.rhs = l[:i], l[i+4:]
		}
		out = append(out, rl)
	}
	return out, nil
}
