import SpecterModel.C13.Drv

def main : IO Unit := Specter.C13.main
