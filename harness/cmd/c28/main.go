// C28 correspondence: the real (*Server).routeCacheLoader against the Lean loader model and the property's
// executable statement, over the whole table of per-slot outcomes (+ payload variants).
package main

import (
	"context"
	"errors"
	"fmt"
	"io/fs"
	"strconv"
	"strings"

	"go.miragespace.co/specter/spec/chord"
	"go.miragespace.co/specter/spec/mocks"
	"go.miragespace.co/specter/spec/transport"
	"go.miragespace.co/specter/spec/protocol"
	"go.miragespace.co/specter/spec/tun"
	"go.miragespace.co/specter/tun/server"
	"go.uber.org/zap"
	"verif/harness/hlib"
)

type getRes struct {
	val []byte
	err error
}

// scriptedNode is a chord.VNode whose Get answers from a table; every other method is unreachable from the loader.
type scriptedNode struct {
	chord.VNode
	tab map[string]getRes
}

func (n *scriptedNode) Get(ctx context.Context, key []byte) ([]byte, error) {
	r, ok := n.tab[string(key)]
	if !ok {
		return nil, errors.New("unscripted key " + string(key))
	}
	return r.val, r.err
}

// idTransport: a tunnel transport of which only the identity is reachable from the loader.
type idTransport struct {
	transport.Transport
	id *protocol.Node
}

func (t *idTransport) Identity() *protocol.Node { return t.id }

type slot struct {
	kind string // R E X U N
	addr string // R: tunnel address ("" with nilDst => no TunnelDestination at all)
	nilDst bool
	pad  int
	errv int
}

var errVariants = []error{
	errors.New("boom"),
	chord.ErrKVStaleOwnership,
	context.DeadlineExceeded,
	fmt.Errorf("wrapped: %w", fs.ErrNotExist), // wraps the sentinel but is not == to it
}

func (s slot) build(idx int) (getRes, string) {
	switch s.kind {
	case "E":
		if s.pad%2 == 0 {
			return getRes{val: []byte{}}, "E"
		}
		return getRes{val: nil}, "E"
	case "X":
		return getRes{err: errVariants[s.errv%len(errVariants)]}, "X"
	case "N":
		return getRes{err: fs.ErrNotExist}, "N"
	case "U":
		bad := [][]byte{{0xff, 0xff, 0xff}, {0x0a, 0x7f, 0x01}, {0x08}, {0x22, 0x05, 'a'}}
		v := bad[s.pad%len(bad)]
		if (&protocol.TunnelRoute{}).UnmarshalVT(v) == nil {
			panic("harness: value meant to be undecodable decodes")
		}
		return getRes{val: v}, "U"
	}
	r := &protocol.TunnelRoute{
		ChordDestination: &protocol.Node{Id: uint64(idx), Address: "chord:" + strconv.Itoa(idx)},
		Hostname:         strings.Repeat("h", s.pad),
	}
	if !s.nilDst {
		r.TunnelDestination = &protocol.Node{Address: s.addr, Id: 77}
	}
	val, err := r.MarshalVT()
	if err != nil {
		panic(err)
	}
	a := s.addr
	if s.nilDst {
		a = ""
	}
	return getRes{val: val}, "R:" + hlib.HexS(a) + ":" + strconv.Itoa(len(val))
}

func main() {
	r := hlib.Start()
	r.Rule = "one case = (local address, outcome of each of the NumRedundantLinks slots); non-trivial = distinct (self, slot kinds, addresses, value lengths); " +
		"the full table {route-local, route-remote, empty, error, undecodable, Get=fs.ErrNotExist}^3 is enumerated for two local addresses, then random payload variants " +
		"(missing TunnelDestination, empty local address, nil Identity, nil vs empty values, error kinds incl. a wrapped fs.ErrNotExist)"
	rng := hlib.NewRng(r.Seed)
	logger := zap.NewNop()
	n := tun.NumRedundantLinks

	// one Server for the whole run (each server.New starts two caches with their own goroutines)
	theNode := &scriptedNode{tab: map[string]getRes{}}
	clt := &idTransport{}
	srv := server.New(server.Config{
		ParentContext: context.Background(), Logger: logger, Chord: theNode,
		TunnelTransport: clt, ChordTransport: new(mocks.Transport), Apex: "example.com", Acme: "acme.example.com",
	})

	run := func(self string, nilIdentity bool, slots []slot) {
		node := &scriptedNode{tab: map[string]getRes{}}
		host := "h.example.com"
		toks := make([]string, len(slots))
		kinds := ""
		for i, s := range slots {
			res, tok := s.build(i)
			toks[i] = tok
			kinds += s.kind
			node.tab[tun.RoutingKey(host, i+1)] = res
		}
		if nilIdentity {
			clt.id = nil
			self = ""
		} else {
			clt.id = &protocol.Node{Address: self, Id: 1}
		}
		theNode.tab = node.tab
		rhs := func() (out string) {
			defer func() {
				if e := recover(); e != nil {
					out = "panic 0 0 -"
				}
			}()
			kind, ttl, cost, routes, _ := server.VerifRouteLoad(srv, context.Background(), host)
			idx := make([]string, len(routes))
			for i, rt := range routes {
				if rt == nil {
					idx[i] = "99"
					continue
				}
				idx[i] = strconv.FormatUint(rt.GetChordDestination().GetId(), 10)
			}
			return kind + " " + strconv.FormatInt(int64(ttl), 10) + " " + strconv.FormatInt(cost, 10) + " " + hlib.Join(idx, ",")
		}()
		lhs := "load " + hlib.HexS(self) + " " + strings.Join(toks, " ")
		r.Emit(lhs, rhs)
		r.Case(lhs)
		r.Count("kinds:" + sortedKinds(kinds))
		r.Count("result:" + strings.SplitN(rhs, " ", 2)[0])
	}

	if r.Replay != "" {
		for _, t := range r.ReplayLines() {
			if t[0] != "load" {
				continue
			}
			self := string(hlib.UnHex(t[1]))
			var slots []slot
			for _, tok := range t[2:] {
				p := strings.Split(tok, ":")
				s := slot{kind: p[0]}
				if p[0] == "R" {
					s.addr = string(hlib.UnHex(p[1]))
					want, _ := strconv.Atoi(p[2])
					for s.pad = 0; s.pad < 300; s.pad++ {
						if g, _ := s.build(len(slots)); len(g.val) >= want {
							break
						}
					}
				}
				slots = append(slots, s)
			}
			run(self, false, slots)
		}
		r.Finish()
		return
	}

	// the whole table, for a normal and for an empty local address
	kinds := []string{"L", "R", "E", "X", "U", "N"}
	var rec func(self string, acc []slot)
	rec = func(self string, acc []slot) {
		if len(acc) == n {
			run(self, false, append([]slot{}, acc...))
			return
		}
		for _, k := range kinds {
			s := slot{kind: k}
			switch k {
			case "L":
				s = slot{kind: "R", addr: self}
			case "R":
				s = slot{kind: "R", addr: "remote:" + strconv.Itoa(len(acc))}
			}
			rec(self, append(acc, s))
		}
	}
	rec("tunnel:123", nil)
	rec("", nil)

	budget := 4000
	if r.Thorough() {
		budget = 150000
	}
	selfs := []string{"tunnel:123", "", "a", "tunnel:123 ", "TUNNEL:123"}
	addrs := []string{"tunnel:123", "", "remote:1", "remote:2", "a", "TUNNEL:123", "tunnel:1234"}
	for i := 0; i < budget; i++ {
		self := hlib.Pick(rng, selfs)
		slots := make([]slot, n)
		for j := range slots {
			s := slot{pad: rng.Intn(40), errv: rng.Intn(8)}
			switch rng.Intn(10) {
			case 0, 1, 2:
				s.kind, s.addr = "R", self
			case 3, 4:
				s.kind, s.addr = "R", hlib.Pick(rng, addrs)
			case 5:
				s.kind, s.nilDst = "R", true
			case 6:
				s.kind = "E"
			case 7:
				s.kind = "X"
			case 8:
				s.kind = "U"
			default:
				if rng.Chance(30) {
					s.kind = "N"
				} else {
					s.kind = "E"
				}
			}
			slots[j] = s
		}
		run(self, rng.Chance(5), slots)
	}
	r.Finish()
}

func sortedKinds(k string) string {
	b := []byte(k)
	for i := range b {
		for j := i + 1; j < len(b); j++ {
			if b[j] < b[i] {
				b[i], b[j] = b[j], b[i]
			}
		}
	}
	return string(b)
}
