import SpecterModel.C41.Model
/-!
# C41 — exhaustive exploration: the pre-existing connection dies during the negotiation(s) (kernel-evaluated)

Every interleaving of the two (one dial) or four (two simultaneous dials) negotiation ends, the reaps that become
due and the death of the pre-existing connection `e` (step `kill`: closed from outside the negotiation) at any point,
followed by the close-watchers of `e` (`reapE`) at every side that caches it - each of them before, between or after
the snapshot and the decision of every negotiation end of its side. From every consistent pre-existing cache state
(one kernel evaluation per pre-state for two dials). No stale reap in these runs.
-/
namespace Specter.C41
open Gen.C41

/-- one dial, `e` may die at any point -/
theorem explore_single_die : ∀ pre ∈ preStates,
    explore genTable goodStrict 18 (init false pre (false, false) true) = true := by
  decide +kernel

set_option maxRecDepth 100000 in
theorem explore_dual_die_0 : explore genTable good 18 (init true (none, none) (false, false) true) = true := by
  decide +kernel

set_option maxRecDepth 100000 in
theorem explore_dual_die_1 : explore genTable good 18 (init true (some (.e, .outgoing), none) (false, false) true) = true := by
  decide +kernel

set_option maxRecDepth 100000 in
theorem explore_dual_die_2 : explore genTable good 18 (init true (some (.e, .incoming), none) (false, false) true) = true := by
  decide +kernel

set_option maxRecDepth 100000 in
theorem explore_dual_die_3 : explore genTable good 18 (init true (none, some (.e, .incoming)) (false, false) true) = true := by
  decide +kernel

set_option maxRecDepth 100000 in
theorem explore_dual_die_4 : explore genTable good 18 (init true (none, some (.e, .outgoing)) (false, false) true) = true := by
  decide +kernel

set_option maxRecDepth 100000 in
theorem explore_dual_die_5 : explore genTable good 18 (init true (some (.e, .outgoing), some (.e, .incoming)) (false, false) true) = true := by
  decide +kernel

set_option maxRecDepth 100000 in
theorem explore_dual_die_6 : explore genTable good 18 (init true (some (.e, .incoming), some (.e, .outgoing)) (false, false) true) = true := by
  decide +kernel

theorem explore_dual_die : ∀ pre ∈ preStates,
    explore genTable good 18 (init true pre (false, false) true) = true := by
  intro pre hp
  simp only [preStates, List.mem_cons, List.not_mem_nil, or_false] at hp
  rcases hp with h | h | h | h | h | h | h <;> subst h
  · exact explore_dual_die_0
  · exact explore_dual_die_1
  · exact explore_dual_die_2
  · exact explore_dual_die_3
  · exact explore_dual_die_4
  · exact explore_dual_die_5
  · exact explore_dual_die_6

end Specter.C41
