import SpecterModel.C11.Drv

def main : IO Unit := Specter.C11.main
