// C04: concurrent client goroutines issue KV operations through random entry nodes of a ring of real
// LocalNodes (real millisecond timers) while joins and leaves run; the invoke/return history of every
// key is recorded with a global atomic sequence and decided linearizable by the Lean driver.
package main

import (
	"context"
	"errors"
	"sort"
	"strings"
	"sync"
	"sync/atomic"
	"time"

	"go.miragespace.co/specter/spec/chord"
	"verif/harness/hlib"
	"verif/harness/ringh"
)

const interval = 3 * time.Millisecond

type ev struct {
	obj      string
	inv, ret uint64
	op, res  string
}

func errTok(err error) string {
	switch {
	case errors.Is(err, chord.ErrKVStaleOwnership):
		return "err:ErrKVStaleOwnership"
	case errors.Is(err, chord.ErrKVPendingTransfer):
		return "err:ErrKVPendingTransfer"
	case errors.Is(err, context.DeadlineExceeded):
		return "err:deadline"
	case errors.Is(err, chord.ErrKVSimpleConflict):
		// documented outcome of Put/Delete racing with another request on the same key: no effect ("conflict")
		return "err:ErrKVSimpleConflict"
	}
	return ringh.ErrName(err)
}

func main() {
	hlib.Guarded(func(run *hlib.Run) {
		run.Rule = "rings of 3..5 real LocalNodes with millisecond timers; 3 client goroutines x 8..12 operations (Put/Get/Delete/PrefixAppend/PrefixContains/PrefixRemove/PrefixList) on 2 keys through random live entry nodes, seeded yields, while a churn goroutine performs a join and a leave (half of the cases: the leave of the key owner L runs inside the window in which L's successor holds the membership lock for a joiner placed directly behind L); history per key checked for linearizability (≤ ~20 calls per object); non-trivial = distinct case in which a membership change overlapped client calls"
		rng := hlib.NewRng(run.Seed)
		cases := 20
		if run.Thorough() {
			cases = 150
		}
		if run.Replay != "" {
			// recorded histories are decided by the driver directly; a replay re-runs fresh seeded cases
			cases = 5
		}
		for c := 0; c < cases; c++ {
			oneCase(run, rng, c)
		}
	})
}

func oneCase(run *hlib.Run, rng *hlib.Rng, c int) {
	n := 3 + rng.Intn(3)
	ids := ringh.AdversarialIDs(rng, n+1)
	plain := []string{"a", "ab", "abc", "b", "b1", "b2", "d", "k7", "zz", "q"}
	keys := []string{hlib.Pick(rng, plain), hlib.Pick(rng, plain)}
	// directed window (half of the cases): the leaver L is the owner of keys[0], the joiner's id lies directly
	// behind L (both share the successor S), the join is held right after S accepted it - before the advisory
	// FinishJoin reaches L - and L's Leave runs inside that window, while S holds the membership lock for the joiner
	directed := rng.Chance(65)
	var dirLeaver uint64
	if directed {
		succOf := func(x uint64, strict bool) uint64 {
			best, bd := ids[0], uint64(0)
			first := true
			for _, m := range ids[:n] {
				d := (m + ringh.M - x) % ringh.M
				if strict && d == 0 {
					d = ringh.M
				}
				if first || d < bd {
					best, bd, first = m, d, false
				}
			}
			return best
		}
		directed = false
		start := rng.Intn(len(plain))
		for i := range plain {
			k := plain[(start+i)%len(plain)]
			l := succOf(ringh.HashOf(k), false)
			s := succOf(l, true)
			gap := (s + ringh.M - l) % ringh.M
			if gap < 3 {
				continue
			}
			span := gap - 2
			if span > 1000 {
				span = 1000
			}
			keys[0], dirLeaver, directed = k, l, true
			ids[n] = (l + 1 + rng.U64()%span) % ringh.M
			run.Count("variant:leave-inside-join-window")
			break
		}
	}
	if !directed && rng.Chance(60) {
		// the joiner's id is EXACTLY the hash of a key the clients use (upper end of the hand-off range)
		h := ringh.HashOf(keys[rng.Intn(len(keys))])
		taken := false
		for _, m := range ids[:n] {
			taken = taken || m == h
		}
		if !taken {
			ids[n] = h
			run.Count("variant:joiner-id-is-a-key-hash")
		}
	}
	r := ringh.NewRing()
	r.Interval = interval
	for _, id := range ids {
		r.New(id)
	}
	defer func() {
		for _, id := range ids {
			r.Crash(id)
			r.Node(id).VerifStop()
		}
	}()
	if r.Node(ids[0]).Create() != nil {
		return
	}
	members := []uint64{ids[0]}
	for _, id := range ids[1:n] {
		if r.Node(id).Join(r.Wrap(members[rng.Intn(len(members))])) != nil {
			run.Count("setup-join-failed")
			return
		}
		members = append(members, id)
		time.Sleep(8 * interval)
	}
	time.Sleep(30 * interval)
	var live sync.Map // id -> bool (usable as entry node)
	for _, m := range members {
		live.Store(m, true)
	}
	pickEntry := func(x uint64) uint64 {
		var ls []uint64
		live.Range(func(k, v any) bool { ls = append(ls, k.(uint64)); return true })
		sort.Slice(ls, func(i, j int) bool { return ls[i] < ls[j] })
		return ls[int(x%uint64(len(ls)))]
	}
	var seq atomic.Uint64
	var mu sync.Mutex
	var evs []ev
	var churned atomic.Bool
	ctx := context.Background()
	var wg sync.WaitGroup
	nOps := 8 + rng.Intn(5)
	for g := 0; g < 3; g++ {
		seed := rng.U64()
		wg.Add(1)
		go func(g int) {
			defer wg.Done()
			lr := hlib.NewRng(seed)
			for i := 0; i < nOps; i++ {
				k := keys[lr.Intn(len(keys))]
				w := r.Wrap(pickEntry(lr.U64()))
				var obj, op, res string
				kind := lr.Intn(7)
				val := hlib.F("v%d_%d", g, i)
				child := hlib.Pick(lr, ringh.ChildTokens)
				inv := seq.Add(1)
				switch kind {
				case 0, 1:
					obj, op = k+"/s", "put "+val
					if err := w.Put(ctx, []byte(k), []byte(val)); err != nil {
						res = errTok(err)
					} else {
						res = "ok"
					}
				case 2:
					obj, op = k+"/s", "get"
					v, err := w.Get(ctx, []byte(k))
					if err != nil {
						res = errTok(err)
					} else if len(v) == 0 {
						res = "-"
					} else {
						res = string(v)
					}
				case 3:
					obj, op = k+"/s", "del"
					if err := w.Delete(ctx, []byte(k)); err != nil {
						res = errTok(err)
					} else {
						res = "ok"
					}
				case 4:
					obj, op = k+"/c", "add "+child
					err := w.PrefixAppend(ctx, []byte(k), []byte(child))
					switch {
					case err == nil:
						res = "ok"
					case errors.Is(err, chord.ErrKVPrefixConflict):
						res = "conflict"
					default:
						res = errTok(err)
					}
				case 5:
					obj, op = k+"/c", "has "+child
					b, err := w.PrefixContains(ctx, []byte(k), []byte(child))
					if err != nil {
						res = errTok(err)
					} else {
						res = hlib.B(b)
					}
				default:
					if lr.Bool() {
						obj, op = k+"/c", "rm "+child
						if err := w.PrefixRemove(ctx, []byte(k), []byte(child)); err != nil {
							res = errTok(err)
						} else {
							res = "ok"
						}
					} else {
						obj, op = k+"/c", "list"
						l, err := w.PrefixList(ctx, []byte(k))
						if err != nil {
							res = errTok(err)
						} else {
							var cs []string
							for _, x := range l {
								cs = append(cs, string(x))
							}
							sort.Strings(cs)
							if len(cs) == 0 {
								res = "."
							} else {
								res = strings.Join(cs, ",")
							}
						}
					}
				}
				if res == "err:ErrKVSimpleConflict" {
					res = "conflict"
				}
				ret := seq.Add(1)
				mu.Lock()
				evs = append(evs, ev{obj, inv, ret, op, res})
				mu.Unlock()
				if lr.Chance(40) {
					time.Sleep(time.Duration(lr.Intn(4)) * time.Millisecond)
				}
			}
		}(g)
	}
	// churn: a join, then a leave of a random original member, overlapping the clients
	wg.Add(1)
	joiner, leaver := ids[n], members[rng.Intn(len(members))]
	peer := members[rng.Intn(len(members))]
	d1, d2 := time.Duration(rng.Intn(6))*time.Millisecond, time.Duration(rng.Intn(10))*time.Millisecond
	holdAt := 1 + rng.Intn(2)
	if directed {
		leaver = dirLeaver
	}
	go func() {
		defer wg.Done()
		defer func() { recover() }()
		time.Sleep(d1)
		if directed {
			// the join is held before its first or before its second FinishJoin call (advisory to the
			// predecessor / release of the successor's lock)
			seen := 0
			run.Count(hlib.F("window:before-finishjoin-%d", holdAt))
			at, resume := r.PauseNext(func(m string) bool {
				if !strings.HasPrefix(m, "FinishJoin") {
					return false
				}
				seen++
				return seen == holdAt
			})
			jd := make(chan error, 1)
			go func() {
				defer func() {
					if recover() != nil {
						jd <- errors.New("panic")
					}
				}()
				jd <- r.Node(joiner).Join(r.Wrap(peer))
			}()
			ld := make(chan struct{})
			select {
			case <-at: // S accepted the joiner and holds its lock; L has not been told yet
				live.Delete(leaver)
				go func() { defer close(ld); defer func() { recover() }(); r.Node(leaver).Leave() }()
				time.Sleep(d2 + 2*interval)
				run.Count("window:leave-started-inside")
			case err := <-jd:
				jd <- err
				close(ld)
			case <-time.After(3 * time.Second):
				close(ld)
			}
			resume()
			select {
			case err := <-jd:
				if err == nil {
					live.Store(joiner, true)
				}
			case <-time.After(3 * time.Second):
			}
			select {
			case <-ld:
			case <-time.After(3 * time.Second):
			}
			churned.Store(true)
			return
		}
		if r.Node(joiner).Join(r.Wrap(peer)) == nil {
			live.Store(joiner, true)
			churned.Store(true)
		}
		time.Sleep(d2)
		live.Delete(leaver)
		done := make(chan struct{})
		go func() { defer close(done); defer func() { recover() }(); r.Node(leaver).Leave() }()
		select {
		case <-done:
		case <-time.After(3 * time.Second):
		}
		churned.Store(true)
	}()
	wg.Wait()
	// closing reads: once clients and churn are done, every object is read through a live entry node (a few
	// attempts while lookups still fail with retryable errors); the reads are ordinary calls of the history
	for _, k := range keys {
		for _, what := range []string{"get", "list"} {
			for attempt := 0; attempt < 40; attempt++ {
				w := r.Wrap(pickEntry(rng.U64()))
				inv := seq.Add(1)
				var obj, res string
				if what == "get" {
					obj = k + "/s"
					v, err := w.Get(ctx, []byte(k))
					if err != nil {
						res = errTok(err)
					} else if len(v) == 0 {
						res = "-"
					} else {
						res = string(v)
					}
				} else {
					obj = k + "/c"
					l, err := w.PrefixList(ctx, []byte(k))
					if err != nil {
						res = errTok(err)
					} else {
						var cs []string
						for _, x := range l {
							cs = append(cs, string(x))
						}
						sort.Strings(cs)
						if len(cs) == 0 {
							res = "."
						} else {
							res = strings.Join(cs, ",")
						}
					}
				}
				ret := seq.Add(1)
				if strings.HasPrefix(res, "err:") {
					time.Sleep(2 * interval)
					continue
				}
				evs = append(evs, ev{obj, inv, ret, what, res})
				run.Count("closing-read")
				break
			}
		}
	}
	run.Raw("reset")
	sort.Slice(evs, func(i, j int) bool { return evs[i].inv < evs[j].inv })
	for _, e := range evs {
		run.Emit(hlib.F("ev dht %s %d %d %s", e.obj, e.inv, e.ret, e.op), e.res)
		if strings.HasPrefix(e.res, "err:") {
			run.Count("failed:" + e.res)
		} else {
			run.Count("op:" + strings.Fields(e.op)[0])
		}
	}
	run.Emit("check", "-")
	key := ""
	if churned.Load() {
		key = hlib.F("case-%d-%v", c, ids)
	}
	run.Case(key)
}
