import SpecterModel.C31.Model
/-!
# C31 — Proof-of-work checks accept exactly the valid proofs

Theorems about the model in `Model.lean` (tied to `/repo` differentially by `harness/cmd/c31`).
External: `sha` (SHA-256) is an arbitrary function returning bytes; `sigOK` is the verdict of `ed25519.Verify`;
`b64` (`base64.RawURLEncoding`) is an arbitrary function with non-empty, ':'-free output (validated by the harness).

* `verifyBits_iff`        — the bit test = "at least `bits` leading zero bits", all bit counts, all hashes
* `verifySolution_iff`    — exact acceptance condition of `pow.VerifySolution`
* `parse_toStr`           — `Parse(String(h)) = h` for well-formed stamps
* `solve_sound`, `solved_proof_accepted` — what the solver returns is accepted under the same parameters
-/
namespace Specter.C31

def lz8 (b : Nat) : Nat := ((byteBits b).takeWhile (· == false)).length

set_option maxRecDepth 100000 in
theorem lz8_shift : ∀ b, b < 256 → ∀ k, k < 9 → 1 ≤ k → (b >>> (8 - k) = 0 ↔ k ≤ lz8 b) := by decide

set_option maxRecDepth 100000 in
theorem lz8_full : ∀ b, b < 256 → (lz8 b = 8 ↔ b = 0) := by decide

theorem byteBits_length (b : Nat) : (byteBits b).length = 8 := rfl

theorem lz8_le (b : Nat) : lz8 b ≤ 8 := by
  unfold lz8
  exact Nat.le_trans (List.takeWhile_prefix _).length_le (by simp [byteBits_length])

theorem lzb_nil : leadingZeroBits [] = 0 := rfl

theorem lzb_cons (b : Nat) (rest : Bytes) :
    leadingZeroBits (b :: rest) = if lz8 b = 8 then 8 + leadingZeroBits rest else lz8 b := by
  unfold leadingZeroBits bitsOf lz8
  rw [List.flatMap_cons, List.takeWhile_append, byteBits_length]
  split <;> simp [byteBits_length]

/-- the leading-zero count never exceeds the number of bits present -/
theorem lzb_le (h : Bytes) : leadingZeroBits h ≤ 8 * h.length := by
  induction h with
  | nil => simp [lzb_nil]
  | cons b rest ih =>
    rw [lzb_cons]; have := lz8_le b
    split <;> simp only [List.length_cons] <;> omega

theorem loop_cons (b : Nat) (hash : Bytes) (fuel i bits : Nat) :
    verifyBitsLoop (b :: hash) fuel (i + 1) bits = verifyBitsLoop hash fuel i bits := by
  induction fuel generalizing i bits with
  | zero => simp [verifyBitsLoop]
  | succ f ih => simp only [verifyBitsLoop, List.getElem?_cons_succ, ih]

theorem nBytes_pos {bits : Nat} (h : 1 ≤ bits) : 1 ≤ nBytes bits := by unfold nBytes; split <;> omega
theorem nBytes_sub {bits : Nat} (h : 8 < bits) : nBytes (bits - 8) + 1 = nBytes bits := by
  unfold nBytes; have : (bits - 8) % 8 = bits % 8 := by omega
  rw [this]; split <;> omega
theorem nBytes_small {bits : Nat} (h1 : 1 ≤ bits) (h : bits ≤ 8) : nBytes bits = 1 := by
  unfold nBytes; split <;> omega

theorem loop_iff (hash : Bytes) (hb : ∀ b ∈ hash, b < 256) :
    ∀ bits, 1 ≤ bits → nBytes bits ≤ hash.length →
      verifyBitsLoop (hash.take (nBytes bits)) (nBytes bits) 0 bits = some (decide (bits ≤ leadingZeroBits hash)) := by
  induction hash with
  | nil => intro bits h1 hn; have := nBytes_pos h1; simp at hn; omega
  | cons b rest ih =>
    intro bits h1 hn
    have hb0 : b < 256 := hb b (by simp)
    have hrest : ∀ x ∈ rest, x < 256 := fun x hx => hb x (by simp [hx])
    have hle := lz8_le b
    rw [lzb_cons]
    by_cases hbig : 8 < bits
    · rw [← nBytes_sub hbig, List.take_succ_cons]
      simp only [verifyBitsLoop, List.getElem?_cons_zero, hbig, if_true, Nat.zero_add]
      by_cases hz : b = 0
      · subst hz
        have hn' : nBytes (bits - 8) ≤ rest.length := by
          have := nBytes_sub hbig; simp at hn; omega
        rw [if_neg (by simp), loop_cons, ih hrest (bits - 8) (by omega) hn']
        have : lz8 0 = 8 := (lz8_full 0 (by omega)).mpr rfl
        simp only [this, if_true]
        congr 1; apply decide_eq_decide.mpr; omega
      · rw [if_pos hz]
        have : lz8 b ≠ 8 := fun h => hz ((lz8_full b hb0).mp h)
        simp only [this, if_false]
        simp; omega
    · have hs : bits ≤ 8 := by omega
      rw [nBytes_small h1 hs]
      simp only [List.take_succ_cons, List.take_zero, verifyBitsLoop, List.getElem?_cons_zero,
        gt_iff_lt, hbig, if_false]
      have key := lz8_shift b hb0 bits (by omega) h1
      by_cases hsh : b >>> (8 - bits) = 0
      · rw [if_pos hsh]; have := key.mp hsh
        split <;> simp <;> omega
      · rw [if_neg hsh]; have : ¬ bits ≤ lz8 b := fun h => hsh (key.mpr h)
        split <;> simp <;> omega

/-- **C31 bit test.**  For ALL bit counts and ALL byte strings long enough to hold them, `verifyBits` as called by
`Verify`/`Solve` (`hash[:n]`, `n = ⌈bits/8⌉`) is exactly "the hash starts with at least `bits` zero bits". -/
theorem verifyBits_iff (hash : Bytes) (bits : Nat) (hb : ∀ b ∈ hash, b < 256) (hn : nBytes bits ≤ hash.length) :
    verifyBits (hash.take (nBytes bits)) bits (nBytes bits) = some (decide (bits ≤ leadingZeroBits hash)) := by
  unfold verifyBits
  by_cases h0 : bits = 0
  · simp [h0]
  · rw [if_neg h0]; exact loop_iff hash hb bits (by omega) hn

/-! decimal round trip -/
theorem parseDigits_append (acc : Nat) (l : Bytes) (d : Nat) (hd : isDigit d = true) :
    parseDigits acc (l ++ [d]) = (parseDigits acc l).map (fun a => a * 10 + (d - 48)) := by
  induction l generalizing acc with
  | nil => simp [parseDigits, hd]
  | cons c cs ih => simp only [List.cons_append, parseDigits]; split <;> simp [ih]

theorem dec_step (n : Nat) (h : ¬ n < 10) : dec n = dec (n / 10) ++ [48 + n % 10] := by
  unfold dec; rw [decRev, if_neg h]; simp

theorem dec_small (n : Nat) (h : n < 10) : dec n = [48 + n] := by
  unfold dec; rw [decRev, if_pos h]; rfl

theorem parseDigits_dec (n : Nat) : parseDigits 0 (dec n) = some n := by
  induction n using Nat.strongRecOn with
  | ind n ih =>
    by_cases h : n < 10
    · rw [dec_small n h]; simp [parseDigits, isDigit]; omega
    · rw [dec_step n h, parseDigits_append _ _ _ (by simp [isDigit]; omega), ih (n / 10) (by omega)]
      simp; omega

theorem dec_ne_nil (n : Nat) : dec n ≠ [] := by
  by_cases h : n < 10
  · rw [dec_small n h]; simp
  · rw [dec_step n h]; simp

theorem dec_digits (n : Nat) : ∀ c ∈ dec n, isDigit c = true := by
  induction n using Nat.strongRecOn with
  | ind n ih =>
    by_cases h : n < 10
    · rw [dec_small n h]; simp [isDigit]; omega
    · rw [dec_step n h]; intro c hc
      rcases List.mem_append.mp hc with hc | hc
      · exact ih (n / 10) (by omega) c hc
      · simp at hc; subst hc; simp [isDigit]; omega

theorem parseNat_dec (n : Nat) : parseNat (dec n) = some n := by
  unfold parseNat; rw [if_neg (dec_ne_nil n)]; exact parseDigits_dec n

/-- `ParseInt(FormatInt(n)) = n` for every non-negative int64 -/
theorem parseGoInt_dec (n : Nat) (h : n < 2^63) : parseGoInt (dec n) = some (n : Int) := by
  have hne := dec_ne_nil n
  have hd := dec_digits n
  unfold parseGoInt
  split
  · rename_i r heq; have := hd 43 (by rw [heq]; simp); simp [isDigit] at this
  · rename_i r heq; have := hd 45 (by rw [heq]; simp); simp [isDigit] at this
  · rw [parseNat_dec]; simp [h]

theorem split1_nosep (sep : Nat) (p : Bytes) (h : sep ∉ p) : split1 sep p = (p, []) := by
  induction p with
  | nil => rfl
  | cons c cs ih =>
    have hc : c ≠ sep := fun e => h (by simp [e])
    have hcs : sep ∉ cs := fun m => h (by simp [m])
    simp [split1, hc, ih hcs]

theorem split1_append (sep : Nat) (p rest : Bytes) (h : sep ∉ p) :
    split1 sep (p ++ sep :: rest) = (p, splitOn sep rest) := by
  induction p with
  | nil => simp [split1, splitOn]
  | cons c cs ih =>
    have hc : c ≠ sep := fun e => h (by simp [e])
    have hcs : sep ∉ cs := fun m => h (by simp [m])
    simp [split1, hc, ih hcs]

/-- `strings.Split(strings.Join(parts, sep), sep) = parts` when no part contains the separator -/
theorem splitOn_join (sep : Nat) (p : Bytes) (ps : List Bytes) (h : ∀ q ∈ p :: ps, sep ∉ q) :
    splitOn sep (join sep (p :: ps)) = p :: ps := by
  induction ps generalizing p with
  | nil => simp [join, splitOn, split1_nosep sep p (h p (by simp))]
  | cons q qs ih =>
    have hp : sep ∉ p := h p (by simp)
    have := ih q (fun x hx => h x (by simp [hx]))
    have e : splitOn sep (join sep (p :: q :: qs)) = p :: splitOn sep (join sep (q :: qs)) := by
      simp only [join]; unfold splitOn; rw [split1_append sep p _ hp]; rfl
    rw [e, this]

/-! ## Verify / VerifySolution -/

theorem satDur_neg_iff (d : Int) : satDur d < 0 ↔ d < 0 := by
  unfold satDur maxDur minDur; split
  · omega
  · split <;> omega

theorem window_iff (d : Int) (E : Nat) (hE : 2 * (E : Int) < 2^63 - 1) :
    absDur (satDur d) > 2 * (E : Int) ↔ (d < -(2 * (E : Int)) ∨ d > 2 * (E : Int)) := by
  unfold absDur satDur maxDur minDur
  split <;> split <;> (try split) <;> (try split) <;> omega

theorem expired_iff (x : Option Nat) (now : Int) : expired x now = true ↔ ∃ e, x = some e ∧ expNs e < now := by
  cases x with
  | none => simp [expired]
  | some e => simp [expired, satDur_neg_iff]; omega

theorem hcVerify_ok_iff (sha : Bytes → Bytes) (hsha : ∀ s, ∀ b ∈ sha s, b < 256) (h : Hashcash) (subject : Bytes) (now : Int) :
    hcVerify sha h subject now = .ok () ↔
      h.alg = algSHA256 ∧ expired h.expiresAt now = false ∧ h.subject = subject ∧
      h.difficulty ≤ leadingZeroBits (sha (toStr h)) := by
  unfold hcVerify
  by_cases ha : h.alg = algSHA256
  case neg => simp [ha]
  by_cases hx : expired h.expiresAt now = true
  · simp [ha, hx]
  by_cases hs : subject = h.subject
  case neg => simp [ha, hx, hs]; intro h2; exact absurd h2.symm hs
  simp only [ha, hx, hs, ne_eq, not_true_eq_false, if_false, true_and]
  by_cases hn : nBytes h.difficulty > (sha (toStr h)).length
  · have := lzb_le (sha (toStr h))
    have : ¬ h.difficulty ≤ leadingZeroBits (sha (toStr h)) := by
      unfold nBytes at hn; split at hn <;> omega
    simp [hn, this]
  · rw [if_neg hn, verifyBits_iff _ _ (hsha _) (by omega)]
    by_cases hd : h.difficulty ≤ leadingZeroBits (sha (toStr h)) <;> simp [hd]


theorem colon_not_digit (n : Nat) : colon ∉ dec n := fun h => by
  have := dec_digits n colon h; simp [isDigit, colon] at this

/-- well-formed stamp: what `New` + `Solve` produce (fields without ':', numbers in int64 range) -/
structure WF (h : Hashcash) : Prop where
  diff : h.difficulty < 2^63
  exp : ∀ e, h.expiresAt = some e → e < 2^63
  sub : colon ∉ h.subject
  nonce : colon ∉ h.nonce
  alg : colon ∉ h.alg
  sol : colon ∉ h.solution

theorem parseExp_expStr (x : Option Nat) (hx : ∀ e, x = some e → e < 2^63) : parseExp (expStr x) = some x := by
  cases x with
  | none => simp [parseExp, expStr]
  | some e =>
    simp only [expStr, parseExp, if_neg (dec_ne_nil e), parseGoInt_dec e (hx e rfl)]
    simp

theorem colon_not_expStr (x : Option Nat) : colon ∉ expStr x := by
  cases x with
  | none => simp [expStr]
  | some e => exact colon_not_digit e

theorem parseFields_ok (h : Hashcash) (w : WF h) :
    parseFields tagH (dec h.difficulty) (expStr h.expiresAt) h.subject h.nonce h.alg h.solution = .ok h := by
  unfold parseFields
  rw [if_neg (by simp), parseGoInt_dec _ w.diff]
  simp only [parseExp_expStr _ w.exp]
  rw [if_neg (by omega)]; simp

/-- `Parse(h.String()) = h` for every well-formed stamp (solved or not) -/
theorem parse_toStr (h : Hashcash) (w : WF h) : parse (toStr h) = .ok h := by
  have hT : colon ∉ tagH := by decide
  have hparts : ∀ q ∈ [tagH, dec h.difficulty, expStr h.expiresAt, h.subject, h.nonce, h.alg], colon ∉ q := by
    intro q hq; simp at hq
    rcases hq with rfl | rfl | rfl | rfl | rfl | rfl
    · exact hT
    · exact colon_not_digit _
    · exact colon_not_expStr _
    · exact w.sub
    · exact w.nonce
    · exact w.alg
  unfold parse toStr
  by_cases hs : h.solution = []
  · rw [if_pos hs, List.append_nil, splitOn_join colon _ _ hparts]
    simp only; rw [← hs]; exact parseFields_ok h w
  · have e : join colon [tagH, dec h.difficulty, expStr h.expiresAt, h.subject, h.nonce, h.alg] ++ colon :: h.solution
        = join colon [tagH, dec h.difficulty, expStr h.expiresAt, h.subject, h.nonce, h.alg, h.solution] := by
      simp [join]
    rw [if_neg hs, e, splitOn_join colon _ _ (by
      intro q hq; simp at hq
      rcases hq with rfl | rfl | rfl | rfl | rfl | rfl | rfl
      · exact hT
      · exact colon_not_digit _
      · exact colon_not_expStr _
      · exact w.sub
      · exact w.nonce
      · exact w.alg
      · exact w.sol)]
    exact parseFields_ok h w

theorem not_expired_iff (h : Hashcash) (e : Nat) (he : h.expiresAt = some e) (now : Int) :
    expired h.expiresAt now = false ↔ now ≤ expNs e := by
  constructor
  · intro hx
    cases hlt : decide (expNs e < now) with
    | false => simpa using hlt
    | true =>
      have : expired h.expiresAt now = true := (expired_iff _ _).mpr ⟨e, he, by simpa using hlt⟩
      rw [hx] at this; cases this
  · intro hle
    cases hx : expired h.expiresAt now with
    | false => rfl
    | true => obtain ⟨e2, h2e, hlt⟩ := (expired_iff _ _).mp hx; rw [he] at h2e; cases h2e; omega

theorem verifyParsed_iff (sha : Bytes → Bytes) (hsha : ∀ s, ∀ b ∈ sha s, b < 256) (h : Hashcash)
    (required expiresNs : Nat) (subject : Bytes) (now1 now2 : Int) (hE : 2 * (expiresNs : Int) < 2^63 - 1) :
    verifyParsed sha h required expiresNs subject now1 now2 = .ok ↔
      h.difficulty = required ∧ ∃ e, h.expiresAt = some e ∧
        expNs e - 2 * (expiresNs : Int) ≤ now1 ∧ now1 ≤ expNs e + 2 * (expiresNs : Int) ∧ now2 ≤ expNs e ∧
        h.alg = algSHA256 ∧ h.subject = subject ∧ required ≤ leadingZeroBits (sha (toStr h)) := by
  have hv := hcVerify_ok_iff sha hsha h subject now2
  constructor
  · intro hres
    by_cases hd : h.difficulty = required
    case neg => simp [verifyParsed, hd] at hres
    cases he : h.expiresAt with
    | none => simp [verifyParsed, hd, he] at hres
    | some e =>
      have hw := window_iff (now1 - expNs e) expiresNs hE
      by_cases hfar : absDur (satDur (now1 - expNs e)) > 2 * (expiresNs : Int)
      · simp [verifyParsed, hd, he, hfar] at hres
      · have hin : ¬ (now1 - expNs e < -(2 * (expiresNs : Int)) ∨ now1 - expNs e > 2 * (expiresNs : Int)) :=
          fun x => hfar (hw.mpr x)
        cases hr : hcVerify sha h subject now2 with
        | error err => simp [verifyParsed, hd, he, hfar, hr] at hres
        | ok u =>
          obtain ⟨ha, hx, hs, hl⟩ := hv.mp hr
          exact ⟨hd, e, rfl, by omega, by omega, (not_expired_iff h e he now2).mp hx, ha, hs, by omega⟩
  · rintro ⟨hd, e, he, a, b, c, ha, hs, hl⟩
    have hr : hcVerify sha h subject now2 = .ok () :=
      hv.mpr ⟨ha, (not_expired_iff h e he now2).mpr c, hs, by omega⟩
    have hw := window_iff (now1 - expNs e) expiresNs hE
    have hfar : ¬ absDur (satDur (now1 - expNs e)) > 2 * (expiresNs : Int) := fun x => by
      rcases hw.mp x with y | y <;> omega
    simp [verifyParsed, hd, he, hr, hfar]

/-- **C31 acceptance condition.** `VerifySolution` returns success exactly when: key/signature have ed25519 sizes, the
signature over the solution string verifies under the presented key, the solution parses as a hashcash stamp `h` whose
difficulty is the required one, whose expiry `e` is set, not before `now2` (not expired) and at most `2·Expires` after `now1`
(within the window), whose algorithm is SHA-256, whose subject is the expected one, and SHA-256 of the canonical stamp string
starts with at least `required` zero bits.  (`now1 ≤ now2` are the two clock readings.) -/
theorem verifySolution_iff (sha : Bytes → Bytes) (hsha : ∀ s, ∀ b ∈ sha s, b < 256)
    (pubLen sigLen : Nat) (solution : Bytes) (sigOK : Bool) (required expiresNs : Nat) (subject : Bytes) (now1 now2 : Int)
    (hE : 2 * (expiresNs : Int) < 2^63 - 1) :
    verifySolution sha pubLen sigLen solution sigOK required expiresNs subject now1 now2 = .ok ↔
      pubLen = 32 ∧ sigLen = 64 ∧ sigOK = true ∧
      ∃ h e, parse solution = .ok h ∧ h.difficulty = required ∧ h.expiresAt = some e ∧
        expNs e - 2 * (expiresNs : Int) ≤ now1 ∧ now1 ≤ expNs e + 2 * (expiresNs : Int) ∧ now2 ≤ expNs e ∧
        h.alg = algSHA256 ∧ h.subject = subject ∧ required ≤ leadingZeroBits (sha (toStr h)) := by
  constructor
  · intro hres
    unfold verifySolution at hres
    by_cases h1 : pubLen = 32
    case neg => simp [h1] at hres
    by_cases h2 : sigLen = 64
    case neg => simp [h1, h2] at hres
    by_cases h3 : solution = []
    · simp [h1, h2, h3] at hres
    by_cases h4 : sigOK = true
    case neg => simp [h1, h2, h3, h4] at hres
    cases hp : parse solution with
    | error err => simp [h1, h2, h3, h4, hp] at hres
    | ok h =>
      simp only [h1, h2, h3, h4, hp, ne_eq, not_true_eq_false, if_false, Bool.not_true] at hres
      obtain ⟨hd, e, he, rest⟩ := (verifyParsed_iff sha hsha h required expiresNs subject now1 now2 hE).mp (by simpa using hres)
      exact ⟨h1, h2, h4, h, e, rfl, hd, he, rest⟩
  · rintro ⟨h1, h2, h4, h, e, hp, hd, he, rest⟩
    have h3 : solution ≠ [] := by
      intro h3; subst h3; simp [parse, splitOn, split1] at hp
    have := (verifyParsed_iff sha hsha h required expiresNs subject now1 now2 hE).mpr ⟨hd, e, he, rest⟩
    simp [verifySolution, h1, h2, h3, h4, hp, this]

/-! ## the proof names the expected subject (no hypotheses about SHA-256, the clock or the window) -/

/-- `Hashcash.Verify(subject)` succeeds only on a stamp whose own subject field IS `subject` — for every stamp subject,
including the default that `New` writes for an empty one and anything that looks like a pattern. -/
theorem hcVerify_names_subject (sha : Bytes → Bytes) (h : Hashcash) (subject : Bytes) (now : Int)
    (hok : hcVerify sha h subject now = .ok ()) : h.subject = subject := by
  by_cases hs : subject = h.subject
  · exact hs.symm
  · exfalso
    unfold hcVerify at hok
    by_cases ha : h.alg = algSHA256
    · by_cases hx : expired h.expiresAt now = true
      · simp [ha, hx] at hok
      · simp [ha, hx, hs] at hok
    · simp [ha] at hok

/-- a stamp that `Verify` accepts for one subject is rejected for every other subject (at any instants) -/
theorem hcVerify_subject_unique (sha : Bytes → Bytes) (h : Hashcash) (s1 s2 : Bytes) (n1 n2 : Int)
    (h1 : hcVerify sha h s1 n1 = .ok ()) (h2 : hcVerify sha h s2 n2 = .ok ()) : s1 = s2 :=
  (hcVerify_names_subject sha h s1 n1 h1).symm.trans (hcVerify_names_subject sha h s2 n2 h2)

theorem verifyParsed_names_subject (sha : Bytes → Bytes) (h : Hashcash) (required expiresNs : Nat) (subject : Bytes)
    (now1 now2 : Int) (hok : verifyParsed sha h required expiresNs subject now1 now2 = .ok) : h.subject = subject := by
  unfold verifyParsed at hok
  by_cases hd : h.difficulty = required
  case neg => simp [hd] at hok
  cases he : h.expiresAt with
  | none => simp [hd, he] at hok
  | some e =>
    cases hv : hcVerify sha h subject now2 with
    | ok u => cases u; exact hcVerify_names_subject sha h subject now2 hv
    | error err =>
      simp only [hd, he, hv, ne_eq, not_true_eq_false, if_false] at hok
      split at hok <;> cases hok

/-- an accepted proof carries a stamp that names the expected subject -/
theorem accepted_names_subject (sha : Bytes → Bytes) (pubLen sigLen : Nat) (solution : Bytes) (sigOK : Bool)
    (required expiresNs : Nat) (subject : Bytes) (now1 now2 : Int)
    (hok : verifySolution sha pubLen sigLen solution sigOK required expiresNs subject now1 now2 = .ok) :
    ∃ h, parse solution = .ok h ∧ h.subject = subject := by
  unfold verifySolution at hok
  by_cases h1 : pubLen = 32
  case neg => simp [h1] at hok
  by_cases h2 : sigLen = 64
  case neg => simp [h1, h2] at hok
  by_cases h3 : solution = []
  · simp [h1, h2, h3] at hok
  by_cases h4 : sigOK = true
  case neg => simp [h1, h2, h3, h4] at hok
  cases hp : parse solution with
  | error err => simp [h1, h2, h3, h4, hp] at hok
  | ok h =>
    simp only [h1, h2, h3, h4, hp, ne_eq, not_true_eq_false, if_false, Bool.not_true] at hok
    exact ⟨h, rfl, verifyParsed_names_subject sha h required expiresNs subject now1 now2 (by simpa using hok)⟩

/-- one piece of work serves one subject: the same solution string — whoever signs it, whichever key presents it, under
whatever difficulty / window parameters and at whatever instants — is never accepted for two different expected subjects. -/
theorem proof_serves_one_subject (sha : Bytes → Bytes) (solution : Bytes)
    (pubLen sigLen : Nat) (sigOK : Bool) (required expiresNs : Nat) (s1 : Bytes) (a1 a2 : Int)
    (pubLen' sigLen' : Nat) (sigOK' : Bool) (required' expiresNs' : Nat) (s2 : Bytes) (b1 b2 : Int)
    (h1 : verifySolution sha pubLen sigLen solution sigOK required expiresNs s1 a1 a2 = .ok)
    (h2 : verifySolution sha pubLen' sigLen' solution sigOK' required' expiresNs' s2 b1 b2 = .ok) : s1 = s2 := by
  obtain ⟨h, hp, hs⟩ := accepted_names_subject sha pubLen sigLen solution sigOK required expiresNs s1 a1 a2 h1
  obtain ⟨h', hp', hs'⟩ := accepted_names_subject sha pubLen' sigLen' solution sigOK' required' expiresNs' s2 b1 b2 h2
  rw [hp] at hp'
  cases hp'
  exact hs.symm.trans hs'

/-! ## Solve -/

theorem solveLoop_sound (sha b64 : Bytes → Bytes) (pre : Bytes) (bits : Nat) (fuel c : Nat) (sol : Bytes)
    (h : solveLoop sha b64 pre bits fuel c = some sol) :
    (∃ c', sol = b64 (le32 c')) ∧ nBytes bits ≤ (sha (pre ++ colon :: sol)).length ∧
      verifyBits ((sha (pre ++ colon :: sol)).take (nBytes bits)) bits (nBytes bits) = some true := by
  induction fuel generalizing c with
  | zero => simp [solveLoop] at h
  | succ f ih =>
    simp only [solveLoop] at h
    split at h
    · rename_i hc; cases h; exact ⟨⟨c, rfl⟩, hc.1, hc.2⟩
    · exact ih _ h

theorem toStr_solved (h : Hashcash) (sol : Bytes) (hs : sol ≠ []) :
    toStr { h with solution := sol } = toStr { h with solution := [] } ++ colon :: sol := by
  simp [toStr, hs]

/-- **Solver output passes the bit test and keeps the parameters.**  Whatever stamp `Solve` returns (the fresh search or the
early return for an already valid solution) has the same difficulty/expiry/subject/nonce, algorithm SHA-256, and its
canonical string hashes to at least `difficulty` leading zero bits. -/
theorem solve_sound (sha b64 : Bytes → Bytes) (hsha : ∀ s, ∀ b ∈ sha s, b < 256) (hb64 : ∀ x, b64 x ≠ [])
    (h h' : Hashcash) (maxD : Nat) (now : Int) (fuel : Nat) (hs : solve sha b64 h maxD now fuel = .ok h') :
    h'.difficulty = h.difficulty ∧ h'.expiresAt = h.expiresAt ∧ h'.subject = h.subject ∧ h'.nonce = h.nonce ∧
      h'.alg = algSHA256 ∧ h.difficulty ≤ maxD ∧ h.difficulty ≤ maxDifficulty ∧
      h.difficulty ≤ leadingZeroBits (sha (toStr h')) := by
  unfold solve at hs
  by_cases ha : h.alg = algSHA256
  case neg => simp [ha] at hs
  by_cases hd : h.difficulty > maxD ∨ h.difficulty > maxDifficulty
  · simp [ha, hd] at hs
  have hd1 : h.difficulty ≤ maxD := by omega
  have hd2 : h.difficulty ≤ maxDifficulty := by omega
  by_cases hv : h.solution ≠ [] ∧ isOk (hcVerify sha h h.subject now) = true
  · rw [if_neg (fun x => x ha), if_neg hd, if_pos hv] at hs
    cases hs
    have : hcVerify sha h h.subject now = .ok () := by
      cases hr : hcVerify sha h h.subject now with
      | error e => have := hv.2; simp [hr, isOk] at this
      | ok u => rfl
    have := (hcVerify_ok_iff sha hsha h h.subject now).mp this
    exact ⟨rfl, rfl, rfl, rfl, ha, hd1, hd2, this.2.2.2⟩
  · rw [if_neg (fun x => x ha), if_neg hd, if_neg hv] at hs
    cases hl : solveLoop sha b64 (toStr { h with solution := [] }) h.difficulty fuel 0 with
    | none => simp [hl] at hs
    | some sol =>
      simp only [hl] at hs; cases hs
      obtain ⟨⟨c', hc'⟩, hn, hvb⟩ := solveLoop_sound _ _ _ _ _ _ _ hl
      have hne : sol ≠ [] := by rw [hc']; exact hb64 _
      refine ⟨rfl, rfl, rfl, rfl, ha, hd1, hd2, ?_⟩
      rw [toStr_solved h sol hne]
      rw [verifyBits_iff _ _ (hsha _) hn] at hvb
      simpa using hvb

/-- **Solver-produced proofs are accepted.**  Take a fresh stamp `h` (as built by `hashcash.New` in `GenerateSolution`:
subject = `GetSubject pubKey`, expiry `e`), let `Solve` return `h'`, sign `h'.String()` with the key (hypothesis `sigOK = true`
is ed25519 correctness) and present it to `VerifySolution` with the same parameters while `now1 ≤ now2 ≤ e` and
`e ≤ now1 + 2·Expires`: it is accepted. -/
theorem solved_proof_accepted (sha b64 : Bytes → Bytes) (hsha : ∀ s, ∀ b ∈ sha s, b < 256)
    (hb64 : ∀ x, b64 x ≠ [] ∧ colon ∉ b64 x)
    (h h' : Hashcash) (w : WF h) (maxD : Nat) (now0 : Int) (fuel : Nat) (hsol : h.solution = [])
    (hs : solve sha b64 h maxD now0 fuel = .ok h')
    (e : Nat) (he : h.expiresAt = some e) (expiresNs : Nat) (hE : 2 * (expiresNs : Int) < 2^63 - 1) (now1 now2 : Int)
    (hw1 : expNs e - 2 * (expiresNs : Int) ≤ now1) (hw2 : now1 ≤ now2) (hw3 : now2 ≤ expNs e) :
    verifySolution sha 32 64 (toStr h') true h.difficulty expiresNs h.subject now1 now2 = .ok := by
  obtain ⟨e1, e2, e3, e4, e5, _, _, e6⟩ := solve_sound sha b64 hsha (fun x => (hb64 x).1) h h' maxD now0 fuel hs
  have w' : WF h' := by
    refine ⟨e1 ▸ w.diff, e2 ▸ w.exp, e3 ▸ w.sub, e4 ▸ w.nonce, by rw [e5]; decide, ?_⟩
    -- the solution is a base64 string (no ':')
    unfold solve at hs
    by_cases ha : h.alg = algSHA256
    case neg => simp [ha] at hs
    by_cases hd : h.difficulty > maxD ∨ h.difficulty > maxDifficulty
    · simp [ha, hd] at hs
    rw [if_neg (fun x => x ha), if_neg hd, if_neg (fun x => x.1 hsol)] at hs
    cases hl : solveLoop sha b64 (toStr { h with solution := [] }) h.difficulty fuel 0 with
    | none => simp [hl] at hs
    | some sol =>
      simp only [hl] at hs; cases hs
      obtain ⟨⟨c', hc'⟩, _, _⟩ := solveLoop_sound _ _ _ _ _ _ _ hl
      show colon ∉ sol
      rw [hc']; exact (hb64 _).2
  exact (verifySolution_iff sha hsha 32 64 (toStr h') true h.difficulty expiresNs h.subject now1 now2 hE).mpr
    ⟨rfl, rfl, rfl, h', e, parse_toStr h' w', e1, by rw [e2, he], hw1, by omega, hw3, e5, e3, e6⟩

/-! ## Solve on a stamp that already carries a solution (re-solve after the parameters changed, foreign/garbage solution) -/

theorem isOk_iff (r : Except VErr Unit) : isOk r = true ↔ r = .ok () := by
  cases r with
  | error e => simp [isOk]
  | ok u => simp [isOk]

/-- **A stale solution is discarded before the search.**  When the stamp carries a solution that does not verify (now), `Solve`
behaves exactly as on the same stamp without a solution: the prefix that is hashed during the search is the canonical string
WITHOUT the old solution, so the old solution influences neither the counter found nor the stamp returned. -/
theorem solve_stale_eq_fresh (sha b64 : Bytes → Bytes) (h : Hashcash) (maxD : Nat) (now : Int) (fuel : Nat)
    (hstale : hcVerify sha h h.subject now ≠ .ok ()) :
    solve sha b64 h maxD now fuel = solve sha b64 { h with solution := [] } maxD now fuel := by
  have hv : ¬ (h.solution ≠ [] ∧ isOk (hcVerify sha h h.subject now) = true) :=
    fun x => hstale ((isOk_iff _).mp x.2)
  unfold solve
  simp only [hv, if_false, ne_eq, not_true_eq_false, false_and]

/-- **A still valid solution is kept** (the early return of `Solve`). -/
theorem solve_valid_kept (sha b64 : Bytes → Bytes) (h : Hashcash) (maxD : Nat) (now : Int) (fuel : Nat)
    (ha : h.alg = algSHA256) (hd : h.difficulty ≤ maxD ∧ h.difficulty ≤ maxDifficulty) (hne : h.solution ≠ [])
    (hvalid : hcVerify sha h h.subject now = .ok ()) :
    solve sha b64 h maxD now fuel = .ok h := by
  unfold solve
  rw [if_neg (fun x => x ha), if_neg (by omega), if_pos ⟨hne, (isOk_iff _).mpr hvalid⟩]

/-- **Whatever `Solve` returns verifies** — for EVERY starting stamp, with or without a (valid, stale, foreign) solution:
the returned stamp passes `Hashcash.Verify` with the stamp's own subject at every instant at which it has not expired. -/
theorem solve_verifies (sha b64 : Bytes → Bytes) (hsha : ∀ s, ∀ b ∈ sha s, b < 256) (hb64 : ∀ x, b64 x ≠ [])
    (h h' : Hashcash) (maxD : Nat) (now : Int) (fuel : Nat) (hs : solve sha b64 h maxD now fuel = .ok h')
    (now' : Int) (hx : expired h.expiresAt now' = false) :
    hcVerify sha h' h.subject now' = .ok () := by
  obtain ⟨_, e2, e3, _, e5, _, _, e6⟩ := solve_sound sha b64 hsha hb64 h h' maxD now fuel hs
  have e1 := (solve_sound sha b64 hsha hb64 h h' maxD now fuel hs).1
  exact (hcVerify_ok_iff sha hsha h' h.subject now').mpr ⟨e5, by rw [e2]; exact hx, e3, by rw [e1]; exact e6⟩

/-- the solution of a returned stamp is the old (well-formed) one or a base64 string: no ':' either way -/
theorem solve_solution_nocolon (sha b64 : Bytes → Bytes) (hb64 : ∀ x, colon ∉ b64 x)
    (h h' : Hashcash) (maxD : Nat) (now : Int) (fuel : Nat) (hsol : colon ∉ h.solution)
    (hs : solve sha b64 h maxD now fuel = .ok h') : colon ∉ h'.solution := by
  unfold solve at hs
  by_cases ha : h.alg = algSHA256
  case neg => simp [ha] at hs
  by_cases hd : h.difficulty > maxD ∨ h.difficulty > maxDifficulty
  · simp [ha, hd] at hs
  by_cases hv : h.solution ≠ [] ∧ isOk (hcVerify sha h h.subject now) = true
  · rw [if_neg (fun x => x ha), if_neg hd, if_pos hv] at hs
    cases hs; exact hsol
  · rw [if_neg (fun x => x ha), if_neg hd, if_neg hv] at hs
    cases hl : solveLoop sha b64 (toStr { h with solution := [] }) h.difficulty fuel 0 with
    | none => simp [hl] at hs
    | some sol =>
      simp only [hl] at hs; cases hs
      obtain ⟨⟨c', hc'⟩, _, _⟩ := solveLoop_sound _ _ _ _ _ _ _ hl
      show colon ∉ sol
      rw [hc']; exact hb64 _

/-- **Re-solved proofs are accepted.**  `solved_proof_accepted` without the "fresh stamp" hypothesis: start from ANY
well-formed stamp `h` — unsolved, carrying a still valid solution, or carrying a stale one (solved earlier and then
re-targeted to another difficulty / subject / expiry / nonce, or parsed with a foreign solution) — let `Solve` return `h'`,
sign `h'.String()` and present it to `VerifySolution` under `h`'s parameters inside the time window: it is accepted. -/
theorem resolved_proof_accepted (sha b64 : Bytes → Bytes) (hsha : ∀ s, ∀ b ∈ sha s, b < 256)
    (hb64 : ∀ x, b64 x ≠ [] ∧ colon ∉ b64 x)
    (h h' : Hashcash) (w : WF h) (maxD : Nat) (now0 : Int) (fuel : Nat)
    (hs : solve sha b64 h maxD now0 fuel = .ok h')
    (e : Nat) (he : h.expiresAt = some e) (expiresNs : Nat) (hE : 2 * (expiresNs : Int) < 2^63 - 1) (now1 now2 : Int)
    (hw1 : expNs e - 2 * (expiresNs : Int) ≤ now1) (hw2 : now1 ≤ now2) (hw3 : now2 ≤ expNs e) :
    verifySolution sha 32 64 (toStr h') true h.difficulty expiresNs h.subject now1 now2 = .ok := by
  obtain ⟨e1, e2, e3, e4, e5, _, _, e6⟩ := solve_sound sha b64 hsha (fun x => (hb64 x).1) h h' maxD now0 fuel hs
  have w' : WF h' :=
    ⟨e1 ▸ w.diff, e2 ▸ w.exp, e3 ▸ w.sub, e4 ▸ w.nonce, by rw [e5]; decide,
      solve_solution_nocolon sha b64 (fun x => (hb64 x).2) h h' maxD now0 fuel w.sol hs⟩
  exact (verifySolution_iff sha hsha 32 64 (toStr h') true h.difficulty expiresNs h.subject now1 now2 hE).mpr
    ⟨rfl, rfl, rfl, h', e, parse_toStr h' w', e1, by rw [e2, he], hw1, by omega, hw3, e5, e3, e6⟩

/-! ## non-vacuity -/

def shaZ : Bytes → Bytes := fun _ => List.replicate 32 0     -- a "hash" with 256 leading zero bits
def shaF : Bytes → Bytes := fun _ => 0 :: 63 :: List.replicate 30 255   -- exactly 10 leading zero bits
def b64A : Bytes → Bytes := fun _ => [65]
def stamp : Bytes := [72,58,49,48,58,49,48,48,58,115,58,110,58,83,72,65,45,50,53,54,58,65]  -- "H:10:100:s:n:SHA-256:A"
def stamp0 : Hashcash := { difficulty := 10, expiresAt := some 100, subject := [115], nonce := [110], alg := algSHA256, solution := [] }

example : leadingZeroBits (shaF []) = 10 := by decide
example : verifyBits ((shaF []).take (nBytes 10)) 10 (nBytes 10) = some true := by decide
example : verifyBits ((shaF []).take (nBytes 11)) 11 (nBytes 11) = some false := by decide
example : verifySolution shaF 32 64 stamp true 10 10000000000 [115] 95000000000 95000000001 = .ok := by decide
example : verifySolution shaF 32 64 stamp true 10 10000000000 [115] 100000000001 100000000001 = .verify .expired := by decide
example : verifySolution shaF 32 64 stamp true 10 10000000000 [115] 79999999999 80000000000 = .tooFar := by decide
example : verifySolution shaF 32 64 stamp true 11 10000000000 [115] 95000000000 95000000001 = .wrongDifficulty := by decide
example : verifySolution shaF 32 64 stamp true 10 10000000000 [116] 95000000000 95000000001 = .verify .subject := by decide
example : (match parse stamp with | .ok h => decide (h = { stamp0 with solution := [65] }) | .error _ => false) = true := by decide
example : (match solve shaF b64A stamp0 26 0 1 with | .ok h => decide (h = { stamp0 with solution := [65] }) | .error _ => false) = true := by decide
example : WF stamp0 := ⟨by decide, by intro e h; cases h; decide, by decide, by decide, by decide, by decide⟩

/-- a "hash" that has 10 leading zero bits exactly on strings ending in 'A' and none otherwise -/
def shaD : Bytes → Bytes := fun s => if s.getLast? = some 65 then shaF [] else List.replicate 32 255
def stampStale : Hashcash := { stamp0 with solution := [66] }     -- "…:SHA-256:B": does not verify under shaD
def stampValid : Hashcash := { stamp0 with solution := [67, 65] } -- "…:SHA-256:CA": verifies under shaD

-- the stale solution is discarded (hypothesis of `solve_stale_eq_fresh` holds) and the re-solved stamp is the fresh one
-- (`decide +kernel`: `toStr` prints numbers with the well-founded `dec`, which only the kernel evaluates; no extra axiom)
example : isOk (hcVerify shaD stampStale stampStale.subject 0) = false := by decide +kernel
example : (match solve shaD b64A stampStale 26 0 1 with | .ok h => decide (h = { stamp0 with solution := [65] }) | .error _ => false) = true := by decide +kernel
example : (match solve shaD b64A stampStale 26 0 1, solve shaD b64A stamp0 26 0 1 with | .ok a, .ok b => decide (a = b) | _, _ => false) = true := by decide +kernel
-- the still valid one is kept (hypotheses of `solve_valid_kept`)
example : isOk (hcVerify shaD stampValid stampValid.subject 0) = true := by decide +kernel
example : (match solve shaD b64A stampValid 26 0 1 with | .ok h => decide (h = stampValid) | .error _ => false) = true := by decide +kernel
-- hypotheses of `solve_verifies` / `resolved_proof_accepted` on the stale stamp
example : WF stampStale := ⟨by decide, by intro e h; cases h; decide, by decide, by decide, by decide, by decide⟩
example : expired stampStale.expiresAt 95000000001 = false := by decide
example : verifySolution shaD 32 64 stamp true 10 10000000000 [115] 95000000000 95000000001 = .ok := by decide +kernel

-- subject: the stamp "H:10:100:*:n:SHA-256:A" (the subject `New` writes for an empty one) has the bits under shaF, is accepted
-- for the expected subject "*" and for no other; `stamp` (subject "s") is accepted for "s" only
def stampStar : Bytes := [72,58,49,48,58,49,48,48,58,42,58,110,58,83,72,65,45,50,53,54,58,65]
example : verifySolution shaF 32 64 stampStar true 10 10000000000 [42] 95000000000 95000000001 = .ok := by decide
example : verifySolution shaF 32 64 stampStar true 10 10000000000 [115] 95000000000 95000000001 = .verify .subject := by decide
example : verifySolution shaF 32 64 stamp true 10 10000000000 [42] 95000000000 95000000001 = .verify .subject := by decide
example : isOk (hcVerify shaF { stamp0 with subject := [42], solution := [65] } [42] 0) = true := by decide
example : isOk (hcVerify shaF { stamp0 with subject := [42], solution := [65] } [115] 0) = false := by decide

end Specter.C31
