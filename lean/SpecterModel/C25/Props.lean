import SpecterModel.C25.Model
/-!
# C25 — Tunnel control RPCs require a verified, registered client

Theorems quantify over every DHT state type and state, every caller, every method name, and every
handler behaviour (`handler` is an arbitrary function: this is the quantification over request bodies
and over what the handlers would do). The method sets, the allow-list and the hook wiring are the
GENERATED facts of `Gen.C25` (regenerated from the twirp interfaces and client_rpc.go on every run).
-/
namespace Specter.C25
open Gen.C25

variable {σ ρ : Type}

/-- The hook refuses — and leaves the DHT untouched — unless the method is allow-listed or the caller has a
verified certificate whose token is registered. -/
theorem gate_refuses (W : World σ) (allow : List String) (m : String) (c : Caller) (st : σ)
    (hm : m ∉ allow) (hc : ¬ authorized W st c) :
    ∃ code, gate W allow m c st = (st, some code) := by
  cases c with
  | noDelegation => exact ⟨"internal", by simp [gate]⟩
  | noCert => exact ⟨"unauthenticated", by simp [gate, hm]⟩
  | badSubject => exact ⟨"unauthenticated", by simp [gate, hm]⟩
  | panicSubject => exact ⟨"panic", by simp [gate, hm]⟩
  | token t =>
    simp only [authorized, not_exists] at hc
    refine ⟨"unauthenticated", ?_⟩
    cases h : W.tokenRec st t with
    | client old => exact absurd h (hc old)
    | absent => simp [gate, hm, h]
    | kvError => simp [gate, hm, h]
    | undecodable => simp [gate, hm, h]

/-- C25: a call to a non-allow-listed method by a caller without verified certificate or with an
unregistered token is refused, the handler never runs (whatever it is, whatever the body) and the DHT is
unchanged. -/
theorem refused_changes_nothing (W : World σ) (allow : List String) (handler : String → Caller → σ → σ × ρ)
    (m : String) (c : Caller) (st : σ) (hm : m ∉ allow) (hc : ¬ authorized W st c) :
    (rpc W allow handler m c st).1 = st
    ∧ ((rpc W allow handler m c st).2 = .badRoute ∨ ∃ code, (rpc W allow handler m c st).2 = .denied code) := by
  unfold rpc
  by_cases hr : m ∉ allMethods
  · simp [hr]
  · obtain ⟨code, hg⟩ := gate_refuses W allow m c st hm hc
    refine ⟨?_, Or.inr ⟨code, ?_⟩⟩ <;> simp [hr, hg]

/-- Conversely: whenever a handler ran, the method was allow-listed or the caller was authorized; and a
context without delegation never reaches any handler. -/
theorem handled_only_if_authorized (W : World σ) (allow : List String) (handler : String → Caller → σ → σ × ρ)
    (m : String) (c : Caller) (st : σ) (r : ρ) (h : (rpc W allow handler m c st).2 = .handled r) :
    c ≠ .noDelegation ∧ (m ∈ allow ∨ authorized W st c) := by
  constructor
  · intro hc; subst hc
    unfold rpc at h
    by_cases hr : m ∉ allMethods <;> simp [hr, gate] at h
  · by_cases hm : m ∈ allow
    · exact Or.inl hm
    · by_cases hc : authorized W st c
      · exact Or.inr hc
      · rcases (refused_changes_nothing W allow handler m c st hm hc).2 with h' | ⟨code, h'⟩ <;>
          rw [h'] at h <;> cases h

/-- An authorized caller does reach the handler of every routed method (the gate is not vacuous); the only
DHT write the gate itself may do is rewriting the caller's own old-format token record. -/
theorem authorized_passes (W : World σ) (allow : List String) (m : String) (t : String) (st : σ)
    (old : Bool) (h : W.tokenRec st t = .client old) :
    gate W allow m (.token t) st = (st, none) ∨ gate W allow m (.token t) st = (W.saveToken st t, none) := by
  by_cases hm : m ∈ allow
  · left; simp [gate, hm]
  · cases old <;> simp [gate, hm, h]

/-! ## the generated facts about the real RPC surface -/

/-- the allow-list in the routing hook is exactly {Ping, RegisterIdentity}. -/
theorem allowList_expected : allowList = ["Ping", "RegisterIdentity"] := by decide

/-- every method of both services except the two allow-listed ones falls into the authenticated default
branch. -/
theorem gated_methods :
    allMethods.filter (fun m => !(allowList.contains m))
      = ["GetNodes", "GenerateHostname", "RegisteredHostnames", "PublishTunnel", "UnpublishTunnel",
         "ReleaseTunnel", "AcmeInstruction", "AcmeValidate", "GetCertificate", "Sign"] := by decide

/-- both twirp servers are built with the hook, the default branch authenticates, and the delegation check
comes first. -/
theorem hook_wiring : hookedServices = ["TunnelService", "KeylessService"]
    ∧ defaultGuarded = true ∧ delegationCheckedFirst = true := by decide

/-- C25 on the real surface: for every TunnelService / KeylessService method other than Ping and
RegisterIdentity, an unauthorized call is denied with the DHT unchanged. -/
theorem every_gated_method_refuses (W : World σ) (handler : String → Caller → σ → σ × ρ)
    (m : String) (hmem : m ∈ allMethods) (hP : m ≠ "Ping") (hR : m ≠ "RegisterIdentity")
    (c : Caller) (st : σ) (hc : ¬ authorized W st c) :
    ∃ code, rpc W allowList handler m c st = (st, .denied code) := by
  have hm : m ∉ allowList := by rw [allowList_expected]; simp [hP, hR]
  obtain ⟨code, hg⟩ := gate_refuses W allowList m c st hm hc
  exact ⟨code, by simp [rpc, hmem, hg]⟩

/-! ## the allow-listed handlers -/

theorem ping_changes_nothing (c : Caller) (st : σ) : (ping c st).1 = st := rfl

/-- identity registration itself needs a verified certificate, and writes nothing without one. -/
theorem registerIdentity_needs_cert (W : World σ) (d s : Bool) (c : Caller) (st : σ)
    (hc : ∀ t, c ≠ .token t) :
    (registerIdentity W d s c st).1 = st ∧ ∃ code, (registerIdentity W d s c st).2 = .err code := by
  cases c with
  | token t => exact absurd rfl (hc t)
  | noDelegation => exact ⟨rfl, _, rfl⟩
  | noCert => exact ⟨rfl, _, rfl⟩
  | badSubject => exact ⟨rfl, _, rfl⟩
  | panicSubject => exact ⟨rfl, _, rfl⟩

/-- the only state change of RegisterIdentity is the caller's own token record. -/
theorem registerIdentity_writes_own_token (W : World σ) (d s : Bool) (c : Caller) (st : σ) :
    (registerIdentity W d s c st).1 = st ∨ ∃ t, c = .token t ∧ (registerIdentity W d s c st).1 = W.saveToken st t := by
  cases c with
  | token t =>
    cases d <;> cases s <;> simp [registerIdentity]
  | noDelegation => exact Or.inl rfl
  | noCert => exact Or.inl rfl
  | badSubject => exact Or.inl rfl
  | panicSubject => exact Or.inl rfl

/-! ## non-vacuity: a concrete DHT (association list token ↦ record) -/

private def W0 : World (List (String × TokenRec)) where
  tokenRec st t := match st.find? (·.1 == t) with | some (_, r) => r | none => .absent
  saveToken st t := (t, .client false) :: st

private def st0 : List (String × TokenRec) := [("alice", .client false), ("old", .client true), ("junk", .undecodable)]
private def h0 : String → Caller → List (String × TokenRec) → List (String × TokenRec) × Nat :=
  fun _ _ st => (("evil", .client false) :: st, 7)   -- a handler that always writes

example : "PublishTunnel" ∈ allMethods ∧ "PublishTunnel" ∉ allowList := by decide
example : ¬ authorized W0 st0 (.token "mallory") := by simp [authorized, W0, st0]
example : ¬ authorized W0 st0 (.token "junk") := by simp [authorized, W0, st0]
example : (rpc W0 allowList h0 "PublishTunnel" (.token "mallory") st0).1 = st0 := by decide
example : (rpc W0 allowList h0 "PublishTunnel" (.token "alice") st0).1 = ("evil", .client false) :: st0 := by decide
example : (rpc W0 allowList h0 "Sign" .noCert st0).1 = st0 := by decide
example : (rpc W0 allowList h0 "Ping" .noCert st0).1 = ("evil", .client false) :: st0 := by decide
example : authorized W0 st0 (.token "alice") := ⟨false, by decide⟩
example : (gate W0 allowList "GetNodes" (.token "old") st0) = (("old", .client false) :: st0, none) := by decide

end Specter.C25
