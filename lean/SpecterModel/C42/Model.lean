/-! C42 executable model of `StreamRouter` (spec/transport/router.go).
Kinds, virtual-node ids and handler tags are `Nat`.  The state mirrors the three tables:
`virt` = `virtualChordHandlers` (kind ↦ per-kind map id ↦ handler, created on first virtual registration),
`phys` = `physicalChordHandlers`, `tun` = `tunnelHandlers`.  Core Lean only. -/
namespace Specter.C42

structure State where
  virt : Nat → Option (Nat → Option Nat)
  phys : Nat → Option Nat
  tun  : Nat → Option Nat

def init : State := ⟨fun _ => none, fun _ => none, fun _ => none⟩

inductive Op where
  | handleChord (kind : Nat) (target : Option Nat) (h : Nat)   -- target = none ⇔ `target == nil`
  | handleTunnel (kind : Nat) (h : Nat)
deriving DecidableEq, Repr

def upd {β : Type} (f : Nat → β) (k : Nat) (v : β) : Nat → β := fun x => if x = k then v else f x

/-- `HandleChord` / `HandleTunnel` -/
def register (s : State) : Op → State
  | .handleChord kind none h => { s with phys := upd s.phys kind (some h) }
  | .handleChord kind (some id) h =>
    -- `LoadOrStoreLazy(kind, new map)` then `m.Store(id, handler)`
    let m : Nat → Option Nat := match s.virt kind with
      | some m => m
      | none => fun _ => none
    { s with virt := upd s.virt kind (some (upd m id (some h))) }
  | .handleTunnel kind h => { s with tun := upd s.tun kind (some h) }

/-- `acceptChord` lookup; `none` = no handler ⇒ `delegate.Close()` -/
def dispatchChord (s : State) (kind id : Nat) : Option Nat :=
  match s.virt kind with
  | some m =>
    match m id with
    | some h => some h                 -- specific virtual node handler
    | none => s.phys kind              -- fallback to root handler
  | none => s.phys kind                -- otherwise physical node handler

/-- `acceptTunnel` lookup -/
def dispatchTunnel (s : State) (kind : Nat) : Option Nat := s.tun kind

def run (ops : List Op) : State := ops.foldl register init

/-! ### Concurrent registration
`HandleChord` / `HandleTunnel` may be called from several goroutines (every virtual node of a process attaches to
the one shared router).  Each table update is atomic: `sync.Map.Store` for the physical / tunnel tables and for the
per-kind map, and `skipmap.LoadOrStoreLazy` for obtaining the per-kind map — it never replaces an existing
per-kind map, so the map a goroutine stores into IS the kind's map that `acceptChord` later loads.  Hence a set of
concurrent registrations takes effect as `register` applied in SOME order.  `key` names the table slot a
registration writes; registrations with different keys commute. -/

inductive Key where
  | virt (kind id : Nat)
  | phys (kind : Nat)
  | tun (kind : Nat)
deriving DecidableEq, Repr

def Op.key : Op → Key
  | .handleChord kind (some id) _ => .virt kind id
  | .handleChord kind none _ => .phys kind
  | .handleTunnel kind _ => .tun kind

/-- pairwise distinct table slots (what the harness guarantees for a concurrent batch) -/
def distinctKeys : List Op → Bool
  | [] => true
  | op :: rest => rest.all (fun o => o.key ≠ op.key) && distinctKeys rest

/-! ### Statement-level oracle over the registration history (most recent registration wins) -/

def lastVirt : List Op → Nat → Nat → Option Nat
  | [], _, _ => none
  | op :: rest, k, i =>
    match lastVirt rest k i with
    | some h => some h
    | none => match op with
      | .handleChord k' (some i') h => if k' = k ∧ i' = i then some h else none
      | _ => none

def lastPhys : List Op → Nat → Option Nat
  | [], _ => none
  | op :: rest, k =>
    match lastPhys rest k with
    | some h => some h
    | none => match op with
      | .handleChord k' none h => if k' = k then some h else none
      | _ => none

def lastTun : List Op → Nat → Option Nat
  | [], _ => none
  | op :: rest, k =>
    match lastTun rest k with
    | some h => some h
    | none => match op with
      | .handleTunnel k' h => if k' = k then some h else none
      | _ => none

/-- inter-node stream: handler registered for (type, target), else the node-wide one for the type, else closed -/
def specChord (ops : List Op) (kind id : Nat) : Option Nat :=
  match lastVirt ops kind id with
  | some h => some h
  | none => lastPhys ops kind

/-- client stream: handler for its type, else closed -/
def specTunnel (ops : List Op) (kind : Nat) : Option Nat := lastTun ops kind

end Specter.C42
