// C31 correspondence: real util/hashcash (verifyBits via shim, Parse, String, Solve, Verify) and real
// spec/pow (GenerateSolution, VerifySolution) against the Lean model and the statement-level oracle.
//
//	vb <hash> <bits> <n>                                   => true|false|panic
//	parse <solution>                                       => ok,<diff>,<exp|z>,<subj>,<nonce>,<alg>,<sol>,<String()> | err,<kind>
//	vs <pub> <sig> <solution> <sigOK> <required> <expiresNs> <expectedSubject> <hc.String()> <sha256 of it>
//	   <nowLo> <nowHi> <fromSolver> <perr | diff,exp|z,subj,alg as parsed by the real Parse>  => <result token>
//	solve <diff> <exp|z> <subj> <nonce> <alg> <maxD> <String() before> <String() after> <sha256 of it> => ok,<solution> | err,<kind> | timeout
//	rsolve <diff> <exp|z> <subj> <nonce> <alg> <solution before> <maxD> <String() before> <sha256 of it> <nowLo> <nowHi>
//	   <String() after> <sha256 of it>                     => ok,<solution> | err,<kind> | timeout
//	   (Solve on a stamp that may already carry a solution: still valid, stale after its parameters changed, foreign, garbage;
//	    every successful rsolve is followed by an `hcv` line (real Verify on the result) and a `vs` line (the result signed and
//	    presented to the real VerifySolution under the stamp's own parameters, fromSolver=true))
//	hcvs <diff> <exp|z> <stamp subject> <nonce> <alg> <solution> <expected subject> <String()> <sha256 of it> <nowLo> <nowHi>
//	   => ok | v-alg | v-expired | v-subject | v-solution | v-difficulty | other | panic
//	   (the real Hashcash.Verify(expected) on SOLVED stamps whose own subject is / is not the expected one: subjects come from a
//	    family around the expected subject — New()'s default, wildcard look-alikes, prefixes, case and whitespace variants)
//
// sha256 / ed25519 / base64 results are computed here by the real libraries and handed to the model as inputs.
// time.Now() is not controlled: every vs line carries the wall clock just before and just after the call; the
// driver evaluates model and oracle at both instants and skips the (never observed) lines where they disagree.
package main

import (
	"crypto/ed25519"
	"crypto/sha256"
	"encoding/base64"
	"fmt"
	"strconv"
	"strings"
	"time"

	"go.miragespace.co/specter/spec/pow"
	"go.miragespace.co/specter/spec/protocol"
	"go.miragespace.co/specter/util/hashcash"
	"verif/harness/hlib"
)

var r *hlib.Run
var rng *hlib.Rng

const year = 365 * 24 * time.Hour

func expTok(t time.Time) string {
	if t.IsZero() {
		return "z"
	}
	return strconv.FormatInt(t.Unix(), 10)
}

// The solver loops forever when no counter passes the bit test (e.g. under a broken verifyBits). Every call that
// searches runs under this guard; after the first timeout no further search is started.
var solverHung bool
var errHung = fmt.Errorf("solver did not return within 20s")

func guard(f func() error) error {
	if solverHung {
		return errHung
	}
	done := make(chan error, 1)
	go func() {
		defer func() {
			if x := recover(); x != nil {
				done <- fmt.Errorf("panic")
			}
		}()
		done <- f()
	}()
	select {
	case err := <-done:
		return err
	case <-time.After(20 * time.Second):
		solverHung = true
		r.Raw("# solver hung: no further search is started")
		return errHung
	}
}

// ---------- vb ----------

func doVB(hash []byte, bits, n int) {
	res := func() (s string) {
		defer func() {
			if recover() != nil {
				s = "panic"
			}
		}()
		return hlib.B(hashcash.VerifVerifyBits(hash[:n], bits, n))
	}()
	r.Emit(fmt.Sprintf("vb %s %d %d", hlib.Hex(hash), bits, n), res)
	r.Case(fmt.Sprintf("vb%x/%d/%d", hash, bits, n))
	if n == (bits+7)/8 {
		r.Count("vb:n=ceil(bits/8):" + res)
	} else {
		r.Count("vb:other-n:" + res)
	}
}

// digest with exactly k leading zero bits (k<=256), random tail
func craft(k int) []byte {
	h := rng.Bytes(32)
	if k >= 256 {
		return make([]byte, 32)
	}
	for i := 0; i < k/8; i++ {
		h[i] = 0
	}
	m := k % 8
	h[k/8] = (h[k/8] & (0xff >> m)) | (0x80 >> m)
	return h
}

// genHCV: end-to-end `Hashcash.Verify` on random unexpired stamps (no solving): the digest of the stamp
// string decides; difficulties at and around multiples of 8 are where the byte count of the bit test matters.
func genHCV(n int) {
	exp := time.Now().Add(24 * time.Hour).Truncate(time.Second)
	for i := 0; i < n; i++ {
		d := []int{1, 7, 8, 8, 8, 9, 15, 16, 16, 17, 24}[rng.Intn(11)]
		h := &hashcash.Hashcash{Tag: "H", Difficulty: d, ExpiresAt: exp, Subject: "s", Alg: "SHA-256",
			Nonce: hlib.Hex(rng.Bytes(6)), Solution: hlib.Hex(rng.Bytes(6))}
		digest := sha256.Sum256([]byte(h.String()))
		res := "reject"
		if func() (ok bool) {
			defer func() {
				if recover() != nil {
					ok = false
				}
			}()
			return h.Verify("s") == nil
		}() {
			res = "accept"
		}
		r.Emit(fmt.Sprintf("hcv %d %s", d, hlib.Hex(digest[:])), res)
		r.Case(fmt.Sprintf("hcv%d/%x", d, digest[:4]))
		r.Count(fmt.Sprintf("hcv:d=%d:%s", d, res))
	}
}

func genVB() {
	maxBits, span, reps := 72, 2, 2
	if r.Thorough() {
		maxBits, span, reps = 264, 9, 3
	}
	bitsList := []int{}
	for b := 0; b <= maxBits; b++ {
		bitsList = append(bitsList, b)
	}
	bitsList = append(bitsList, 127, 128, 129, 200, 248, 249, 255, 256)
	for _, bits := range bitsList {
		n := (bits + 7) / 8
		if n > 32 {
			continue
		}
		for k := bits - span; k <= bits+span; k++ {
			if k < 0 || k > 256 {
				continue
			}
			for i := 0; i < reps; i++ {
				doVB(craft(k), bits, n)
			}
		}
		doVB(make([]byte, 32), bits, n)
		doVB(rng.Bytes(32), bits, n)
		// the byte just after the inspected prefix must not matter; the last inspected byte with low bits set
		h := craft(bits)
		if n < 32 {
			h[n] = 0
		}
		doVB(h, bits, n)
	}
	// other n (not what Verify passes): correspondence only
	for i := 0; i < 300; i++ {
		bits := rng.Intn(40)
		n := rng.Intn(8)
		l := rng.Intn(8)
		if rng.Chance(70) && l < n {
			l = n
		}
		h := rng.Bytes(l)
		for j := range h {
			if rng.Chance(60) {
				h[j] = 0
			}
		}
		doVB(h, bits, n)
	}
}

// ---------- parse ----------

func doParse(s string) {
	hc, err := hashcash.Parse(s)
	var res string
	if err != nil {
		switch err {
		case hashcash.ErrParse:
			res = "err,parts"
		case hashcash.ErrInvalidTag:
			res = "err,tag"
		case hashcash.ErrInvalidDifficulty:
			res = "err,difficulty"
		case hashcash.ErrInvalidDate:
			res = "err,date"
		default:
			res = "err,other"
		}
	} else {
		res = strings.Join([]string{"ok", strconv.Itoa(hc.Difficulty), expTok(hc.ExpiresAt), hlib.HexS(hc.Subject),
			hlib.HexS(hc.Nonce), hlib.HexS(hc.Alg), hlib.HexS(hc.Solution), hlib.HexS(hc.String())}, ",")
	}
	r.Emit("parse "+hlib.HexS(s), res)
	r.Case("p" + s)
	if err != nil {
		r.Count("parse:" + res)
	} else {
		r.Count("parse:ok")
	}
}

var numToks = []string{"0", "1", "4", "10", "18", "26", "27", "007", "+5", "-0", "-1", "+", "-", "", "1_0", "0x10", " 1", "1 ",
	"9223372036854775807", "9223372036854775808", "-9223372036854775808", "9223372036792179007", "9223372036792179008",
	"18446744073709551616", "99999999999999999999999", "1e3", "१"}

func randField() string {
	switch rng.Intn(6) {
	case 0:
		return ""
	case 1:
		return base64.RawURLEncoding.EncodeToString(rng.Bytes(1 + rng.Intn(8)))
	case 2:
		return "SHA-256"
	case 3:
		return string(rng.Bytes(1 + rng.Intn(4))) // arbitrary bytes, may contain ':' or non-UTF8
	case 4:
		return "H"
	default:
		return hlib.Pick(rng, numToks)
	}
}

func genParse(n int) {
	for i := 0; i < n; i++ {
		var parts []string
		switch rng.Intn(4) {
		case 0: // well-formed
			parts = []string{"H", strconv.Itoa(rng.Intn(30)), strconv.FormatInt(int64(rng.U64()>>uint(1+rng.Intn(62))), 10),
				randField(), randField(), "SHA-256"}
			if rng.Bool() {
				parts = append(parts, randField())
			}
		case 1: // number edge cases
			parts = []string{"H", hlib.Pick(rng, numToks), hlib.Pick(rng, numToks), "s", "n", "SHA-256", "AAAA"}
		case 2: // wrong arity
			k := rng.Intn(10)
			for j := 0; j < k; j++ {
				parts = append(parts, randField())
			}
		default:
			parts = []string{randField(), randField(), randField(), randField(), randField(), randField()}
			if rng.Bool() {
				parts = append(parts, randField())
			}
			if rng.Bool() {
				parts[0] = "H"
			}
		}
		doParse(strings.Join(parts, ":"))
	}
	doParse("")
	doParse(":::::")
	doParse("H:1::::")
	doParse("H:1:::::")
	doParse("H:1::::::")
}

// ---------- vs ----------

func defaultSubject(pub ed25519.PublicKey) string {
	h := sha256.Sum256(pub)
	return base64.URLEncoding.EncodeToString(h[:])
}

func classify(err error) string {
	if err == nil {
		return "ok"
	}
	m := err.Error()
	for _, p := range [][2]string{
		{"public key length", "publen"}, {"signature length", "siglen"}, {"solution is required", "nosolution"},
		{"not a valid signature", "badsig"}, {"could not split", "parse-parts"}, {"expected tag", "parse-tag"},
		{"bits of difficulty", "parse-difficulty"}, {"invalid date", "parse-date"}, {"wrong difficulty", "difficulty"},
		{"zero-value", "zeroexp"}, {"too far", "toofar"}, {"expired hashcash", "v-expired"},
		{"subject is invalid", "v-subject"}, {"algorithm is invalid", "v-alg"}, {"solution is not valid", "v-solution"},
	} {
		if strings.Contains(m, p[0]) {
			return p[1]
		}
	}
	return "other"
}

func doVS(kind string, pub, sig []byte, solution string, required int, expires time.Duration, subject string, fromSolver bool) string {
	sigOK := false
	if len(pub) == ed25519.PublicKeySize {
		sigOK = ed25519.Verify(ed25519.PublicKey(pub), []byte(solution), sig)
	}
	hashed, digest, pf := "-", "-", "perr"
	if hc, err := hashcash.Parse(solution); err == nil {
		s := hc.String()
		d := sha256.Sum256([]byte(s))
		hashed, digest = hlib.HexS(s), hlib.Hex(d[:])
		pf = strings.Join([]string{strconv.Itoa(hc.Difficulty), expTok(hc.ExpiresAt), hlib.HexS(hc.Subject), hlib.HexS(hc.Alg)}, ",")
	}
	req := &protocol.ProofOfWork{PubKey: pub, Signature: sig, Solution: solution}
	params := pow.Parameters{Difficulty: required, Expires: expires, GetSubject: func(ed25519.PublicKey) string { return subject }}
	lo := time.Now().UnixNano()
	res := func() (s string) {
		defer func() {
			if recover() != nil {
				s = "panic"
			}
		}()
		d, err := pow.VerifySolution(req, params)
		s = classify(err)
		if err == nil && (d == nil || d.Subject != subject || string(d.PubKey) != string(pub)) {
			s = "other"
		}
		return
	}()
	hi := time.Now().UnixNano()
	r.Emit(strings.Join([]string{"vs", hlib.Hex(pub), hlib.Hex(sig), hlib.HexS(solution), hlib.B(sigOK), strconv.Itoa(required),
		strconv.FormatInt(int64(expires), 10), hlib.HexS(subject), hashed, digest, strconv.FormatInt(lo, 10), strconv.FormatInt(hi, 10),
		hlib.B(fromSolver), pf}, " "), res)
	r.Case("vs" + solution + hlib.Hex(sig) + subject + strconv.Itoa(required))
	r.Count("vs:" + kind + ":" + res)
	return res
}

type proof struct {
	priv    ed25519.PrivateKey
	pub     ed25519.PublicKey
	sol     string
	sig     []byte
	d       int
	expires time.Duration
}

func newKey() (ed25519.PublicKey, ed25519.PrivateKey) {
	priv := ed25519.NewKeyFromSeed(rng.Bytes(32))
	return priv.Public().(ed25519.PublicKey), priv
}

// a proof built by the real GenerateSolution
func generate(d int, expires time.Duration) (*proof, error) {
	pub, priv := newKey()
	var p *protocol.ProofOfWork
	err := guard(func() (e error) {
		p, e = pow.GenerateSolution(priv, pow.Parameters{Difficulty: d, Expires: expires, GetSubject: defaultSubject})
		return
	})
	if err != nil {
		return nil, err
	}
	return &proof{priv: priv, pub: pub, sol: p.Solution, sig: p.Signature, d: d, expires: expires}, nil
}

// re-sign an edited solution string with the proof's own key (so that the signature is valid)
func (p *proof) resign(sol string) []byte { return ed25519.Sign(p.priv, []byte(sol)) }

func setField(sol string, i int, v string) string {
	parts := strings.Split(sol, ":")
	if i < len(parts) {
		parts[i] = v
	}
	return strings.Join(parts, ":")
}

func genVS(n int, maxD int) {
	for i := 0; i < n; i++ {
		d := 1 + rng.Intn(maxD)
		expires := 50 * year
		if rng.Chance(25) {
			expires = hlib.Pick(rng, []time.Duration{time.Second, 10 * time.Second, time.Minute, time.Hour})
		}
		p, err := generate(d, expires)
		if err != nil {
			r.Raw("# generate failed: " + err.Error())
			if solverHung {
				return
			}
			continue
		}
		subj := defaultSubject(p.pub)
		doVS("solver", p.pub, p.sig, p.sol, d, expires, subj, true)
		// --- one tampered field at a time ---
		for _, t := range []int{0, 1, 2, 3, 4, 5, 6, 7, 8, 9, 10, 11, 12, 13, 14, 15, 16} {
			if !rng.Chance(45) {
				continue
			}
			switch t {
			case 0: // signature bit flipped
				s := append([]byte{}, p.sig...)
				s[rng.Intn(64)] ^= 1 << uint(rng.Intn(8))
				doVS("sig-flip", p.pub, s, p.sol, d, expires, subj, false)
			case 1: // another key presents the same signed solution
				pub2, _ := newKey()
				doVS("wrong-key", pub2, p.sig, p.sol, d, expires, defaultSubject(pub2), false)
				doVS("wrong-key-same-subject", pub2, p.sig, p.sol, d, expires, subj, false)
			case 2: // another key re-signs the solution: signature valid, subject (key hash) no longer matches
				pub2, priv2 := newKey()
				doVS("resigned-by-other", pub2, ed25519.Sign(priv2, []byte(p.sol)), p.sol, d, expires, defaultSubject(pub2), false)
			case 3: // sizes
				doVS("pub-size", p.pub[:31], p.sig, p.sol, d, expires, subj, false)
				doVS("pub-size", append(append([]byte{}, p.pub...), 0), p.sig, p.sol, d, expires, subj, false)
				doVS("sig-size", p.pub, p.sig[:63], p.sol, d, expires, subj, false)
				doVS("sig-size", p.pub, append(append([]byte{}, p.sig...), 0), p.sol, d, expires, subj, false)
				doVS("empty", p.pub, p.resign(""), "", d, expires, subj, false)
				doVS("empty", nil, nil, "", d, expires, subj, false)
			case 4: // verifier requires another difficulty
				doVS("required+1", p.pub, p.sig, p.sol, d+1, expires, subj, false)
				if d > 0 {
					doVS("required-1", p.pub, p.sig, p.sol, d-1, expires, subj, false)
				}
				doVS("required-rand", p.pub, p.sig, p.sol, rng.Intn(30), expires, subj, false)
			case 5: // verifier expects another subject
				doVS("expected-subject", p.pub, p.sig, p.sol, d, expires, subj+"x", false)
				doVS("expected-subject", p.pub, p.sig, p.sol, d, expires, "", false)
				doVS("expected-subject", p.pub, p.sig, p.sol, d, expires, strings.ToLower(subj), false)
			case 6: // stamp claims another difficulty (re-signed)
				for _, dd := range []int{d - 1, d + 1, 0, 27} {
					if dd >= 0 {
						s := setField(p.sol, 1, strconv.Itoa(dd))
						doVS("stamp-difficulty", p.pub, p.resign(s), s, d, expires, subj, false)
						doVS("stamp-difficulty-matching", p.pub, p.resign(s), s, dd, expires, subj, false)
					}
				}
			case 7: // stamp names another subject (re-signed)
				s := setField(p.sol, 3, subj[:len(subj)-2]+"A=")
				doVS("stamp-subject", p.pub, p.resign(s), s, d, expires, subj, false)
				s = setField(p.sol, 3, "")
				doVS("stamp-subject", p.pub, p.resign(s), s, d, expires, subj, false)
			case 8: // nonce / counter changed: hash no longer has the bits (almost surely for d >= 8)
				s := setField(p.sol, 4, base64.RawURLEncoding.EncodeToString(rng.Bytes(16)))
				doVS("stamp-nonce", p.pub, p.resign(s), s, d, expires, subj, false)
				s = setField(p.sol, 6, base64.RawURLEncoding.EncodeToString(rng.Bytes(4)))
				doVS("stamp-counter", p.pub, p.resign(s), s, d, expires, subj, false)
				s = strings.Join(strings.Split(p.sol, ":")[:6], ":")
				doVS("stamp-unsolved", p.pub, p.resign(s), s, d, expires, subj, false)
			case 9: // algorithm
				for _, a := range []string{"SHA-1", "sha-256", "", "SHA-256 "} {
					s := setField(p.sol, 5, a)
					doVS("stamp-alg", p.pub, p.resign(s), s, d, expires, subj, false)
				}
			case 10: // expiry field edits (re-signed)
				for _, e := range []string{"", "0", "1", "-1", "x", "9223372036854775807", "9223372036792179007", "9223372036792179008", "99999999999999999999"} {
					s := setField(p.sol, 2, e)
					doVS("stamp-expiry", p.pub, p.resign(s), s, d, expires, subj, false)
				}
			case 11: // non-canonical spellings of the same numbers: the hash is taken over the canonical string
				parts := strings.Split(p.sol, ":")
				for _, s := range []string{setField(p.sol, 1, "+"+parts[1]), setField(p.sol, 1, "0"+parts[1]), setField(p.sol, 2, "+"+parts[2]),
					setField(p.sol, 2, "00"+parts[2]), p.sol + ":", setField(p.sol, 0, "h"), "X" + p.sol, p.sol + ":x"} {
					doVS("stamp-spelling", p.pub, p.resign(s), s, d, expires, subj, false)
				}
			case 12: // garbage solution strings, validly signed
				for k := 0; k < 3; k++ {
					s := strings.Join([]string{randField(), randField(), randField(), randField(), randField(), randField()}, ":")
					doVS("garbage", p.pub, p.resign(s), s, d, expires, subj, false)
				}
			case 13: // stamp solved for a LOWER difficulty presented where d is required, claiming d
				if d >= 2 {
					hc := hashcash.New(hashcash.Hashcash{Subject: subj, Difficulty: d - 1 - rng.Intn(d-1), ExpiresAt: time.Now().Add(expires)})
					if guard(func() error { return hc.Solve(26) }) == nil {
						s := setField(hc.String(), 1, strconv.Itoa(d))
						doVS("underpowered", p.pub, p.resign(s), s, d, expires, subj, false)
						doVS("lower-difficulty", p.pub, p.resign(hc.String()), hc.String(), d, expires, subj, false)
					}
				}
			case 14: // window parameter changes at verification
				doVS("window", p.pub, p.sig, p.sol, d, expires/4, subj, false)
				if expires/2 > time.Second {
					doVS("window", p.pub, p.sig, p.sol, d, expires/2-time.Second, subj, false)
				}
				doVS("window", p.pub, p.sig, p.sol, d, expires/2+time.Second, subj, false)
				doVS("window", p.pub, p.sig, p.sol, d, expires*2, subj, false)
			}
		}
	}
}

// hand-built stamps whose expiry sits at chosen offsets from now (seconds), real window parameters
func genTime(n int) {
	for i := 0; i < n; i++ {
		pub, priv := newKey()
		subj := defaultSubject(pub)
		d := 1 + rng.Intn(8)
		E := hlib.Pick(rng, []int64{1, 2, 10, 10, 10, 60})
		offs := []int64{-2*E - 2, -2*E - 1, -2 * E, -2*E + 1, -2, -1, 0, 1, 2, 2*E - 1, 2 * E, 2*E + 1, 2*E + 2, 3 * E, -3 * E,
			int64(rng.Intn(int(6*E+1))) - 3*E}
		off := hlib.Pick(rng, offs)
		exp := time.Unix(time.Now().Unix()+off, 0)
		hc := hashcash.New(hashcash.Hashcash{Subject: subj, Difficulty: d, ExpiresAt: exp})
		if err := guard(func() error { return hc.Solve(26) }); err != nil {
			if solverHung {
				return
			}
			continue
		}
		s := hc.String()
		doVS(fmt.Sprintf("time:E=%d:off=%+d", E, off), pub, ed25519.Sign(priv, []byte(s)), s, d, time.Duration(E)*time.Second, subj, false)
	}
}

// ---------- solve ----------

func doSolve(d int, exp time.Time, subj, nonce, alg string, maxD int) bool {
	hc := hashcash.New(hashcash.Hashcash{Subject: subj, Difficulty: d, ExpiresAt: exp, Nonce: nonce, Alg: alg})
	pre := hc.String()
	lhs := []string{"solve", strconv.Itoa(hc.Difficulty), expTok(hc.ExpiresAt), hlib.HexS(hc.Subject), hlib.HexS(hc.Nonce), hlib.HexS(hc.Alg),
		strconv.Itoa(maxD), hlib.HexS(pre)}
	var res string
	solved, digest := "-", "-"
	switch err := guard(func() error { return hc.Solve(maxD) }); err {
	case nil:
		s := hc.String()
		dg := sha256.Sum256([]byte(s))
		solved, digest = hlib.HexS(s), hlib.Hex(dg[:])
		res = "ok," + hlib.HexS(hc.Solution)
	case hashcash.ErrUnsupportedAlgorithm:
		res = "err,alg"
	case hashcash.ErrInvalidDifficulty:
		res = "err,difficulty"
	case errHung:
		res = "timeout"
	default:
		res = "err,other"
	}
	r.Emit(strings.Join(append(lhs, solved, digest), " "), res)
	r.Case("solve" + pre + strconv.Itoa(maxD))
	r.Count("solve:" + strings.SplitN(res, ",", 2)[0] + fmt.Sprintf(":d=%d", hc.Difficulty))
	return res != "timeout"
}

func genSolve(n, maxD int) {
	for i := 0; i < n; i++ {
		d := rng.Intn(maxD + 1) // 0 is turned into 10 by hashcash.New
		lim := 26
		alg := ""
		switch rng.Intn(10) {
		case 0:
			lim = rng.Intn(maxD + 1)
		case 1:
			d = 27 + rng.Intn(10)
			lim = 40
		case 2:
			alg = hlib.Pick(rng, []string{"SHA-1", "sha-256", "SHA-512"})
		}
		exp := time.Unix(int64(rng.U64()>>uint(20+rng.Intn(40))), 0)
		if rng.Chance(10) {
			exp = time.Time{} // New fills in now+5min
		}
		subj := hlib.Pick(rng, []string{"", "example.com", defaultSubject(rng.Bytes(32)), "a b", "ü"})
		nonce := ""
		if rng.Bool() {
			nonce = base64.RawURLEncoding.EncodeToString(rng.Bytes(16))
		}
		if !doSolve(d, exp, subj, nonce, alg, lim) {
			return // a hanging solver: stop issuing solve ops (the timeout line is a DIFF)
		}
	}
}

// ---------- rsolve: Solve on stamps that already carry a solution ----------

func verifyAccepts(h *hashcash.Hashcash, subject string) (ok bool) {
	defer func() {
		if recover() != nil {
			ok = false
		}
	}()
	return h.Verify(subject) == nil
}

// doRSolve calls the real Solve on hc AS IT IS (including whatever Solution it carries) and, when Solve reports success,
// has the result judged three ways: the digest of the stamp it leaves behind (rsolve line), the real Hashcash.Verify (hcv
// line) and the real pow.VerifySolution on the signed stamp under the stamp's own parameters (vs line, fromSolver).
func doRSolve(kind string, hc *hashcash.Hashcash, maxD int) bool {
	before := hc.String()
	dgB := sha256.Sum256([]byte(before))
	lhs := []string{"rsolve", strconv.Itoa(hc.Difficulty), expTok(hc.ExpiresAt), hlib.HexS(hc.Subject), hlib.HexS(hc.Nonce), hlib.HexS(hc.Alg),
		hlib.HexS(hc.Solution), strconv.Itoa(maxD), hlib.HexS(before), hlib.Hex(dgB[:])}
	var res string
	after, digest := "-", "-"
	lo := time.Now().UnixNano()
	err := guard(func() error { return hc.Solve(maxD) })
	hi := time.Now().UnixNano()
	switch err {
	case nil:
		s := hc.String()
		dg := sha256.Sum256([]byte(s))
		after, digest = hlib.HexS(s), hlib.Hex(dg[:])
		res = "ok," + hlib.HexS(hc.Solution)
	case hashcash.ErrUnsupportedAlgorithm:
		res = "err,alg"
	case hashcash.ErrInvalidDifficulty:
		res = "err,difficulty"
	case errHung:
		res = "timeout"
	default:
		res = "err,other"
	}
	r.Emit(strings.Join(append(lhs, strconv.FormatInt(lo, 10), strconv.FormatInt(hi, 10), after, digest), " "), res)
	r.Case("rsolve" + before + strconv.Itoa(maxD))
	r.Count("rsolve:" + kind + ":" + strings.SplitN(res, ",", 2)[0])
	if err != nil {
		return err != errHung
	}
	// the real Verify on what Solve left behind (hcv lines are about unexpired stamps only)
	far := hc.ExpiresAt.IsZero() || time.Until(hc.ExpiresAt) > 30*time.Second
	if far && hc.Difficulty >= 0 {
		v := "reject"
		if verifyAccepts(hc, hc.Subject) {
			v = "accept"
		}
		r.Emit(fmt.Sprintf("hcv %d %s", hc.Difficulty, digest), v)
		r.Case("hcv-rs" + hc.String())
		r.Count("hcv:after-rsolve:" + kind + ":" + v)
	}
	// and the whole proof: signed by a fresh key whose subject is the stamp's subject, same difficulty, a window that holds the expiry
	if far && !hc.ExpiresAt.IsZero() && !strings.Contains(hc.Subject+hc.Nonce, ":") {
		expires := 50 * year
		if time.Until(hc.ExpiresAt) < 15*time.Second {
			expires = 10 * time.Second
		} else if time.Until(hc.ExpiresAt) < 100*time.Minute && rng.Bool() {
			expires = time.Hour
		}
		pub, priv := newKey()
		s := hc.String()
		doVS("resolved:"+kind, pub, ed25519.Sign(priv, []byte(s)), s, hc.Difficulty, expires, hc.Subject, true)
	}
	return true
}

func randSubject() string {
	return hlib.Pick(rng, []string{"s", "example.com", "subject-a", "subject-b", defaultSubject(rng.Bytes(32)), "a b", "ü", "*"})
}

// expiry between one minute and ~90 years from now (VerifySolution's window 2*Expires must fit int64 ns)
func randFuture() time.Time {
	var d time.Duration
	switch rng.Intn(4) {
	case 0:
		d = time.Minute + time.Duration(rng.Intn(3600))*time.Second
	case 1:
		d = time.Duration(1+rng.Intn(72)) * time.Hour
	default:
		d = time.Duration(1+rng.Intn(90*365)) * 24 * time.Hour
	}
	return time.Now().Add(d)
}

func randDifficulty(maxD int) int {
	if rng.Chance(35) { // at and around the byte boundaries of the bit test
		for {
			d := hlib.Pick(rng, []int{1, 7, 8, 9, 15, 16, 17})
			if d <= maxD {
				return d
			}
		}
	}
	return 1 + rng.Intn(maxD)
}

// one edit of a stamp's parameters that (almost surely) makes a solution it carries stale
func mutateStamp(hc *hashcash.Hashcash, maxD int) string {
	switch rng.Intn(7) {
	case 0:
		for {
			if d := randDifficulty(maxD); d != hc.Difficulty {
				hc.Difficulty = d
				return "difficulty"
			}
		}
	case 1:
		if hc.Difficulty < maxD {
			hc.Difficulty += 1 + rng.Intn(maxD-hc.Difficulty)
			return "difficulty-up"
		}
		hc.Difficulty = 1 + rng.Intn(maxD)
		return "difficulty"
	case 2:
		hc.Subject = randSubject() + strconv.Itoa(rng.Intn(1000))
		return "subject"
	case 3:
		hc.ExpiresAt = randFuture().UTC().Truncate(time.Second)
		return "expiry"
	case 4:
		hc.Nonce = base64.RawURLEncoding.EncodeToString(rng.Bytes(16))
		return "nonce"
	case 5:
		hc.Difficulty = randDifficulty(maxD)
		hc.Subject = randSubject() + "-" + strconv.Itoa(rng.Intn(1000))
		return "difficulty+subject"
	default:
		hc.Difficulty = randDifficulty(maxD)
		hc.ExpiresAt = randFuture().UTC().Truncate(time.Second)
		return "difficulty+expiry"
	}
}

func newStamp(maxD int) *hashcash.Hashcash {
	h := hashcash.Hashcash{Subject: randSubject(), Difficulty: randDifficulty(maxD), ExpiresAt: randFuture()}
	if rng.Bool() {
		h.Nonce = base64.RawURLEncoding.EncodeToString(rng.Bytes(16))
	}
	return hashcash.New(h)
}

func foreignSolution() string {
	switch rng.Intn(5) {
	case 0:
		return "incorrect"
	case 1:
		return hlib.Hex(rng.Bytes(1 + rng.Intn(6)))
	case 2: // same shape as a real counter
		return base64.RawURLEncoding.EncodeToString([]byte{byte(rng.Intn(256)), byte(rng.Intn(4)), 0, 0})
	case 3:
		return "AAAAAA"
	default:
		return base64.RawURLEncoding.EncodeToString(rng.Bytes(4))
	}
}

// genResolve: multi-step lives of a stamp. Solve is called on stamps that were solved before and then re-targeted (one to
// three rounds), that carry a foreign / garbage solution (set directly, or arriving through Parse), that are still valid
// (Solve must keep them), that expired and were refreshed, or whose algorithm / difficulty became unacceptable.
func genResolve(n, maxD int) {
	for i := 0; i < n; i++ {
		r.Raw("# case rsolve " + strconv.Itoa(i))
		hc := newStamp(maxD)
		ok := true
		switch k := rng.Intn(10); k {
		case 0, 1, 2, 3: // solve, then rounds of (edit parameters, solve again)
			ok = doRSolve("fresh", hc, 26)
			rounds := 1 + rng.Intn(3)
			for j := 0; ok && j < rounds; j++ {
				what := mutateStamp(hc, maxD)
				ok = doRSolve("after-"+what, hc, 26)
			}
		case 4: // a foreign / garbage solution put on an unsolved stamp
			hc.Solution = foreignSolution()
			ok = doRSolve("foreign", hc, 26)
		case 5: // the solution of ANOTHER solved stamp
			other := newStamp(maxD)
			if ok = doRSolve("fresh", other, 26); ok {
				hc.Solution = other.Solution
				ok = doRSolve("borrowed", hc, 26)
			}
		case 6: // arrives over the wire: a solved stamp edited in transit, parsed, solved again
			if ok = doRSolve("fresh", hc, 26); ok {
				s := hc.String()
				switch rng.Intn(4) {
				case 0:
					s = setField(s, 1, strconv.Itoa(randDifficulty(maxD)))
				case 1:
					s = setField(s, 3, randSubject()+"x")
				case 2:
					s = setField(s, 6, foreignSolution())
				default:
					s = setField(s, 4, base64.RawURLEncoding.EncodeToString(rng.Bytes(16)))
				}
				if p, err := hashcash.Parse(s); err == nil {
					ok = doRSolve("parsed", p, 26)
				}
			}
		case 7: // still valid: Solve must return it unchanged, any number of times, also through Parse
			if ok = doRSolve("fresh", hc, 26); ok {
				ok = doRSolve("unchanged", hc, 26)
				if p, err := hashcash.Parse(hc.String()); ok && err == nil {
					ok = doRSolve("unchanged-parsed", p, 26)
				}
			}
		case 8: // expired with a (bit-wise good) solution, solved again, then refreshed and solved again
			hc.ExpiresAt = time.Now().Add(-time.Duration(2+rng.Intn(600)) * time.Second).UTC().Truncate(time.Second)
			if ok = doRSolve("fresh-expired", hc, 26); ok {
				ok = doRSolve("expired", hc, 26)
				hc.ExpiresAt = randFuture().UTC().Truncate(time.Second)
				ok = ok && doRSolve("refreshed", hc, 26)
			}
		default: // rejected re-solves: the stamp must come back with an error, and lower limits
			if ok = doRSolve("fresh", hc, 26); ok {
				switch rng.Intn(4) {
				case 0:
					hc.Alg = hlib.Pick(rng, []string{"SHA-1", "sha-256", ""})
					ok = doRSolve("alg-changed", hc, 26)
				case 1:
					hc.Difficulty = 27 + rng.Intn(10)
					ok = doRSolve("difficulty-too-high", hc, 40)
				case 2:
					mutateStamp(hc, maxD)
					ok = doRSolve("limit", hc, rng.Intn(maxD+1))
				default:
					hc.Difficulty = 0 // New never leaves 0, a caller can
					ok = doRSolve("difficulty-zero", hc, 26)
				}
			}
		}
		if !ok {
			return // a hanging solver: stop
		}
	}
	r.Raw("# case end-of-rsolve")
}

// ---------- subjects: solved stamps that name / do not name the expected subject ----------

// doHCVS runs the real Hashcash.Verify(expected) on hc as it is.
func doHCVS(kind string, hc *hashcash.Hashcash, expected string) string {
	s := hc.String()
	dg := sha256.Sum256([]byte(s))
	lo := time.Now().UnixNano()
	res := func() (s string) {
		defer func() {
			if recover() != nil {
				s = "panic"
			}
		}()
		switch err := hc.Verify(expected); err {
		case nil:
			return "ok"
		case hashcash.ErrUnsupportedAlgorithm:
			return "v-alg"
		case hashcash.ErrExpired:
			return "v-expired"
		case hashcash.ErrInvalidSubject:
			return "v-subject"
		case hashcash.ErrInvalidSolution:
			return "v-solution"
		case hashcash.ErrInvalidDifficulty:
			return "v-difficulty"
		default:
			return "other"
		}
	}()
	hi := time.Now().UnixNano()
	r.Emit(strings.Join([]string{"hcvs", strconv.Itoa(hc.Difficulty), expTok(hc.ExpiresAt), hlib.HexS(hc.Subject), hlib.HexS(hc.Nonce),
		hlib.HexS(hc.Alg), hlib.HexS(hc.Solution), hlib.HexS(expected), hlib.HexS(s), hlib.Hex(dg[:]),
		strconv.FormatInt(lo, 10), strconv.FormatInt(hi, 10)}, " "), res)
	r.Case("hcvs" + s + "|" + expected)
	r.Count("hcvs:" + kind + ":" + res)
	return res
}

// subjects a careless comparison could confuse with `base`: what New() puts in place of an empty subject, wildcard / pattern
// look-alikes, the empty subject, prefixes and extensions, case and whitespace variants, and unrelated subjects
func subjectFamily(base string) []string {
	f := []string{"*", "", "?", "%", ".*", "**", "*.*", "_", "*" + base, base + "*", base + " ", " " + base, base + "\x00", base + "=",
		strings.ToUpper(base), strings.ToLower(base), "example.com", "*.example.com", defaultSubject(rng.Bytes(32))}
	if len(base) > 1 {
		f = append(f, base[:len(base)-1], base[1:], base[:len(base)/2]+"*")
	}
	return f
}

func relation(stamp, expected string) string {
	switch {
	case stamp == expected:
		return "same"
	case stamp == "" || expected == "":
		return "empty"
	case strings.ContainsAny(stamp, "*?%"):
		return "pattern-stamp"
	case strings.ContainsAny(expected, "*?%"):
		return "pattern-expected"
	case strings.EqualFold(strings.TrimSpace(stamp), strings.TrimSpace(expected)):
		return "case-or-space"
	case strings.HasPrefix(stamp, expected) || strings.HasPrefix(expected, stamp):
		return "prefix"
	default:
		return "other"
	}
}

// genSubjects: a stamp is SOLVED for some subject of the family (so that everything but the subject is in order) and then
// (a) checked by the real Verify against its own subject, the base subject and other members of the family, and
// (b) signed and presented to the real VerifySolution: by the key it was (or was not) made for, and by several further fresh
// keys, each of which expects its own identity-bound subject — one piece of work must not serve other identities.
func genSubjects(n, maxD int) {
	for i := 0; i < n; i++ {
		pub, priv := newKey()
		base := defaultSubject(pub)
		if rng.Chance(20) {
			base = hlib.Pick(rng, []string{"example.com", "tunnel.example.org", "s", "node-1"})
		}
		fam := subjectFamily(base)
		ssub := base
		viaNew := true // the subject goes through hashcash.New (which fills in its default for an empty one)
		if rng.Chance(70) {
			ssub = hlib.Pick(rng, fam)
			viaNew = rng.Chance(60)
		}
		d := randDifficulty(maxD)
		expires := 50 * year
		if rng.Chance(25) {
			expires = hlib.Pick(rng, []time.Duration{10 * time.Second, time.Minute, time.Hour})
		}
		h := hashcash.Hashcash{Difficulty: d, ExpiresAt: time.Now().Add(expires)}
		if viaNew {
			h.Subject = ssub
		}
		hc := hashcash.New(h)
		if !viaNew {
			hc.Subject = ssub // hand-written stamp
		}
		if err := guard(func() error { return hc.Solve(26) }); err != nil {
			if solverHung {
				return
			}
			continue
		}
		if strings.Contains(hc.Subject, ":") {
			continue
		}
		// (a) Hashcash.Verify
		exps := []string{hc.Subject, base, hlib.Pick(rng, fam), hlib.Pick(rng, fam)}
		if rng.Chance(30) {
			exps = append(exps, fam...)
		}
		for _, e := range exps {
			doHCVS(relation(hc.Subject, e), hc, e)
		}
		// (b) VerifySolution
		s := hc.String()
		doVS("subject:own-key:"+relation(hc.Subject, base), pub, ed25519.Sign(priv, []byte(s)), s, d, expires, base, hc.Subject == base)
		doVS("subject:own-key:"+relation(hc.Subject, hc.Subject), pub, ed25519.Sign(priv, []byte(s)), s, d, expires, hc.Subject, true)
		for k := 1 + rng.Intn(3); k > 0; k-- {
			pub2, priv2 := newKey()
			e := defaultSubject(pub2)
			doVS("subject:other-key:"+relation(hc.Subject, e), pub2, ed25519.Sign(priv2, []byte(s)), s, d, expires, e, false)
		}
		e := hlib.Pick(rng, fam)
		doVS("subject:family:"+relation(hc.Subject, e), pub, ed25519.Sign(priv, []byte(s)), s, d, expires, e, hc.Subject == e)
	}
}

func replay() {
	for _, t := range r.ReplayLines() {
		i := func(k int) int { v, _ := strconv.Atoi(t[k]); return v }
		switch t[0] {
		case "vb":
			if len(t) >= 4 {
				doVB(hlib.UnHex(t[1]), i(2), i(3))
			}
		case "parse":
			if len(t) >= 2 {
				doParse(string(hlib.UnHex(t[1])))
			}
		case "vs":
			if len(t) >= 8 {
				ns, _ := strconv.ParseInt(t[6], 10, 64)
				doVS("replay", hlib.UnHex(t[1]), hlib.UnHex(t[2]), string(hlib.UnHex(t[3])), i(5), time.Duration(ns), string(hlib.UnHex(t[7])),
					len(t) > 12 && t[12] == "true")
			}
		case "rsolve":
			if len(t) >= 8 {
				var exp time.Time
				if t[2] != "z" {
					e, _ := strconv.ParseInt(t[2], 10, 64)
					exp = time.Unix(e, 0).UTC()
				}
				doRSolve("replay", &hashcash.Hashcash{Tag: "H", Difficulty: i(1), ExpiresAt: exp, Subject: string(hlib.UnHex(t[3])),
					Nonce: string(hlib.UnHex(t[4])), Alg: string(hlib.UnHex(t[5])), Solution: string(hlib.UnHex(t[6]))}, i(7))
			}
		case "hcvs":
			if len(t) >= 8 {
				var exp time.Time
				if t[2] != "z" {
					e, _ := strconv.ParseInt(t[2], 10, 64)
					exp = time.Unix(e, 0).UTC()
				}
				doHCVS("replay", &hashcash.Hashcash{Tag: "H", Difficulty: i(1), ExpiresAt: exp, Subject: string(hlib.UnHex(t[3])),
					Nonce: string(hlib.UnHex(t[4])), Alg: string(hlib.UnHex(t[5])), Solution: string(hlib.UnHex(t[6]))}, string(hlib.UnHex(t[7])))
			}
		case "solve":
			if len(t) >= 7 {
				var exp time.Time
				if t[2] != "z" {
					e, _ := strconv.ParseInt(t[2], 10, 64)
					exp = time.Unix(e, 0)
				}
				doSolve(i(1), exp, string(hlib.UnHex(t[3])), string(hlib.UnHex(t[4])), string(hlib.UnHex(t[5])), i(6))
			}
		}
	}
}

func main() {
	r = hlib.Start()
	rng = hlib.NewRng(r.Seed)
	r.Rule = "vb: crafted 32-byte digests with exactly k leading zero bits, k around every bit count (quick 0..72 + {127..256}, thorough 0..264) with n=ceil(bits/8), plus arbitrary (hash,bits,n); " +
		"parse: well-formed stamps, strconv edge numbers (signs, leading zeros, int64 limits), wrong arity, arbitrary bytes; " +
		"vs: proofs from the real GenerateSolution (difficulty 1..12/16, fresh ed25519 keys) verified as is (must be accepted) and with ONE tampered element " +
		"(signature, key, sizes, required difficulty, expected subject, each stamp field re-signed, window parameter), hand-built stamps with expiry at second offsets around now−2E, now, now+2E; " +
		"solve: real Solve over random stamps incl. rejected difficulties/algorithms; " +
		"rsolve: stamp lives of several steps — solved, re-targeted (difficulty/subject/expiry/nonce) and solved again 1..3 times, foreign/garbage/borrowed solutions, " +
		"parsed edited stamps, unchanged (still valid) stamps, expired-then-refreshed stamps, rejected re-solves — each result judged by its digest, the real Verify and the real VerifySolution; " +
		"hcvs/subject: stamps SOLVED for a subject of a family around the expected one (New()'s default for an empty subject, wildcard look-alikes, empty, prefixes, case/whitespace variants, other keys' subjects), " +
		"checked by the real Verify against every member and presented to the real VerifySolution signed by the own key and by 1..3 further fresh keys that each expect their own subject. " +
		"non-trivial = distinct op line"
	if r.Replay != "" {
		replay()
		r.Finish()
		return
	}
	nvs, ntime, nparse, nsolve, maxD := 250, 400, 4000, 150, 12
	if r.Thorough() {
		nvs, ntime, nparse, nsolve, maxD = 2500, 6000, 60000, 1500, 16
	}
	genVB()
	nhcv := 20000
	if r.Thorough() {
		nhcv = 600000
	}
	genHCV(nhcv)
	genParse(nparse)
	genSolve(nsolve, maxD)
	nres := 400
	if r.Thorough() {
		nres = 4000
	}
	genResolve(nres, maxD)
	genVS(nvs, maxD)
	genTime(ntime)
	nsub := 300
	if r.Thorough() {
		nsub = 3000
	}
	genSubjects(nsub, maxD)
	r.Finish()
}
