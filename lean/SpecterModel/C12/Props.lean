import SpecterModel.C12.Model
/-!
# C12 — Successor lists are well-formed

All theorems hold for EVERY key function, candidate list (with `none` = nil entries and duplicates)
and `maxLen`; they are instantiated for `byID` / `byAddress` at the end.
-/
namespace Specter.C12

variable {α κ : Type} [DecidableEq κ]

/-- loop invariant: the Go map `seen` holds exactly the keys of `succList`. -/
def SeenInv (key : α → κ) (out : List α) (seen : List κ) : Prop := ∀ k, k ∈ seen ↔ k ∈ out.map key

omit [DecidableEq κ] in
theorem seenInv_step {key : α → κ} {out : List α} {seen : List κ} (h : SeenInv key out seen) (s : α) :
    SeenInv key (out ++ [s]) (key s :: seen) := by
  intro k; have := h k; simp [List.mem_cons, List.map_append, this]; constructor <;> (intro h; cases h <;> simp_all)

/-- the loop only appends: result = `out ++ ext`, with `ext` a subsequence of the non-nil candidates -/
theorem loop_ext (key : α → κ) (maxLen : Nat) (cands : List (Option α)) (out : List α) (seen : List κ) :
    ∃ ext, loop key maxLen cands out seen = out ++ ext ∧ ext.Sublist (cands.filterMap id) := by
  induction cands generalizing out seen with
  | nil => exact ⟨[], by simp [loop]⟩
  | cons c cs ih =>
    unfold loop
    split
    · exact ⟨[], by simp⟩
    · cases c with
      | none =>
        obtain ⟨e, h1, h2⟩ := ih out seen
        exact ⟨e, h1, by simpa using h2⟩
      | some s =>
        simp only
        split
        · obtain ⟨e, h1, h2⟩ := ih out seen
          exact ⟨e, h1, by simpa using h2.trans (List.sublist_cons_self _ _)⟩
        · obtain ⟨e, h1, h2⟩ := ih (out ++ [s]) (key s :: seen)
          exact ⟨s :: e, by simpa using h1, by simpa using h2.cons_cons s⟩

theorem loop_nodup (key : α → κ) (maxLen : Nat) (cands : List (Option α)) (out : List α) (seen : List κ)
    (hinv : SeenInv key out seen) (hnd : (out.map key).Nodup) :
    ((loop key maxLen cands out seen).map key).Nodup := by
  induction cands generalizing out seen with
  | nil => simpa [loop] using hnd
  | cons c cs ih =>
    unfold loop
    split
    · exact hnd
    · cases c with
      | none => exact ih out seen hinv hnd
      | some s =>
        simp only
        split
        · exact ih out seen hinv hnd
        · rename_i hns
          apply ih _ _ (seenInv_step hinv s)
          have : key s ∉ out.map key := fun h => hns ((hinv _).mpr h)
          rw [List.map_append, List.nodup_append]
          refine ⟨hnd, by simp, ?_⟩
          intro a ha b hb
          simp at hb; subst hb
          intro e; subst e; exact this ha

theorem loop_length (key : α → κ) (maxLen : Nat) (cands : List (Option α)) (out : List α) (seen : List κ) :
    (loop key maxLen cands out seen).length ≤ max out.length maxLen := by
  induction cands generalizing out seen with
  | nil => simp [loop]; omega
  | cons c cs ih =>
    unfold loop
    split
    · omega
    · cases c with
      | none => exact ih out seen
      | some s =>
        simp only
        split
        · exact ih out seen
        · have := ih (out ++ [s]) (key s :: seen)
          simp at this; omega

/-- nothing eligible is dropped unless the list is full -/
theorem loop_maximal (key : α → κ) (maxLen : Nat) (cands : List (Option α)) (out : List α) (seen : List κ)
    (hinv : SeenInv key out seen) (c : α) (hc : some c ∈ cands) :
    key c ∈ (loop key maxLen cands out seen).map key ∨ maxLen ≤ (loop key maxLen cands out seen).length := by
  induction cands generalizing out seen with
  | nil => simp at hc
  | cons d ds ih =>
    have mono : ∀ (o : List α) (sn : List κ), key c ∈ o.map key →
        key c ∈ (loop key maxLen ds o sn).map key := by
      intro o sn h
      obtain ⟨e, h1, _⟩ := loop_ext key maxLen ds o sn
      rw [h1, List.map_append]; exact List.mem_append_left _ h
    unfold loop
    split
    · right; assumption
    · cases d with
      | none =>
        simp at hc
        exact ih out seen hinv hc
      | some s =>
        simp only
        rcases List.mem_cons.mp hc with h | h
        · have : c = s := by simpa using h
          subst this
          split
          · rename_i hs; left; exact mono _ _ ((hinv _).mp hs)
          · left; apply mono; simp
        · split
          · exact ih out seen hinv h
          · exact ih _ _ (seenInv_step hinv s) h

/-! ## The property theorems (all key functions, all candidate lists, all `maxLen`) -/

omit [DecidableEq κ] in
theorem seenInv_init (key : α → κ) (imm : α) : SeenInv key [imm] [key imm] := by intro k; simp

/-- the list starts with the node itself -/
theorem head_is_immediate (key : α → κ) (imm : α) (cands : List (Option α)) (maxLen : Nat) :
    ∃ tl, makeSuccList key imm cands maxLen = imm :: tl := by
  obtain ⟨e, h, _⟩ := loop_ext key maxLen cands [imm] [key imm]
  exact ⟨e, by simpa [makeSuccList] using h⟩

/-- no two entries share a key (id resp. address) -/
theorem nodup_keys (key : α → κ) (imm : α) (cands : List (Option α)) (maxLen : Nat) :
    ((makeSuccList key imm cands maxLen).map key).Nodup :=
  loop_nodup key maxLen cands _ _ (seenInv_init key imm) (by simp)

/-- after the head, the entries are a subsequence of the non-nil candidates: relative order kept,
nil entries skipped, nothing foreign added -/
theorem sublist (key : α → κ) (imm : α) (cands : List (Option α)) (maxLen : Nat) :
    (makeSuccList key imm cands maxLen).tail.Sublist (cands.filterMap id) := by
  obtain ⟨e, h, hs⟩ := loop_ext key maxLen cands [imm] [key imm]
  simp only [makeSuccList, h]; simpa using hs

/-- never longer than requested (for `maxLen ≥ 1`, the property's quantifier) -/
theorem length_le (key : α → κ) (imm : α) (cands : List (Option α)) (maxLen : Nat) (h : 1 ≤ maxLen) :
    (makeSuccList key imm cands maxLen).length ≤ maxLen := by
  have := loop_length key maxLen cands [imm] [key imm]
  simp at this; unfold makeSuccList; omega

/-- a candidate whose key is absent from the result was dropped only because the list is full -/
theorem maximal (key : α → κ) (imm : α) (cands : List (Option α)) (maxLen : Nat) (h : 1 ≤ maxLen)
    (c : α) (hc : some c ∈ cands) (hk : key c ∉ (makeSuccList key imm cands maxLen).map key) :
    (makeSuccList key imm cands maxLen).length = maxLen := by
  have h1 := loop_maximal key maxLen cands [imm] [key imm] (seenInv_init key imm) c hc
  have h2 := length_le key imm cands maxLen h
  unfold makeSuccList at *
  rcases h1 with h1 | h1
  · exact absurd h1 hk
  · omega

/-- explicit edge outside the quantifier: `maxLen = 0` still returns the one-element list -/
theorem maxLen_zero (key : α → κ) (imm : α) (cands : List (Option α)) :
    makeSuccList key imm cands 0 = [imm] := by
  cases cands <;> simp [makeSuccList, loop]

/-- the executable spec predicate used by the driver accepts every model output (inside the quantifier) -/
theorem model_wellFormed (key : Node → κ) (imm : Node) (cands : List (Option Node)) (maxLen : Nat)
    (h : 1 ≤ maxLen) : wellFormed key imm cands maxLen (makeSuccList key imm cands maxLen) = none := by
  obtain ⟨tl, htl⟩ := head_is_immediate key imm cands maxLen
  have h2 := nodup_keys key imm cands maxLen
  have h3 := sublist key imm cands maxLen
  have h4 := length_le key imm cands maxLen h
  rw [htl] at h2 h3 h4 ⊢
  simp only [List.tail_cons] at h3
  have h3' : tl.isSublist (List.filterMap id cands) = true := List.isSublist_iff_sublist.mpr h3
  have h4' : ¬ (imm :: tl).length > maxLen := by omega
  simp only [wellFormed]
  rw [if_neg (by simp), if_neg (by simpa using h2), if_neg (by simp [h3']), if_neg h4']

/-! instances for the two Go functions -/
theorem byID_wellFormed (imm : Node) (cands : List (Option Node)) (maxLen : Nat) (h : 1 ≤ maxLen) :
    wellFormed Node.id imm cands maxLen (byID imm cands maxLen) = none := model_wellFormed _ _ _ _ h
theorem byAddress_wellFormed (imm : Node) (cands : List (Option Node)) (maxLen : Nat) (h : 1 ≤ maxLen) :
    wellFormed Node.addr imm cands maxLen (byAddress imm cands maxLen) = none := model_wellFormed _ _ _ _ h

/-! non-vacuity -/
def n (i : Nat) (a : String) (t : Nat) : Node := ⟨i, a, t⟩
example : byID (n 1 "a" 0) [some (n 2 "a" 1), none, some (n 1 "b" 2), some (n 2 "c" 3), some (n 3 "a" 4), some (n 4 "d" 5)] 3
    = [n 1 "a" 0, n 2 "a" 1, n 3 "a" 4] := by decide
example : byAddress (n 1 "a" 0) [some (n 2 "a" 1), none, some (n 1 "b" 2), some (n 2 "c" 3), some (n 3 "a" 4)] 6
    = [n 1 "a" 0, n 1 "b" 2, n 2 "c" 3] := by decide
-- `maximal` hypotheses are satisfiable: candidate 4 is dropped only because the list is full
example : some (n 4 "d" 5) ∈ [some (n 2 "a" 1), some (n 3 "a" 4), some (n 4 "d" 5)] ∧
    (4 : Nat) ∉ (byID (n 1 "a" 0) [some (n 2 "a" 1), some (n 3 "a" 4), some (n 4 "d" 5)] 3).map Node.id := by decide
-- the spec predicate is not trivially `none`
example : wellFormed Node.id (n 1 "a" 0) [some (n 1 "b" 1)] 3 [n 1 "a" 0, n 1 "b" 1] = some "duplicate-key" := by decide
example : wellFormed Node.id (n 1 "a" 0) [some (n 2 "b" 1), some (n 3 "c" 2)] 3 [n 1 "a" 0, n 3 "c" 2, n 2 "b" 1]
    = some "order-or-foreign-entry" := by decide

end Specter.C12
