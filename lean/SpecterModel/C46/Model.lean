/-!
C46 executable model of `promise.All` (core Lean only).

Task `i` returns `(val, err)` (`err = 0` is `nil`, the zero value of `V` is `0`). A goroutine that has its
result writes exactly one of `errors[i]` / `results[i]`. A schedule is the order in which the goroutines
complete; `runOrder` replays the slot writes in that order; `expected` is the order-free answer.
-/
namespace Specter.C46

structure Outcome where
  val : Nat
  err : Nat
deriving Repr, DecidableEq

structure Slots where
  results : List Nat
  errors  : List Nat
deriving Repr, DecidableEq

def Slots.init (n : Nat) : Slots := ⟨List.replicate n 0, List.replicate n 0⟩

/-- the body of goroutine `i` after `fn` returned: `if e != nil { errors[i] = e; return }; results[i] = v` -/
def complete (outs : List Outcome) (s : Slots) (i : Nat) : Slots :=
  match outs[i]? with
  | none => s
  | some o => { results := if o.err = 0 then s.results.set i o.val else s.results,
                errors := if o.err = 0 then s.errors else s.errors.set i o.err }

def runOrder (outs : List Outcome) (order : List Nat) : Slots :=
  order.foldl (complete outs) (Slots.init outs.length)

def expResult (o : Outcome) : Nat := if o.err = 0 then o.val else 0

def expected (outs : List Outcome) : Slots := ⟨outs.map expResult, outs.map (·.err)⟩

end Specter.C46
