// C34 correspondence: the real gateway.extractHostname (through a verif shim) vs the Lean model and the
// executable statement of the property. net.ParseIP's answer for each host is supplied on the line.
package main

import (
	"fmt"
	"net"
	"strings"

	"go.miragespace.co/specter/gateway"
	"verif/harness/hlib"
)

func rootsTok(roots []string) string {
	if len(roots) == 0 {
		return "_"
	}
	xs := make([]string, len(roots))
	for i, r := range roots {
		xs[i] = hlib.HexS(r)
	}
	return strings.Join(xs, ",")
}

func parseRoots(t string) []string {
	if t == "_" {
		return nil
	}
	var out []string
	for _, x := range strings.Split(t, ",") {
		out = append(out, string(hlib.UnHex(x)))
	}
	return out
}

func call(roots []string, host string) (res string) {
	defer func() {
		if p := recover(); p != nil {
			res = "panic"
		}
	}()
	n, err := gateway.VerifExtractHostname(roots, host)
	if err != nil {
		m := err.Error()
		switch {
		case strings.Contains(m, "cannot be IP"):
			return "err:ip"
		case strings.Contains(m, "too few labels"):
			return "err:few"
		case strings.Contains(m, "invalid hostname"):
			return "err:invalid"
		}
		return "err:other"
	}
	return "ok:" + hlib.HexS(n)
}

func isIP(h string) bool { return net.ParseIP(h) != nil }

var r *hlib.Run

func ext(roots []string, host string) {
	res := call(roots, host)
	r.Emit("ext "+rootsTok(roots)+" "+hlib.HexS(host)+" "+hlib.B(isIP(host)), res)
	r.Case("e" + rootsTok(roots) + "|" + host)
	switch {
	case res == "ok:"+hlib.HexS(strings.ToLower(host)):
		r.Count("result:whole-host")
	case strings.HasPrefix(res, "ok:"):
		r.Count("result:label")
	default:
		r.Count("result:" + res)
	}
	if host != strings.ToLower(host) {
		r.Count("host:has-uppercase")
	}
}

func pair(roots []string, a, b string) {
	r.Emit("pair "+rootsTok(roots)+" "+hlib.HexS(a)+" "+hlib.B(isIP(a))+" "+hlib.HexS(b)+" "+hlib.B(isIP(b)),
		call(roots, a)+" "+call(roots, b))
	r.Case("p" + rootsTok(roots) + "|" + a + "|" + b)
	r.Count("pair")
}

func recase(rng *hlib.Rng, s string) string {
	b := []byte(s)
	mode := rng.Intn(4)
	for i, c := range b {
		isL := (c >= 'a' && c <= 'z') || (c >= 'A' && c <= 'Z')
		if !isL {
			continue
		}
		flip := false
		switch mode {
		case 0:
			flip = rng.Bool()
		case 1:
			flip = true
		case 2:
			flip = rng.Intn(8) == 0
		case 3: // flip exactly the root part or the label part
			flip = i > len(b)/2
		}
		if flip {
			b[i] = c ^ 0x20
		}
	}
	return string(b)
}

const labelAlpha = "abcdefghijklmnopqrstuvwxyzABCDEFGHIJKLMNOPQRSTUVWXYZ0123456789-"

func label(rng *hlib.Rng) string {
	n := 1 + rng.Intn(6)
	if rng.Intn(12) == 0 {
		n = 0
	}
	b := make([]byte, n)
	for i := range b {
		b[i] = labelAlpha[rng.Intn(len(labelAlpha))]
	}
	return string(b)
}

var rootPool = [][]string{
	{"example.com"}, {"example.com", "specter.dev"}, {"b.example.com", "example.com"}, {"a.b.c"},
	{"com"}, nil, {"specter.im", "xn--bcher-kva.example"}, {"ex-ample.co.uk"}, {"1.2.3"}, {""},
}

func ipLit(rng *hlib.Rng) string {
	switch rng.Intn(10) {
	case 0:
		return fmt.Sprintf("%d.%d.%d.%d", rng.Intn(256), rng.Intn(256), rng.Intn(256), rng.Intn(256))
	case 1:
		return fmt.Sprintf("%d.%d.%d.%d", rng.Intn(300), rng.Intn(300), rng.Intn(300), rng.Intn(300)) // maybe out of range
	case 2:
		return fmt.Sprintf("%d.%d.%d", rng.Intn(256), rng.Intn(256), rng.Intn(256)) // three labels, not an IP
	case 3:
		return fmt.Sprintf("0%d.%d.%d.%d", rng.Intn(256), rng.Intn(256), rng.Intn(256), rng.Intn(256)) // leading zero
	case 4:
		return fmt.Sprintf("::ffff:%d.%d.%d.%d", rng.Intn(256), rng.Intn(256), rng.Intn(256), rng.Intn(256))
	case 5:
		return fmt.Sprintf("::FFFF:%d.%d.%d.%d", rng.Intn(256), rng.Intn(256), rng.Intn(256), rng.Intn(256))
	case 6:
		return fmt.Sprintf("%x:%X::%x", rng.Intn(65536), rng.Intn(65536), rng.Intn(65536))
	case 7:
		return fmt.Sprintf("fe80::%x%%eth0", rng.Intn(65536)) // zone: ParseIP refuses
	case 8:
		return fmt.Sprintf("%d.%d.%d.%d.", rng.Intn(256), rng.Intn(256), rng.Intn(256), rng.Intn(256)) // trailing dot
	default:
		return fmt.Sprintf("64:ff9b::%d.%d.%d.%d", rng.Intn(256), rng.Intn(256), rng.Intn(256), rng.Intn(256))
	}
}

func host(rng *hlib.Rng, roots []string) string {
	root := "example.org"
	if len(roots) > 0 {
		root = hlib.Pick(rng, roots)
	}
	switch rng.Intn(12) {
	case 0, 1, 2: // label.root
		return label(rng) + "." + root
	case 3: // deeper below a root
		return label(rng) + "." + label(rng) + "." + root
	case 4: // the root itself / fewer labels
		if rng.Bool() {
			return root
		}
		return label(rng) + "." + label(rng)
	case 5: // root as a proper suffix without the dot boundary, or with trailing dot
		if rng.Bool() {
			return label(rng) + "." + label(rng) + root
		}
		return label(rng) + "." + root + "."
	case 6:
		return ipLit(rng)
	case 7: // unrelated three+ labels
		n := 3 + rng.Intn(3)
		xs := make([]string, n)
		for i := range xs {
			xs[i] = label(rng)
		}
		return strings.Join(xs, ".")
	case 8: // random over the property's alphabet
		n := rng.Intn(14)
		const al = "aAbBzZ09-..."
		b := make([]byte, n)
		for i := range b {
			b[i] = al[rng.Intn(len(al))]
		}
		return string(b)
	case 9: // other printable ASCII (still the model's domain)
		n := rng.Intn(10)
		b := make([]byte, n)
		for i := range b {
			b[i] = byte(0x20 + rng.Intn(0x5f))
		}
		return string(b) + "." + root
	case 10: // host:port slipped through, leading dot
		if rng.Bool() {
			return label(rng) + "." + root + ":443"
		}
		return "." + root
	default:
		return label(rng) + "." + strings.ToUpper(root)
	}
}

func main() {
	r = hlib.Start()
	r.Rule = "cases = (root list, host) calls of the real extractHostname + (root list, host, case-variant) pairs; non-trivial = distinct tuple; hosts: label.root in random letter case, deeper names, roots themselves, boundary-free suffixes, IPv4/IPv6 literals (in/out of range, mapped, zoned, trailing dot), random strings over letters/digits/hyphen/dot, printable ASCII; thorough adds every string of length <= 7 over {a,A,b,.,1}"
	rng := hlib.NewRng(hlib.NewRng(r.Seed).U64()) // re-seed through one output: consecutive seeds must not give shifted copies of one stream
	if r.Replay != "" {
		for _, t := range r.ReplayLines() {
			switch t[0] {
			case "ext":
				ext(parseRoots(t[1]), string(hlib.UnHex(t[2])))
			case "pair":
				pair(parseRoots(t[1]), string(hlib.UnHex(t[2])), string(hlib.UnHex(t[4])))
			}
		}
		r.Finish()
		return
	}
	// fixed corpus first
	for _, h := range []string{"foo.example.com", "foo.EXAMPLE.com", "FOO.example.COM", "Foo.Example.Com", "example.com", "EXAMPLE.COM",
		"a.b.example.com", "A.B.EXAMPLE.COM", "b.example.com", "x.b.example.com", "X.B.Example.Com", "1.2.3.4", "::1", "::ffff:1.2.3.4", "::FFFF:1.2.3.4",
		"1.2.3", "1.2.3.4.5", "..", "...", "a..", ".a.b", "", ".", "localhost", "foo.example.com.", "fooexample.com", "foo.barexample.com"} {
		for _, roots := range rootPool {
			ext(roots, h)
			pair(roots, h, strings.ToUpper(h))
			pair(roots, h, strings.ToLower(h))
		}
	}
	if r.Thorough() {
		// exhaustive: every string up to length 7 over a 5-letter alphabet, against three root lists
		al := []byte("aAb.1")
		lists := [][]string{{"a.b"}, {"b", "a.a"}, {"1.a", "a.1"}}
		var rec func(pfx []byte, depth int)
		rec = func(pfx []byte, depth int) {
			h := string(pfx)
			for _, roots := range lists {
				ext(roots, h)
			}
			if strings.ContainsAny(h, "aAb") {
				pair(lists[0], h, recase(rng, h))
			}
			if depth == 7 {
				return
			}
			for _, c := range al {
				rec(append(pfx, c), depth+1)
			}
		}
		rec(nil, 0)
	}
	n := 60_000
	if r.Thorough() {
		n = 1_500_000
	}
	for i := 0; i < n; i++ {
		var roots []string
		switch rng.Intn(8) {
		case 0: // random lower-case roots
			k := 1 + rng.Intn(3)
			for j := 0; j < k; j++ {
				roots = append(roots, strings.ToLower(label(rng)+"."+label(rng)))
			}
		case 1: // a root configured with capitals: outside the quantifier (model tie only)
			roots = []string{"Example.com", "example.org"}
			r.Count("roots:not-lowercase")
		default:
			roots = hlib.Pick(rng, rootPool)
		}
		h := host(rng, roots)
		ext(roots, h)
		v := recase(rng, h)
		pair(roots, h, v)
		if i%3 == 0 {
			ext(roots, v)
		}
	}
	r.Finish()
}
