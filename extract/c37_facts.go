package main

// c37-facts: extracts from (*apexServer).Mount (gateway/apex.go) the structure that guards the internal
// admin subtree, as Lean text:
//   * internalPrefix   – the pattern of the r.Route(...) call whose closure installs BasicAuth
//   * guardFields      – receiver fields compared with "" (joined by ||) in the `if … { return }` that precedes it
//   * middlewares      – the r.Use(...) calls inside the closure, in source order
//   * mounts           – r.Mount(pattern, h) calls inside the closure (with the handler field that must be non-nil)
//   * catchAll         – whether the closure ends with r.HandleFunc("/*", …)
//   * rootPatterns     – every literal route pattern registered on the root router outside the closure
// Unknown statement shapes inside the closure fail loudly.
//
// usage: extract c37-facts <namespace> <apex.go>

import (
	"fmt"
	"go/ast"
	"go/parser"
	"go/token"
	"strings"
)

func init() { factCmds["c37-facts"] = runC37Facts }

func c37Call(e ast.Expr) (recv, method string, args []ast.Expr, ok bool) {
	c, isCall := e.(*ast.CallExpr)
	if !isCall {
		return
	}
	sel, isSel := c.Fun.(*ast.SelectorExpr)
	if !isSel {
		return
	}
	id, isId := sel.X.(*ast.Ident)
	if !isId {
		return
	}
	return id.Name, sel.Sel.Name, c.Args, true
}

func c37Mw(fset *token.FileSet, e ast.Expr) string {
	src := c35Src(fset, e)
	switch {
	case strings.HasPrefix(src, "middleware.BasicAuth("):
		// the credential map must be exactly {a.authUser: a.authPass}
		flat := strings.Join(strings.Fields(src), "")
		if !strings.Contains(flat, "map[string]string{a.authUser:a.authPass,}") && !strings.Contains(flat, "map[string]string{a.authUser:a.authPass}") {
			fail("c37-facts: BasicAuth credential map of unknown shape: %s", flat)
		}
		return ".basicAuth"
	case src == "a.internalProxy":
		return ".internalProxy"
	}
	fail("c37-facts: unknown middleware in the internal subtree: %s", src)
	return ""
}

func runC37Facts(args []string) {
	if len(args) != 2 {
		fail("usage: c37-facts <namespace> <apex.go>")
	}
	ns, path := args[0], args[1]
	fset := token.NewFileSet()
	f, err := parser.ParseFile(fset, path, nil, 0)
	if err != nil {
		fail("c37-facts: %v", err)
	}
	var fd *ast.FuncDecl
	for _, d := range f.Decls {
		if x, ok := d.(*ast.FuncDecl); ok && x.Name.Name == "Mount" && x.Recv != nil {
			fd = x
		}
	}
	if fd == nil {
		fail("c37-facts: (*apexServer).Mount not found")
	}
	var rootPatterns, guard, mws, mounts []string
	prefix := ""
	catchAll := false
	var lastGuard []string
	for _, st := range fd.Body.List {
		// the guard: if a.X == "" || a.Y == "" { return }
		if is, ok := st.(*ast.IfStmt); ok && len(is.Body.List) == 1 {
			if _, isRet := is.Body.List[0].(*ast.ReturnStmt); isRet && is.Else == nil {
				var fields []string
				okShape := true
				var walk func(e ast.Expr)
				walk = func(e ast.Expr) {
					switch x := e.(type) {
					case *ast.ParenExpr:
						walk(x.X)
					case *ast.BinaryExpr:
						if x.Op == token.LOR {
							walk(x.X)
							walk(x.Y)
							return
						}
						if x.Op == token.EQL {
							if s, ok := c35Str(x.Y); ok && s == "" {
								if sel, ok := x.X.(*ast.SelectorExpr); ok {
									if id, ok := sel.X.(*ast.Ident); ok && id.Name == "a" {
										fields = append(fields, sel.Sel.Name)
										return
									}
								}
							}
						}
						okShape = false
					default:
						okShape = false
					}
				}
				walk(is.Cond)
				if !okShape {
					fail("c37-facts: early-return guard of unknown shape in Mount: %s", c35Src(fset, is.Cond))
				}
				lastGuard = fields
				continue
			}
		}
		// collect literal patterns registered on the root router (also inside if-blocks such as the PKI mount)
		isInternalRoute := false
		ast.Inspect(st, func(n ast.Node) bool {
			es, ok := n.(*ast.ExprStmt)
			if !ok {
				return true
			}
			recv, m, a, ok := c37Call(es.X)
			if ok && recv == "r" && m == "Route" && len(a) == 2 {
				if fl, ok := a[1].(*ast.FuncLit); ok && strings.Contains(c35Src(fset, fl), "middleware.BasicAuth(") {
					if prefix != "" {
						fail("c37-facts: several BasicAuth subtrees")
					}
					p, ok := c35Str(a[0])
					if !ok {
						fail("c37-facts: internal prefix is not a literal")
					}
					prefix = p
					guard = lastGuard
					isInternalRoute = true
					for _, ist := range fl.Body.List {
						if is, ok := ist.(*ast.IfStmt); ok { // if a.handlers.X != nil { r.Mount("/x", a.handlers.X) }
							be, ok1 := is.Cond.(*ast.BinaryExpr)
							if ok1 && be.Op == token.NEQ && c35Src(fset, be.Y) == "nil" && len(is.Body.List) == 1 && is.Else == nil {
								if bes, ok := is.Body.List[0].(*ast.ExprStmt); ok {
									if rc, m, ma, ok := c37Call(bes.X); ok && rc == "r" && m == "Mount" && len(ma) == 2 && c35Src(fset, ma[1]) == c35Src(fset, be.X) {
										if p, ok := c35Str(ma[0]); ok {
											field := c35Src(fset, be.X)
											mounts = append(mounts, fmt.Sprintf("(%q, %q)", p, field[strings.LastIndex(field, ".")+1:]))
											continue
										}
									}
								}
							}
							fail("c37-facts: if-statement of unknown shape in the internal subtree: %s", c35Src(fset, is.Cond))
						}
						ies, ok := ist.(*ast.ExprStmt)
						if !ok {
							fail("c37-facts: statement of unknown shape in the internal subtree: %s", c35Src(fset, ist))
						}
						rc, m, ma, ok := c37Call(ies.X)
						if !ok || rc != "r" {
							fail("c37-facts: call of unknown shape in the internal subtree: %s", c35Src(fset, ist))
						}
						switch {
						case m == "Use" && len(ma) == 1:
							if len(mounts) > 0 || catchAll {
								fail("c37-facts: r.Use after routes in the internal subtree")
							}
							mws = append(mws, c37Mw(fset, ma[0]))
						case m == "Mount" && len(ma) == 2:
							p, ok := c35Str(ma[0])
							if !ok {
								fail("c37-facts: mount pattern is not a literal")
							}
							mounts = append(mounts, fmt.Sprintf("(%q, %q)", p, "always"))
						case m == "HandleFunc" && len(ma) == 2:
							if p, ok := c35Str(ma[0]); ok && p == "/*" {
								catchAll = true
							} else {
								fail("c37-facts: HandleFunc pattern other than /* in the internal subtree")
							}
						default:
							fail("c37-facts: unknown router call r.%s in the internal subtree", m)
						}
					}
					return false
				}
			}
			if ok && recv == "r" && len(a) >= 1 {
				switch m {
				case "Get", "Post", "Put", "Delete", "Head", "Options", "Patch", "Connect", "Trace", "Handle", "HandleFunc", "Mount", "Route", "Method", "MethodFunc":
					if p, ok := c35Str(a[0]); ok {
						rootPatterns = append(rootPatterns, fmt.Sprintf("%q", p))
					} else {
						rootPatterns = append(rootPatterns, fmt.Sprintf("%q", "<"+c35Src(fset, a[0])+">"))
					}
				}
			}
			// r.With(...).Mount(prefix, h)
			if c, ok := es.X.(*ast.CallExpr); ok {
				if sel, ok := c.Fun.(*ast.SelectorExpr); ok && (sel.Sel.Name == "Mount" || sel.Sel.Name == "Handle" || sel.Sel.Name == "Get") {
					if _, isCall := sel.X.(*ast.CallExpr); isCall && len(c.Args) >= 1 {
						if p, ok := c35Str(c.Args[0]); ok {
							rootPatterns = append(rootPatterns, fmt.Sprintf("%q", p))
						} else {
							rootPatterns = append(rootPatterns, fmt.Sprintf("%q", "<"+c35Src(fset, c.Args[0])+">"))
						}
					}
				}
			}
			return true
		})
		_ = isInternalRoute
	}
	if prefix == "" {
		fail("c37-facts: no r.Route(…) with BasicAuth found in Mount")
	}
	gq := make([]string, len(guard))
	for i, g := range guard {
		gq[i] = fmt.Sprintf("%q", g)
	}
	var sb strings.Builder
	sb.WriteString("import SpecterModel.C37.Ops\n")
	sb.WriteString("/-! GENERATED by `extract c37-facts` from gateway/apex.go — do not edit. -/\n")
	fmt.Fprintf(&sb, "namespace %s\nopen Specter.C37\n\n", ns)
	fmt.Fprintf(&sb, "def internalPrefix : String := %q\n\n", prefix)
	fmt.Fprintf(&sb, "/-- `if a.f₁ == \"\" || a.f₂ == \"\" { return }` right before the subtree is registered -/\ndef guardFields : List String := [%s]\n\n", strings.Join(gq, ", "))
	fmt.Fprintf(&sb, "/-- `r.Use(...)` inside the subtree, in source order -/\ndef middlewares : List Mw := [%s]\n\n", strings.Join(mws, ", "))
	fmt.Fprintf(&sb, "/-- `r.Mount(pattern, handler)` inside the subtree: (pattern, handler field that must be non-nil | \"always\") -/\ndef mounts : List (String × String) := [%s]\n\n", strings.Join(mounts, ", "))
	fmt.Fprintf(&sb, "def catchAll : Bool := %v\n\n", catchAll)
	fmt.Fprintf(&sb, "/-- route patterns registered on the root router outside the subtree -/\ndef rootPatterns : List String := [%s]\n\nend %s\n", strings.Join(rootPatterns, ", "), ns)
	fmt.Print(sb.String())
}
