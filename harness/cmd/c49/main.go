// C49 correspondence: the real acme.ChordStorage over the real in-memory KV (kv/memory).
//
// Part 1 (file store): random store/load/delete/exists/stat/list histories over path-like keys
// (sibling keys sharing a string prefix, nested directories, trailing slashes, a malformed stream).
// Part 2 (locks): two or three ChordStorage instances share one MemoryKV through a recording wrapper that
// logs every lease call (Acquire/Renew/Release) with the wall-clock window around it; Lock/Unlock markers
// are logged in the same total order. Real time is involved (lease TTL 1–2 s, renewal at ttl/4); every
// verdict is computed from the OBSERVED tokens/times, never from an expected schedule. Scenarios: contention
// longer than the TTL (ticker renewals), injected renewal failure with take-over and stale unlock, and explicit
// RenewLockLease calls (various duration arguments, by holders and non-holders) followed by a hold longer than
// the lease while another instance contends, and locks acquired with a request-scoped context (cancelled by the caller
// after Lock returned, a deadline that passes during the hold, a cancelled ancestor, cancelled only after Unlock) held
// for longer than a lease after that context ended while the other instances contend — the end of the context Lock
// was called with is not an unlock. A heartbeat goroutine witnesses that the process was never stalled
// for a sizeable part of a lease (a stalled run says nothing about the storage and is repeated). Slow renewals: some
// renewal requests of a holder's goroutine need longer than a ticker period (but far less than the lease left) to reach
// the KV — `renewslow` lines; a request the storage abandons before it is answered is logged as `kvrenew … => gaveup`.
package main

import (
	"context"
	"errors"
	"io/fs"
	"sort"
	"strconv"
	"strings"
	"sync"
	"sync/atomic"
	"time"

	"go.miragespace.co/specter/acme"
	"go.miragespace.co/specter/kv/memory"
	"go.miragespace.co/specter/spec/chord"
	"go.uber.org/zap"
	"verif/harness/hlib"
)

var segs = []string{"a", "b", "ab", "bc", "b.c", "x", "y", "certs", "k"}

func newStorage(kv chord.KV, ttl time.Duration) *acme.ChordStorage {
	s, err := acme.NewChordStorage(zap.NewNop(), kv, acme.StorageConfig{RetryInterval: 100 * time.Millisecond, LeaseTTL: ttl})
	if err != nil {
		panic(err)
	}
	return s
}

// ---------- part 1 ----------

type fileRun struct {
	r  *hlib.Run
	st *acme.ChordStorage
}

func (f *fileRun) reset() {
	f.st = newStorage(memory.WithHashFn(chord.Hash), 2*time.Second)
	f.r.Raw("reset")
}

func guard(fn func() string) (res string) {
	defer func() {
		if p := recover(); p != nil {
			res = "panic"
		}
	}()
	return fn()
}

func (f *fileRun) op(toks []string) {
	ctx := context.Background()
	r := f.r
	lhs := strings.Join(toks, " ")
	key := func(i int) string { return string(hlib.UnHex(toks[i])) }
	var res string
	switch toks[0] {
	case "reset":
		f.reset()
		return
	case "store":
		v := hlib.UnHex(toks[2])
		if v == nil {
			v = []byte{}
		}
		res = guard(func() string {
			if err := f.st.Store(ctx, key(1), v); err != nil {
				return "err"
			}
			return "ok"
		})
		r.Case("")
	case "delete":
		res = guard(func() string {
			if err := f.st.Delete(ctx, key(1)); err != nil {
				return "err"
			}
			return "ok"
		})
		r.Case("")
	case "load":
		res = guard(func() string {
			v, err := f.st.Load(ctx, key(1))
			if err != nil {
				if errors.Is(err, errNotExist) {
					return "notexist"
				}
				return "err"
			}
			return "v:" + hlib.Hex(v)
		})
		r.Case(lhs + "|" + res)
	case "exists":
		res = guard(func() string { return hlib.B(f.st.Exists(ctx, key(1))) })
		r.Case(lhs + "|" + res)
	case "stat":
		res = guard(func() string {
			info, err := f.st.Stat(ctx, key(1))
			if err != nil {
				if errors.Is(err, errNotExist) {
					return "notexist"
				}
				return "err"
			}
			if info.Key != key(1) || !info.IsTerminal {
				return "badinfo"
			}
			return "size:" + strconv.FormatInt(info.Size, 10)
		})
		r.Case(lhs + "|" + res)
	case "list":
		res = guard(func() string {
			ks, err := f.st.List(ctx, key(1), toks[2] == "true")
			if err != nil {
				return "err"
			}
			hs := make([]string, len(ks))
			for i, k := range ks {
				hs[i] = hlib.HexS(k)
			}
			sort.Strings(hs) // ListKeys order is hash order: canonicalise, multiplicity kept
			return hlib.Join(hs, ",")
		})
		r.Case(lhs + "|" + res)
		if res == "-" {
			r.Count("list:empty-result")
		} else {
			r.Count("list:non-empty-result")
		}
	default:
		return
	}
	r.Count("op:" + toks[0])
	r.Emit(lhs, res)
}

func genPath(rng *hlib.Rng, pool []string) string {
	if len(pool) > 0 && rng.Chance(35) {
		// extend or shorten an existing path: creates parents/children/siblings
		p := hlib.Pick(rng, pool)
		switch rng.Intn(4) {
		case 0:
			return p + "/" + hlib.Pick(rng, segs)
		case 1:
			if i := strings.LastIndex(p, "/"); i > 0 {
				return p[:i]
			}
			return p
		case 2:
			return p + hlib.Pick(rng, []string{"c", "x", ".", "-"}) // sibling sharing the string prefix
		default:
			return p
		}
	}
	n := 1 + rng.Intn(4)
	parts := make([]string, n)
	for i := range parts {
		parts[i] = hlib.Pick(rng, segs)
	}
	p := strings.Join(parts, "/")
	if rng.Chance(4) { // malformed stream
		switch rng.Intn(4) {
		case 0:
			p += "/"
		case 1:
			p = strings.Replace(p, "/", "//", 1)
		case 2:
			p = "/" + p
		default:
			p = ""
		}
	}
	return p
}

func genPrefix(rng *hlib.Rng, pool []string) string {
	if len(pool) == 0 || rng.Chance(10) {
		return hlib.Pick(rng, []string{"", "a", "a/b", "certs", "zz"})
	}
	p := hlib.Pick(rng, pool)
	parts := strings.Split(p, "/")
	k := rng.Intn(len(parts) + 1)
	q := strings.Join(parts[:k], "/")
	if q != "" && rng.Chance(25) {
		q += "/"
	}
	return q
}

func (f *fileRun) randomCase(rng *hlib.Rng, nops int) {
	f.reset()
	var pool []string
	for i := 0; i < nops; i++ {
		c := rng.Intn(100)
		switch {
		case c < 35:
			k := genPath(rng, pool)
			pool = append(pool, k)
			var v []byte
			if !rng.Chance(8) {
				v = rng.Bytes(1 + rng.Intn(6))
			}
			f.op([]string{"store", hlib.HexS(k), hlib.Hex(v)})
		case c < 47:
			f.op([]string{"delete", hlib.HexS(genPath(rng, pool))})
		case c < 60:
			f.op([]string{"load", hlib.HexS(genPath(rng, pool))})
		case c < 66:
			f.op([]string{"exists", hlib.HexS(genPath(rng, pool))})
		case c < 72:
			f.op([]string{"stat", hlib.HexS(genPath(rng, pool))})
		default:
			f.op([]string{"list", hlib.HexS(genPrefix(rng, pool)), hlib.B(rng.Chance(25))})
		}
	}
}

// ---------- part 2 ----------

type lockLog struct {
	mu    sync.Mutex
	lines [][2]string
}

func (l *lockLog) add(lhs, rhs string) { l.lines = append(l.lines, [2]string{lhs, rhs}) }

func now() int64 { return time.Now().UnixNano() }

// recKV tags and records the lease calls of one storage instance; calls are serialised by log.mu so
// that the log order is the order in which the KV saw them.
type recKV struct {
	chord.KV
	inst      int
	log       *lockLog
	failRenew atomic.Bool
	// transport latency: slow[n-1] > 0 means that the n-th Renew request of this instance needs that long to
	// reach the KV (a latency spike / slow hop); like a real transport the wait ends early when the caller's
	// context ends, and the KV is then never asked. The KV itself answers as always.
	slow       []time.Duration
	renewCalls atomic.Int32
}

func i64(x int64) string  { return strconv.FormatInt(x, 10) }
func u64(x uint64) string { return strconv.FormatUint(x, 10) }

func (k *recKV) Acquire(ctx context.Context, lease []byte, ttl time.Duration) (uint64, error) {
	k.log.mu.Lock()
	defer k.log.mu.Unlock()
	tb := now()
	tok, err := k.KV.Acquire(ctx, lease, ttl)
	ta := now()
	res := "tok:" + u64(tok)
	switch {
	case err == nil:
	case errors.Is(err, chord.ErrKVLeaseConflict):
		res = "conflict"
	case errors.Is(err, chord.ErrKVLeaseInvalidTTL):
		res = "invalidttl"
	default:
		res = "err"
	}
	k.log.add(hlib.F("kvacq %d %s %d %d %d", k.inst, hlib.Hex(lease), int64(ttl), tb, ta), res)
	return tok, err
}

var errInjected = errors.New("injected renewal failure")

func (k *recKV) Renew(ctx context.Context, lease []byte, ttl time.Duration, prev uint64) (uint64, error) {
	if n := int(k.renewCalls.Add(1)); n <= len(k.slow) && k.slow[n-1] > 0 {
		lat := k.slow[n-1]
		k.log.mu.Lock()
		k.log.add(hlib.F("renewslow %d %s %d %d", k.inst, hlib.Hex(lease), int64(lat), now()), "-")
		k.log.mu.Unlock()
		select {
		case <-time.After(lat):
		case <-ctx.Done():
			// the caller gave the request up before it was answered: the KV never saw it
			k.log.mu.Lock()
			t := now()
			k.log.add(hlib.F("kvrenew %d %s %d %d %d %d", k.inst, hlib.Hex(lease), int64(ttl), prev, t, t), "gaveup")
			k.log.mu.Unlock()
			return 0, ctx.Err()
		}
	}
	k.log.mu.Lock()
	defer k.log.mu.Unlock()
	tb := now()
	if k.failRenew.Load() {
		k.log.add(hlib.F("kvrenew %d %s %d %d %d %d", k.inst, hlib.Hex(lease), int64(ttl), prev, tb, tb), "injected")
		return 0, errInjected
	}
	tok, err := k.KV.Renew(ctx, lease, ttl, prev)
	ta := now()
	res := "tok:" + u64(tok)
	switch {
	case err == nil:
	case errors.Is(err, chord.ErrKVLeaseExpired):
		res = "expired"
	case errors.Is(err, chord.ErrKVLeaseInvalidTTL):
		res = "invalidttl"
	default:
		res = "err"
	}
	k.log.add(hlib.F("kvrenew %d %s %d %d %d %d", k.inst, hlib.Hex(lease), int64(ttl), prev, tb, ta), res)
	return tok, err
}

func (k *recKV) Release(ctx context.Context, lease []byte, token uint64) error {
	k.log.mu.Lock()
	defer k.log.mu.Unlock()
	tb := now()
	err := k.KV.Release(ctx, lease, token)
	ta := now()
	res := "ok"
	if err != nil {
		res = "err"
		if errors.Is(err, chord.ErrKVLeaseExpired) {
			res = "expired"
		}
	}
	k.log.add(hlib.F("kvrel %d %s %d %d %d", k.inst, hlib.Hex(lease), token, tb, ta), res)
	return err
}

type inst struct {
	id  int
	kv  *recKV
	st  *acme.ChordStorage
	log *lockLog
}

const kvPrefix = "/acme-storage/"

func (in *inst) lock(key string) {
	err := in.st.Lock(context.Background(), key)
	in.log.mu.Lock()
	res := "ok"
	if err != nil {
		res = "err"
	}
	in.log.add(hlib.F("locked %d %s %d", in.id, hlib.HexS(kvPrefix+key), now()), res)
	in.log.mu.Unlock()
}

func (in *inst) unlock(key string) {
	in.log.mu.Lock()
	in.log.add(hlib.F("unlocking %d %s %d", in.id, hlib.HexS(kvPrefix+key), now()), "-")
	in.log.mu.Unlock()
	err := in.st.Unlock(context.Background(), key)
	res := "ok"
	switch {
	case err == nil:
	case errors.Is(err, chord.ErrKVLeaseExpired):
		res = "expired"
	case strings.Contains(err.Error(), "not a lease holder"):
		res = "notholder"
	default:
		res = "err"
	}
	in.log.mu.Lock()
	in.log.add(hlib.F("unlocked %d %s %d", in.id, hlib.HexS(kvPrefix+key), now()), res)
	in.log.mu.Unlock()
}

// lockCtx is lock with a request-scoped context of the given kind:
//
//	bg       context.Background()
//	cancel   context.WithCancel, cancelled by the caller `delay` after Lock returned (the usual
//	         "ctx, cancel := …; defer cancel()" around an acquisition)
//	timeout  context.WithTimeout(delay): the deadline passes while the lock is held (only for an instance that
//	         acquires at once: the storage's Lock polls the KV regardless of its context)
//	parent   a value/deadline-carrying descendant of a context cancelled `delay` after Lock returned
//	late     context.WithCancel, cancelled only after Unlock (the returned function does it)
//
// onLocked runs as soon as Lock has returned. lockCtx itself returns once the context has ended (bg, late: at once),
// after logging `ctxdone <inst> <key> <kind> <time>`. The returned function is to be called after Unlock.
type ctxKeyT struct{}

func (in *inst) lockCtx(key, kind string, delay time.Duration, onLocked func()) (afterUnlock func()) {
	ctx := context.Background()
	var end func()
	switch kind {
	case "cancel", "late":
		ctx, end = context.WithCancel(ctx)
	case "timeout":
		ctx, end = context.WithTimeout(ctx, delay)
	case "parent":
		var child func()
		ctx, end = context.WithCancel(ctx)
		ctx, child = context.WithTimeout(context.WithValue(ctx, ctxKeyT{}, in.id), time.Hour)
		defer func() { prev := afterUnlock; afterUnlock = func() { child(); prev() } }()
	}
	done := func() {
		in.log.mu.Lock()
		in.log.add(hlib.F("ctxdone %d %s %s %d", in.id, hlib.HexS(kvPrefix+key), kind, now()), "-")
		in.log.mu.Unlock()
	}
	err := in.st.Lock(ctx, key)
	in.log.mu.Lock()
	res := "ok"
	if err != nil {
		res = "err"
	}
	in.log.add(hlib.F("locked %d %s %d", in.id, hlib.HexS(kvPrefix+key), now()), res)
	in.log.mu.Unlock()
	onLocked()
	switch kind {
	case "cancel", "parent":
		time.Sleep(delay)
		end()
		<-ctx.Done()
		done()
	case "timeout":
		<-ctx.Done()
		done()
		return end
	case "late":
		return func() { end(); done() }
	}
	return func() {}
}

// renewLock brackets an explicit RenewLockLease(key, dur) call with markers; the KV renewal it makes is
// recorded by recKV in between.
func (in *inst) renewLock(key string, dur time.Duration) {
	in.log.mu.Lock()
	in.log.add(hlib.F("renewing %d %s %d %d", in.id, hlib.HexS(kvPrefix+key), int64(dur), now()), "-")
	in.log.mu.Unlock()
	res := guard(func() string {
		err := in.st.RenewLockLease(context.Background(), key, dur)
		switch {
		case err == nil:
			return "ok"
		case errors.Is(err, chord.ErrKVLeaseExpired):
			return "expired"
		case errors.Is(err, chord.ErrKVLeaseInvalidTTL):
			return "invalidttl"
		case strings.Contains(err.Error(), "not a lease holder"):
			return "notholder"
		default:
			return "err"
		}
	})
	in.log.mu.Lock()
	in.log.add(hlib.F("renewedlock %d %s %d %d", in.id, hlib.HexS(kvPrefix+key), int64(dur), now()), res)
	in.log.mu.Unlock()
}

func mkInsts(n int, ttl time.Duration, log *lockLog, kv chord.KV, base int) []*inst {
	res := make([]*inst, n)
	for i := range res {
		rk := &recKV{KV: kv, inst: base + i, log: log}
		res[i] = &inst{id: base + i, kv: rk, st: newStorage(rk, ttl), log: log}
	}
	return res
}

// contention: instance 0 takes the lock and keeps it longer than the TTL (renewal needed); the others
// call Lock meanwhile and take turns after the unlock.
func scenarioContend(log *lockLog, kv chord.KV, key string, n int, hold time.Duration, base int) {
	ins := mkInsts(n, 2*time.Second, log, kv, base)
	ins[0].lock(key)
	var wg sync.WaitGroup
	for _, in := range ins[1:] {
		wg.Add(1)
		go func(in *inst) {
			defer wg.Done()
			in.lock(key)
			time.Sleep(300 * time.Millisecond)
			in.unlock(key)
		}(in)
	}
	time.Sleep(hold)
	ins[0].unlock(key)
	wg.Wait()
	ins[1].unlock(key) // not a holder any more
}

// expiry: instance 0's renewals fail (injected), so its lease runs out while it still believes it holds
// the lock; instance 1 then obtains it legitimately; instance 0's late Unlock must not disturb it.
func scenarioExpiry(log *lockLog, kv chord.KV, key string, base int) {
	ins := mkInsts(2, time.Second, log, kv, base)
	ins[0].kv.failRenew.Store(true)
	ins[0].lock(key)
	done := make(chan struct{})
	go func() {
		ins[1].lock(key)
		time.Sleep(1500 * time.Millisecond) // longer than the TTL: needs instance 1's own renewals
		close(done)
	}()
	<-done
	ins[0].unlock(key) // stale token: ErrKVLeaseExpired, lease of instance 1 untouched
	time.Sleep(100 * time.Millisecond)
	ins[1].unlock(key)
}

// explicit renewal: instance 0 takes the lock, extends it through RenewLockLease(key, dur) — once or twice, with
// whatever duration the caller likes (the storage's own TTL, zero, a fraction, a non-integral or a longer one) —
// and then keeps holding it for `hold`, longer than both the configured lease and the requested duration, with
// nothing but the background renewals; instance 1 contends all the time and gets its turn after the unlock.
// Non-holders call RenewLockLease too (before locking, after unlocking).
func scenarioExplicitRenew(log *lockLog, kv chord.KV, key string, ttl time.Duration, durs []time.Duration, pause, hold time.Duration, base int) {
	ins := mkInsts(2, ttl, log, kv, base)
	ins[1].renewLock(key, ttl) // not a holder: no KV call
	ins[0].lock(key)
	for _, d := range durs {
		time.Sleep(pause)
		ins[0].renewLock(key, d)
	}
	done := make(chan struct{})
	go func() {
		defer close(done)
		ins[1].lock(key)
		ins[1].renewLock(key, ttl)
		time.Sleep(100 * time.Millisecond)
		ins[1].unlock(key)
	}()
	time.Sleep(hold)
	ins[0].unlock(key)
	ins[0].renewLock(key, ttl) // not a holder any more
	<-done
}

// scoped contexts: every instance in turn takes the lock with a request-scoped context (kinds[i], ending delays[i]
// after its Lock returned) and then keeps the lock for `hold` — longer than a lease plus a contender's polling
// interval — with nothing but its background renewals, while the others contend; it then renews explicitly (still
// a proper holder), unlocks, and the next one gets its turn. Instance 0 acquires first.
func scenarioScoped(log *lockLog, kv chord.KV, key string, ttl time.Duration, kinds []string, delays []time.Duration, base int) {
	ins := mkInsts(len(kinds), ttl, log, kv, base)
	hold := ttl + ttl/2 + 400*time.Millisecond
	first := make(chan struct{})
	var wg sync.WaitGroup
	for i := range ins {
		wg.Add(1)
		go func(i int) {
			defer wg.Done()
			if i > 0 {
				<-first // instance 0 has the lock
			}
			after := ins[i].lockCtx(key, kinds[i], delays[i], func() {
				if i == 0 {
					close(first)
				}
			})
			time.Sleep(hold)
			ins[i].renewLock(key, ttl)
			ins[i].unlock(key)
			after()
		}(i)
	}
	wg.Wait()
}

// slow renewals: instance 0 takes the lock and keeps it for `hold`, much longer than a lease, while the others
// contend; some of the renewal requests of its background goroutine are slow (`slow[n-1]` = latency of the n-th one):
// longer than a ticker period (ttl/4) but far inside the lease that is left when the request is made (at least
// 3/4 ttl). A holder whose renewal is answered late but in time has not lost anything: nobody else may obtain the
// lock before it unlocks. After the hold it renews explicitly (still a proper holder) and unlocks; the others take turns.
func scenarioSlowRenew(log *lockLog, kv chord.KV, key string, ttl time.Duration, n int, slow []time.Duration, hold time.Duration, base int) {
	ins := mkInsts(n, ttl, log, kv, base)
	ins[0].kv.slow = slow
	ins[0].lock(key)
	var wg sync.WaitGroup
	for _, in := range ins[1:] {
		wg.Add(1)
		go func(in *inst) {
			defer wg.Done()
			in.lock(key)
			time.Sleep(200 * time.Millisecond)
			in.unlock(key)
		}(in)
	}
	time.Sleep(hold)
	ins[0].renewLock(key, ttl)
	ins[0].unlock(key)
	wg.Wait()
}

// heartbeat measures the longest interval in which a 20 ms ticker goroutine of this process did not get to run.
type heartbeat struct {
	stop chan struct{}
	done chan time.Duration
}

func startHeartbeat() *heartbeat {
	h := &heartbeat{stop: make(chan struct{}), done: make(chan time.Duration, 1)}
	go func() {
		t := time.NewTicker(20 * time.Millisecond)
		defer t.Stop()
		last, max := time.Now(), time.Duration(0)
		for {
			select {
			case <-h.stop:
				if g := time.Since(last); g > max {
					max = g
				}
				h.done <- max
				return
			case <-t.C:
				n := time.Now()
				if g := n.Sub(last); g > max {
					max = g
				}
				last = n
			}
		}
	}()
	return h
}

func (h *heartbeat) maxGap() time.Duration { close(h.stop); return <-h.done }

// the shortest lease used below is 1 s, renewed every 250 ms; a process stall approaching the lease can make a
// healthy storage miss renewals, which is not a statement about the storage
const stallLimit = 400 * time.Millisecond

func durChoices(ttl time.Duration) []time.Duration {
	return []time.Duration{ttl, 0, ttl / 2, ttl + 700*time.Millisecond, ttl - time.Second, time.Second, -time.Second}
}

func runLocksOnce(thorough bool, rng *hlib.Rng) *lockLog {
	log := &lockLog{}
	kv := memory.WithHashFn(chord.Hash)
	rounds := 1
	if thorough {
		rounds = 4
	}
	for round := 0; round < rounds; round++ {
		var wg sync.WaitGroup
		n := 2
		if thorough || rng.Bool() {
			n = 3
		}
		hold := time.Duration(2300+rng.Intn(900)) * time.Millisecond
		// explicit renewals: (1) the caller passes the storage's own TTL, once, shortly after Lock;
		// (2) random duration arguments, one or two calls, random pause; TTL 1 s or 2 s
		ttl2 := time.Duration(1+rng.Intn(2)) * time.Second
		durs2 := []time.Duration{hlib.Pick(rng, durChoices(ttl2))}
		if rng.Bool() {
			durs2 = append(durs2, hlib.Pick(rng, durChoices(ttl2)))
		}
		if thorough && round%2 == 1 {
			durs2 = append(durs2, 2*ttl2) // a longer extension than the TTL (takes longer to observe)
		}
		pause1 := time.Duration(50+rng.Intn(400)) * time.Millisecond
		pause2 := time.Duration(50+rng.Intn(300)) * time.Millisecond
		// long enough for a lease of max(ttl, requested) to run out and a contender (polling every ttl/2) to notice
		hold1 := 2*time.Second + time.Second + 500*time.Millisecond
		hold2 := ttl2 + ttl2/2 + 400*time.Millisecond
		if thorough && round%2 == 1 {
			hold2 = 2*ttl2 + ttl2/2 + 400*time.Millisecond
		}
		// request-scoped acquiring contexts: 2 or 3 instances, each holding in turn; instance 0's context always ends
		// while it holds (cancelled / deadline / cancelled ancestor), the others' kinds are random (controls included)
		nE := 2 + rng.Intn(2)
		ttlE := time.Second
		if nE == 2 && rng.Bool() {
			ttlE = 2 * time.Second
		}
		kindsE := []string{hlib.Pick(rng, []string{"cancel", "timeout", "parent"})}
		delaysE := []time.Duration{time.Duration(rng.Intn(int(ttlE/time.Millisecond))) * time.Millisecond}
		if kindsE[0] == "timeout" { // a deadline that is still ahead when Lock returns
			delaysE[0] += 150 * time.Millisecond
		} else if rng.Chance(30) {
			delaysE[0] = 0 // `defer cancel()` right after the acquisition
		}
		for i := 1; i < nE; i++ {
			kindsE = append(kindsE, hlib.Pick(rng, []string{"cancel", "cancel", "parent", "late", "bg"}))
			delaysE = append(delaysE, time.Duration(rng.Intn(int(ttlE/time.Millisecond)/2))*time.Millisecond)
		}
		// slow renewal requests (TTL 2 s, ticker every 500 ms, at least 1.5 s of lease left at each request): the
		// nth request of the holder's goroutine needs 560..1000 ms — more than a ticker period, at least 500 ms less
		// than the lease left —, optionally another one is slow too (shorter or longer than a period); the hold
		// outlasts the lease that was current at the slow request by a polling interval (ttl/2) and more
		ttlF := 2 * time.Second
		nthF := 1 + rng.Intn(3)
		slowF := make([]time.Duration, nthF+2)
		slowF[nthF-1] = time.Duration(560+rng.Intn(441)) * time.Millisecond
		if rng.Bool() {
			o := rng.Intn(len(slowF))
			if o != nthF-1 {
				slowF[o] = time.Duration(50+rng.Intn(900)) * time.Millisecond
			}
		}
		nF := 2 + rng.Intn(2)
		// (not a multiple of the ticker period: the explicit RenewLockLease at the end of the hold must not coincide
		// with a renewal of the goroutine — both would present the same token and the later one is refused)
		holdF := time.Duration(nthF)*ttlF/4 + ttlF + ttlF/2 + 730*time.Millisecond
		wg.Add(6)
		go func() {
			defer wg.Done()
			scenarioSlowRenew(log, kv, hlib.F("lockF%d", round), ttlF, nF, slowF, holdF, 10*round+200)
		}()
		go func() {
			defer wg.Done()
			scenarioScoped(log, kv, hlib.F("lockE%d", round), ttlE, kindsE, delaysE, 10*round+100)
		}()
		go func() { defer wg.Done(); scenarioContend(log, kv, hlib.F("lockA%d", round), n, hold, 10*round) }()
		go func() { defer wg.Done(); scenarioExpiry(log, kv, hlib.F("lockB%d", round), 10*round+5) }()
		go func() {
			defer wg.Done()
			scenarioExplicitRenew(log, kv, hlib.F("lockC%d", round), 2*time.Second, []time.Duration{2 * time.Second}, pause1, hold1, 10*round+3)
		}()
		go func() {
			defer wg.Done()
			scenarioExplicitRenew(log, kv, hlib.F("lockD%d", round), ttl2, durs2, pause2, hold2, 10*round+7)
		}()
		wg.Wait()
	}
	return log
}

// runLocksCollect repeats a run during which the process was stalled (at most twice).
func runLocksCollect(thorough bool, rng *hlib.Rng) (*lockLog, int) {
	for attempt := 0; ; attempt++ {
		hb := startHeartbeat()
		log := runLocksOnce(thorough, rng)
		if hb.maxGap() < stallLimit || attempt == 2 {
			return log, attempt
		}
	}
}

func emitLocks(r *hlib.Run, log *lockLog, repeated int) {
	for i := 0; i < repeated; i++ {
		r.Count("lock:run-repeated-after-process-stall")
	}
	r.Raw("reset")
	for _, l := range log.lines {
		r.Emit(l[0], l[1])
		op := strings.SplitN(l[0], " ", 2)[0]
		r.Count("lock:" + op + ":" + strings.SplitN(l[1], ":", 2)[0])
		if op == "ctxdone" {
			r.Count("lock:acquiring-context:" + strings.Split(l[0], " ")[3])
		}
		if op == "renewslow" {
			if lat, _ := strconv.ParseInt(strings.Split(l[0], " ")[3], 10, 64); lat > int64(500*time.Millisecond) {
				r.Count("lock:renewal-latency:longer-than-ticker-period")
			} else {
				r.Count("lock:renewal-latency:shorter-than-ticker-period")
			}
		}
		if op == "locked" || op == "kvacq" || op == "kvrenew" || op == "kvrel" || op == "renewedlock" {
			r.Case(l[0] + "|" + l[1])
		}
	}
}

var errNotExist = fs.ErrNotExist

func main() {
	r := hlib.Start()
	r.Rule = "file store: one case = one random history (store/load/delete/exists/stat/list) over path-like keys built from a small segment alphabet (sibling keys sharing a string prefix, nesting, 4% malformed paths, 8% empty values); non-trivial evaluation = a load/exists/stat/list with its result; locks: every recorded lease call / Lock return of 2-3 real storage instances contending over one MemoryKV in real time (contention longer than the TTL, injected renewal failure, stale unlock, explicit RenewLockLease calls with various duration arguments by holders and non-holders followed by a hold longer than the lease under contention; locks acquired with request-scoped contexts — cancelled after Lock returned, deadline passing, cancelled ancestor, cancelled after Unlock — and held for more than a lease plus a polling interval after the context ended while 1-2 other instances contend; a holder whose 1st..3rd background renewal request takes 560-1000 ms — longer than the ticker period, well inside the lease — to reach the KV, holding for more than a lease plus a polling interval afterwards while 1-2 instances contend)"
	rng := hlib.NewRng(r.Seed)
	f := &fileRun{r: r}
	if r.Replay != "" {
		f.reset()
		locks := false
		for _, t := range r.ReplayLines() {
			switch t[0] {
			case "kvacq", "kvrenew", "kvrel", "locked", "unlocking", "unlocked", "renewing", "renewedlock", "ctxdone", "renewslow":
				locks = true
			default:
				f.op(t)
			}
		}
		if locks {
			log, rep := runLocksCollect(false, rng)
			emitLocks(r, log, rep)
		}
		r.Finish()
		return
	}
	// the formerly failing listing input first
	f.reset()
	for _, k := range []string{"a/b", "a/b/x", "a/b/y/z", "a/bc/q"} {
		f.op([]string{"store", hlib.HexS(k), "01"})
	}
	for _, p := range []string{"a/b", "a/b/", "a", "", "a/b/y", "a/bc"} {
		f.op([]string{"list", hlib.HexS(p), "false"})
		f.op([]string{"list", hlib.HexS(p), "true"})
	}
	cases, nops := 400, 40
	if r.Thorough() {
		cases, nops = 12000, 60
	}
	// locks run concurrently with the file-store histories (they mostly sleep)
	type lockRes struct {
		log *lockLog
		rep int
	}
	lockDone := make(chan lockRes, 1)
	go func() {
		log, rep := runLocksCollect(r.Thorough(), hlib.NewRng(r.Seed+7919))
		lockDone <- lockRes{log, rep}
	}()
	for i := 0; i < cases; i++ {
		f.randomCase(rng, nops)
	}
	lr := <-lockDone
	emitLocks(r, lr.log, lr.rep)
	r.Finish()
}
