// C27 correspondence: the real tun/server DialClient / getConn / handleProxyConn, driven with scripted
// KV lookups, transports and connections, against the Lean model and the property's spec oracle.
//
//	dial <H hex> <alpn> <slot0> <slot1> <slot2> <env0> <env1> <env2> <cls> => <outcome> <tried> <closed> <got>
//	  slot: E empty | X lookup error | U undecodable | L<client> local route | R<client> remote route
//	  env : <dial c|n|e>/<sendRouteFails>/<status|->/<linkFails>/<variant>
//	proxy <recv> <clientDial> <variant> => <status> <dialed|-> <piped> <fwd> <back>
//	  recv: bad | me:<client> | other:<client> | nil:<client>
//	e2e <H hex> <alpn> <client> <clientDial> <linkFails> => <outcome> <dialedByRemote|-> <gotLinkHost|->
//	reset                                   a fresh server (empty route cache): start of a sequence of visits
//	visit <H hex> <alpn> <slot0..2> <env0..2> <visitor> <cls> => <outcome> <tried> <closed> <got> kv=<KV Gets made>
//	  visitor: l live request context | g context already cancelled / past its deadline when DialClient is
//	           called | t context cancelled while the KV lookups for H are in flight (if there are any)
package main

import (
	"bytes"
	"context"
	"encoding/binary"
	"errors"
	"fmt"
	"io"
	"net"
	"strconv"
	"strings"
	"sync"
	"sync/atomic"
	"time"

	"go.miragespace.co/specter/spec/chord"
	"go.miragespace.co/specter/spec/mocks"
	"go.miragespace.co/specter/spec/protocol"
	"go.miragespace.co/specter/spec/rpc"
	"go.miragespace.co/specter/spec/transport"
	"go.miragespace.co/specter/spec/tun"
	"go.miragespace.co/specter/tun/server"
	"go.miragespace.co/specter/util/bufconn"
	"go.uber.org/zap"

	"verif/harness/hlib"
)

// ---------- scripted connection ----------

type fakeConn struct {
	mu      sync.Mutex
	cond    *sync.Cond
	slot    int
	rd      []byte
	block   bool // block (instead of EOF) once rd is exhausted, until Close
	wr      bytes.Buffer
	nWrites int
	failAt  int
	closed  bool
	onClose func(*fakeConn)
}

func newConn(slot int, rd []byte, failAt int) *fakeConn {
	c := &fakeConn{slot: slot, rd: rd, failAt: failAt}
	c.cond = sync.NewCond(&c.mu)
	return c
}

func (c *fakeConn) Read(p []byte) (int, error) {
	c.mu.Lock()
	defer c.mu.Unlock()
	for {
		if c.closed {
			return 0, net.ErrClosed
		}
		if len(c.rd) > 0 {
			n := copy(p, c.rd)
			c.rd = c.rd[n:]
			return n, nil
		}
		if !c.block {
			return 0, io.EOF
		}
		c.cond.Wait()
	}
}

func (c *fakeConn) Write(p []byte) (int, error) {
	c.mu.Lock()
	defer c.mu.Unlock()
	if c.closed {
		return 0, net.ErrClosed
	}
	i := c.nWrites
	c.nWrites++
	if i == c.failAt {
		return 0, errors.New("scripted write failure")
	}
	c.wr.Write(p)
	return len(p), nil
}

func (c *fakeConn) Close() error {
	c.mu.Lock()
	was := c.closed
	c.closed = true
	c.cond.Broadcast()
	c.mu.Unlock()
	if !was && c.onClose != nil {
		c.onClose(c)
	}
	return nil
}
func (c *fakeConn) written() []byte {
	c.mu.Lock()
	defer c.mu.Unlock()
	return append([]byte{}, c.wr.Bytes()...)
}

type addr string

func (a addr) Network() string                       { return "fake" }
func (a addr) String() string                        { return string(a) }
func (c *fakeConn) LocalAddr() net.Addr              { return addr("local") }
func (c *fakeConn) RemoteAddr() net.Addr             { return addr("remote") }
func (c *fakeConn) SetDeadline(time.Time) error      { return nil }
func (c *fakeConn) SetReadDeadline(time.Time) error  { return nil }
func (c *fakeConn) SetWriteDeadline(time.Time) error { return nil }

// ---------- scripted transports / KV on top of the repo's mocks ----------

type fakeTransport struct {
	*mocks.Transport
	id   *protocol.Node
	dial func(peer *protocol.Node, kind protocol.Stream_Type) (net.Conn, error)
}

func (t *fakeTransport) Identity() *protocol.Node { return t.id }
func (t *fakeTransport) DialStream(ctx context.Context, peer *protocol.Node, kind protocol.Stream_Type) (net.Conn, error) {
	c, err := t.dial(peer, kind)
	// like a real transport: nothing is opened on behalf of a caller whose context is done
	if cerr := ctx.Err(); cerr != nil {
		if c != nil {
			if fc, ok := c.(*fakeConn); ok {
				fc.onClose = nil // not a connection the code under test ever saw
			}
			c.Close()
		}
		return nil, cerr
	}
	return c, err
}

type fakeVNode struct {
	*mocks.VNode
	get   func(key string) ([]byte, error)
	gets  atomic.Int64 // number of Get calls that reached the KV
	onGet func()       // runs while a Get is in flight
}

func (n *fakeVNode) Get(ctx context.Context, key []byte) ([]byte, error) {
	n.gets.Add(1)
	if f := n.onGet; f != nil {
		f()
	}
	// like a real KV client: a lookup made under a context that is done fails with the context error
	if err := ctx.Err(); err != nil {
		return nil, err
	}
	return n.get(string(key))
}

// ---------- case description ----------

type env struct {
	dial     string // c n e
	sendFail bool
	status   int // -1 = none
	linkFail bool
	variant  int
}

func (e env) tok() string {
	st := "-"
	if e.status >= 0 {
		st = strconv.Itoa(e.status)
	}
	return e.dial + "/" + b01(e.sendFail) + "/" + st + "/" + b01(e.linkFail) + "/" + strconv.Itoa(e.variant)
}
func parseEnv(s string) env {
	p := strings.Split(s, "/")
	e := env{dial: p[0], sendFail: p[1] == "1", linkFail: p[3] == "1", status: -1}
	if p[2] != "-" {
		e.status, _ = strconv.Atoi(p[2])
	}
	e.variant, _ = strconv.Atoi(p[4])
	return e
}
func b01(b bool) string {
	if b {
		return "1"
	}
	return "0"
}

type dcase struct {
	host  string
	alpn  int
	slots [3]string
	envs  [3]env
}

const myTunnel = "tunnel:me"

func routeFor(host string, i int, slot string) *protocol.TunnelRoute {
	c, _ := strconv.ParseUint(slot[1:], 10, 64)
	tn := &protocol.Node{Address: myTunnel, Id: 900}
	if slot[0] == 'R' {
		tn = &protocol.Node{Address: "tunnel:other" + strconv.Itoa(i), Id: uint64(910 + i)}
	}
	return &protocol.TunnelRoute{
		ClientDestination: &protocol.Node{Id: c, Address: "client:" + strconv.FormatUint(c, 10), Rendezvous: true},
		ChordDestination:  &protocol.Node{Id: uint64(100 + i), Address: "chord:" + strconv.Itoa(i)},
		TunnelDestination: tn,
		Hostname:          host,
	}
}

func frame(m rpc.VTMarshaler) []byte {
	var b bytes.Buffer
	rpc.Send(&b, m)
	return b.Bytes()
}

func noDirectErr(variant int) error {
	switch variant % 4 {
	case 0:
		return transport.ErrNoDirect
	case 1:
		return fmt.Errorf("wrapped: %w", transport.ErrNoDirect)
	case 2:
		return tun.ErrTunnelClientNotConnected
	default:
		return fmt.Errorf("wrapped: %w", tun.ErrTunnelClientNotConnected)
	}
}

func hardErr(variant int) error {
	switch variant % 3 {
	case 0:
		return errors.New("scripted dial failure")
	case 1:
		return context.DeadlineExceeded
	default:
		return transport.ErrClosed
	}
}

// bytes a remote node "answers" on the proxy stream
func statusBytes(e env) []byte {
	if e.status < 0 {
		switch e.variant % 4 {
		case 0:
			return nil // EOF
		case 1:
			return []byte{0, 0} // truncated length
		case 2:
			b := make([]byte, 4+2000) // over the 1024 bound
			binary.BigEndian.PutUint32(b, 2000)
			return b
		default:
			return []byte{0, 0, 0, 3, 0xff, 0xff, 0xff} // undecodable payload
		}
	}
	st := &protocol.TunnelStatus{Status: protocol.TunnelStatusCode(e.status)}
	if e.status != 0 {
		// the text must not matter, only the code: alternate between no text at all, the no-direct text
		// and an unrelated text
		statusTextCounter++
		switch statusTextCounter % 3 {
		case 0:
			st.Error = ""
		case 1:
			st.Error = transport.ErrNoDirect.Error()
		default:
			st.Error = "remote refused"
		}
	}
	return frame(st)
}

var statusTextCounter int

// ---------- world ----------

type world struct {
	mu     sync.Mutex
	cases  map[string]*dcase
	events []string
	closed []string
	srv    *server.Server
	kv     *fakeVNode
	// second server ("B"): the remote side of proxy streams
	b          *server.Server
	bTun       *fakeTransport
	remoteDial func(peer *protocol.Node) (net.Conn, error)
}

func (w *world) ev(s string) {
	w.mu.Lock()
	w.events = append(w.events, s)
	w.mu.Unlock()
}

func (w *world) caseOfPeer(host string) *dcase {
	w.mu.Lock()
	defer w.mu.Unlock()
	return w.cases[host]
}

var cur *dcase // the case being dialled (DialClient is called sequentially)

func newWorld() *world {
	w := &world{cases: map[string]*dcase{}}
	kv := &fakeVNode{VNode: new(mocks.VNode), get: func(key string) ([]byte, error) {
		// /tunnel/bundle/<host>/<k>
		rest := strings.TrimPrefix(key, "/tunnel/bundle/")
		j := strings.LastIndex(rest, "/")
		host := rest[:j]
		k, _ := strconv.Atoi(rest[j+1:])
		c := w.caseOfPeer(host)
		if c == nil || k < 1 || k > 3 {
			return nil, errors.New("unknown key " + key)
		}
		s := c.slots[k-1]
		switch s[0] {
		case 'E':
			return nil, nil
		case 'X':
			return nil, errors.New("scripted lookup failure")
		case 'U':
			return []byte{0xff, 0xff, 0xff}, nil
		default:
			b, _ := routeFor(host, k-1, s).MarshalVT()
			return b, nil
		}
	}}
	onClose := func(c *fakeConn) {
		w.mu.Lock()
		w.closed = append(w.closed, strconv.Itoa(c.slot))
		w.mu.Unlock()
	}
	tunT := &fakeTransport{Transport: new(mocks.Transport), id: &protocol.Node{Address: myTunnel, Id: 900},
		dial: func(peer *protocol.Node, kind protocol.Stream_Type) (net.Conn, error) {
			w.ev("D" + strconv.FormatUint(peer.GetId(), 10))
			if kind != protocol.Stream_DIRECT {
				return nil, errors.New("harness: unexpected stream kind on tunnel transport")
			}
			i := int(peer.GetId()/10) - 1
			if cur == nil || i < 0 || i > 2 {
				return nil, errors.New("harness: unknown client")
			}
			e := cur.envs[i]
			switch e.dial {
			case "n":
				return nil, noDirectErr(e.variant)
			case "e":
				return nil, hardErr(e.variant)
			}
			fa := -1
			if e.linkFail {
				fa = 0
			}
			c := newConn(i, nil, fa)
			c.onClose = onClose
			return c, nil
		}}
	chT := &fakeTransport{Transport: new(mocks.Transport), id: &protocol.Node{Address: "chord:me", Id: 800},
		dial: func(peer *protocol.Node, kind protocol.Stream_Type) (net.Conn, error) {
			w.ev("P" + strconv.FormatUint(peer.GetId(), 10))
			if kind != protocol.Stream_PROXY {
				return nil, errors.New("harness: unexpected stream kind on chord transport")
			}
			if w.remoteDial != nil {
				return w.remoteDial(peer)
			}
			i := int(peer.GetId()) - 100
			if cur == nil || i < 0 || i > 2 {
				return nil, errors.New("harness: unknown chord node")
			}
			e := cur.envs[i]
			switch e.dial {
			case "n":
				return nil, noDirectErr(e.variant)
			case "e":
				return nil, hardErr(e.variant)
			}
			fa := -1
			if e.sendFail {
				fa = 0
			} else if e.linkFail {
				fa = 1
			}
			c := newConn(i, statusBytes(e), fa)
			c.onClose = onClose
			return c, nil
		}}
	w.kv = kv
	w.srv = server.New(server.Config{
		ParentContext:   context.Background(),
		Logger:          zap.NewNop(),
		Chord:           chord.WrapRetryKV(kv, time.Millisecond, 3),
		TunnelTransport: tunT,
		ChordTransport:  chT,
		Apex:            "hello.com",
		Acme:            "acme.example.com",
	})
	w.bTun = &fakeTransport{Transport: new(mocks.Transport), id: &protocol.Node{Address: myTunnel, Id: 900}}
	w.b = server.New(server.Config{
		ParentContext: context.Background(), Logger: zap.NewNop(),
		Chord:           new(mocks.VNode),
		ChordTransport:  &fakeTransport{Transport: new(mocks.Transport), id: &protocol.Node{Address: "chord:b", Id: 801}},
		TunnelTransport: w.bTun,
	})
	return w
}

func errTok(err error) string {
	switch {
	case err == nil:
		return "nil"
	case errors.Is(err, tun.ErrDestinationNotFound):
		return "notfound"
	case errors.Is(err, tun.ErrTunnelClientNotConnected):
		return "notconnected"
	case errors.Is(err, tun.ErrLookupFailed):
		return "lookupfailed"
	default:
		return "err"
	}
}

// parse the frames a receiver got: returns list of payloads
func frames(b []byte) [][]byte {
	var out [][]byte
	for len(b) >= 4 {
		n := int(binary.BigEndian.Uint32(b))
		if len(b) < 4+n {
			break
		}
		out = append(out, b[4:4+n])
		b = b[4+n:]
	}
	return out
}

func classify(c *dcase) string {
	routes, errs, ok, nd := 0, 0, false, false
	for i, s := range c.slots {
		switch s[0] {
		case 'X', 'U':
			errs++
		case 'L', 'R':
			routes++
			e := c.envs[i]
			switch {
			case e.dial == "n":
				nd = true
			case e.dial == "e":
			case s[0] == 'L':
				ok = ok || !e.linkFail
			case e.sendFail || e.status < 0:
			case e.status == 0:
				ok = ok || !e.linkFail
			case e.status == 2:
				nd = true
			}
		}
	}
	switch {
	case errs == 3:
		return "cls=lookupfail"
	case routes == 0 && errs > 0:
		// no lookup returned a route, but not all of them answered: the loader caches an EMPTY route list
		return "cls=noroutes-partial"
	case routes == 0:
		return "cls=noroutes"
	case ok:
		return "cls=reachable"
	case nd:
		return "cls=nodirect"
	default:
		return "cls=allhard"
	}
}

// one real DialClient call for case c under the visitor's context
func (w *world) dialOnce(ctx context.Context, c *dcase) (out, tried, closed, got string) {
	w.mu.Lock()
	w.cases[c.host] = c
	w.events, w.closed = nil, nil
	w.mu.Unlock()
	cur = c
	link := &protocol.Link{Alpn: protocol.Link_ALPN(c.alpn), Hostname: c.host, Remote: "203.0.113.9:4433"}
	var conn net.Conn
	var err error
	panicked := false
	func() {
		defer func() {
			if p := recover(); p != nil {
				panicked = true
			}
		}()
		conn, err = w.srv.DialClient(ctx, link)
	}()
	out, got = errTok(err), "-"
	if panicked {
		out = "panic"
	} else if err == nil {
		fc, ok := conn.(*fakeConn)
		if !ok {
			out = "foreignconn"
		} else {
			out = "found:" + strconv.Itoa(fc.slot)
			fr := frames(fc.written())
			rc, rh := "-", "-"
			if c.slots[fc.slot][0] == 'R' && len(fr) > 0 {
				rt := &protocol.TunnelRoute{}
				if rt.UnmarshalVT(fr[0]) == nil {
					rc, rh = strconv.FormatUint(rt.GetClientDestination().GetId(), 10), hlib.HexS(rt.GetHostname())
				}
				fr = fr[1:]
			}
			lh, la := "-", "-"
			if len(fr) == 1 {
				l := &protocol.Link{}
				if l.UnmarshalVT(fr[0]) == nil {
					lh, la = hlib.HexS(l.GetHostname()), strconv.Itoa(int(l.GetAlpn()))
				}
			}
			got = lh + ":" + la + ":" + rc + ":" + rh
		}
	}
	w.mu.Lock()
	tried, closed = hlib.Join(w.events, ","), hlib.Join(w.closed, ",")
	w.mu.Unlock()
	return
}

func (w *world) runDial(r *hlib.Run, c *dcase) {
	out, tried, closed, got := w.dialOnce(context.Background(), c)
	cls := classify(c)
	lhs := "dial " + hlib.HexS(c.host) + " " + strconv.Itoa(c.alpn) + " " + strings.Join(c.slots[:], " ") + " " +
		c.envs[0].tok() + " " + c.envs[1].tok() + " " + c.envs[2].tok() + " " + cls
	r.Emit(lhs, out+" "+tried+" "+closed+" "+got)
	key := strings.Join(c.slots[:], " ") + c.envs[0].tok() + c.envs[1].tok() + c.envs[2].tok()
	if cls == "cls=noroutes" || cls == "cls=lookupfail" {
		key = "" // trivial: every lookup gave the same answer, no route is ever dialled
	}
	r.Case(key)
	r.Count(cls)
	r.Count("outcome:" + strings.SplitN(out, ":", 2)[0])
}

// ---------- sequences of visitors against one server (route cache, visitor contexts) ----------

const visitCaseBudget = 2 * time.Second // far below the shortest route cache TTL (5 s, failed lookups)

// A visit is one DialClient call of a sequence made against the same server, under the visitor's own
// request context: "l" stays alive, "g" is already cancelled (or past its deadline) when DialClient is
// called, "t" is cancelled while the KV lookups for the hostname are in flight (a visitor that goes
// away in the middle; nothing happens to it when the call needs no lookup).
// The model knows nothing about time: a visit is only reported when it completed well within the
// shortest cache TTL after the sequence began (false = the rest of the sequence must be dropped).
func (w *world) runVisit(r *hlib.Run, c *dcase, vis string, hist string, start time.Time) bool {
	ctx, cancel := context.WithCancel(context.Background())
	defer cancel()
	switch vis {
	case "g":
		if c.envs[0].variant%2 == 0 {
			cancel()
		} else {
			var dcancel context.CancelFunc
			ctx, dcancel = context.WithDeadline(context.Background(), time.Now().Add(-time.Second))
			defer dcancel()
		}
	case "t":
		w.kv.onGet = cancel
	}
	w.kv.gets.Store(0)
	out, tried, closed, got := w.dialOnce(ctx, c)
	w.kv.onGet = nil
	gets := w.kv.gets.Load()
	if time.Since(start) > visitCaseBudget {
		r.Raw("# sequence abandoned: too slow for the time-free cache model")
		r.Count("visit:abandoned")
		return false
	}
	cls := classify(c)
	lhs := "visit " + hlib.HexS(c.host) + " " + strconv.Itoa(c.alpn) + " " + strings.Join(c.slots[:], " ") + " " +
		c.envs[0].tok() + " " + c.envs[1].tok() + " " + c.envs[2].tok() + " " + vis + " " + cls
	r.Emit(lhs, out+" "+tried+" "+closed+" "+got+" kv="+strconv.FormatInt(gets, 10))
	r.Case("visit " + strings.Join(c.slots[:], " ") + c.envs[0].tok() + c.envs[1].tok() + c.envs[2].tok() + " " + hist)
	r.Count("visit:" + vis)
	r.Count("visit:" + vis + ":" + cls)
	r.Count("visit-outcome:" + vis + ":" + strings.SplitN(out, ":", 2)[0])
	return true
}

type vstep struct {
	host int // which of the sequence's hostnames
	vis  string
	envs [3]env
}

// a sequence of visits: one or two hostnames whose KV content stays the same throughout
type vcase struct {
	hosts []string
	alpn  int
	slots [][3]string
	steps []vstep
}

func (w *world) runVisitCase(r *hlib.Run, vc *vcase) {
	r.Raw("reset")
	start := time.Now()
	hist := ""
	for _, st := range vc.steps {
		c := &dcase{host: vc.hosts[st.host], alpn: vc.alpn, slots: vc.slots[st.host], envs: st.envs}
		hist += strconv.Itoa(st.host) + st.vis
		if !w.runVisit(r, c, st.vis, hist, start) {
			return
		}
	}
}

// ---------- proxy (remote side) ----------

func (w *world) runProxy(r *hlib.Run, recv string, cdial string, variant int) {
	var in []byte
	kind, cid := recv, uint64(0)
	if i := strings.Index(recv, ":"); i >= 0 {
		kind = recv[:i]
		cid, _ = strconv.ParseUint(recv[i+1:], 10, 64)
	}
	rt := &protocol.TunnelRoute{
		ClientDestination: &protocol.Node{Id: cid, Address: "client:x"},
		ChordDestination:  &protocol.Node{Id: 800, Address: "chord:me"},
		Hostname:          "proxied.example",
	}
	switch kind {
	case "bad":
		switch variant % 4 {
		case 0:
			in = nil
		case 1:
			in = []byte{0, 0, 1}
		case 2:
			in = make([]byte, 4+3000)
			binary.BigEndian.PutUint32(in, 3000) // over the 2048 bound
		default:
			in = []byte{0, 0, 0, 3, 0xff, 0xff, 0xff}
		}
	case "me":
		rt.TunnelDestination = &protocol.Node{Address: myTunnel, Id: 900}
		in = frame(rt)
	case "other":
		addrs := []string{"tunnel:other0", "tunnel:me ", "TUNNEL:ME", ""}
		rt.TunnelDestination = &protocol.Node{Address: addrs[variant%4], Id: 900} // same id, different address
		in = frame(rt)
	case "nil":
		in = frame(rt)
	}
	payloadIn, payloadBack := []byte("GATEWAY->CLIENT"), []byte("CLIENT->GATEWAY")
	deleg := newConn(0, in, -1)
	if kind != "bad" {
		deleg = newConn(0, append(append([]byte{}, in...), payloadIn...), -1)
		deleg.block = true
	}
	var client *fakeConn
	dialed := "-"
	w.bTun.id = &protocol.Node{Address: myTunnel, Id: 900}
	w.bTun.dial = func(peer *protocol.Node, kind protocol.Stream_Type) (net.Conn, error) {
		dialed = strconv.FormatUint(peer.GetId(), 10)
		if kind != protocol.Stream_DIRECT {
			dialed += "!kind"
		}
		switch cdial {
		case "n":
			return nil, noDirectErr(variant)
		case "e":
			return nil, hardErr(variant)
		}
		client = newConn(1, payloadBack, -1)
		client.block = true
		return client, nil
	}
	srv := w.b
	panicked := false
	func() {
		defer func() {
			if p := recover(); p != nil {
				panicked = true
			}
		}()
		srv.VerifC27HandleProxyConn(context.Background(), &transport.StreamDelegate{
			Conn: deleg, Identity: &protocol.Node{Id: 7}, Kind: protocol.Stream_PROXY})
	}()
	status, piped, fwd, back := "-", "0", "0", "0"
	if client != nil {
		// piping is asynchronous: wait until both payloads crossed (bounded), then close
		dl := time.Now().Add(2 * time.Second)
		for time.Now().Before(dl) {
			if bytes.HasSuffix(client.written(), payloadIn) && bytes.HasSuffix(deleg.written(), payloadBack) {
				break
			}
			time.Sleep(200 * time.Microsecond)
		}
		if bytes.Equal(client.written(), payloadIn) {
			fwd = "1"
		}
	}
	wr := deleg.written()
	if fr := frames(wr); len(fr) >= 1 {
		st := &protocol.TunnelStatus{}
		if st.UnmarshalVT(fr[0]) == nil {
			status = strconv.Itoa(int(st.GetStatus()))
		}
		if rest := wr[4+len(fr[0]):]; bytes.Equal(rest, payloadBack) {
			back = "1"
		}
	}
	deleg.mu.Lock()
	dclosed := deleg.closed
	deleg.mu.Unlock()
	if client != nil && !dclosed {
		piped = "1"
	}
	deleg.Close()
	if client != nil {
		client.Close()
	}
	if panicked {
		status = "panic"
	}
	r.Emit("proxy "+recv+" "+cdial+" "+strconv.Itoa(variant), status+" "+dialed+" "+piped+" "+fwd+" "+back)
	r.Case("proxy " + recv + cdial + strconv.Itoa(variant%4))
	r.Count("proxy:" + kind + ":" + cdial)
}

// ---------- e2e: gateway A -> real remote B (handleProxyConn) -> scripted client ----------

func (w *world) runE2E(r *hlib.Run, host string, alpn int, client uint64, cdial string, linkFail bool) {
	slot := "R" + strconv.FormatUint(client, 10)
	c := &dcase{host: host, alpn: alpn, slots: [3]string{slot, "E", "E"}}
	dialed := "-"
	var cc *fakeConn
	w.bTun.id = &protocol.Node{Address: "tunnel:other0", Id: 910}
	w.bTun.dial = func(peer *protocol.Node, kind protocol.Stream_Type) (net.Conn, error) {
		dialed = strconv.FormatUint(peer.GetId(), 10)
		switch cdial {
		case "n":
			return nil, noDirectErr(int(client))
		case "e":
			return nil, hardErr(int(client))
		}
		cc = newConn(0, nil, -1)
		cc.block = true
		return cc, nil
	}
	remote := w.b
	done := make(chan struct{})
	w.remoteDial = func(peer *protocol.Node) (net.Conn, error) {
		c1, c2 := bufconn.BufferedPipe(8192)
		go func() {
			defer close(done)
			defer func() { recover() }()
			remote.VerifC27HandleProxyConn(context.Background(), &transport.StreamDelegate{
				Conn: c2, Identity: &protocol.Node{Id: 800}, Kind: protocol.Stream_PROXY})
		}()
		var conn net.Conn = c1
		if linkFail {
			conn = &failSecondWrite{Conn: c1}
		}
		return conn, nil
	}
	defer func() { w.remoteDial = nil }()
	w.mu.Lock()
	w.cases[c.host] = c
	w.events, w.closed = nil, nil
	w.mu.Unlock()
	cur = c
	link := &protocol.Link{Alpn: protocol.Link_ALPN(alpn), Hostname: host, Remote: "203.0.113.9:4433"}
	conn, err := w.srv.DialClient(context.Background(), link)
	<-done
	out, got := errTok(err), "-"
	if err == nil {
		out = "found:0"
		want := frame(link)
		dl := time.Now().Add(2 * time.Second)
		for cc != nil && time.Now().Before(dl) && len(cc.written()) < len(want) {
			time.Sleep(200 * time.Microsecond)
		}
		if cc != nil {
			if fr := frames(cc.written()); len(fr) == 1 {
				l := &protocol.Link{}
				if l.UnmarshalVT(fr[0]) == nil {
					got = hlib.HexS(l.GetHostname()) + ":" + strconv.Itoa(int(l.GetAlpn()))
				}
			}
		}
		conn.Close()
	}
	if cc != nil {
		cc.Close()
	}
	r.Emit("e2e "+hlib.HexS(host)+" "+strconv.Itoa(alpn)+" "+strconv.FormatUint(client, 10)+" "+cdial+" "+b01(linkFail), out+" "+dialed+" "+got)
	r.Case("e2e" + cdial + b01(linkFail))
	r.Count("e2e:" + cdial)
}

// the second Write (the link frame, after the route frame) fails
type failSecondWrite struct {
	net.Conn
	n int
}

func (f *failSecondWrite) Write(p []byte) (int, error) {
	f.n++
	if f.n == 2 {
		return 0, errors.New("scripted write failure")
	}
	return f.Conn.Write(p)
}

// ---------- generators ----------

var localEnvs = []env{
	{dial: "c", status: -1}, {dial: "c", status: -1, linkFail: true}, {dial: "n", status: -1}, {dial: "e", status: -1},
}
var remoteEnvs = []env{
	{dial: "e", status: -1}, {dial: "n", status: -1}, {dial: "c", sendFail: true, status: 0}, {dial: "c", status: -1},
	{dial: "c", status: 0}, {dial: "c", status: 0, linkFail: true}, {dial: "c", status: 1}, {dial: "c", status: 2}, {dial: "c", status: 7},
}

type slotOpt struct {
	kind byte
	e    env
}

func slotOptions() []slotOpt {
	o := []slotOpt{{kind: 'E'}, {kind: 'X'}, {kind: 'U'}}
	for _, e := range localEnvs {
		o = append(o, slotOpt{'L', e})
	}
	for _, e := range remoteEnvs {
		o = append(o, slotOpt{'R', e})
	}
	return o
}

func main() {
	r := hlib.Start()
	r.Rule = "dial: 3 lookup slots x per-route behaviour, ALL 16^3 combinations of {empty, lookup error, undecodable, local x {ok, link-send fails, no-direct, hard error}, remote x {dial error, dial no-direct, route-send fails, status unreadable, status OK, OK+link fails, UNKNOWN_ERROR, NO_DIRECT, unknown code}} with randomised client ids / error flavours / hostnames, plus cache-hit re-dials; visit: sequences of 2-5 DialClient calls against one server for 1-2 hostnames with fixed KV content, each visitor's request context live / already cancelled or expired / cancelled while the KV lookups are in flight, per-visit dial behaviour (every slot option x position x neighbour x first-visitor kind, plus random sequences), observing outcome, dial trace and the number of KV Gets (route cache hit/miss); proxy: every received-frame kind x client dial result x flavour; e2e: gateway -> real remote handleProxyConn. non-trivial = a case where at least one route is dialled, or no lookup returned a route while the lookups disagree (absent / failed / undecodable mixed: the loader's empty route list)"
	rng := hlib.NewRng(r.Seed)
	w := newWorld()

	if r.Replay != "" {
		vstart, vhist := time.Now(), ""
		for _, t := range r.ReplayLines() {
			switch t[0] {
			case "dial":
				c := &dcase{host: string(hlib.UnHex(t[1]))}
				c.alpn, _ = strconv.Atoi(t[2])
				copy(c.slots[:], t[3:6])
				for i := 0; i < 3; i++ {
					c.envs[i] = parseEnv(t[6+i])
				}
				w.runDial(r, c)
			case "reset":
				w = newWorld()
				r.Raw("reset")
				vstart, vhist = time.Now(), ""
			case "visit":
				c := &dcase{host: string(hlib.UnHex(t[1]))}
				c.alpn, _ = strconv.Atoi(t[2])
				copy(c.slots[:], t[3:6])
				for i := 0; i < 3; i++ {
					c.envs[i] = parseEnv(t[6+i])
				}
				vhist += t[1] + t[9]
				w.runVisit(r, c, t[9], vhist, vstart)
			case "proxy":
				v, _ := strconv.Atoi(t[3])
				w.runProxy(r, t[1], t[2], v)
			case "e2e":
				a, _ := strconv.Atoi(t[2])
				cl, _ := strconv.ParseUint(t[3], 10, 64)
				w.runE2E(r, string(hlib.UnHex(t[1]))+".replay", a, cl, t[4], t[5] == "1")
			}
		}
		r.Finish()
		return
	}

	n := 0
	mk := func(o [3]slotOpt) *dcase {
		n++
		hosts := []string{"h%d.example.com", "H%d.Example.COM", "xn--%d-bcher.example", "%d", "a.b.c.d.%d.hello.com"}
		c := &dcase{host: fmt.Sprintf(hlib.Pick(rng, hosts), n), alpn: rng.Intn(4)}
		for i := 0; i < 3; i++ {
			c.slots[i] = string(o[i].kind)
			if o[i].kind == 'L' || o[i].kind == 'R' {
				c.slots[i] += strconv.Itoa(10*(i+1) + rng.Intn(10))
			}
			c.envs[i] = o[i].e
			if c.envs[i].dial == "" {
				c.envs[i] = env{dial: "c", status: -1}
			}
			c.envs[i].variant = rng.Intn(12)
		}
		return c
	}
	opts := slotOptions()
	rounds := 1
	if r.Thorough() {
		rounds = 6
	}
	for round := 0; round < rounds; round++ {
		for _, a := range opts {
			for _, b := range opts {
				for _, c := range opts {
					dc := mk([3]slotOpt{a, b, c})
					w.runDial(r, dc)
					if rng.Intn(8) == 0 {
						// same hostname again (route cache hit), different world behaviour
						d2 := *dc
						for i := 0; i < 3; i++ {
							if dc.slots[i][0] == 'L' {
								d2.envs[i] = hlib.Pick(rng, localEnvs)
							} else if dc.slots[i][0] == 'R' {
								d2.envs[i] = hlib.Pick(rng, remoteEnvs)
							}
							d2.envs[i].variant = rng.Intn(12)
						}
						r.Count("redial")
						w.runDial(r, &d2)
					}
				}
			}
		}
	}
	// ---- sequences of visitors against one server: the route cache and the visitors' own contexts.
	// The KV content of a hostname stays the same during a sequence; what changes is who asks (live,
	// already gone, leaving during the lookup) and how the world answers the dials.
	hostPats := []string{"v%d.example.com", "V%d.Example.COM", "xn--%d-bcher.example", "%d", "a.b.c.d.%d.hello.com"}
	var vw *world
	nvw := 0
	runSeq := func(vc *vcase) {
		if nvw%128 == 0 {
			vw = newWorld() // route cache stays far below its capacity: no evictions
		}
		nvw++
		vw.runVisitCase(r, vc)
	}
	stepEnvs := func(slots [3]string, base [3]env, keep bool) [3]env {
		var e [3]env
		for i := 0; i < 3; i++ {
			e[i] = base[i]
			if !keep && slots[i][0] == 'L' {
				e[i] = hlib.Pick(rng, localEnvs)
			} else if !keep && slots[i][0] == 'R' {
				e[i] = hlib.Pick(rng, remoteEnvs)
			}
			e[i].variant = rng.Intn(12)
		}
		return e
	}
	newHost := func(vc *vcase, o [3]slotOpt) [3]env {
		dc := mk(o)
		vc.hosts = append(vc.hosts, fmt.Sprintf(hlib.Pick(rng, hostPats), n))
		vc.slots = append(vc.slots, dc.slots)
		return dc.envs
	}
	eOpt := slotOpt{kind: 'E'}
	// (a) every slot option in every position, alone and next to a healthy local route; the first visitor is
	// gone / leaves during the lookup / is live, then a live one and the other kinds follow
	for _, other := range []slotOpt{{kind: 'L', e: localEnvs[0]}, eOpt, {kind: 'X'}} {
		for _, a := range opts {
			for pos := 0; pos < 3; pos++ {
				for _, first := range []string{"g", "t", "l"} {
					o := [3]slotOpt{other, other, other}
					o[pos] = a
					if other.kind == 'L' {
						o[(pos+1)%3] = eOpt
					}
					vc := &vcase{alpn: rng.Intn(4)}
					base := newHost(vc, o)
					for _, v := range []string{first, "l", "t", "g", "l"} {
						vc.steps = append(vc.steps, vstep{0, v, stepEnvs(vc.slots[0], base, true)})
					}
					runSeq(vc)
				}
			}
		}
	}
	// (b) random sequences over one or two hostnames
	nseq := 1500
	if r.Thorough() {
		nseq = 12000
	}
	for i := 0; i < nseq; i++ {
		vc := &vcase{alpn: rng.Intn(4)}
		var bases [][3]env
		for h := 0; h < 1+rng.Intn(2); h++ {
			var o [3]slotOpt
			for j := range o {
				o[j] = hlib.Pick(rng, opts)
				if rng.Intn(3) == 0 {
					o[j] = eOpt
				}
			}
			bases = append(bases, newHost(vc, o))
		}
		for k := 2 + rng.Intn(4); k > 0; k-- {
			h := rng.Intn(len(vc.hosts))
			v := "l"
			switch x := rng.Intn(100); {
			case x < 30:
				v = "g"
			case x < 55:
				v = "t"
			}
			vc.steps = append(vc.steps, vstep{h, v, stepEnvs(vc.slots[h], bases[h], rng.Intn(2) == 0)})
		}
		runSeq(vc)
	}

	pv := 8
	if r.Thorough() {
		pv = 48
	}
	for v := 0; v < pv; v++ {
		for _, recv := range []string{"bad", "me", "other", "nil"} {
			for _, cd := range []string{"c", "n", "e"} {
				rc := recv
				if recv != "bad" {
					rc += ":" + strconv.Itoa(1+rng.Intn(1000))
				}
				w.runProxy(r, rc, cd, v)
			}
		}
	}
	for v := 0; v < pv; v++ {
		for _, cd := range []string{"c", "n", "e"} {
			for _, lf := range []bool{false, true} {
				n++
				w.runE2E(r, fmt.Sprintf("e2e-%d.example.com", n), rng.Intn(4), uint64(10+rng.Intn(10)), cd, lf)
			}
		}
	}
	r.Finish()
}
