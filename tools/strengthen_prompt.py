#!/usr/bin/env python3
import json, sys
pid, seed = sys.argv[1], sys.argv[2]
m = json.load(open("/verif/seeded/%s/meta.json" % seed))
props = {json.loads(l)["id"]: json.loads(l) for l in open("/verif/properties.jsonl")}
p = props[pid]
out = m["checks"].get(pid, {})
print(f"""You are extending existing verification machinery in /verif. Read /verif/BUILDING.md first (conventions, how `./check` works, the line protocol, SPEC vs DIFF verdicts), then /verif/spec/{pid}.json, the property's Lean files under /verif/lean/SpecterModel/{pid}/ (Model/Props/Drv/Gen), its harness /verif/harness/cmd/{pid.lower()}/ and, if it has one, its extractor /verif/extract/{pid.lower()}_facts.go.

Property {pid} — {p['title']}
Statement (fixed, do not edit /verif/properties.jsonl): {p['statement']}
Quantifier: {p['quantifier']['text']}

A seeded change, /verif/seeded/{seed}/patch.diff (read it, plus the "agent_meta" summary/needs in /verif/seeded/{seed}/meta.json and the demonstration under /verif/seeded/{seed}/demo/), genuinely breaks this property, compiles, and passes the repository's own tests. The current check's outcome against it is: **{out.get('outcome')}** (violation line: {out.get('violation_line')}; broken: {json.dumps(out.get('broken'))[:600]}).
"missed" = the check stayed green; "no-failing-input-found" = an obligation/extractor/correspondence broke but no concrete failing input (SPEC verdict on a protocol line) was produced.

Your task: strengthen the {pid} check so that this change is reported WITH a concrete failing input (a harness line on which the driver's property oracle says `SPEC …`), while the unchanged tree stays green. Do it properly, not by special-casing the seed:
  - widen the harness generator / scenarios so the situation the change needs actually occurs (see "needs"), and make sure the executable oracle in Drv.lean judges the property statement on those lines (SPEC) rather than only comparing with the model (DIFF);
  - if the model (Model.lean) does not cover the mechanism the change touches, extend the model so that it describes what the UNCHANGED code does there, keep the correspondence exact, and add or extend the theorem(s) in Props.lean that state the property over the extended model (no sorry/admit/axiom/native_decide; `#print axioms` within propext, Classical.choice, Quot.sound); register new theorem names in spec/{pid}.json and describe them in its level_text;
  - if an extractor rejected the changed source ("unsupported …"), teach it the new shape only if that is natural; otherwise make the harness find the failing input at run time.
  - never loosen the oracle, never remove a check, never add the seed's specifics as a special case.

Verify: (1) `cd /verif && for s in 1 2 3; do VERIF_SEED=$s ./check {pid}; done` → `{pid} ok` each time on the unchanged tree (known findings listed in /verif/known_findings.json may print KNOWN-FINDING lines; nothing else); also run `./check {pid} --tier thorough` once. (2) `SEED_ID={seed} python3 tools/seedcheck.py {pid} seeded/{seed} --checks {pid}` must end with checks: {{'{pid}': 'failing-input'}} (it applies the change through a mirror directory, never to /repo); then look at seeded/{seed}/meta.json → checks.{pid}.failing_line / spec_verdict and make sure the verdict describes the real violation. Also re-run the first-round seed if there is one: `SEED_ID={pid}-1 python3 tools/seedcheck.py {pid} seeded/{pid}-1 --checks {pid}` must still give failing-input.
Rules: do not touch /repo; touch only {pid}'s own files (spec/{pid}.json, lean/SpecterModel/{pid}/*, harness/cmd/{pid.lower()}/*, extract/{pid.lower()}_facts.go) — shared code (check, hlib, ringh, C01 model, other properties) is being edited by others; if you believe a shared file must change, say so in your report instead. Build Lean with `cd /verif/lean && timeout 900 lake build SpecterModel.{pid}.Props SpecterModel.{pid}.Drv` (never a bare `lake build`, never `import Mathlib` wholesale). Offline: `export GOFLAGS=-mod=mod GOPROXY=off` for go commands. Commit only your files (`git add <paths>; git commit -m "strengthen {pid}: …"`). Final report: what the check missed and why, what you added (generator, oracle, model, theorems), the failing line now produced, and the three-seed + thorough results on the unchanged tree.""")
