// C46 correspondence: the real util/promise.All with 0..16 tasks (random delays, values, errors, both,
// context-respecting and context-ignoring tasks) and cancellation before / during / never. Each task records
// what it actually returned, its completion rank and a "finished" flag; the flags are read immediately after
// All returns. The Lean driver replays the slot writes in the observed completion order and applies the
// statement (every task finished; slot i = task i's value or error).
//
// Straggler family: All's contract is unconditional in time ("returns only after every task has finished, even
// when the shared context is cancelled"), so a second family of plans contains tasks that keep running long after
// the cancellation - ctx-ignoring tasks with long delays and tasks that notice the cancellation but need an
// uninterruptible unwinding lag - on a logarithmic ladder of durations (milliseconds up to seconds), with the
// cancellation before / early / late / never. The finished flags are still read right after All returns; the
// harness then waits for the stragglers so that the line records what every task eventually returned.
package main

import (
	"context"
	"errors"
	"strconv"
	"strings"
	"sync"
	"sync/atomic"
	"time"

	"go.miragespace.co/specter/util/promise"
	"verif/harness/hlib"
)

type codeErr struct{ code int }

func (e *codeErr) Error() string { return "e" + strconv.Itoa(e.code) }

type task struct {
	delayUs int
	mode    int // 0 ignores ctx; 1 on cancel returns (0, err 9); 2 on cancel returns (val, err 9); 3 on cancel keeps going for lagUs (uninterruptible unwinding), then returns its own (val, err)
	val     int
	err     int
	lagUs   int // mode 3 only
}

type plan struct {
	cancel   int // 0 never, 1 already cancelled, 2 cancel after cancelUs, 3 deadline after cancelUs
	cancelUs int
	tasks    []task
}

func (p plan) token() string {
	c := []string{"nocancel", "precancel", "cancel@" + strconv.Itoa(p.cancelUs), "deadline@" + strconv.Itoa(p.cancelUs)}[p.cancel]
	ts := make([]string, len(p.tasks))
	for i, t := range p.tasks {
		ts[i] = hlib.F("%d:%d:%d:%d", t.delayUs, t.mode, t.val, t.err)
		if t.mode == 3 {
			ts[i] += ":" + strconv.Itoa(t.lagUs)
		}
	}
	return c + "/" + hlib.Join(ts, ",")
}

func parsePlan(tok string) plan {
	var p plan
	parts := strings.SplitN(tok, "/", 2)
	switch {
	case parts[0] == "precancel":
		p.cancel = 1
	case strings.HasPrefix(parts[0], "cancel@"):
		p.cancel = 2
		p.cancelUs, _ = strconv.Atoi(parts[0][7:])
	case strings.HasPrefix(parts[0], "deadline@"):
		p.cancel = 3
		p.cancelUs, _ = strconv.Atoi(parts[0][9:])
	}
	if len(parts) == 2 && parts[1] != "-" {
		for _, s := range strings.Split(parts[1], ",") {
			f := strings.Split(s, ":")
			a := func(i int) int { v, _ := strconv.Atoi(f[i]); return v }
			t := task{delayUs: a(0), mode: a(1), val: a(2), err: a(3)}
			if len(f) > 4 {
				t.lagUs = a(4)
			}
			p.tasks = append(p.tasks, t)
		}
	}
	return p
}

// spanUs bounds how long the plan's tasks can legitimately run (microseconds).
func (p plan) spanUs() int {
	m := 0
	for _, t := range p.tasks {
		if d := t.delayUs + t.lagUs; d > m {
			m = d
		}
	}
	return m
}

type outcome struct{ lhs, rhs string }

func errCode(e error) int {
	if e == nil {
		return 0
	}
	var ce *codeErr
	if errors.As(e, &ce) {
		return ce.code
	}
	return 99
}

func runPlan(p plan) (o outcome) {
	n := len(p.tasks)
	actV := make([]atomic.Int64, n)
	actE := make([]atomic.Int64, n)
	rank := make([]atomic.Int64, n)
	fin := make([]atomic.Bool, n)
	var seq atomic.Int64
	var tasksWG sync.WaitGroup
	tasksWG.Add(n)
	fns := make([]func(context.Context) (int, error), n)
	for i, t := range p.tasks {
		i, t := i, t
		fns[i] = func(ctx context.Context) (int, error) {
			defer tasksWG.Done()
			v, e := t.val, t.err
			d := time.Duration(t.delayUs) * time.Microsecond
			if t.mode == 0 {
				if d > 0 {
					time.Sleep(d)
				}
			} else {
				tm := time.NewTimer(d)
				select {
				case <-tm.C:
				case <-ctx.Done():
					tm.Stop()
					if t.mode == 3 { // e.g. a blocking call that cannot be interrupted
						time.Sleep(time.Duration(t.lagUs) * time.Microsecond)
						break
					}
					e = 9
					if t.mode == 1 {
						v = 0
					}
				}
			}
			actV[i].Store(int64(v))
			actE[i].Store(int64(e))
			rank[i].Store(seq.Add(1))
			fin[i].Store(true)
			if e != 0 {
				return v, &codeErr{e}
			}
			return v, nil
		}
	}
	ctx, cancel := context.WithCancel(context.Background())
	defer cancel()
	switch p.cancel {
	case 1:
		cancel()
	case 2:
		go func() { time.Sleep(time.Duration(p.cancelUs) * time.Microsecond); cancel() }()
	case 3:
		var c2 context.CancelFunc
		ctx, c2 = context.WithTimeout(ctx, time.Duration(p.cancelUs)*time.Microsecond)
		defer c2()
	}
	var res []int
	var errs []error
	flags := make([]byte, n)
	panicked, hung := false, false
	finished := make(chan struct{})
	go func() {
		defer close(finished)
		defer func() {
			if recover() != nil {
				panicked = true
			}
		}()
		r0, e0 := promise.All(ctx, fns...)
		for i := range flags { // read the flags before anything else
			if fin[i].Load() {
				flags[i] = '1'
			} else {
				flags[i] = '0'
			}
		}
		// what the caller holds at the moment All returned (a snapshot: nothing may change it afterwards anyway)
		res = append([]int{}, r0...)
		errs = append([]error{}, e0...)
	}()
	span := time.Duration(p.spanUs()) * time.Microsecond
	select {
	case <-finished:
	case <-time.After(span + 5*time.Second): // every task is done by `span`: All never returned
		hung = true
	}
	// let every task run to its end (bounded), so that the line records what each one returned; the flags above
	// were taken right after All returned and are not affected
	allDone := make(chan struct{})
	go func() { tasksWG.Wait(); close(allDone) }()
	select {
	case <-allDone:
	case <-time.After(span + 5*time.Second):
	}
	outs := make([]string, n)
	type rk struct{ i, r int }
	var order []string
	rs := make([]rk, 0, n)
	for i := 0; i < n; i++ {
		outs[i] = hlib.F("%d:%d", actV[i].Load(), actE[i].Load())
		if r := rank[i].Load(); r > 0 {
			rs = append(rs, rk{i, int(r)})
		}
	}
	for a := 1; a < len(rs); a++ { // insertion sort by rank
		for b := a; b > 0 && rs[b].r < rs[b-1].r; b-- {
			rs[b], rs[b-1] = rs[b-1], rs[b]
		}
	}
	for _, x := range rs {
		order = append(order, strconv.Itoa(x.i))
	}
	o.lhs = "all " + strconv.Itoa(n) + " " + p.token() + " " + hlib.Join(order, ",")
	if n > 0 {
		o.lhs += " " + strings.Join(outs, " ")
	}
	if hung {
		o.rhs = "hang"
		return
	}
	if panicked {
		o.rhs = "panic"
		return
	}
	r1 := make([]string, len(res))
	for i, v := range res {
		r1[i] = strconv.Itoa(v)
	}
	e1 := make([]string, len(errs))
	for i, e := range errs {
		e1[i] = strconv.Itoa(errCode(e))
	}
	f := string(flags)
	if n == 0 {
		f = "-"
	}
	o.rhs = hlib.Join(r1, ",") + " " + hlib.Join(e1, ",") + " " + f
	return
}

func main() {
	r := hlib.Start()
	r.Rule = "one case = one call of promise.All with 0..16 tasks; per task: delay 0..400us, value (0 = zero value included), error / both value and error, ctx-ignoring or ctx-respecting; cancellation never / before the call / after 0..500us / deadline; plus a straggler family: 1..3 of 1..16 tasks run on for 1ms..2.5s (log ladder) ignoring ctx or unwinding slowly after noticing it, cancellation at once / early / late / never; non-trivial = n >= 1 (distinct plan)"
	rng := hlib.NewRng(r.Seed)
	if r.Replay != "" {
		for _, t := range r.ReplayLines() {
			if t[0] != "all" {
				continue
			}
			p := parsePlan(t[2])
			reps := 50
			if p.spanUs() > 20_000 {
				reps = 3
			}
			for k := 0; k < reps; k++ {
				o := runPlan(p)
				r.Emit(o.lhs, o.rhs)
			}
		}
		r.Finish()
		return
	}
	ncase, nstrag := 4000, 36
	if r.Thorough() {
		ncase, nstrag = 120000, 360
	}
	plans := make([]plan, ncase, ncase+nstrag)
	for c := range plans {
		var p plan
		n := rng.Intn(17)
		if c < 17 {
			n = c
		}
		maxd := []int{0, 20, 100, 400}[rng.Intn(4)]
		p.cancel = []int{0, 0, 1, 2, 2, 3}[rng.Intn(6)]
		p.cancelUs = rng.Intn(maxd + 100)
		for i := 0; i < n; i++ {
			t := task{delayUs: rng.Intn(maxd + 1), mode: rng.Intn(3)}
			switch rng.Intn(6) {
			case 0:
				t.val = 0 // zero value as a legitimate result
			case 1:
				t.err = 1 + rng.Intn(5)
			case 2:
				t.val, t.err = 1+rng.Intn(1000), 1+rng.Intn(5) // value AND error: only the error is kept
			default:
				t.val = 1 + rng.Intn(1_000_000)
			}
			p.tasks = append(p.tasks, t)
		}
		plans[c] = p
	}
	// straggler family (drawn after the short plans, whose stream is therefore unchanged): 1..3 tasks outlive
	// the cancellation by a duration from a logarithmic ladder; the others are short tasks as above
	ladderUs := []int{2_000, 10_000, 50_000, 250_000, 1_000_000, 2_500_000}
	for c := 0; c < nstrag; c++ {
		var p plan
		scale := ladderUs[c%len(ladderUs)]
		n := 1 + rng.Intn(16)
		p.cancel = []int{0, 1, 2, 2, 3, 3}[rng.Intn(6)]
		switch rng.Intn(3) {
		case 0:
			p.cancelUs = rng.Intn(200) // at once
		case 1:
			p.cancelUs = 200 + rng.Intn(scale/4+1) // early in the stragglers' life
		default:
			p.cancelUs = scale/2 + rng.Intn(scale/2+1) // late
		}
		for i := 0; i < n; i++ {
			t := task{delayUs: rng.Intn(401), mode: rng.Intn(3)}
			switch rng.Intn(4) {
			case 0:
				t.err = 1 + rng.Intn(5)
			case 1:
				t.val = 0
			default:
				t.val = 1 + rng.Intn(1_000_000)
			}
			p.tasks = append(p.tasks, t)
		}
		for k, ns := 0, 1+rng.Intn(3); k < ns; k++ {
			t := &p.tasks[rng.Intn(n)]
			dur := scale/2 + rng.Intn(scale/2+1)
			if rng.Intn(2) == 0 {
				t.mode, t.delayUs, t.lagUs = 0, dur, 0 // never looks at ctx
			} else {
				t.mode, t.delayUs, t.lagUs = 3, p.cancelUs+dur, dur // notices, then unwinds for `dur`
			}
			if t.val == 0 && t.err == 0 && rng.Intn(2) == 0 {
				t.val = 1 + rng.Intn(1_000_000)
			}
		}
		plans = append(plans, p)
	}
	outs := make([]outcome, len(plans))
	pool := func(lo, hi, workers int) {
		var wg sync.WaitGroup
		var next atomic.Int64
		next.Store(int64(lo))
		for w := 0; w < workers; w++ {
			wg.Add(1)
			go func() {
				defer wg.Done()
				for {
					c := int(next.Add(1)) - 1
					if c >= hi {
						return
					}
					outs[c] = runPlan(plans[c])
				}
			}()
		}
		wg.Wait()
	}
	pool(0, ncase, 8)
	pool(ncase, len(plans), 18) // these mostly sleep
	for c, o := range outs {
		r.Emit(o.lhs, o.rhs)
		p := plans[c]
		if len(p.tasks) == 0 {
			r.Case("")
		} else {
			r.Case(p.token())
		}
		r.Count("tasks=" + strconv.Itoa(len(p.tasks)))
		r.Count("cancel=" + []string{"never", "before", "during", "deadline"}[p.cancel])
		if c >= ncase {
			r.Count("straggler-plan")
			if p.cancel != 0 {
				r.Count(hlib.F("straggler-outlives-cancel~%dms", ladderUs[(c-ncase)%len(ladderUs)]/1000))
			}
		}
		if strings.Contains(o.lhs, ":9") {
			r.Count("some-task-saw-cancellation")
		}
		if o.rhs == "panic" {
			r.Count("panic")
		}
	}
	r.Finish()
}
