def hello := "world"
