// C29 correspondence: the real AcmeValidate / AcmeInstruction / ReleaseTunnel of tun/server, run on an
// in-memory KV with scripted resolver, real proofs of work and real acme.Normalize, in random
// histories, against the Lean model and the property's spec oracle.
//
//	reset <apex hex> <acme hex>
//	validate <id>:<tok hex> <raw hex> <norm hex|!> <powOk>:<kind> <cname hex|!>:<kind> <target hex> <getFail><putFail> => <res> <asked hex|-> <kvReads> <bound id:tokhex|-> <owners of the DNS name: sorted id:tokhex,…|->
//	instr    <id>:<tok hex> <raw hex> <norm hex|!> <powOk>:<kind> <target hex> <getFail> => <res> <name hex|-> <content hex|->
//	release  <id>:<tok hex> <host hex> => <res> <bound|->
package main

import (
	"context"
	"crypto/ed25519"
	"crypto/x509"
	"errors"
	"sort"
	"strconv"
	"strings"
	"sync"
	"time"

	"github.com/twitchtv/twirp"
	"go.miragespace.co/specter/spec/acme"
	"go.miragespace.co/specter/spec/chord"
	"go.miragespace.co/specter/spec/mocks"
	"go.miragespace.co/specter/spec/pki"
	"go.miragespace.co/specter/spec/protocol"
	"go.miragespace.co/specter/spec/rpc"
	"go.miragespace.co/specter/spec/transport"
	"go.miragespace.co/specter/spec/tun"
	"go.miragespace.co/specter/tun/server"
	"go.miragespace.co/specter/util/hashcash"
	"go.uber.org/zap"

	"verif/harness/hlib"
)

const (
	apex     = "hello.com"
	acmeZone = "acme.example.com"
)

// ---------- in-memory KV on top of the repo's mock ----------

type memKV struct {
	*mocks.VNode
	mu       sync.Mutex
	kv       map[string][]byte
	pfx      map[string]map[string]bool
	reads    int
	getFail  bool
	putFail  bool
	leaseSeq uint64
}

func newKV() *memKV {
	return &memKV{VNode: new(mocks.VNode), kv: map[string][]byte{}, pfx: map[string]map[string]bool{}}
}
func (m *memKV) Get(ctx context.Context, key []byte) ([]byte, error) {
	m.mu.Lock()
	defer m.mu.Unlock()
	m.reads++
	if m.getFail {
		return nil, errors.New("scripted kv read failure")
	}
	return m.kv[string(key)], nil
}
func (m *memKV) Put(ctx context.Context, key, value []byte) error {
	m.mu.Lock()
	defer m.mu.Unlock()
	if m.putFail {
		return errors.New("scripted kv write failure")
	}
	m.kv[string(key)] = append([]byte{}, value...)
	return nil
}
func (m *memKV) Delete(ctx context.Context, key []byte) error {
	m.mu.Lock()
	defer m.mu.Unlock()
	delete(m.kv, string(key))
	return nil
}
func (m *memKV) PrefixAppend(ctx context.Context, prefix, child []byte) error {
	m.mu.Lock()
	defer m.mu.Unlock()
	s := m.pfx[string(prefix)]
	if s == nil {
		s = map[string]bool{}
		m.pfx[string(prefix)] = s
	}
	if s[string(child)] {
		return chord.ErrKVPrefixConflict
	}
	s[string(child)] = true
	return nil
}
func (m *memKV) PrefixContains(ctx context.Context, prefix, child []byte) (bool, error) {
	m.mu.Lock()
	defer m.mu.Unlock()
	return m.pfx[string(prefix)][string(child)], nil
}
func (m *memKV) PrefixRemove(ctx context.Context, prefix, child []byte) error {
	m.mu.Lock()
	defer m.mu.Unlock()
	delete(m.pfx[string(prefix)], string(child))
	return nil
}
func (m *memKV) Acquire(ctx context.Context, lease []byte, ttl time.Duration) (uint64, error) {
	m.mu.Lock()
	defer m.mu.Unlock()
	m.leaseSeq++
	return m.leaseSeq, nil
}
func (m *memKV) Renew(ctx context.Context, lease []byte, ttl time.Duration, prev uint64) (uint64, error) {
	return prev, nil
}
func (m *memKV) Release(ctx context.Context, lease []byte, token uint64) error { return nil }

// owner recorded in a stored binding, canonical "<id>:<tokhex>"
func ownerOf(v []byte) string {
	b := &protocol.CustomHostname{}
	if err := b.UnmarshalVT(v); err != nil {
		return "undecodable"
	}
	if b.GetClientIdentity().GetAddress() != string(b.GetClientToken().GetToken()) {
		return "inconsistent"
	}
	return strconv.FormatUint(b.GetClientIdentity().GetId(), 10) + ":" + hlib.Hex(b.GetClientToken().GetToken())
}

// binding currently stored for a hostname key, canonical "<id>:<tokhex>" or "-"
func (m *memKV) boundOf(host string) string {
	m.mu.Lock()
	v := m.kv[tun.CustomHostnameKey(host)]
	m.mu.Unlock()
	if len(v) == 0 {
		return "-"
	}
	return ownerOf(v)
}

// ASCII case folding: the identity of a hostname as a DNS name (RFC 4343); same function as `fold` in Model.lean
func asciiLower(s string) string {
	b := []byte(s)
	for i, c := range b {
		if 'A' <= c && c <= 'Z' {
			b[i] = c + 32
		}
	}
	return string(b)
}

// every client some spelling of the DNS name `host` is bound to (scan of all custom-hostname keys),
// sorted and joined by ","; "-" when there is none
func (m *memKV) ownersOfName(host string) string {
	prefix := tun.CustomHostnameKey("")
	want := asciiLower(host)
	set := map[string]bool{}
	m.mu.Lock()
	for k, v := range m.kv {
		if len(v) > 0 && strings.HasPrefix(k, prefix) && asciiLower(k[len(prefix):]) == want {
			set[ownerOf(v)] = true
		}
	}
	m.mu.Unlock()
	if len(set) == 0 {
		return "-"
	}
	var l []string
	for o := range set {
		l = append(l, o)
	}
	sort.Strings(l)
	return strings.Join(l, ",")
}

type resolver struct {
	answer string
	err    error
	asked  []string
}

func (r *resolver) LookupCNAME(ctx context.Context, host string) (string, error) {
	r.asked = append(r.asked, host)
	if r.err != nil {
		return "", r.err
	}
	return r.answer, nil
}

// ---------- clients ----------

type client struct {
	id    uint64
	token string
}

func (c client) tok() string { return strconv.FormatUint(c.id, 10) + ":" + hlib.HexS(c.token) }
func (c client) ctx() context.Context {
	cert := &x509.Certificate{Subject: pki.MakeSubjectV1(c.id, c.token)}
	return rpc.WithDelegation(context.Background(), &transport.StreamDelegate{Certificate: cert})
}
func (c client) target() string {
	_, content := acme.GenerateCustomRecord("x.example.org", acmeZone, []byte(c.token))
	return content
}

var clients = []client{{1, "tokenAAAA"}, {2, "tokenBBBB"}, {3, "tokenAAAA"}, {1, "tokenCCCC"}}

// ---------- proofs of work ----------

type proofs struct {
	mu    sync.Mutex
	priv  ed25519.PrivateKey
	other ed25519.PrivateKey
	fresh map[string]*protocol.ProofOfWork
	at    map[string]time.Time
	fixed map[string]*protocol.ProofOfWork
}

func newProofs(rng *hlib.Rng) *proofs {
	return &proofs{priv: ed25519.NewKeyFromSeed(rng.Bytes(32)), other: ed25519.NewKeyFromSeed(rng.Bytes(32)),
		fresh: map[string]*protocol.ProofOfWork{}, at: map[string]time.Time{}, fixed: map[string]*protocol.ProofOfWork{}}
}

func (p *proofs) solve(subject string, difficulty int, exp time.Time, signer ed25519.PrivateKey) *protocol.ProofOfWork {
	hc := hashcash.New(hashcash.Hashcash{Subject: subject, Difficulty: difficulty, ExpiresAt: exp})
	if err := hc.Solve(difficulty); err != nil {
		panic(err)
	}
	return &protocol.ProofOfWork{PubKey: p.priv.Public().(ed25519.PublicKey), Signature: ed25519.Sign(signer, []byte(hc.String())), Solution: hc.String()}
}

// a proof the server must accept for `subject` right now (regenerated when older than 13 s; it expires 19 s after generation)
func (p *proofs) valid(subject string) *protocol.ProofOfWork {
	p.mu.Lock()
	defer p.mu.Unlock()
	if pr, ok := p.fresh[subject]; ok && time.Since(p.at[subject]) < 13*time.Second {
		return pr
	}
	now := time.Now()
	pr := p.solve(subject, acme.HashcashDifficulty, now.Add(19*time.Second), p.priv)
	p.fresh[subject], p.at[subject] = pr, now
	return pr
}

// prefetch valid proofs for many subjects in parallel
func (p *proofs) warm(subjects []string) {
	var wg sync.WaitGroup
	sem := make(chan struct{}, 12)
	for _, s := range subjects {
		p.mu.Lock()
		_, ok := p.fresh[s]
		okAge := ok && time.Since(p.at[s]) < 9*time.Second
		p.mu.Unlock()
		if okAge {
			continue
		}
		wg.Add(1)
		sem <- struct{}{}
		go func(s string) {
			defer wg.Done()
			defer func() { <-sem }()
			now := time.Now()
			pr := p.solve(s, acme.HashcashDifficulty, now.Add(19*time.Second), p.priv)
			p.mu.Lock()
			p.fresh[s], p.at[s] = pr, now
			p.mu.Unlock()
		}(s)
	}
	wg.Wait()
}

var powKinds = []string{"valid", "valid", "valid", "valid", "valid", "valid", "valid", "valid", "valid", "valid", "valid", "valid", "valid", "valid", "nil", "wrongsubject", "expired", "lowdiff", "badsig", "truncsig", "nosolution", "rawsubject"}

// returns the proof and whether pow.VerifySolution must accept it for subject norm
func (p *proofs) make(kind, norm, raw string) (*protocol.ProofOfWork, bool) {
	fixed := func(key string, f func() *protocol.ProofOfWork) *protocol.ProofOfWork {
		p.mu.Lock()
		pr, ok := p.fixed[key]
		p.mu.Unlock()
		if !ok {
			pr = f()
			p.mu.Lock()
			p.fixed[key] = pr
			p.mu.Unlock()
		}
		return pr
	}
	switch kind {
	case "valid":
		return p.valid(norm), true
	case "nil":
		return nil, false
	case "wrongsubject":
		return p.valid("other." + norm), false
	case "rawsubject":
		if raw == norm {
			return p.valid(norm), true
		}
		if strings.ContainsAny(raw, ":") {
			return nil, false
		}
		return p.valid(raw), false
	case "expired":
		return fixed("exp:"+norm, func() *protocol.ProofOfWork {
			return p.solve(norm, acme.HashcashDifficulty, time.Now().Add(-time.Hour), p.priv)
		}), false
	case "lowdiff":
		return fixed("low:"+norm, func() *protocol.ProofOfWork {
			return p.solve(norm, 10, time.Now().Add(24*time.Hour), p.priv)
		}), false
	case "badsig":
		v := p.valid(norm)
		hc := v.GetSolution()
		return &protocol.ProofOfWork{PubKey: v.GetPubKey(), Signature: ed25519.Sign(p.other, []byte(hc)), Solution: hc}, false
	case "truncsig":
		v := p.valid(norm)
		return &protocol.ProofOfWork{PubKey: v.GetPubKey(), Signature: v.GetSignature()[:40], Solution: v.GetSolution()}, false
	case "nosolution":
		v := p.valid(norm)
		return &protocol.ProofOfWork{PubKey: v.GetPubKey(), Signature: ed25519.Sign(p.priv, nil)}, false
	}
	panic("kind " + kind)
}

// ---------- result canonicalisation ----------

func resTok(err error) string {
	if err == nil {
		return "ok"
	}
	var te twirp.Error
	if errors.As(err, &te) {
		switch te.Code() {
		case twirp.InvalidArgument:
			if te.Meta("argument") == "hostname" {
				return "inv:hostname"
			}
			return "inv:pow"
		case twirp.FailedPrecondition:
			return "failed_precondition"
		case twirp.Internal:
			return "internal"
		case twirp.PermissionDenied:
			return "permission_denied"
		default:
			return "twirp:" + string(te.Code())
		}
	}
	return "err"
}

// raw spellings; the normalised form comes from the real acme.Normalize
var hostPool = []string{
	"app.customer.org", "app.customer.org", " app.customer.org", "app. customer.org\t", "APP.customer.org", "App.Customer.Org",
	"www.shop.example.net", "www.shop.example.net", "a.b.c.d.e.customer.org",
	"bücher.example.de", "xn--bcher-kva.example.de", "BÜCHER.example.de", "sub.bücher.example.de",
	"customer.org", "org", "localhost", "example.net",
	"hello.com", "x.hello.com", "deep.x.hello.com", "nothello.com.evil.org", "hello.com.evil.org", "xhello.com",
	"acme.example.com", "foo.acme.example.com", "a.acme.example.com.evil.org", "sub.example.com",
	"*.customer.org", "10.0.0.1", "", "a..customer.org", "-bad-.customer.org", "under_score.customer.org", "emoji😀.customer.org",
	"app.customer.org.", ".app.customer.org", "app.customer.org:443", "tenant.customer.co.uk",
	// other spellings of names under the zones (DNS names are case-insensitive)
	"x.HELLO.com", "app.team.Hello.Com", "HELLO.COM", "x.y.ACME.example.com", "Foo.Acme.Example.Com", "ACME.EXAMPLE.COM",
	"WWW.shop.example.net", "www.Shop.Example.NET", "Tenant.customer.co.uk",
}

// another spelling of the same DNS name: ASCII letters change case, nothing else
func respell(raw string, rng *hlib.Rng) string {
	b := []byte(raw)
	up := func(i int) {
		if 'a' <= b[i] && b[i] <= 'z' {
			b[i] -= 32
		}
	}
	firstDot, lastDot := strings.IndexByte(raw, '.'), strings.LastIndexByte(raw, '.')
	switch rng.Intn(5) {
	case 0: // Title-case first label
		for i := range b {
			if b[i] != ' ' {
				up(i)
				break
			}
		}
	case 1: // everything
		for i := range b {
			up(i)
		}
	case 2: // the registrable part
		for i := firstDot + 1; i > 0 && i < len(b); i++ {
			up(i)
		}
	case 3: // the top-level label
		for i := lastDot + 1; i > 0 && i < len(b); i++ {
			up(i)
		}
	default: // back to lower case
		return asciiLower(raw)
	}
	return string(b)
}

type runner struct {
	r    *hlib.Run
	rng  *hlib.Rng
	kv   *memKV
	res  *resolver
	srv  *server.Server
	pw   *proofs
	norm map[string]string
}

func (x *runner) normalize(raw string) (string, bool) {
	n, err := acme.Normalize(raw)
	return n, err == nil
}

func normTok(n string, ok bool) string {
	if !ok {
		return "!"
	}
	return hlib.HexS(n)
}

func (x *runner) reset() {
	x.kv = newKV()
	x.res = &resolver{}
	x.srv = server.New(server.Config{
		ParentContext: context.Background(), Logger: zap.NewNop(),
		Chord: x.kv, Resolver: x.res,
		TunnelTransport: new(mocks.Transport), ChordTransport: new(mocks.Transport),
		Apex: apex, Acme: acmeZone,
	})
	x.r.Raw("reset " + hlib.HexS(apex) + " " + hlib.HexS(acmeZone))
}

func cnameAnswer(kind string, c client, rng *hlib.Rng) (string, error) {
	switch kind {
	case "right":
		return c.target(), nil
	case "other":
		for {
			o := hlib.Pick(rng, clients)
			if o.token != c.token {
				return o.target(), nil
			}
		}
	case "nodot":
		return strings.TrimSuffix(c.target(), "."), nil
	case "upper":
		return strings.ToUpper(c.target()), nil
	case "prefix":
		return "x" + c.target(), nil
	case "managed":
		_, content := acme.GenerateManagedRecord("x.example.org", acmeZone)
		return content, nil
	case "empty":
		return "", nil
	default:
		return "", errors.New("scripted resolver failure")
	}
}

var cnameKinds = []string{"right", "right", "right", "other", "nodot", "upper", "prefix", "managed", "empty", "err"}

func (x *runner) validate(c client, raw, powKind, cnameKind string, getFail, putFail bool) {
	norm, nok := x.normalize(raw)
	var proof *protocol.ProofOfWork
	powOk := false
	if nok {
		proof, powOk = x.pw.make(powKind, norm, raw)
	} else {
		powKind = "nil"
	}
	ans, aerr := cnameAnswer(cnameKind, c, x.rng)
	x.res.answer, x.res.err, x.res.asked = ans, aerr, nil
	x.kv.getFail, x.kv.putFail, x.kv.reads = getFail, putFail, 0
	var err error
	panicked := false
	func() {
		defer func() {
			if p := recover(); p != nil {
				panicked = true
			}
		}()
		_, err = x.srv.AcmeValidate(c.ctx(), &protocol.ValidateRequest{Proof: proof, Hostname: raw})
	}()
	x.kv.getFail, x.kv.putFail = false, false
	res := resTok(err)
	if panicked {
		res = "panic"
	}
	asked := "-"
	if len(x.res.asked) == 1 {
		asked = hlib.HexS(x.res.asked[0])
	} else if len(x.res.asked) > 1 {
		asked = "many"
	}
	bound, owners := "-", "-"
	if nok {
		bound = x.kv.boundOf(norm)
		owners = x.kv.ownersOfName(norm)
	}
	cn := "!"
	if aerr == nil {
		cn = hlib.HexS(ans)
	}
	x.r.Emit("validate "+c.tok()+" "+hlib.HexS(raw)+" "+normTok(norm, nok)+" "+b01(powOk)+":"+powKind+" "+cn+":"+cnameKind+" "+
		hlib.HexS(c.target())+" "+b01(getFail)+b01(putFail), res+" "+asked+" "+strconv.Itoa(x.kv.reads)+" "+bound+" "+owners)
	key := ""
	if nok && powOk {
		key = c.tok() + raw + cnameKind + bound
	}
	x.r.Case(key)
	x.r.Count("validate:" + res)
	if raw != asciiLower(raw) {
		x.r.Count("spelling:mixed-case")
		if nok {
			x.r.Count("spelling:mixed-case-normalised")
		}
	}
	x.r.Count("pow:" + powKind)
	if res == "ok" || res == "failed_precondition" {
		x.r.Count("cname:" + cnameKind)
	}
}

func (x *runner) instr(c client, raw, powKind string, getFail bool) {
	norm, nok := x.normalize(raw)
	var proof *protocol.ProofOfWork
	powOk := false
	if nok {
		proof, powOk = x.pw.make(powKind, norm, raw)
	} else {
		powKind = "nil"
	}
	x.kv.getFail, x.kv.reads = getFail, 0
	resp, err := x.srv.AcmeInstruction(c.ctx(), &protocol.InstructionRequest{Proof: proof, Hostname: raw})
	x.kv.getFail = false
	name, content := "-", "-"
	if err == nil {
		name, content = hlib.HexS(resp.GetName()), hlib.HexS(resp.GetContent())
	}
	x.r.Emit("instr "+c.tok()+" "+hlib.HexS(raw)+" "+normTok(norm, nok)+" "+b01(powOk)+":"+powKind+" "+hlib.HexS(c.target())+" "+b01(getFail),
		resTok(err)+" "+name+" "+content)
	x.r.Case("")
	x.r.Count("instr:" + resTok(err))
}

func (x *runner) release(c client, host string) {
	_, err := x.srv.ReleaseTunnel(c.ctx(), &protocol.ReleaseTunnelRequest{Hostname: host})
	x.r.Emit("release "+c.tok()+" "+hlib.HexS(host), resTok(err)+" "+x.kv.boundOf(host))
	x.r.Case("release" + c.tok() + host + resTok(err))
	x.r.Count("release:" + resTok(err))
}

func b01(b bool) string {
	if b {
		return "1"
	}
	return "0"
}

func parseClient(s string) client {
	p := strings.SplitN(s, ":", 2)
	id, _ := strconv.ParseUint(p[0], 10, 64)
	return client{id, string(hlib.UnHex(p[1]))}
}

func main() {
	r := hlib.Start()
	r.Rule = "histories of 10..24 operations (validate / instruction / release) by 4 clients (two sharing a token, two sharing an id) over ~47 raw hostname spellings plus random re-spellings of the same DNS name (ASCII case changes of the first label / the whole name / the registrable part / the TLD) (spaces, upper and mixed case also of the apex / acme zone, unicode/punycode, apex / acme-zone (sub)domains and look-alikes, bare domains, wildcards, IPs, malformed) with 11 kinds of proofs of work (real hashcash at the server's difficulty), 9 kinds of CNAME answers and KV failures; every validate line also reports all owners of the hostname as a DNS name (case-insensitive scan of the KV); non-trivial = a validate that passed Normalize and the proof of work"
	rng := hlib.NewRng(r.Seed)
	x := &runner{r: r, rng: rng, pw: newProofs(rng)}

	if r.Replay != "" {
		for _, t := range r.ReplayLines() {
			switch t[0] {
			case "reset":
				x.reset()
			case "validate":
				if x.srv == nil {
					x.reset()
				}
				pk := strings.SplitN(t[4], ":", 2)[1]
				ck := strings.SplitN(t[5], ":", 2)[1]
				x.validate(parseClient(t[1]), string(hlib.UnHex(t[2])), pk, ck, t[7][0] == '1', t[7][1] == '1')
			case "instr":
				if x.srv == nil {
					x.reset()
				}
				pk := strings.SplitN(t[4], ":", 2)[1]
				x.instr(parseClient(t[1]), string(hlib.UnHex(t[2])), pk, t[6] == "1")
			case "release":
				if x.srv == nil {
					x.reset()
				}
				x.release(parseClient(t[1]), string(hlib.UnHex(t[2])))
			}
		}
		r.Finish()
		return
	}

	// subjects that need fresh proofs: normalised pool + wrong-subject variants
	var subjects []string
	seen := map[string]bool{}
	for _, h := range hostPool {
		if n, ok := x.normalize(h); ok {
			for _, s := range []string{n, "other." + n} {
				if !seen[s] {
					seen[s] = true
					subjects = append(subjects, s)
				}
			}
			if h != n && !strings.Contains(h, ":") && !seen[h] {
				seen[h] = true
				subjects = append(subjects, h)
			}
		}
	}
	cases := 60
	if r.Thorough() {
		cases = 1500
	}
	for cs := 0; cs < cases; cs++ {
		x.pw.warm(subjects)
		x.reset()
		// a case concentrates on a few hostnames so that bindings collide
		// ... under several spellings of the same DNS name
		focus := []string{hlib.Pick(rng, hostPool), hlib.Pick(rng, hostPool[:13]), hlib.Pick(rng, hostPool)}
		focus = append(focus, respell(hlib.Pick(rng, focus), rng))
		n := 10 + rng.Intn(15)
		for i := 0; i < n; i++ {
			c := hlib.Pick(rng, clients)
			raw := hlib.Pick(rng, focus)
			if rng.Intn(5) == 0 {
				raw = hlib.Pick(rng, hostPool)
			}
			if rng.Intn(8) == 0 {
				raw = respell(raw, rng)
			}
			switch k := rng.Intn(10); {
			case k < 6:
				pk := hlib.Pick(rng, powKinds)
				ck := hlib.Pick(rng, cnameKinds)
				x.validate(c, raw, pk, ck, rng.Intn(25) == 0, rng.Intn(25) == 0)
			case k < 7:
				x.instr(c, raw, hlib.Pick(rng, powKinds), rng.Intn(25) == 0)
			default:
				h := raw
				if n, ok := x.normalize(raw); ok && rng.Intn(4) != 0 {
					h = n
				}
				if b := x.kv.boundOf(h); strings.Contains(b, ":") && rng.Intn(3) != 0 {
					c = parseClient(b) // the owner releases
					if rng.Intn(4) == 0 {
						c.id += 2 // same token, other id
					}
				}
				x.release(c, h)
			}
		}
	}
	r.Finish()
}
