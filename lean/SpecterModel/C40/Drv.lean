import SpecterModel.Util
import SpecterModel.C40.Model
/-!
C40 line-protocol driver.

  copier <reads> <writes> => calls=<hex/…>;err=<e>;closes=<tags>;total=<tags>;chan=closed|open
      one copier of the real `Pipe(R, W)` over scripted streams: R answers `Read` from the script, W answers `Write`
      from the script; the opposite copier is parked in `W.Read` until both streams have been closed once and then
      sees end-of-stream. reads = `/`-separated `<hex>.<err>`, writes = `/`-separated `<n>.<err>`;
      err ∈ n | eof | short | invalid | e<k>; `-` = empty script.
      closes: the Close calls made before the parked copier was released, W = the stream written to, R = the stream
      read from (sorted: the order is not part of the property); total: all Close calls when the channel is closed.
  duplex <ev/ev/…> => AB=<hex>;BA=<hex>;errs=<sorted,…>;cA=<n>;cB=<n>;chan=closed|open;cap=<n>;stuck=<0|1>
      real `Pipe(X, Y)` with traffic in both directions at once, driven event by event; destinations consume each
      `Write` piece by piece and look at the bytes of a piece at the moment they take it.
      ev: rA.<hex> = X.Read returns the chunk   dA.<k> = the consumer behind Y takes the next k bytes of the Write in flight
          rB.<hex> / dB.<k> = the same for the direction Y → X
          last event: eA | eB = that side's Read reports end-of-stream, xA.<k> | xB.<k> = it fails with error e<k>;
          the other side's pending Read / Write then fails with `closed` when its stream is closed.
      AB = bytes consumed behind Y, BA = bytes consumed behind X.
  pipe2 <A.reads> <A.writes> <B.reads> <B.writes> => AB=<calls>;BA=<calls>;errs=<sorted,…>;cA=<n>;cB=<n>;chan=closed|open;cap=<cap of the channel>
      real `Pipe(A, B)` over two scripted streams.
  live <who closes> <hexA> <hexB> <tail hex> => AB=<hex>;BA=<hex>;tail=<hex>;end=<eof|closed|…>;cX=<n>;cY=<n>;nerr=<k>;chan=closed|open
      real `Pipe` over two bufconn pairs with real client goroutines (spec only).
-/
namespace Specter.C40
open Specter.Util

def parseErr (s : String) : Option (Option Err) :=
  if s = "n" then some none
  else if s = "eof" then some (some .eof)
  else if s = "short" then some (some .shortWrite)
  else if s = "invalid" then some (some .invalidWrite)
  else if s.startsWith "e" then (s.drop 1).toString.toNat?.map fun k => some (.other k)
  else none

def errStr : Option Err → String
  | none => "n" | some .eof => "eof" | some .shortWrite => "short" | some .invalidWrite => "invalid"
  | some (.other k) => s!"e{k}"

def parseList {α : Type} (f : String → Option α) (s : String) : Option (List α) :=
  if s = "-" then some [] else (s.splitOn "/").mapM f

def parseRead (s : String) : Option ReadRes :=
  match s.splitOn "." with
  | [d, e] => do let d ← hexToBytes d; let e ← parseErr e; pure ⟨d, e⟩
  | _ => none

def parseWrite (s : String) : Option WriteRes :=
  match s.splitOn "." with
  | [n, e] => do let n ← n.toInt?; let e ← parseErr e; pure ⟨n, e⟩
  | _ => none

def callsStr (cs : List (List Nat)) : String :=
  if cs.isEmpty then "-" else "/".intercalate (cs.map bytesToHex)

/-- spec view of a reader script: the bytes up to and including the terminating read, and how it terminates -/
def specSource : List ReadRes → List Nat × Option Err
  | [] => ([], none)
  | r :: rs => match r.err with
    | none => let q := specSource rs; (r.data ++ q.1, q.2)
    | some .eof => (r.data, none)
    | some e => (r.data, some e)

def field (rhs key : String) : String :=
  match (rhs.splitOn ";").filter (·.startsWith (key ++ "=")) with
  | f :: _ => (f.drop (key.length + 1)).toString
  | [] => "?"

def flattenHexCalls (s : String) : Option (List Nat) :=
  if s = "-" then some [] else ((s.splitOn "/").mapM hexToBytes).map List.flatten

def insertSorted (x : String) : List String → List String
  | [] => [x]
  | y :: ys => if x ≤ y then x :: y :: ys else y :: insertSorted x ys

def sortStrs (l : List String) : List String := l.foldr insertSorted []


/-! ### duplex: both directions at once -/

inductive DEnd where
  | eof (d : Dir) | fail (d : Dir) (k : Nat)

def DEnd.dir : DEnd → Dir
  | .eof d | .fail d _ => d

def parseDir (s : String) : Option Dir :=
  if s = "A" then some .ab else if s = "B" then some .ba else none

def parseDEv (s : String) : Option (DEv ⊕ DEnd) :=
  match s.splitOn "." with
  | [t] => if t = "eA" then some (.inr (.eof .ab)) else if t = "eB" then some (.inr (.eof .ba)) else none
  | [t, a] =>
    match (t.drop 1).toString |> parseDir with
    | none => none
    | some d =>
      if t.startsWith "r" then (hexToBytes a).map fun c => .inl (.read d c)
      else if t.startsWith "d" then a.toNat?.map fun k => .inl (.drain d k)
      else if t.startsWith "x" then a.toNat?.map fun k => .inr (.fail d k)
      else none
  | _ => none

/-- events up to the terminating one -/
def splitSchedule : List (DEv ⊕ DEnd) → Option (List DEv × DEnd)
  | [] => none
  | [.inr e] => some ([], e)
  | .inl ev :: rest => (splitSchedule rest).map fun (evs, e) => (ev :: evs, e)
  | .inr _ :: _ => none

/-- spec view: bytes written on a side (what its Read calls returned), number of bytes the far consumer took -/
def sentOf (d : Dir) (evs : List DEv) : List Nat :=
  (evs.filterMap fun | .read d' c => if d' = d then some c else none | _ => none).flatten
def takenByConsumer (d : Dir) (evs : List DEv) : Nat :=
  (evs.filterMap fun | .drain d' k => if d' = d then some k else none | _ => none).foldl (· + ·) 0

def zeroMem : Nat → List Nat := fun _ => List.replicate bufferSize 0

/-- run the model, refusing schedules the unchanged code cannot follow -/
def runSchedule : DState → List DEv → Option DState
  | s, [] => some s
  | s, ev :: evs => if enabled s ev then runSchedule (dstep codeBufOf s ev) evs else none

def dirName : Dir → String
  | .ab => "X" | .ba => "Y"

def other : Dir → Dir
  | .ab => .ba | .ba => .ab

def step (_ : Unit) (toks : List String) (rhs : String) : Unit × Verdict :=
  match toks with
  | ["reset"] => ((), .ok)
  | ["copier", rs, ws] =>
    match parseList parseRead rs, parseList parseWrite ws with
    | some rs, some ws =>
      let out := copy rs ws
      let model := s!"calls={callsStr out.calls};err={errStr out.err};closes=RW;total=RRWW;chan=closed"
      -- property: with a destination that accepts everything, all source bytes up to its end arrive, in order;
      -- both streams are closed; the reported error is the source's
      let closes := field rhs "closes"
      let specMsg : Option String :=
        if field rhs "chan" ≠ "closed" then some "Pipe must report completion by closing the channel"
        else if closes.length ≠ 2 ∨ !(closes.contains 'W') ∨ !(closes.contains 'R') then some "each stream must be closed exactly once by the copier"
        else if ws.isEmpty then
          let src := specSource rs
          match flattenHexCalls (field rhs "calls") with
          | some got =>
            if got ≠ src.1 then some s!"destination must receive exactly {bytesToHex src.1}"
            else if field rhs "err" ≠ errStr src.2 then some s!"copier must report {errStr src.2}"
            else none
          | none => some "unparsable calls"
        else none
      match specMsg with
      | some m => ((), .spec m)
      | none => if model = rhs then ((), .ok) else ((), .diff model)
    | _, _ => ((), .bad "copier args")
  | ["pipe2", ar, aw, br, bw] =>
    match parseList parseRead ar, parseList parseWrite aw, parseList parseRead br, parseList parseWrite bw with
    | some ar, some aw, some br, some bw =>
      let ab := copy ar bw
      let ba := copy br aw
      let errs := sortStrs (([ab.err, ba.err].filter (· ≠ none)).map errStr)
      let es := if errs.isEmpty then "-" else ",".intercalate errs
      let model := s!"AB={callsStr ab.calls};BA={callsStr ba.calls};errs={es};cA=2;cB=2;chan=closed;cap=2"
      if field rhs "chan" ≠ "closed" then ((), .spec "Pipe must report completion by closing the channel")
      else if field rhs "cA" ≠ "2" ∨ field rhs "cB" ≠ "2" then ((), .spec "both streams must be closed by both copiers")
      else if (field rhs "cap").toNat?.getD 0 < errs.length then
        ((), .spec "error channel smaller than the number of errors: a copier blocks forever when nobody receives")
      else if model = rhs then ((), .ok) else ((), .diff model)
    | _, _, _, _ => ((), .bad "pipe2 args")
  | ["duplex", sched] =>
    match ((sched.splitOn "/").mapM parseDEv).bind splitSchedule with
    | none => ((), .bad "duplex schedule")
    | some (evs, fin) =>
      match runSchedule { mem := zeroMem } evs with
      | none => ((), .bad "duplex schedule cannot be followed by two copiers")
      | some st =>
        if (st.half fin.dir).off ≠ (st.half fin.dir).nr then ((), .bad "duplex schedule ends a side while its copier is writing")
        else
        -- property, from the schedule alone: the n bytes the consumer behind one stream has taken are the first n
        -- bytes written on the other side (all of them for the side that ended), in order; both streams closed by
        -- both copiers; completion reported
        let judge (d : Dir) (key : String) : Option String :=
          let want := (sentOf d evs).take (takenByConsumer d evs)
          if field rhs key = bytesToHex want then none
          else some s!"the consumer on side {dirName (other d)} took {takenByConsumer d evs} byte(s): they must be the first bytes written on side {dirName d}, unmodified and in order: want {bytesToHex want} got {field rhs key}"
        let ferr := match fin with | .eof _ => [] | .fail _ k => [s!"e{k}"]
        let errs := sortStrs ("closed" :: ferr)
        let model := s!"AB={bytesToHex (st.half .ab).delivered};BA={bytesToHex (st.half .ba).delivered};errs={",".intercalate errs};cA=2;cB=2;chan=closed;cap=2;stuck=0"
        if field rhs "chan" ≠ "closed" then ((), .spec "Pipe must report completion by closing the channel")
        else if field rhs "stuck" ≠ "0" then ((), .spec "a copier stopped moving data although its source had data / its consumer was taking data")
        else match judge .ab "AB", judge .ba "BA" with
          | some m, _ => ((), .spec m)
          | _, some m => ((), .spec m)
          | none, none =>
            if field rhs "cA" ≠ "2" ∨ field rhs "cB" ≠ "2" then ((), .spec "both streams must be closed by both copiers")
            else if model = rhs then ((), .ok) else ((), .diff model)
  | ["live", _who, a, b, tail] =>
    if field rhs "chan" ≠ "closed" then ((), .spec "Pipe must report completion by closing the channel")
    else if field rhs "AB" ≠ a ∨ field rhs "BA" ≠ b then ((), .spec "bytes written on one side must arrive on the other side in order")
    else if field rhs "tail" ≠ tail then ((), .spec "bytes written before the side finished must all arrive")
    else if field rhs "end" ≠ "eof" then ((), .spec s!"the far side must see end-of-stream, saw {field rhs "end"}")
    else if field rhs "cX" ≠ "2" ∨ field rhs "cY" ≠ "2" then ((), .spec "both streams must be closed by both copiers")
    else if (field rhs "nerr").toNat?.getD 9 > 2 then ((), .spec "more than two errors")
    else ((), .ok)
  | _ => ((), .bad "unknown op")

def main : IO Unit := runLoop () step

end Specter.C40
