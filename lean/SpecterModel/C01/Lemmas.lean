import SpecterModel.C01.Model
/-!
Ring arithmetic lemmas shared by the ring proofs (C01, C09, C05, …).
`between` is related to the clockwise distance `dist a b = (b + M - a) % M`.
-/
namespace Specter.Ring

def dist (a b : Nat) : Nat := (b + M - a) % M

theorem M_val : M = 281474976710656 := by simp [M]

theorem dist_cases (a b : Nat) (ha : a < M) (hb : b < M) :
    (a ≤ b ∧ dist a b = b - a) ∨ (b < a ∧ dist a b = b + M - a) := by
  unfold dist; simp only [M, Nat.reducePow] at *; omega

theorem dist_lt (a b : Nat) : dist a b < M := by
  unfold dist; exact Nat.mod_lt _ (by simp [M])

theorem between_open_iff (l t h : Nat) (hl : l < M) (ht : t < M) (hh : h < M) :
    between l t h false = true ↔ (0 < dist l t ∧ (dist l t < dist l h ∨ l = h)) := by
  unfold between dist; simp only [M] at *
  by_cases c : h > l
  · simp [c]; omega
  · simp [c]; omega

theorem between_closed_iff (l t h : Nat) (hl : l < M) (ht : t < M) (hh : h < M) :
    between l t h true = true ↔ (0 < dist l t ∧ (dist l t ≤ dist l h ∨ l = h)) ∨ (t = h) := by
  unfold between dist; simp only [M] at *
  by_cases c : h > l
  · simp [c]; omega
  · simp [c]; omega

/-- clockwise distance from `x` to `key`, counting a full turn when `x = key`
    (the measure that every forwarding hop of `findSucc` strictly decreases) -/
def cw (key x : Nat) : Nat := if x = key then M else dist x key

theorem cw_le (key x : Nat) : cw key x ≤ M := by
  unfold cw; split
  · exact Nat.le_refl _
  · exact Nat.le_of_lt (dist_lt _ _)

/-- a hop to a node strictly inside (n, key) decreases the measure -/
theorem cw_lt_of_between_open (n c key : Nat) (hn : n < M) (hc : c < M) (hk : key < M)
    (h : between n c key false = true) : cw key c < cw key n := by
  rw [between_open_iff n c key hn hc hk] at h
  have := dist_cases n c hn hc; have := dist_cases n key hn hk
  have := dist_cases c key hc hk; have := M_val
  unfold cw
  by_cases e1 : c = key <;> by_cases e2 : n = key <;> simp [e1, e2] <;> omega

/-- if `key ∉ (n, s]` then `s` lies strictly inside (n, key): hopping to the successor decreases the measure -/
theorem cw_lt_of_not_between_closed (n s key : Nat) (hn : n < M) (hs : s < M) (hk : key < M)
    (h : ¬ between n key s true = true) : cw key s < cw key n := by
  have h' := mt (between_closed_iff n key s hn hk hs).mpr h
  have := dist_cases n s hn hs; have := dist_cases n key hn hk
  have := dist_cases s key hs hk; have := M_val
  unfold cw
  by_cases e1 : s = key <;> by_cases e2 : n = key <;> simp [e1, e2] <;> omega

/-! ### `Net.get` / `Net.upd` -/

theorem get_upd (net : Net) (n m : Nat) (f : Node → Node) :
    (net.upd n f).get m = if m = n then (net.get n).map f else net.get m := by
  unfold Net.upd Net.get
  induction net with
  | nil => simp
  | cons p ps ih =>
    obtain ⟨k, nd⟩ := p
    by_cases hk : k = n
    · subst hk
      by_cases hm : m = k
      · subst hm; simp [List.find?]
      · have : (k == m) = false := by simpa using fun h => hm h.symm
        simp only [List.map_cons, beq_self_eq_true, if_true, List.find?, this]
        simpa [hm] using ih
    · have hkn : (k == n) = false := by simpa using hk
      simp only [List.map_cons, hkn, Bool.false_eq_true, if_false, List.find?]
      by_cases hm : (k == m) = true
      · have : m = k := by simpa using (eq_comm.mp (by simpa using hm))
        subst this
        simp [hk]
      · have hm' : (k == m) = false := by simpa using hm
        simp only [hm']
        exact ih

theorem get_upd_same (net : Net) (n : Nat) (f : Node → Node) : (net.upd n f).get n = (net.get n).map f := by
  rw [get_upd]; simp

theorem get_upd_other (net : Net) (n m : Nat) (f : Node → Node) (h : m ≠ n) : (net.upd n f).get m = net.get m := by
  rw [get_upd]; simp [h]

/-- lifecycle state of a node (none = unknown node) -/
def stateOf (net : Net) (n : Nat) : Option St := (net.get n).map (·.state)

theorem stateOf_upd (net : Net) (n m : Nat) (f : Node → Node) :
    stateOf (net.upd n f) m = if m = n then (net.get n).map (fun nd => (f nd).state) else stateOf net m := by
  unfold stateOf; rw [get_upd]; split <;> simp [Option.map_map, Function.comp_def]

/-! ### case analysis of `findSucc` without unfolding matches -/

theorem findSucc_zero (net : Net) (n key : Nat) : findSucc net 0 n key = .err .fuel := rfl

theorem findSucc_none (net : Net) (f n key : Nat) (hg : net.get n = none) :
    findSucc net (f+1) n key = .err .unreachable := by
  rw [findSucc]; simp [hg]

theorem findSucc_dead (net : Net) (f n key : Nat) (nd : Node) (e : Err) (hg : net.get n = some nd)
    (hc : checkNodeState nd false = some e) : findSucc net (f+1) n key = .err e := by
  rw [findSucc]; simp [hg, hc]

theorem findSucc_pred (net : Net) (f n key : Nat) (nd : Node) (hg : net.get n = some nd)
    (hc : checkNodeState nd false = none) (h : inPredRange nd.pred key n = true) :
    findSucc net (f+1) n key = .found n := by
  rw [findSucc]; simp [hg, hc, h]

theorem findSucc_nosucc (net : Net) (f n key : Nat) (nd : Node) (hg : net.get n = some nd)
    (hc : checkNodeState nd false = none) (h : inPredRange nd.pred key n = false)
    (hs : nd.succs.head? = none) : findSucc net (f+1) n key = .err .noSuccessor := by
  rw [findSucc]; simp [hg, hc, h, hs]

theorem findSucc_succ_found (net : Net) (f n key s : Nat) (nd : Node) (hg : net.get n = some nd)
    (hc : checkNodeState nd false = none) (h : inPredRange nd.pred key n = false)
    (hs : nd.succs.head? = some s) (hb : between n key s true = true) :
    findSucc net (f+1) n key = .found s := by
  rw [findSucc]; simp [hg, hc, h, hs, hb]

theorem findSucc_hop (net : Net) (f n key s : Nat) (nd : Node) (hg : net.get n = some nd)
    (hc : checkNodeState nd false = none) (h : inPredRange nd.pred key n = false)
    (hs : nd.succs.head? = some s) (hb : between n key s true = false) :
    findSucc net (f+1) n key = findSucc net f (hop n key s nd.fingers) key := by
  rw [findSucc]; simp [hg, hc, h, hs, hb]

/-- the six ways a lookup step can go -/
inductive StepCase (net : Net) (n key : Nat) : Type where
  | none (hg : net.get n = none)
  | dead (nd : Node) (e : Err) (hg : net.get n = some nd) (hc : checkNodeState nd false = some e)
  | pred (nd : Node) (hg : net.get n = some nd) (hc : checkNodeState nd false = none)
      (h : inPredRange nd.pred key n = true)
  | nosucc (nd : Node) (hg : net.get n = some nd) (hc : checkNodeState nd false = none)
      (h : inPredRange nd.pred key n = false) (hs : nd.succs.head? = none)
  | succ (nd : Node) (s : Nat) (hg : net.get n = some nd) (hc : checkNodeState nd false = none)
      (h : inPredRange nd.pred key n = false) (hs : nd.succs.head? = some s) (hb : between n key s true = true)
  | hop (nd : Node) (s : Nat) (hg : net.get n = some nd) (hc : checkNodeState nd false = none)
      (h : inPredRange nd.pred key n = false) (hs : nd.succs.head? = some s) (hb : between n key s true = false)

def stepCase (net : Net) (n key : Nat) : StepCase net n key :=
  match hg : net.get n with
  | none => .none hg
  | some nd =>
    match hc : checkNodeState nd false with
    | some e => .dead nd e hg hc
    | none =>
      match h : inPredRange nd.pred key n with
      | true => .pred nd hg hc h
      | false =>
        match hs : nd.succs.head? with
        | none => .nosucc nd hg hc h hs
        | some s =>
          match hb : between n key s true with
          | true => .succ nd s hg hc h hs hb
          | false => .hop nd s hg hc h hs hb

theorem checkNodeState_ne_fuel (nd : Node) (b : Bool) : checkNodeState nd b ≠ some .fuel := by
  unfold checkNodeState
  cases nd.crashed <;> cases nd.state <;> cases b <;> simp

theorem closestPreceding_cases (self key : Nat) (fs : List (Option Nat)) :
    closestPreceding self key fs = self ∨
    (some (closestPreceding self key fs) ∈ fs ∧ between self (closestPreceding self key fs) key false = true) := by
  unfold closestPreceding
  cases h : (fs.reverse.filterMap id).find? (fun f => between self f key false) with
  | none => left; rfl
  | some f =>
    right
    have hm := List.mem_of_find?_eq_some h
    have hp := List.find?_some h
    simp only [List.mem_filterMap, List.mem_reverse, id] at hm
    obtain ⟨a, ha, rfl⟩ := hm
    exact ⟨ha, by simpa using hp⟩

/-- the hop target is the successor or a finger strictly inside (n, key) -/
theorem hop_cases (n key s : Nat) (fs : List (Option Nat)) :
    hop n key s fs = s ∨ (some (hop n key s fs) ∈ fs ∧ between n (hop n key s fs) key false = true) := by
  unfold hop
  by_cases e : (closestPreceding n key fs == n) = true
  · left; simp [e]
  · right
    rw [if_neg e]
    rcases closestPreceding_cases n key fs with h | h
    · exfalso; apply e; simp [h]
    · exact h

/-- every hop strictly decreases the clockwise distance to the key (all identifiers in the ring) -/
theorem hop_decreases (n key s : Nat) (fs : List (Option Nat)) (hn : n < M) (hk : key < M) (hs : s < M)
    (hfs : ∀ f, some f ∈ fs → f < M) (hb : between n key s true = false) :
    hop n key s fs < M ∧ cw key (hop n key s fs) < cw key n := by
  rcases hop_cases n key s fs with h | ⟨hm, hbt⟩
  · rw [h]; exact ⟨hs, cw_lt_of_not_between_closed n s key hn hs hk (by simp [hb])⟩
  · exact ⟨hfs _ hm, cw_lt_of_between_open n _ key hn (hfs _ hm) hk hbt⟩

/-- the six outcomes of the local hand-off of `RequestToJoin` -/
theorem handOff_cases (net : Net) (s j : Nat) :
    (net.get s = none ∧ handOff net s j = (net, .error .unreachable)) ∨
    (∃ nd, net.get s = some nd ∧ nd.state ≠ .active ∧ handOff net s j = (net, .error .joinInvalidState)) ∨
    (∃ nd, net.get s = some nd ∧ nd.state = .active ∧ nd.pred = none ∧
        handOff net s j = (net, .error .joinInvalidState)) ∨
    (∃ nd prev, net.get s = some nd ∧ nd.state = .active ∧ nd.pred = some prev ∧ between prev j s false = false ∧
        handOff net s j = (net, .error .joinInvalidSuccessor)) ∨
    (∃ nd prev, net.get s = some nd ∧ nd.state = .active ∧ nd.pred = some prev ∧ between prev j s false = true ∧
        transferUp net s j prev nd.store = none ∧ handOff net s j = (net, .error .joinTransferFailure)) ∨
    (∃ nd prev net', net.get s = some nd ∧ nd.state = .active ∧ nd.pred = some prev ∧ between prev j s false = true ∧
        transferUp net s j prev nd.store = some net' ∧
        handOff net s j =
          (net'.upd s (fun nd => { nd with state := .transferring, pred := some j, surrogate := some j }),
           .ok (prev, makeSuccList s nd.succs succEntries))) := by
  unfold handOff
  cases hg : net.get s with
  | none => left; simp
  | some nd =>
    right
    by_cases c1 : nd.state = .active
    · right
      cases hp : nd.pred with
      | none => left; exact ⟨nd, rfl, c1, hp, by simp [c1, hp]⟩
      | some prev =>
        right
        cases hb : between prev j s false with
        | false => left; exact ⟨nd, prev, rfl, c1, hp, hb, by simp [c1, hp, hb]⟩
        | true =>
          right
          cases ht : transferUp net s j prev nd.store with
          | none => left; exact ⟨nd, prev, rfl, c1, hp, hb, ht, by simp [c1, hp, hb, ht]⟩
          | some net' => right; exact ⟨nd, prev, net', rfl, c1, hp, hb, ht, by simp [c1, hp, hb, ht]⟩
    · left; exact ⟨nd, rfl, c1, by simp [c1]⟩

end Specter.Ring
