// C14 correspondence: every registry error (bare and inside text-preserving wrappers; and text-changing wrapped / deadline / canceled / arbitrary / same-message errors)
// is returned by a stub local node behind the REAL chord.Server handlers, served by the real twirp servers over
// the test transport, called through the REAL RemoteNode (twirp protobuf client + chord.ErrorMapper), for every
// RPC method; the caller's view (which registry variable it is, ErrorIsRetryable) is printed.
// The KV / lease methods are called with keys / prefixes / lease names of many lengths (0 .. 64 KiB, powers of two and
// their neighbours, random lengths; ASCII and multi-byte/escaped UTF-8): the server echoes the key in the error's meta.
//
// LIVE part: the handlers' local node is a REAL chord.LocalNode (an active single-node ring, a node that was never
// started, a node that has left) over the real in-memory KV provider. Every request is put to the node directly (the
// origin's own answer) and, in the same state, through the real handler / twirp / RemoteNode path; the requests are
// chosen so that the node itself produces its errors: lease ttl 0 / 1 ns / 500 ms / 999 999 999 ns / negative /
// random sub-second (and valid ones: 1 s, 1 s + 1 ns, 1.5 s, minutes), acquiring a held lease, renewing / releasing
// with a stale token, on a free lease, after the lease's time is up, appending an existing child, and every method on
// the not-started / left nodes.
package main

import (
	"context"
	"errors"
	"fmt"
	"net"
	"net/http"
	"sort"
	"strconv"
	"strings"
	"time"

	"github.com/go-chi/chi/v5"
	"github.com/twitchtv/twirp"
	"go.uber.org/zap"

	chordImpl "go.miragespace.co/specter/chord"
	"go.miragespace.co/specter/spec/chord"
	"go.miragespace.co/specter/spec/mocks"
	"go.miragespace.co/specter/spec/protocol"
	"go.miragespace.co/specter/spec/rpc"
	"go.miragespace.co/specter/spec/transport"
	"go.miragespace.co/specter/util/acceptor"
	"verif/harness/hlib"
)

// the registry as the harness knows it; `reg` lines cross-check it against the list extracted from errors.go
var registry = []struct {
	name string
	err  error
}{
	{"ErrJoinInvalidState", chord.ErrJoinInvalidState},
	{"ErrJoinTransferFailure", chord.ErrJoinTransferFailure},
	{"ErrJoinInvalidSuccessor", chord.ErrJoinInvalidSuccessor},
	{"ErrLeaveInvalidState", chord.ErrLeaveInvalidState},
	{"ErrLeaveTransferFailure", chord.ErrLeaveTransferFailure},
	{"ErrKVStaleOwnership", chord.ErrKVStaleOwnership},
	{"ErrKVPendingTransfer", chord.ErrKVPendingTransfer},
	{"ErrNodeGone", chord.ErrNodeGone},
	{"ErrNodeNotStarted", chord.ErrNodeNotStarted},
	{"ErrNodeNoSuccessor", chord.ErrNodeNoSuccessor},
	{"ErrNodeNil", chord.ErrNodeNil},
	{"ErrDuplicateJoinerID", chord.ErrDuplicateJoinerID},
	{"ErrKVSimpleConflict", chord.ErrKVSimpleConflict},
	{"ErrKVPrefixConflict", chord.ErrKVPrefixConflict},
	{"ErrKVLeaseConflict", chord.ErrKVLeaseConflict},
	{"ErrKVLeaseExpired", chord.ErrKVLeaseExpired},
	{"ErrKVLeaseInvalidTTL", chord.ErrKVLeaseInvalidTTL},
	{"ErrKVHashFnChanged", chord.ErrKVHashFnChanged},
	// external sentinel the chord package knows about (retryableErrs / errorStrMap literals)
	{"context.DeadlineExceeded", context.DeadlineExceeded},
}

// stub local node: every operation fails with `err`
type stub struct {
	id  *protocol.Node
	err error
}

func (s *stub) ID() uint64                                { return s.id.GetId() }
func (s *stub) Identity() *protocol.Node                  { return s.id }
func (s *stub) Ping() error                               { return s.err }
func (s *stub) Notify(chord.VNode) error                  { return s.err }
func (s *stub) FindSuccessor(uint64) (chord.VNode, error) { return nil, s.err }
func (s *stub) GetSuccessors() ([]chord.VNode, error)     { return nil, s.err }
func (s *stub) GetPredecessor() (chord.VNode, error)      { return nil, s.err }
func (s *stub) RequestToJoin(chord.VNode) (chord.VNode, []chord.VNode, error) {
	return nil, nil, s.err
}
func (s *stub) FinishJoin(bool, bool) error                                    { return s.err }
func (s *stub) RequestToLeave(chord.VNode) error                               { return s.err }
func (s *stub) FinishLeave(bool, bool) error                                   { return s.err }
func (s *stub) Put(context.Context, []byte, []byte) error                      { return s.err }
func (s *stub) Get(context.Context, []byte) ([]byte, error)                    { return nil, s.err }
func (s *stub) Delete(context.Context, []byte) error                           { return s.err }
func (s *stub) PrefixAppend(context.Context, []byte, []byte) error             { return s.err }
func (s *stub) PrefixList(context.Context, []byte) ([][]byte, error)           { return nil, s.err }
func (s *stub) PrefixContains(context.Context, []byte, []byte) (bool, error)   { return false, s.err }
func (s *stub) PrefixRemove(context.Context, []byte, []byte) error             { return s.err }
func (s *stub) Acquire(context.Context, []byte, time.Duration) (uint64, error) { return 0, s.err }
func (s *stub) Renew(context.Context, []byte, time.Duration, uint64) (uint64, error) {
	return 0, s.err
}
func (s *stub) Release(context.Context, []byte, uint64) error                  { return s.err }
func (s *stub) Import(context.Context, [][]byte, []*protocol.KVTransfer) error { return s.err }
func (s *stub) ListKeys(context.Context, []byte) ([]*protocol.KeyComposite, error) {
	return nil, s.err
}

var _ chord.VNode = (*stub)(nil)

// text-preserving wrappers: Error() is the inner error's, errors.Is reaches the inner error
type sameTextErr struct{ inner error }

func (s sameTextErr) Error() string { return s.inner.Error() }
func (s sameTextErr) Unwrap() error { return s.inner }

// wrapSame nests `err` as the shape says, innermost first: f = fmt.Errorf("%w"), j = errors.Join, t = wrapper type
func wrapSame(shape string, err error) (error, bool) {
	if shape == "" {
		return nil, false
	}
	for i := len(shape) - 1; i >= 0; i-- {
		switch shape[i] {
		case 'f':
			err = fmt.Errorf("%w", err)
		case 'j':
			err = errors.Join(err)
		case 't':
			err = sameTextErr{err}
		default:
			return nil, false
		}
	}
	return err, true
}

type method struct {
	name string // name of the chord.Server handler
	kv   bool   // carries a key / prefix / lease name chosen by the caller
	call func(ctx context.Context, n *chordImpl.RemoteNode, peer chord.VNode, key []byte) error
}

// makeKey builds the key a token stands for: a<n> = n ASCII letters, u<n> = n bytes of valid UTF-8 with multi-byte
// characters and characters JSON has to escape (the driver's `keyOf` rebuilds the same string)
var keyUnits = []string{"é", "\"", "\\", "\n", "\x00", "日", "<", "k"}

func makeKey(tok string) ([]byte, bool) {
	if len(tok) < 2 {
		return nil, false
	}
	n, err := strconv.Atoi(tok[1:])
	if err != nil || n < 0 || n > 1<<24 {
		return nil, false
	}
	b := make([]byte, 0, n)
	switch tok[0] {
	case 'a':
		for i := 0; i < n; i++ {
			b = append(b, byte('a'+i%26))
		}
	case 'u':
		for i := 0; ; i++ {
			u := keyUnits[i%len(keyUnits)]
			if len(b)+len(u) > n {
				break
			}
			b = append(b, u...)
		}
		for len(b) < n {
			b = append(b, 'x')
		}
	default:
		return nil, false
	}
	return b, true
}

var methods = []method{
	{"Ping", false, func(_ context.Context, n *chordImpl.RemoteNode, _ chord.VNode, _ []byte) error { return n.Ping() }},
	{"Notify", false, func(_ context.Context, n *chordImpl.RemoteNode, p chord.VNode, _ []byte) error { return n.Notify(p) }},
	{"FindSuccessor", false, func(_ context.Context, n *chordImpl.RemoteNode, _ chord.VNode, _ []byte) error {
		_, e := n.FindSuccessor(42)
		return e
	}},
	{"GetSuccessors", false, func(_ context.Context, n *chordImpl.RemoteNode, _ chord.VNode, _ []byte) error {
		_, e := n.GetSuccessors()
		return e
	}},
	{"GetPredecessor", false, func(_ context.Context, n *chordImpl.RemoteNode, _ chord.VNode, _ []byte) error {
		_, e := n.GetPredecessor()
		return e
	}},
	{"RequestToJoin", false, func(_ context.Context, n *chordImpl.RemoteNode, p chord.VNode, _ []byte) error {
		_, _, e := n.RequestToJoin(p)
		return e
	}},
	{"FinishJoin", false, func(_ context.Context, n *chordImpl.RemoteNode, _ chord.VNode, _ []byte) error {
		return n.FinishJoin(true, false)
	}},
	{"RequestToLeave", false, func(_ context.Context, n *chordImpl.RemoteNode, p chord.VNode, _ []byte) error {
		return n.RequestToLeave(p)
	}},
	{"FinishLeave", false, func(_ context.Context, n *chordImpl.RemoteNode, _ chord.VNode, _ []byte) error {
		return n.FinishLeave(false, true)
	}},
	{"Put", true, func(c context.Context, n *chordImpl.RemoteNode, _ chord.VNode, k []byte) error {
		return n.Put(c, k, []byte("v"))
	}},
	{"Get", true, func(c context.Context, n *chordImpl.RemoteNode, _ chord.VNode, k []byte) error {
		_, e := n.Get(c, k)
		return e
	}},
	{"Delete", true, func(c context.Context, n *chordImpl.RemoteNode, _ chord.VNode, k []byte) error { return n.Delete(c, k) }},
	{"Append", true, func(c context.Context, n *chordImpl.RemoteNode, _ chord.VNode, k []byte) error {
		return n.PrefixAppend(c, k, []byte("c"))
	}},
	{"List", true, func(c context.Context, n *chordImpl.RemoteNode, _ chord.VNode, k []byte) error {
		_, e := n.PrefixList(c, k)
		return e
	}},
	{"Contains", true, func(c context.Context, n *chordImpl.RemoteNode, _ chord.VNode, k []byte) error {
		_, e := n.PrefixContains(c, k, []byte("c"))
		return e
	}},
	{"Remove", true, func(c context.Context, n *chordImpl.RemoteNode, _ chord.VNode, k []byte) error {
		return n.PrefixRemove(c, k, []byte("c"))
	}},
	{"Acquire", true, func(c context.Context, n *chordImpl.RemoteNode, _ chord.VNode, k []byte) error {
		_, e := n.Acquire(c, k, time.Second)
		return e
	}},
	{"Renew", true, func(c context.Context, n *chordImpl.RemoteNode, _ chord.VNode, k []byte) error {
		_, e := n.Renew(c, k, time.Second, 1)
		return e
	}},
	{"Release", true, func(c context.Context, n *chordImpl.RemoteNode, _ chord.VNode, k []byte) error {
		return n.Release(c, k, 1)
	}},
	{"Import", false, func(c context.Context, n *chordImpl.RemoteNode, _ chord.VNode, _ []byte) error {
		return n.Import(c, [][]byte{[]byte("k")}, []*protocol.KVTransfer{{SimpleValue: []byte("v")}})
	}},
	{"ListKeys", true, func(c context.Context, n *chordImpl.RemoteNode, _ chord.VNode, k []byte) error {
		_, e := n.ListKeys(c, k)
		return e
	}},
}

var transportRetries int // global budget: a persistent message change is not a transport hiccup

type rig struct {
	st     *stub
	caller *chordImpl.RemoteNode
	peerVN chord.VNode
	ctx    context.Context
	serve  func(peer *protocol.Node, ln chord.VNode) *chordImpl.RemoteNode
}

func setup() *rig {
	ctx := context.Background()
	logger := zap.NewNop()
	tp := mocks.SelfTransport()
	router := transport.NewStreamRouter(logger, tp, nil)
	go router.Accept(ctx)
	client := rpc.DynamicChordClient(ctx, tp)

	// serve puts `ln` behind the REAL chord.Server handlers and real twirp servers, reachable as `peer` over the test
	// transport, and returns the real RemoteNode a remote caller would hold
	serve := func(peer *protocol.Node, ln chord.VNode) *chordImpl.RemoteNode {
		srvImpl := &chordImpl.Server{
			LocalNode: ln,
			Factory:   func(n *protocol.Node) (chord.VNode, error) { return &stub{id: n}, nil },
		}
		nsTwirp := protocol.NewVNodeServiceServer(srvImpl)
		ksTwirp := protocol.NewKVServiceServer(srvImpl)
		h := chi.NewRouter()
		h.Mount(nsTwirp.PathPrefix(), rpc.ExtractContext(nsTwirp))
		h.Mount(ksTwirp.PathPrefix(), rpc.ExtractContext(ksTwirp))
		srv := &http.Server{
			BaseContext: func(net.Listener) context.Context { return ctx },
			ReadTimeout: 5 * time.Second,
			Handler:     h,
		}
		acc := acceptor.NewH2Acceptor(nil)
		go srv.Serve(acc)
		router.HandleChord(protocol.Stream_RPC, peer, func(d *transport.StreamDelegate) { acc.Handle(d) })
		caller, err := chordImpl.NewRemoteNode(ctx, logger, client, peer)
		if err != nil {
			panic(err)
		}
		return caller
	}
	peer := &protocol.Node{Id: 1234, Address: "127.0.0.1:1234"}
	st := &stub{id: peer}
	return &rig{st: st, caller: serve(peer, st), peerVN: &stub{id: &protocol.Node{Id: 99, Address: "127.0.0.1:99"}}, ctx: ctx, serve: serve}
}

func identify(err error) string {
	for _, e := range registry {
		if err == e.err {
			return e.name
		}
	}
	var te twirp.Error
	if errors.As(err, &te) {
		return "tw:" + string(te.Code())
	}
	return "other"
}

func (g *rig) run(r *hlib.Run, m method, kind, arg string, origin error, ktok string) {
	g.st.err = origin
	var key []byte
	if m.kv {
		var ok bool
		if key, ok = makeKey(ktok); !ok {
			return
		}
	} else {
		ktok = "-"
	}
	lhs := fmt.Sprintf("rpc %s %s %s %s %s", m.name, kind, arg, hlib.B(chord.ErrorIsRetryable(origin)), ktok)
	attempt := func() (res string, transport bool) {
		defer func() {
			if p := recover(); p != nil {
				res = "panic"
			}
		}()
		err := m.call(g.ctx, g.caller, g.peerVN, key)
		if err == nil {
			return "noerror", false
		}
		id := identify(err)
		msg, kv := "-", "-"
		if te, ok := err.(twirp.Error); ok {
			msg = hlib.B(te.Msg() == origin.Error())
			// the meta entry "kv" of the error the caller holds: absent / the key that was sent / something else
			if v, has := te.MetaMap()["kv"]; !has {
				kv = "none"
			} else if v == string(key) {
				kv = "same"
			} else {
				kv = "diff"
			}
			// a twirp error that does not carry the handler's message did not come from the handler (client-side
			// timeout / transport hiccup on a loaded machine): not the subject, try again
			transport = te.Msg() != origin.Error()
		}
		return fmt.Sprintf("id=%s retry=%s msgsame=%s kv=%s", id, hlib.B(chord.ErrorIsRetryable(err)), msg, kv), transport
	}
	var res string
	for try := 0; try < 4; try++ {
		var transport bool
		res, transport = attempt()
		if !transport || transportRetries >= 30 {
			break
		}
		transportRetries++
		r.Count("transport-level-failure-retried")
		time.Sleep(200 * time.Millisecond)
	}
	r.Emit(lhs, res)
	r.Case(lhs + "|" + res)
	if strings.HasPrefix(kind, "same:") {
		r.Count(fmt.Sprintf("kind:same-text-wrapper-depth-%d", len(kind)-len("same:")))
	} else {
		r.Count("kind:" + kind)
	}
	r.Count("method:" + m.name)
	if m.kv {
		r.Count("keylen:" + lenBucket(len(key)))
		r.Count("keystyle:" + ktok[:1])
	}
}

func lenBucket(n int) string {
	switch {
	case n == 0:
		return "0"
	case n <= 16:
		return "1..16"
	case n <= 64:
		return "17..64"
	case n <= 128:
		return "65..128"
	case n <= 256:
		return "129..256"
	case n <= 1024:
		return "257..1024"
	case n <= 8192:
		return "1025..8192"
	default:
		return ">8192"
	}
}

// key lengths every (KV method, error) pair is tried with, over the rounds: 0, 1, 2 and every power of two up to
// 64 KiB with its two neighbours
func boundaryLens() []int {
	ls := []int{0, 1, 2}
	for p := 4; p <= 1<<16; p <<= 1 {
		ls = append(ls, p-1, p, p+1)
	}
	return ls
}

func main() {
	r := hlib.Start()
	r.Rule = "exhaustive: every registry error x every RemoteNode RPC method through the real chord.Server + twirp server/client + ErrorMapper; plus per method: every registry error and the deadline error inside text-preserving wrappers (fmt.Errorf %w / errors.Join / wrapper type, nested 1..3 deep), %w-wrapped registry errors with a changed text, context.DeadlineExceeded (bare and wrapped), context.Canceled, fresh errors with a registry message, random arbitrary errors (short, near-registry, long); the KV / lease methods with keys / prefixes / lease names of length 0, 1, 2, every power of two up to 64 KiB and its neighbours, and random lengths (ASCII and escaped/multi-byte UTF-8) for every registry error, the deadline error and samples of the other kinds; non-trivial = distinct (method, origin, caller view). LIVE: real chord.LocalNode instances (active single-node ring over the in-memory KV provider / never started / left) behind the same handlers; each request is put to the node directly (origin) and through the RPC path in the same state: Acquire / Renew with 16 boundary ttls (0, 1 ns, 1 ms, 500 ms, 1 s - 1 ns, negative, min int64, 1 s, 1 s + 1 ns, 1.5 s, 2 s - 1 ns, 2 s, 1 m, 1 h) and random ttls x lease free / held / held under another token / time up, Release free / mine / other token, Append of an existing child, reads; every method x not-started / left node; lease names of boundary and random lengths"
	rng := hlib.NewRng(r.Seed)
	g := setup()
	names := make([]string, 0)
	for _, e := range registry {
		r.Emit(fmt.Sprintf("reg %s %s %s", e.name, hlib.HexS(e.err.Error()), hlib.B(chord.ErrorIsRetryable(e.err))), "ok")
		names = append(names, e.name)
	}
	sort.Strings(names)
	r.Emit(fmt.Sprintf("regcount %d", len(registry)), "ok")

	byName := map[string]error{}
	for _, e := range registry {
		byName[e.name] = e.err
	}
	onek := func(m method, kind, arg, ktok string) {
		if strings.HasPrefix(kind, "same:") {
			if base, ok := byName[arg]; ok {
				if origin, ok := wrapSame(strings.TrimPrefix(kind, "same:"), base); ok {
					g.run(r, m, kind, arg, origin, ktok)
				}
			}
			return
		}
		if _, ok := byName[arg]; !ok && (kind == "reg" || kind == "wrapped" || kind == "alias") {
			return
		}
		switch kind {
		case "reg":
			g.run(r, m, kind, arg, byName[arg], ktok)
		case "wrapped":
			g.run(r, m, kind, arg, fmt.Errorf("storing KV to successor: %w", byName[arg]), ktok)
		case "alias":
			g.run(r, m, kind, arg, errors.New(byName[arg].Error()), ktok)
		case "deadline":
			g.run(r, m, kind, "-", context.DeadlineExceeded, ktok)
		case "deadlinewrapped":
			g.run(r, m, kind, "-", fmt.Errorf("forwarding: %w", context.DeadlineExceeded), ktok)
		case "canceled":
			g.run(r, m, kind, "-", context.Canceled, ktok)
		case "opaque":
			g.run(r, m, kind, arg, errors.New(string(hlib.UnHex(arg))), ktok)
		}
	}
	// the short key the repository's own tests use
	one := func(m method, kind, arg string) { onek(m, kind, arg, "a1") }
	L := setupLive(g)
	if r.Replay != "" {
		for _, t := range r.ReplayLines() {
			if t[0] == "live" {
				L.replay(r, t)
			}
			if t[0] != "rpc" {
				continue
			}
			for _, m := range methods {
				if m.name == t[1] {
					ktok := "a1" // lines recorded before keys were varied
					if len(t) > 5 {
						ktok = t[5]
					}
					onek(m, t[2], t[3], ktok)
				}
			}
		}
		r.Finish()
		return
	}
	randMsg := func() string {
		switch rng.Intn(5) {
		case 0: // a registry message with a small edit
			b := []byte(hlib.Pick(rng, registry).err.Error())
			b[rng.Intn(len(b))] ^= 1
			return hlib.Hex(b)
		case 1:
			return hlib.HexS("chord: " + string(rune('a'+rng.Intn(26))))
		case 2:
			return hlib.HexS(hlib.Pick(rng, registry).err.Error() + " ")
		case 3: // a long message (storage backends): a registry message followed by up to a few KiB of detail
			b := []byte(hlib.Pick(rng, registry).err.Error() + ": ")
			for n := 100 + rng.Intn(1<<uint(7+rng.Intn(6))); n > 0; n-- {
				b = append(b, byte(' '+rng.Intn(95)))
			}
			return hlib.Hex(b)
		default:
			b := make([]byte, 1+rng.Intn(20))
			for i := range b {
				b[i] = byte(' ' + rng.Intn(95))
			}
			return hlib.Hex(b)
		}
	}
	randShape := func() string {
		b := make([]byte, 1+rng.Intn(3))
		for i := range b {
			b[i] = "fjt"[rng.Intn(3)]
		}
		return string(b)
	}
	// keys / prefixes / lease names for the KV methods: a boundary length (all of them come up, spread over the
	// (method, error) pairs) or a random length, log-uniform up to 8 KiB (quick) / 256 KiB (thorough)
	bls := boundaryLens()
	blNext := rng.Intn(len(bls))
	style := func() string { return string("au"[rng.Intn(2)]) }
	boundaryKey := func() string {
		blNext = (blNext + 7) % len(bls) // 7 is coprime with len(bls): every length is visited
		return fmt.Sprintf("%s%d", style(), bls[blNext])
	}
	randKey := func() string {
		maxBits := 13
		if r.Thorough() {
			maxBits = 18
		}
		bits := 1 + rng.Intn(maxBits)
		return fmt.Sprintf("%s%d", style(), (1<<uint(bits-1))+rng.Intn(1<<uint(bits-1)))
	}
	nBoundary, nRand := 3, 2
	if r.Thorough() {
		nBoundary, nRand = 8, 4
	}
	keyed := func(m method, kind, arg string) {
		if !m.kv {
			return
		}
		for i := 0; i < nBoundary; i++ {
			onek(m, kind, arg, boundaryKey())
		}
		for i := 0; i < nRand; i++ {
			onek(m, kind, arg, randKey())
		}
	}
	// the REAL local nodes behind the handlers: requests that make the node itself produce its errors
	L.all(r, rng, boundaryKey, randKey)
	rounds := 1
	if r.Thorough() {
		rounds = 8
	}
	for round := 0; round < rounds; round++ {
		for _, m := range methods {
			for _, e := range registry {
				// bare (the deadline error: exercised as kind `deadline` below)
				if e.name != "context.DeadlineExceeded" {
					one(m, "reg", e.name)
					keyed(m, "reg", e.name)
				}
				// the same error inside text-preserving wrappers (the deadline error included)
				if round == 0 {
					one(m, "same:f", e.name)
				}
				one(m, "same:"+randShape(), e.name)
				if m.kv {
					onek(m, "same:"+randShape(), e.name, boundaryKey())
					onek(m, "same:"+randShape(), e.name, randKey())
				}
				if e.name != "context.DeadlineExceeded" && (round == 0 || rng.Chance(20)) {
					one(m, "wrapped", e.name)
					one(m, "alias", e.name)
				}
			}
			one(m, "deadline", "-")
			keyed(m, "deadline", "-")
			one(m, "deadlinewrapped", "-")
			one(m, "canceled", "-")
			for i := 0; i < 6; i++ {
				one(m, "opaque", randMsg())
			}
			if m.kv {
				onek(m, "canceled", "-", randKey())
				onek(m, "deadlinewrapped", "-", boundaryKey())
				onek(m, "wrapped", hlib.Pick(rng, registry[:len(registry)-1]).name, boundaryKey())
				onek(m, "alias", hlib.Pick(rng, registry[:len(registry)-1]).name, randKey())
				for i := 0; i < 4; i++ {
					onek(m, "opaque", randMsg(), boundaryKey())
					onek(m, "opaque", randMsg(), randKey())
				}
			}
		}
	}
	r.Finish()
}
