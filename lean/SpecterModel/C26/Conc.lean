import SpecterModel.C26.Model
/-!
# C26 — small-step model of CONCURRENT PublishTunnel / UnpublishTunnel / ReleaseTunnel requests

`Model.lean` describes one call at a time.  Here every handler of tun/server/client_rpc.go is a sequence of
atomic KV calls on the one abstract DHT (`St`), and any number of requests (of the same or of different
clients) are interleaved at KV-call granularity by an arbitrary schedule:

    PublishTunnel    (server list validated, no KV call)  Acquire(ClientLeaseKey) · PrefixContains(hostnames, h)
                     · promise.All[ Get(DestinationByTunnelKey s_i) ] · promise.All[ Put(RoutingKey(h,i+1)) ]
                     · (deferred) Release(ClientLeaseKey)
    UnpublishTunnel  Acquire · PrefixContains · promise.All[ Delete(RoutingKey(h,k)), k=1..NumRedundantLinks ] · Release
    ReleaseTunnel    Acquire · PrefixContains · promise.All[ Delete … ] · PrefixRemove(hostnames, h)
                     · Delete(CustomHostnameKey h) · Release

The jobs of one `promise.All` run concurrently: the schedule also picks WHICH pending job of the chosen request
executes next.  A request whose `Acquire` fails returns at once (lease conflict, nothing deferred); every other
early return runs the deferred lease `Release` as its last KV call.  Lease expiry by wall clock is not modelled
(the handlers ask for 30 s; a request is a handful of KV calls).  Core Lean only.
-/
namespace Specter.C26

inductive Kind where
  | publish (servers : List (Option String))
  | unpublish
  | release

/-- the KV calls the handlers issue (the key is given by its family and parameters). -/
inductive KvCall where
  | acquire (tok : String)              -- Acquire(ClientLeaseKey tok, 30 s)
  | unlock (tok : String)               -- Release(ClientLeaseKey tok, lease)
  | contains (tok h : String)           -- PrefixContains(ClientHostnamesPrefix tok, h)
  | get (addr : String)                 -- Get(DestinationByTunnelKey addr)
  | put (h : String) (slot : Nat)       -- Put(RoutingKey(h, slot), route)
  | del (h : String) (slot : Nat)       -- Delete(RoutingKey(h, slot))
  | premove (tok h : String)            -- PrefixRemove(ClientHostnamesPrefix tok, h)
  | delcustom (h : String)              -- Delete(CustomHostnameKey h)
deriving DecidableEq, Repr

/-- what the KV call returned. -/
inductive Res where
  | ok | conflict | yes | no | found | missing | fail
deriving DecidableEq, Repr

/-- where a request is; everything between `contains` and `unlock` runs with the client's lease held. -/
inductive Pc where
  | acquire
  | contains
  | lookups (pending : List (String × Nat)) (got : List (Nat × Dest)) (miss : Bool)  -- (address, job index) still to look up
  | puts (pending : List (Nat × Dest)) (res : List (Nat × String))                   -- (job index, destination) still to put
  | dels (pending : List Nat) (failed : Bool)                                       -- slots still to delete
  | unregister
  | uncustom
  | unlock (out : Out)
  | done (out : Out)

structure Thread where
  kind : Kind
  f : Faults
  c : Client
  h : String
  pc : Pc

/-- the de-duplicated requested servers (`uniqueNodes`). -/
def Thread.req (t : Thread) : List String :=
  match t.kind with
  | .publish s => uniq s
  | _ => []

/-- a request as it enters its handler: the server list of a publish is validated before any KV call. -/
def spawn (kind : Kind) (f : Faults) (c : Client) (h : String) : Thread :=
  let pc : Pc := match kind with
    | .publish s =>
      if (uniq s).length > numLinks then .done .invalidArgument
      else if (uniq s).length < 1 then .done .invalidArgument
      else .acquire
    | _ => .acquire
  ⟨kind, f, c, h, pc⟩

/-- a request as the transport presents it: the handler runs on behalf of the CERTIFICATE identity; the identity the
peer claims on the stream (`who.claimed`) is not read. -/
def spawnBy (kind : Kind) (f : Faults) (who : Caller) (h : String) : Thread := spawn kind f who.verified h

/-- the response: tunnel addresses of the jobs whose Put succeeded, in job order. -/
def publishedOf (n : Nat) (res : List (Nat × String)) : List String :=
  (List.range n).filterMap fun i => (res.find? (fun x => x.1 == i)).map (·.2)

def afterPuts (n : Nat) (res : List (Nat × String)) : Pc :=
  let p := publishedOf n res
  if p.isEmpty then .unlock .unavailable else .unlock (.ok p)

def enterPuts (n : Nat) (got : List (Nat × Dest)) : Pc :=
  if got.isEmpty then afterPuts n [] else .puts got []

def afterLookups (n : Nat) (got : List (Nat × Dest)) (miss : Bool) : Pc :=
  if miss then .unlock .internal else enterPuts n got

def enterLookups (req : List String) : Pc :=
  if req.isEmpty then afterLookups 0 [] false else .lookups req.zipIdx [] false

def afterDels (kind : Kind) (failed : Bool) : Pc :=
  if failed then .unlock .internal
  else match kind with
    | .release => .unregister
    | _ => .unlock (.ok [])

def enterDels (kind : Kind) : Pc :=
  if slots.isEmpty then afterDels kind false else .dels slots false

def afterContains (t : Thread) : Pc :=
  match t.kind with
  | .publish _ => enterLookups t.req
  | k => enterDels k

/-- the KV calls the request may issue next (more than one only inside a `promise.All`). -/
def nextCalls (t : Thread) : List KvCall :=
  match t.pc with
  | .acquire => [.acquire t.c.token]
  | .contains => [.contains t.c.token t.h]
  | .lookups p _ _ => p.map fun x => .get x.1
  | .puts p _ => p.map fun x => .put t.h (x.1 + 1)
  | .dels p _ => p.map fun k => .del t.h k
  | .unregister => [.premove t.c.token t.h]
  | .uncustom => [.delcustom t.h]
  | .unlock _ => [.unlock t.c.token]
  | .done _ => []

def setLease (st : St) (tok : String) (b : Bool) : St :=
  { st with leased := fun x => if x = tok then b else st.leased x }

/-- the request executes its `j`-th possible next KV call (`nextCalls t`)[j] atomically; no such call: nothing happens. -/
def tstep (st : St) (t : Thread) (j : Nat) : St × Thread × Option Res :=
  match t.pc with
  | .done _ => (st, t, none)
  | .acquire =>
    if j ≠ 0 then (st, t, none)
    else if st.leased t.c.token then (st, { t with pc := .done .internal }, some .conflict)
    else (setLease st t.c.token true, { t with pc := .contains }, some .ok)
  | .contains =>
    if j ≠ 0 then (st, t, none)
    else if st.owns t.c.token t.h then (st, { t with pc := afterContains t }, some .yes)
    else (st, { t with pc := .unlock .permissionDenied }, some .no)
  | .lookups pending got miss =>
    match pending[j]? with
    | none => (st, t, none)
    | some (a, i) =>
      let rest := pending.eraseIdx j
      match st.dest a with
      | some d =>
        let got' := got ++ [(i, d)]
        (st, { t with pc := if rest.isEmpty then afterLookups t.req.length got' miss else .lookups rest got' miss }, some .found)
      | none =>
        (st, { t with pc := if rest.isEmpty then afterLookups t.req.length got true else .lookups rest got true }, some .missing)
  | .puts pending res =>
    match pending[j]? with
    | none => (st, t, none)
    | some (i, d) =>
      let rest := pending.eraseIdx j
      if t.f.failRoute t.h (i + 1) then
        (st, { t with pc := if rest.isEmpty then afterPuts t.req.length res else .puts rest res }, some .fail)
      else
        let res' := res ++ [(i, d.tunnel)]
        (setRoute st t.h (i + 1) (some ⟨t.c, d.chord, d.tunnel, t.h⟩),
          { t with pc := if rest.isEmpty then afterPuts t.req.length res' else .puts rest res' }, some .ok)
  | .dels pending failed =>
    match pending[j]? with
    | none => (st, t, none)
    | some k =>
      let rest := pending.eraseIdx j
      if t.f.failRoute t.h k then
        (st, { t with pc := if rest.isEmpty then afterDels t.kind true else .dels rest true }, some .fail)
      else
        (setRoute st t.h k none, { t with pc := if rest.isEmpty then afterDels t.kind failed else .dels rest failed }, some .ok)
  | .unregister =>
    if j ≠ 0 then (st, t, none)
    else ({ st with owns := fun x y => if x = t.c.token ∧ y = t.h then false else st.owns x y },
          { t with pc := .uncustom }, some .ok)
  | .uncustom =>
    if j ≠ 0 then (st, t, none)
    else if t.f.failCustomDel t.h then (st, { t with pc := .unlock (.ok []) }, some .fail)
    else ({ st with custom := fun y => if y = t.h then none else st.custom y }, { t with pc := .unlock (.ok []) }, some .ok)
  | .unlock out =>
    if j ≠ 0 then (st, t, none)
    else (setLease st t.c.token false, { t with pc := .done out }, some .ok)

/-- the DHT and the pool of in-flight requests (slot `i` of the pool = request `i`; unused slots hold finished requests). -/
structure Cfg where
  st : St
  ts : Nat → Thread

/-- request `i` executes its `j`-th possible next KV call. -/
def cstep (cfg : Cfg) (i j : Nat) : Cfg :=
  let r := tstep cfg.st (cfg.ts i) j
  { st := r.1, ts := fun k => if k = i then r.2.1 else cfg.ts k }

/-- a schedule: which request runs next and which of its pending jobs. -/
def crun (cfg : Cfg) (sched : List (Nat × Nat)) : Cfg := sched.foldl (fun c s => cstep c s.1 s.2) cfg

def Pc.out? : Pc → Option Out
  | .done o => some o
  | _ => none

end Specter.C26
