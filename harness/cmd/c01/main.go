// C01: lookups on a stabilized ring of real LocalNodes vs the Lean ring model and the
// sorted-membership oracle (evaluated in the driver).
package main

import (
	"verif/harness/hlib"
	"verif/harness/ringh"
)

func main() {
	run := hlib.Start()
	run.Rule = "rings of 1..N real LocalNodes built by Create/Join with adversarial ids (clustered, adjacent, 0, 2^48-1, finger targets), repaired to a fixpoint, then FindSuccessor from every member for member ids, ±1, 0, 2^48-1, finger targets and random keys; non-trivial = distinct (ring, start, key) on a ring of ≥ 2 members"
	rng := hlib.NewRng(run.Seed)
	if run.Replay != "" {
		s := ringh.NewSession(run, rng)
		for _, t := range run.ReplayLines() {
			if t[0] == "reset" {
				continue
			}
			s.Do(t...)
		}
		run.Finish()
		return
	}
	rings, maxN := 14, 12
	if run.Thorough() {
		rings, maxN = 60, 40
	}
	for i := 0; i < rings; i++ {
		n := 1 + rng.Intn(maxN)
		if i == 0 {
			n = 1
		}
		if i == 1 {
			n = 2
		}
		ids := ringh.AdversarialIDs(rng, n)
		s := ringh.NewSession(run, rng)
		members := s.BuildRing(ids)
		rounds := s.Repair(members, 8)
		run.Count(hlib.F("ring-size:%d", len(members)))
		run.Count(hlib.F("repair-rounds:%d", rounds))
		keys := ringh.InterestingKeys(rng, members, 12)
		for _, m := range members {
			for _, k := range keys {
				s.Do("lookup", ringh.U(m), ringh.U(k))
				key := ""
				if len(members) >= 2 {
					key = hlib.F("%v|%d|%d", members, m, k)
				}
				run.Case(key)
			}
		}
		if s.Dead {
			run.Count("dead-session")
		}
	}
	run.Finish()
}
