import SpecterModel.Util
import SpecterModel.C38.Model
/-! C38 line-protocol driver.
`rt <type> <bound|-> <payload> <trail> => send=<ok|err|panic> wrote=<hex> res=<ok|err:kind> passed=<hex|none> rest=<hex> same=<true|false|na>`
  real `Send` of a message whose canonical encoding is `payload`, then `trail` appended, then
  (`send` = how the real `Send` ended: every message in the quantifier must be written, so anything but `ok`
  violates the statement whatever the reader's bound), then
  `Receive`/`BoundedReceive` into a fresh message through a spy decoder (`passed` = bytes handed to UnmarshalVT).
`recv <bound|-> <stream> => res=… passed=… rest=…` : raw (malformed) stream.
`trunc <bound|-> <payload> <k> => …` : the first k bytes of the real frame of `payload`. -/
namespace Specter.C38
open Specter.Util

def field (k : String) (kvs : List String) : Option String :=
  kvs.findSome? fun t => if t.startsWith (k ++ "=") then some ((t.drop (k.length + 1)).toString) else none

def errName : RecvErr → String
  | .noHeader => "noHeader" | .tooLarge => "tooLarge" | .shortBody => "shortBody" | .decode => "decode"

def brief (b : Bytes) : String := s!"{b.length}B:{bytesToHex (b.take 12)}"

def parseBound (s : String) : Option (Option Nat) :=
  if s = "-" then some none else s.toNat?.map some

def checker : Option Nat → Nat → Bool
  | none => fun _ => true
  | some m => fun size => decide (size ≤ m)

/-- compare the implementation's receive outcome with the model's; decoding itself is abstract: when the
model hands a payload to the decoder, the implementation may answer `ok` or `err:decode`. -/
def cmpRecv (bound : Option Nat) (stream : Bytes) (kvs : List String) : Option String :=
  match field "res" kvs, field "passed" kvs, (field "rest" kvs).bind hexToBytes with
  | some res, some passed, some rest =>
    match receive (checker bound) stream with
    | (.ok p, mrest) =>
      if res ≠ "ok" ∧ res ≠ "err:decode" then some s!"model: payload {brief p} handed to decoder"
      else if passed = "none" then some "model: decoder is called"
      else if hexToBytes passed ≠ some p then some s!"model: decoder gets {brief p}"
      else if rest ≠ mrest then some s!"model: unread rest {brief mrest}"
      else none
    | (.error e, mrest) =>
      if res ≠ "err:" ++ errName e then some s!"model: err:{errName e}"
      else if passed ≠ "none" then some "model: decoder not called"
      else if rest ≠ mrest then some s!"model: unread rest {brief mrest}"
      else none
  | _, _, _ => some "unparsable result"

def step (_ : Unit) (toks : List String) (rhs : String) : Unit × Verdict :=
  let kvs := rhs.splitOn " "
  match toks with
  | ["rt", _ty, bound, payload, trail] =>
    match parseBound bound, hexToBytes payload, hexToBytes trail with
    | some bound, some payload, some trail =>
      -- statement oracle
      let res := field "res" kvs
      let fits := match bound with | none => true | some m => decide (payload.length ≤ m)
      let sres := field "send" kvs
      let specFail : Option String :=
        if sres = some "panic" then
          some s!"Send panicked instead of writing the {payload.length}-byte message"
        else if sres = some "err" then
          some s!"Send failed instead of writing the {payload.length}-byte message"
        else if sres ≠ some "ok" then some "send status missing"
        else if fits then
          if res ≠ some "ok" then some "frame within bound must be received"
          else if field "same" kvs ≠ some "true" then some "message read back differs"
          else if (field "rest" kvs).bind hexToBytes ≠ some trail then some "trailing bytes not intact"
          else none
        else
          if res ≠ some "err:tooLarge" then some "frame longer than bound must be rejected"
          else if field "passed" kvs ≠ some "none" then some "oversized frame was decoded"
          else none
      match specFail with
      | some why => ((), .spec why)
      | none =>
        match (field "wrote" kvs).bind hexToBytes with
        | none => ((), .bad "wrote")
        | some wrote =>
          if wrote ≠ send payload then ((), .diff s!"model: Send writes {brief (send payload)}")
          else match cmpRecv bound (send payload ++ trail) kvs with
            | some d => ((), .diff d)
            | none => ((), .ok)
    | _, _, _ => ((), .bad "rt args")
  | ["recv", bound, stream] =>
    match parseBound bound, hexToBytes stream with
    | some bound, some stream =>
      -- statement oracle for short streams: fewer than 4 bytes can never yield a message
      if stream.length < 4 ∧ (field "res" kvs = some "ok" ∨ field "passed" kvs ≠ some "none") then
        ((), .spec "message from a stream shorter than its header")
      else match cmpRecv bound stream kvs with
        | some d => ((), .diff d)
        | none => ((), .ok)
    | _, _ => ((), .bad "recv args")
  | ["trunc", bound, payload, k] =>
    -- the first k bytes of the real frame of `payload`
    match parseBound bound, hexToBytes payload, k.toNat? with
    | some bound, some payload, some k =>
      let fits := match bound with | none => true | some m => decide (payload.length ≤ m)
      -- statement oracle: a proper prefix of a frame never yields a message
      let inScope : Bool := decide (k < 4 + payload.length) && (decide (k < 4) || fits)
      let gotMsg : Bool := field "res" kvs == some "ok" || field "passed" kvs != some "none"
      if inScope && gotMsg then
        ((), .spec "message from a truncated frame")
      else match cmpRecv bound ((send payload).take k) kvs with
        | some d => ((), .diff d)
        | none => ((), .ok)
    | _, _, _ => ((), .bad "trunc args")
  | _ => ((), .bad "unknown op")

def main : IO Unit := runLoop () step

end Specter.C38
