import SpecterModel.C02.Props
import SpecterModel.C06.Props
/-!
# C02 / C03 / C05 — the inductive step for a graceful departure

What a completed `Leave()` does to a stable quiescent ring (every ring size, every id layout).
-/
namespace Specter.C02
open Specter.Ring Specter.C01 Specter.C03 Specter.C05 Specter.C06

/-! ### what `Mem` / `Stable` read of a node -/

/-- the part of a node that membership and stability depend on -/
def pview (x : Node) : Bool × Option Nat × Option Nat × List (Option Nat) :=
  ((checkNodeState x false).isNone, x.pred, x.succs.head?, x.fingers)

theorem view_some (a b : Net) (h : ∀ m, (b.get m).map pview = (a.get m).map pview) (m : Nat) (x : Node)
    (hx : b.get m = some x) : ∃ y, a.get m = some y ∧ pview x = pview y := by
  have := h m
  cases h2 : a.get m with
  | none => simp [hx, h2] at this
  | some y => simp [hx, h2] at this; exact ⟨y, rfl, this⟩

theorem live_of_pview (x y : Node) (h : pview x = pview y) (hc : checkNodeState x false = none) :
    checkNodeState y false = none := by
  have : (checkNodeState x false).isNone = (checkNodeState y false).isNone := congrArg (·.1) h
  rw [hc] at this
  exact Option.isNone_iff_eq_none.mp this.symm

theorem mem_congr (a b : Net) (h : ∀ m, (b.get m).map pview = (a.get m).map pview) (m : Nat) :
    Mem b m ↔ Mem a m := by
  constructor
  · rintro ⟨x, hx, hc⟩
    obtain ⟨y, hy, e⟩ := view_some a b h m x hx
    exact ⟨y, hy, live_of_pview x y e hc⟩
  · rintro ⟨x, hx, hc⟩
    obtain ⟨y, hy, e⟩ := view_some b a (fun m => (h m).symm) m x hx
    exact ⟨y, hy, live_of_pview x y e hc⟩

/-- `Stable` only depends on liveness, predecessor, first successor and fingers of every node -/
theorem stable_congr (a b : Net) (h : ∀ m, (b.get m).map pview = (a.get m).map pview) (hs : Stable a) :
    Stable b := by
  have memeq := mem_congr a b h
  constructor
  · intro m hm; exact hs.lt m ((memeq m).mp hm)
  · intro m x hx hcx
    obtain ⟨y, hy, e⟩ := view_some a b h m x hx
    obtain ⟨p, hp, hpm, hmin⟩ := hs.pred m y hy (live_of_pview x y e hcx)
    have e2 : x.pred = y.pred := congrArg (·.2.1) e
    exact ⟨p, by rw [e2]; exact hp, (memeq p).mpr hpm, fun q hq' => hmin q ((memeq q).mp hq')⟩
  · intro m x hx hcx
    obtain ⟨y, hy, e⟩ := view_some a b h m x hx
    obtain ⟨s, hsu, hsm, hmin⟩ := hs.succ m y hy (live_of_pview x y e hcx)
    have e3 : x.succs.head? = y.succs.head? := congrArg (·.2.2.1) e
    exact ⟨s, by rw [e3]; exact hsu, (memeq s).mpr hsm, fun q hq' => hmin q ((memeq q).mp hq')⟩
  · intro m x hx hcx f hf
    obtain ⟨y, hy, e⟩ := view_some a b h m x hx
    have e4 : x.fingers = y.fingers := congrArg (·.2.2.2) e
    exact (memeq f).mpr (hs.fingers m y hy (live_of_pview x y e hcx) f (by rw [← e4]; exact hf))

/-! ### finger repair keeps a stable ring stable -/

theorem found_is_member (net : Net) (hs : Stable net) (n key f : Nat) (fuel : Nat) (hn : Mem net n) (hk : key < M)
    (h : findSucc net fuel n key = .found f) : IsOwner net key f := by
  obtain ⟨fuel', o, hres, ho⟩ := lookup_correct net hs n key hn hk
  have := found_unique net n key fuel fuel' f o h hres
  rw [this]; exact ho

theorem moduloSum_lt (x y : Nat) : moduloSum x y < M := by
  unfold moduloSum; exact Nat.mod_lt _ (by simp [M])

theorem fixK_cases (net : Net) (n k : Nat) :
    fixK net n k = net ∨
    ∃ f, findSucc net FUEL n (moduloSum n (2^(k-1))) = .found f ∧
      fixK net n k = net.upd n (fun nd => { nd with fingers := nd.fingers.set (k-1) (some f) }) := by
  unfold fixK
  cases h : findSucc net FUEL n (moduloSum n (2^(k-1))) with
  | found f => right; exact ⟨f, rfl, rfl⟩
  | err e => left; rfl

/-- the nets that differ from `net` only in the finger table of `n`, all fingers members -/
def FingersSwapped (net cur : Net) (n : Nat) : Prop :=
  ∃ F : List (Option Nat), (∀ f, some f ∈ F → Mem net f) ∧
    ∀ m, cur.get m = if m = n then (net.get n).map (fun x => { x with fingers := F }) else net.get m

theorem fingersSwapped_stable (net cur : Net) (n : Nat) (hs : Stable net) (h : FingersSwapped net cur n) :
    Stable cur ∧ ∀ m, Mem cur m ↔ Mem net m := by
  obtain ⟨F, hF, hget⟩ := h
  have memeq : ∀ m, Mem cur m ↔ Mem net m := by
    intro m
    unfold Mem
    rw [hget m]
    by_cases e : m = n
    · subst e
      cases hg : net.get m with
      | none => simp
      | some x => simp [checkNodeState]
    · simp [e]
  refine ⟨?_, memeq⟩
  constructor
  · intro m hm; exact hs.lt m ((memeq m).mp hm)
  · intro m x hx hcx
    rw [hget m] at hx
    by_cases e : m = n
    · subst e
      cases hg : net.get m with
      | none => simp [hg] at hx
      | some y =>
        simp [hg] at hx; subst hx
        obtain ⟨p, hp, hpm, hmin⟩ := hs.pred m y hg (by simpa [checkNodeState] using hcx)
        exact ⟨p, hp, (memeq p).mpr hpm, fun q hq' => hmin q ((memeq q).mp hq')⟩
    · simp [e] at hx
      obtain ⟨p, hp, hpm, hmin⟩ := hs.pred m x hx hcx
      exact ⟨p, hp, (memeq p).mpr hpm, fun q hq' => hmin q ((memeq q).mp hq')⟩
  · intro m x hx hcx
    rw [hget m] at hx
    by_cases e : m = n
    · subst e
      cases hg : net.get m with
      | none => simp [hg] at hx
      | some y =>
        simp [hg] at hx; subst hx
        obtain ⟨s, hsu, hsm, hmin⟩ := hs.succ m y hg (by simpa [checkNodeState] using hcx)
        exact ⟨s, hsu, (memeq s).mpr hsm, fun q hq' => hmin q ((memeq q).mp hq')⟩
    · simp [e] at hx
      obtain ⟨s, hsu, hsm, hmin⟩ := hs.succ m x hx hcx
      exact ⟨s, hsu, (memeq s).mpr hsm, fun q hq' => hmin q ((memeq q).mp hq')⟩
  · intro m x hx hcx f hf
    rw [hget m] at hx
    by_cases e : m = n
    · subst e
      cases hg : net.get m with
      | none => simp [hg] at hx
      | some y =>
        simp [hg] at hx; subst hx
        exact (memeq f).mpr (hF f hf)
    · simp [e] at hx
      exact (memeq f).mpr (hs.fingers m x hx hcx f hf)

theorem fixK_swapped (net cur : Net) (n k : Nat) (hs : Stable net) (hn : Mem net n)
    (h : FingersSwapped net cur n) : FingersSwapped net (fixK cur n k) n := by
  obtain ⟨hsc, memeq⟩ := fingersSwapped_stable net cur n hs h
  rcases fixK_cases cur n k with e | ⟨f, hf, e⟩
  · rw [e]; exact h
  · rw [e]
    have hfm : Mem net f :=
      (memeq f).mp (found_is_member cur hsc n _ f FUEL ((memeq n).mpr hn) (moduloSum_lt _ _) hf).1
    obtain ⟨F, hF, hget⟩ := h
    refine ⟨F.set (k-1) (some f), ?_, ?_⟩
    · intro g hg
      rcases List.mem_or_eq_of_mem_set hg with h1 | h1
      · exact hF g h1
      · injection h1 with h1; rw [h1]; exact hfm
    · intro m
      rw [get_upd]
      by_cases e : m = n
      · subst e
        simp only [if_true]
        rw [hget m]; simp only [if_true]
        cases net.get m <;> simp
      · simp only [e, if_false]; rw [hget m]; simp [e]

/-- **Finger repair keeps stability.** On a stable ring a whole `fixFinger` pass at a member only
rewrites that member's finger table, and every finger it leaves is a live member. -/
theorem fixFinger_swapped (net : Net) (n : Nat) (hs : Stable net) (hn : Mem net n) :
    FingersSwapped net (fixFinger net n) n := by
  unfold fixFinger
  have init : FingersSwapped net net n := by
    obtain ⟨x, hx, hc⟩ := hn
    refine ⟨x.fingers, fun f hf => hs.fingers n x hx hc f hf, fun m => ?_⟩
    by_cases e : m = n
    · subst e; simp [hx]
    · simp [e]
  generalize List.range 48 = ks
  have : ∀ (ks : List Nat) (cur : Net), FingersSwapped net cur n →
      FingersSwapped net (ks.foldl (fun net i => fixK net n (i+1)) cur) n := by
    intro ks
    induction ks with
    | nil => intro cur h; exact h
    | cons k ks ih => intro cur h; exact ih _ (fixK_swapped net cur n (k+1) hs hn h)
  exact this ks net init

theorem fixFinger_keeps_stable (net : Net) (n : Nat) (hs : Stable net) (hn : Mem net n) :
    Stable (fixFinger net n) :=
  (fingersSwapped_stable net _ n hs (fixFinger_swapped net n hs hn)).1

/-! ### the two ways `stabilize` goes around a departure -/

/-- `stabilize` at `n` whose first successor `s` is live and already points back at `n`: only the
successor list of `n` is refreshed (no hypothesis on lifecycle states: `s` may be Leaving). -/
theorem stabilize_live_head (net : Net) (n s : Nat) (nd nds : Node) (rest : List Nat)
    (hg : net.get n = some nd) (hl : nd.succs = s :: rest)
    (hgs : net.get s = some nds) (hcs : checkNodeState nds false = none) (hpn : nds.pred = some n) :
    stabilize net n =
      net.upd n (fun x => { x with succs := cutAfterSelf n (makeSuccList s nds.succs succEntries) }) := by
  have hgps : getPredSuccs net s = some (some n, nds.succs) := by
    unfold getPredSuccs; simp [hgs, hcs, hpn]
  have hbn : between n n s false = false := by unfold between; simp
  have hlist : stabilizeList net n (s :: rest) = some (makeSuccList s nds.succs succEntries) := by
    rw [stabilizeList]; simp [hgps, hbn]
  have hhead : (cutAfterSelf n (makeSuccList s nds.succs succEntries)).head? = some s :=
    cutAfterSelf_head n _ s (makeSuccList_head s nds.succs succEntries)
  unfold stabilize
  simp only [hg, hl, hlist, Option.map_some]
  simp only [hhead]
  have hnot : ∀ (net1 : Net), (∃ y, net1.get s = some y ∧ checkNodeState y false = none ∧ y.pred = some n) →
      notify net1 s n = net1 := by
    intro net1 ⟨y, h1, h2, h3⟩
    unfold notify
    simp [h1, h2, h3]
  split
  · apply hnot
    rw [get_upd]
    by_cases e : s = n
    · subst e
      rw [hg] at hgs; injection hgs with hgs; subst hgs
      exact ⟨{ nd with succs := cutAfterSelf s (makeSuccList s nd.succs succEntries) }, by simp [hg],
        by simpa [checkNodeState] using hcs, hpn⟩
    · exact ⟨nds, by simp [e, hgs], hcs, hpn⟩
  · rfl

/-- `stabilize` at `n` whose first successor `d` has departed (it no longer answers) and whose second
list entry `s` is live and still names `d` as predecessor: `n` adopts `s` and notifies it; `s`, finding
its old predecessor dead, adopts `n`. -/
theorem stabilize_dead_head (net : Net) (n d s : Nat) (nd nds : Node) (rest : List Nat)
    (hg : net.get n = some nd) (hcn : checkNodeState nd true = none) (hl : nd.succs = d :: s :: rest)
    (hdn : d ≠ n)
    (hgd : getPredSuccs net d = none) (hping : ping net d = false)
    (hgs : net.get s = some nds) (hcs : checkNodeState nds false = none) (hpd : nds.pred = some d)
    (hb : between n d s false = true) :
    stabilize net n =
      (net.upd n (fun x => { x with succs := cutAfterSelf n (makeSuccList s nds.succs succEntries) })).upd s
        (fun x => { x with surrogate := if n == s then none else some n, pred := some n }) := by
  have hgps : getPredSuccs net s = some (some d, nds.succs) := by
    unfold getPredSuccs; simp [hgs, hcs, hpd]
  have hlist : stabilizeList net n (d :: s :: rest) = some (makeSuccList s nds.succs succEntries) := by
    rw [stabilizeList]; simp only [hgd]
    rw [stabilizeList]; simp [hgps, hb, hgd]
  have hhead : (cutAfterSelf n (makeSuccList s nds.succs succEntries)).head? = some s :=
    cutAfterSelf_head n _ s (makeSuccList_head s nds.succs succEntries)
  unfold stabilize
  simp only [hg, hl, hlist, Option.map_some]
  simp only [hhead, hcn, Option.isNone_none, if_true]
  -- the notification
  have hnot : ∀ (net1 : Net), (∃ y, net1.get s = some y ∧ checkNodeState y false = none ∧ y.pred = some d) →
      ping net1 d = false →
      notify net1 s n = net1.upd s (fun x => { x with surrogate := if n == s then none else some n, pred := some n }) := by
    intro net1 ⟨y, h1, h2, h3⟩ hp
    unfold notify
    have : (d == n) = false := by simpa using hdn
    simp [h1, h2, h3, this, hp]
  apply hnot
  · rw [get_upd]
    by_cases e : s = n
    · subst e
      rw [hg] at hgs; injection hgs with hgs; subst hgs
      exact ⟨{ nd with succs := cutAfterSelf s (makeSuccList s nd.succs succEntries) }, by simp [hg],
        by simpa [checkNodeState] using hcs, hpd⟩
    · exact ⟨nds, by simp [e, hgs], hcs, hpd⟩
  · unfold ping at hping ⊢
    rw [get_upd_other _ _ _ _ hdn]; exact hping

/-! ### clockwise distance: additivity (keeps `omega` goals linear in `dist` atoms) -/

theorem dist_self (a : Nat) (ha : a < M) : dist a a = 0 := by
  have := dist_cases a a ha ha; omega

theorem dist_pos (a b : Nat) (ha : a < M) (hb : b < M) (h : a ≠ b) : 0 < dist a b := by
  have := dist_cases a b ha hb; have := M_val; omega

theorem dist_anti (a b : Nat) (ha : a < M) (hb : b < M) (h : a ≠ b) : dist a b + dist b a = M := by
  have := dist_cases a b ha hb; have := dist_cases b a hb ha; omega

theorem dist_add (a b c : Nat) (ha : a < M) (hb : b < M) (hc : c < M) :
    dist a b ≤ dist a c → dist a b + dist b c = dist a c := by
  have := dist_cases a b ha hb; have := dist_cases b c hb hc; have := dist_cases a c ha hc
  have := M_val; omega

/-! ### ring facts used below -/

/-- the true predecessor's first successor is the node itself (converse of `succ_pred_inverse`) -/
theorem pred_succ_inverse (net : Net) (hs : Stable net) (n p : Nat) (nd ndp : Node)
    (hg : net.get n = some nd) (hc : checkNodeState nd false = none) (hp : nd.pred = some p)
    (hgp : net.get p = some ndp) (hcp : checkNodeState ndp false = none) : ndp.succs.head? = some n := by
  obtain ⟨p', hp', hpm, hpmin⟩ := hs.pred n nd hg hc
  rw [hp] at hp'; injection hp' with hp'; subst hp'
  obtain ⟨s, hsu, hsm, hsmin⟩ := hs.succ p ndp hgp hcp
  have hn : Mem net n := ⟨nd, hg, hc⟩
  have hnM := hs.lt n hn; have hsM := hs.lt s hsm; have hpM := hs.lt p hpm
  have h1 := hpmin s hsm
  have h2 := hsmin n hn
  rw [hsu]; congr 1
  have := dist_cases p n hpM hnM; have := dist_cases p s hpM hsM; have := M_val
  omega

theorem makeSuccList_go_prefix (maxLen : Nat) : ∀ (cands acc : List Nat),
    ∃ r, makeSuccList.go maxLen acc cands = acc ++ r := by
  intro cands
  induction cands with
  | nil => intro acc; exact ⟨[], by simp [makeSuccList.go]⟩
  | cons c cs ih =>
    intro acc
    rw [makeSuccList.go]
    split
    · exact ⟨[], by simp⟩
    · split
      · exact ih acc
      · obtain ⟨r, hr⟩ := ih (acc ++ [c])
        exact ⟨c :: r, by rw [hr]; simp⟩

/-- the list a predecessor builds from a live successor `a` whose own first successor is `b ≠ a` -/
theorem makeSuccList_two (a b : Nat) (tl : List Nat) (hab : b ≠ a) :
    ∃ r, makeSuccList a (b :: tl) succEntries = a :: b :: r := by
  unfold makeSuccList
  rw [makeSuccList.go]
  have h1 : ¬ ([a].length ≥ succEntries) := by simp [succEntries]
  have h2 : [a].contains b = false := by simpa using hab
  simp only [h1, if_false, h2]
  obtain ⟨r, hr⟩ := makeSuccList_go_prefix succEntries tl ([a] ++ [b])
  exact ⟨r, by rw [hr]; simp⟩

theorem cutAfterSelf_two (n a b : Nat) (r : List Nat) (han : a ≠ n) :
    ∃ r', cutAfterSelf n (a :: b :: r) = a :: b :: r' := by
  have : (a == n) = false := by simpa using han
  by_cases hb : (b == n) = true
  · exact ⟨[], by simp [cutAfterSelf, this, hb]⟩
  · exact ⟨cutAfterSelf n r, by simp [cutAfterSelf, this, hb]⟩

theorem removeKeys_nil (st : List KEntry) : removeKeys st [] = st := by
  unfold removeKeys; simp

theorem importEntries_nil (st : List KEntry) : importEntries st [] = st := rfl

/-! ### the net during and after a leave, node by node -/

/-- Node `m` of the ring while / after `l` (predecessor `pre`, successor `succ`) leaves, as a function
of its node `x` before: `sl`, `ss` are the lifecycle states of leaver and successor, `mv` the entries
handed down, `sur` whether the leaver's surrogate is set, `L` / `F` the successor list / finger table
the predecessor rebuilt on the advisory. -/
def tr (l pre succ : Nat) (sl ss : St) (mv : List KEntry) (sur : Bool)
    (L : Option (List Nat)) (F : Option (List (Option Nat))) (m : Nat) (x : Node) : Node :=
  { x with
    state := if m = l then sl else if m = succ then ss else x.state
    store := if m = l then removeKeys x.store mv else if m = succ then importEntries x.store mv else x.store
    surrogate := if m = l ∧ sur = true then some l else x.surrogate
    succs := if m = pre then L.getD x.succs else x.succs
    fingers := if m = pre then F.getD x.fingers else x.fingers }

def Shape (net cur : Net) (T : Nat → Node → Node) : Prop := ∀ m, cur.get m = (net.get m).map (T m)

theorem shape_step (net cur cur' : Net) (T T' : Nat → Node → Node) (k : Nat) (f : Node → Node)
    (h : Shape net cur T)
    (hget : ∀ m, cur'.get m = if m = k then (cur.get k).map f else cur.get m)
    (hT : ∀ m x, net.get m = some x → T' m x = if m = k then f (T m x) else T m x) :
    Shape net cur' T' := by
  intro m
  rw [hget m]
  by_cases e : m = k
  · subst e; simp only [if_true]; rw [h m]
    cases hx : net.get m with
    | none => rfl
    | some x => simp [hT m x hx]
  · simp only [e, if_false]; rw [h m]
    cases hx : net.get m with
    | none => rfl
    | some x => simp [hT m x hx, e]

theorem shape_upd (net cur : Net) (T T' : Nat → Node → Node) (k : Nat) (f : Node → Node)
    (h : Shape net cur T)
    (hT : ∀ m x, net.get m = some x → T' m x = if m = k then f (T m x) else T m x) :
    Shape net (cur.upd k f) T' :=
  shape_step net cur _ T T' k f h (fun m => get_upd cur k m f) hT

/-- the situation of a leave: `l` is a live member of a stable quiescent ring with predecessor `pre ≠ l`
and successor `succ ≠ l` -/
structure Ctx (net : Net) (l pre succ : Nat) (nd ndp nds : Node) : Prop where
  hs : Stable net
  hq : Quiescent net
  hg : net.get l = some nd
  hc : checkNodeState nd false = none
  hp : nd.pred = some pre
  hsu : nd.succs.head? = some succ
  hpl : pre ≠ l
  hsl : succ ≠ l
  hgp : net.get pre = some ndp
  hcp : checkNodeState ndp false = none
  hgs : net.get succ = some nds
  hcs : checkNodeState nds false = none

theorem ctx_of (net : Net) (hs : Stable net) (hq : Quiescent net) (l : Nat) (hl : Mem net l)
    (hmore : ∃ m, Mem net m ∧ m ≠ l) : ∃ pre succ nd ndp nds, Ctx net l pre succ nd ndp nds := by
  obtain ⟨nd, hg, hc⟩ := hl
  obtain ⟨m, hm, hml⟩ := hmore
  obtain ⟨pre, hp, ⟨ndp, hgp, hcp⟩, hpmin⟩ := hs.pred l nd hg hc
  obtain ⟨succ, hsu, ⟨nds, hgs, hcs⟩, hsmin⟩ := hs.succ l nd hg hc
  exact ⟨pre, succ, nd, ndp, nds, hs, hq, hg, hc, hp, hsu, fun e => hml ((hpmin m hm).2 e),
    fun e => hml ((hsmin m hm).2 e), hgp, hcp, hgs, hcs⟩

namespace Ctx
variable {net : Net} {l pre succ : Nat} {nd ndp nds : Node}

theorem l_active (c : Ctx net l pre succ nd ndp nds) : nd.state = .active ∧ nd.crashed = false := c.hq.active l nd c.hg c.hc
theorem s_active (c : Ctx net l pre succ nd ndp nds) : nds.state = .active ∧ nds.crashed = false := c.hq.active succ nds c.hgs c.hcs
theorem p_active (c : Ctx net l pre succ nd ndp nds) : ndp.state = .active ∧ ndp.crashed = false := c.hq.active pre ndp c.hgp c.hcp
theorem s_pred (c : Ctx net l pre succ nd ndp nds) : nds.pred = some l :=
  succ_pred_inverse net c.hs l succ nd nds c.hg c.hc c.hsu c.hgs c.hcs
theorem p_succ (c : Ctx net l pre succ nd ndp nds) : ndp.succs.head? = some l :=
  pred_succ_inverse net c.hs l pre nd ndp c.hg c.hc c.hp c.hgp c.hcp

end Ctx

theorem requestToLeave_succeeds (net : Net) (s : Nat) (y : Node) (hg : net.get s = some y)
    (hup : y.crashed = false) (ha : y.state = .active) :
    requestToLeave net s = (net.upd s (fun nd => { nd with state := .transferring }), none) := by
  unfold requestToLeave; simp [hg, hup, ha]

theorem leaveLocks_succeeds (net : Net) (l succ : Nat) (nd nds : Node) (hls : l ≠ succ)
    (hg : net.get l = some nd) (ha : nd.state = .active)
    (hgs : net.get succ = some nds) (hups : nds.crashed = false) (has : nds.state = .active) :
    ∃ n1, leaveLocks net l succ = (n1, none) := by
  unfold leaveLocks
  by_cases hgt : l > succ
  · simp only [hgt, if_true]
    rw [requestToLeave_succeeds net succ nds hgs hups has]
    simp only [get_upd_other _ _ _ _ hls, hg, Option.map_some, ha]
    exact ⟨_, by simp; rfl⟩
  · simp only [hgt, if_false, hg, Option.map_some, ha]
    have hgs' : (net.upd l fun nd => { nd with state := .leaving }).get succ = some nds := by
      rw [get_upd_other _ _ _ _ (Ne.symm hls)]; exact hgs
    rw [requestToLeave_succeeds _ succ nds hgs' hups has]
    exact ⟨_, by simp; rfl⟩

section steps
variable {net : Net} {l pre succ : Nat} {nd ndp nds : Node}

/-- step 1: both membership locks are taken -/
theorem step_locks (c : Ctx net l pre succ nd ndp nds) :
    ∃ n1, leaveLocks net l succ = (n1, none) ∧
      Shape net n1 (tr l pre succ .leaving .transferring [] false none none) := by
  obtain ⟨n1, h1⟩ := leaveLocks_succeeds net l succ nd nds (Ne.symm c.hsl) c.hg c.l_active.1 c.hgs
    c.s_active.2 c.s_active.1
  refine ⟨n1, h1, ?_⟩
  obtain ⟨_, _, nds', hgs', _, _, hget⟩ := leaveLocks_ok net n1 l succ h1
  rw [c.hgs] at hgs'; injection hgs' with hgs'; subst hgs'
  intro m
  rw [hget m]
  by_cases e1 : m = l
  · subst e1; simp [c.hg, tr, removeKeys_nil]
  · by_cases e2 : m = succ
    · subst e2; simp [e1, c.hgs, tr, importEntries_nil]
    · simp only [e1, e2, if_false]
      cases hx : net.get m with
      | none => rfl
      | some x => simp [tr, e1, e2]

/-- step 2: everything the leaver holds is handed down to the successor -/
theorem step_transfer (c : Ctx net l pre succ nd ndp nds) (n1 : Net)
    (h1 : Shape net n1 (tr l pre succ .leaving .transferring [] false none none)) :
    ∃ n2, transferDown n1 l succ nd.store = some n2 ∧
      Shape net n2 (tr l pre succ .leaving .transferring (rangeKeys nd.store 0 0) false none none) := by
  unfold transferDown
  simp only
  by_cases hem : (rangeKeys nd.store 0 0).isEmpty = true
  · simp only [hem, if_true]
    rw [List.isEmpty_iff] at hem
    rw [hem]
    exact ⟨n1, rfl, h1⟩
  · simp only [hem]
    have hgs1 : n1.get succ = some (tr l pre succ .leaving .transferring [] false none none succ nds) := by
      rw [h1 succ, c.hgs]; rfl
    have himp : importAt n1 succ (rangeKeys nd.store 0 0) =
        some (n1.upd succ (fun x => { x with store := importEntries x.store (rangeKeys nd.store 0 0) })) := by
      unfold importAt
      simp [hgs1, tr, c.hsl, c.s_active.2]
    rw [himp]
    refine ⟨_, rfl, ?_⟩
    apply shape_upd net _ (fun m x => if m = succ then
        { (tr l pre succ .leaving .transferring [] false none none m x) with
          store := importEntries (tr l pre succ .leaving .transferring [] false none none m x).store (rangeKeys nd.store 0 0) }
        else tr l pre succ .leaving .transferring [] false none none m x)
    · exact shape_upd net n1 _ _ succ _ h1 (fun m x _ => rfl)
    · intro m x hx
      by_cases e1 : m = l
      · subst e1
        rw [c.hg] at hx; injection hx with hx; subst hx
        simp [tr, removeKeys_nil, Ne.symm c.hsl]
      · by_cases e2 : m = succ
        · subst e2; simp [tr, e1, importEntries_nil]
        · simp [tr, e1, e2]

/-- `executeLeave` succeeds and hands back predecessor and successor -/
theorem exec_leave (c : Ctx net l pre succ nd ndp nds) :
    ∃ n3, executeLeave net l = (n3, .ok (some (pre, succ))) ∧
      Shape net n3 (tr l pre succ .leaving .transferring (rangeKeys nd.store 0 0) true none none) := by
  obtain ⟨n1, hl1, h1⟩ := step_locks c
  obtain ⟨n2, ht2, h2⟩ := step_transfer c n1 h1
  refine ⟨n2.upd l (fun nd => { nd with surrogate := some l }), ?_, ?_⟩
  · unfold executeLeave
    have : (pre == l && succ == l) = false := by simp [c.hpl]
    simp only [c.hg, c.hp, c.hsu, this, hl1, ht2]
    rfl
  · apply shape_upd net n2 _ _ l _ h2
    intro m x _
    by_cases e1 : m = l
    · subst e1; simp [tr]
    · simp [tr, e1]

/-- the successor list the predecessor rebuilds on the advisory: it still starts with the leaver
(who is `Leaving`, hence still answering), followed by the leaver's successor -/
def advisedList (l pre : Nat) (nd : Node) : List Nat :=
  cutAfterSelf pre (makeSuccList l nd.succs succEntries)

theorem advisedList_head (l pre : Nat) (nd : Node) : (advisedList l pre nd).head? = some l :=
  cutAfterSelf_head pre _ l (makeSuccList_head l nd.succs succEntries)

theorem advisedList_two (c : Ctx net l pre succ nd ndp nds) : ∃ r, advisedList l pre nd = l :: succ :: r := by
  have hsu := c.hsu
  cases hl : nd.succs with
  | nil => rw [hl] at hsu; simp at hsu
  | cons a tl =>
    rw [hl] at hsu; simp at hsu; subst hsu
    obtain ⟨r, hr⟩ := makeSuccList_two l a tl c.hsl
    obtain ⟨r', hr'⟩ := cutAfterSelf_two pre l a r (Ne.symm c.hpl)
    exact ⟨r', by unfold advisedList; rw [hl, hr, hr']⟩

/-- step 4: the advisory's `stabilize` at the predecessor only refreshes its successor list, whose head
is still the leaver -/
theorem step_stabilize (c : Ctx net l pre succ nd ndp nds) (n3 : Net)
    (h3 : Shape net n3 (tr l pre succ .leaving .transferring (rangeKeys nd.store 0 0) true none none)) :
    Shape net (stabilize n3 pre)
      (tr l pre succ .leaving .transferring (rangeKeys nd.store 0 0) true (some (advisedList l pre nd)) none) := by
  have hps := c.p_succ
  cases hl : ndp.succs with
  | nil => rw [hl] at hps; simp at hps
  | cons a rest =>
    rw [hl] at hps; simp at hps; subst hps
    have hgp3 := h3 pre; rw [c.hgp] at hgp3
    have hgl3 := h3 a; rw [c.hg] at hgl3
    have e := stabilize_live_head n3 pre a _ _ rest hgp3 (by simp [tr, hl]) hgl3
      (by simp [tr, checkNodeState, c.l_active.2]) (by simp [tr, c.hp])
    rw [e]
    apply shape_upd net n3 _ _ pre _ h3
    intro m x _
    by_cases e1 : m = pre
    · subst e1; simp [tr, advisedList, c.hpl]
    · simp [tr, e1]

/-- while the leave is in flight (leaver `Leaving`, successor `Transferring`, both still answering)
every node shows the same liveness, predecessor, first successor and fingers as before -/
theorem inflight_view (c : Ctx net l pre succ nd ndp nds) (cur : Net) (mv : List KEntry) (sur : Bool)
    (h : Shape net cur (tr l pre succ .leaving .transferring mv sur (some (advisedList l pre nd)) none)) :
    ∀ m, (cur.get m).map pview = (net.get m).map pview := by
  intro m
  rw [h m]
  cases hx : net.get m with
  | none => rfl
  | some x =>
    simp only [Option.map_some, Option.some.injEq]
    by_cases e1 : m = l
    · subst e1
      rw [c.hg] at hx; injection hx with hx; subst hx
      have := c.hc
      simp [pview, tr, checkNodeState, c.l_active.2, c.l_active.1, Ne.symm c.hpl]
    · by_cases e2 : m = succ
      · subst e2
        rw [c.hgs] at hx; injection hx with hx; subst hx
        by_cases e3 : m = pre
        · subst e3
          have hh := c.p_succ
          have : ndp = nds := by have := c.hgp; rw [c.hgs] at this; injection this with this; exact this.symm
          subst this
          simp [pview, tr, checkNodeState, c.s_active.2, c.s_active.1, e1, advisedList_head, hh]
        · simp [pview, tr, checkNodeState, c.s_active.2, c.s_active.1, e1, e3]
      · by_cases e3 : m = pre
        · subst e3
          rw [c.hgp] at hx; injection hx with hx; subst hx
          simp [pview, tr, checkNodeState, e1, e2, advisedList_head, c.p_succ]
        · simp [pview, tr, e1, e2, e3]

/-- steps 4–5: the advisory `FinishLeave(stabilize)` at the predecessor -/
theorem step_advisory (c : Ctx net l pre succ nd ndp nds) (n3 : Net)
    (h3 : Shape net n3 (tr l pre succ .leaving .transferring (rangeKeys nd.store 0 0) true none none)) :
    ∃ F : List (Option Nat), (∀ f, some f ∈ F → Mem net f) ∧
      Shape net (finish n3 pre true false)
        (tr l pre succ .leaving .transferring (rangeKeys nd.store 0 0) true (some (advisedList l pre nd)) (some F)) := by
  have h4 := step_stabilize c n3 h3
  have hview := inflight_view c _ _ _ h4
  have hst : Stable (stabilize n3 pre) := stable_congr net _ hview c.hs
  have hpm : Mem (stabilize n3 pre) pre := (mem_congr net _ hview pre).mpr ⟨ndp, c.hgp, c.hcp⟩
  obtain ⟨F, hF, hget⟩ := fixFinger_swapped _ pre hst hpm
  refine ⟨F, fun f hf => (mem_congr net _ hview f).mp (hF f hf), ?_⟩
  have hfin : finish n3 pre true false = fixFinger (stabilize n3 pre) pre := by
    unfold finish
    have hgp3 := h3 pre; rw [c.hgp] at hgp3
    simp [hgp3, tr, c.p_active.2]
  rw [hfin]
  apply shape_step net _ _ _ _ pre _ h4 hget
  intro m x _
  by_cases e1 : m = pre
  · subst e1; simp [tr, c.hpl]
  · simp [tr, e1]

/-- **What a completed `Leave()` does, node by node.** The leaver ends `Left` with its data handed down and
its surrogate pointing at itself; the successor has imported the data and is `Active` again; the
predecessor has a refreshed successor list (STILL headed by the leaver) and a refreshed finger table
(all old members); every other field of every node is as before. -/
theorem leave_shape (c : Ctx net l pre succ nd ndp nds) :
    ∃ F : List (Option Nat), (∀ f, some f ∈ F → Mem net f) ∧
      (leave net l).2 = none ∧
      Shape net (leave net l).1
        (tr l pre succ .left .active (rangeKeys nd.store 0 0) true (some (advisedList l pre nd)) (some F)) := by
  obtain ⟨n3, hex, h3⟩ := exec_leave c
  obtain ⟨F, hF, h4⟩ := step_advisory c n3 h3
  refine ⟨F, hF, ?_⟩
  -- the leaver's own state change
  have h5 : Shape net ((finish n3 pre true false).upd l (fun nd => { nd with state := .left }))
      (tr l pre succ .left .transferring (rangeKeys nd.store 0 0) true (some (advisedList l pre nd)) (some F)) := by
    apply shape_upd net _ _ _ l _ h4
    intro m x _
    by_cases e1 : m = l
    · subst e1; simp [tr]
    · simp [tr, e1]
  -- the release of the successor's lock
  have hgs5 := h5 succ; rw [c.hgs] at hgs5
  have hrel := finish_release _ succ _ hgs5 (by simp [tr, c.s_active.2])
  have h6 : Shape net (finish ((finish n3 pre true false).upd l (fun nd => { nd with state := .left })) succ false true)
      (tr l pre succ .left .active (rangeKeys nd.store 0 0) true (some (advisedList l pre nd)) (some F)) := by
    rw [hrel]
    apply shape_upd net _ _ _ succ _ h5
    intro m x _
    by_cases e1 : m = succ
    · subst e1; simp [tr, c.hsl]
    · simp [tr, e1]
  have hlv : leave net l =
      (finish ((finish n3 pre true false).upd l (fun nd => { nd with state := .left })) succ false true, none) := by
    unfold leave
    have p1 : (pre != l) = true := by simpa using c.hpl
    have p2 : (succ != l) = true := by simpa using c.hsl
    simp only [c.hg, c.l_active.1, hex, p1, p2, if_true]
  rw [hlv]
  exact ⟨rfl, h6⟩

end steps

/-! ### pointer stability (Stable without the finger clause) -/

/-- the predecessor / successor clauses of `Stable`: every live member knows its true predecessor and
its true first successor -/
structure PtrStable (net : Net) : Prop where
  lt : ∀ n, Mem net n → n < M
  pred : ∀ n nd, net.get n = some nd → checkNodeState nd false = none →
      ∃ p, nd.pred = some p ∧ Mem net p ∧
        ∀ m, Mem net m → ¬ (0 < dist p m ∧ dist p m < dist p n) ∧ (p = n → m = n)
  succ : ∀ n nd, net.get n = some nd → checkNodeState nd false = none →
      ∃ s, nd.succs.head? = some s ∧ Mem net s ∧
        ∀ m, Mem net m → ¬ (0 < dist n m ∧ dist n m < dist n s) ∧ (s = n → m = n)

/-- every finger of every live member is a live member or the departed node `l` -/
def FingersOr (net : Net) (l : Nat) : Prop :=
  ∀ n nd, net.get n = some nd → checkNodeState nd false = none →
    ∀ f, some f ∈ nd.fingers → Mem net f ∨ f = l

theorem Stable.ptr {net : Net} (h : Stable net) : PtrStable net := ⟨h.lt, h.pred, h.succ⟩

/-- pointer stability + no finger to the departed node = `Stable` -/
theorem stable_of_ptrStable (net : Net) (l : Nat) (hp : PtrStable net) (hf : FingersOr net l)
    (hno : ∀ n nd, net.get n = some nd → checkNodeState nd false = none → some l ∉ nd.fingers) :
    Stable net :=
  ⟨hp.lt, hp.pred, hp.succ, fun n nd hg hc f hfm => by
    rcases hf n nd hg hc f hfm with h | h
    · exact h
    · subst h; exact absurd hfm (hno n nd hg hc)⟩

namespace Ctx
variable {net : Net} {l pre succ : Nat} {nd ndp nds : Node}

theorem lM (c : Ctx net l pre succ nd ndp nds) : l < M := c.hs.lt l ⟨nd, c.hg, c.hc⟩
theorem pM (c : Ctx net l pre succ nd ndp nds) : pre < M := c.hs.lt pre ⟨ndp, c.hgp, c.hcp⟩
theorem sM (c : Ctx net l pre succ nd ndp nds) : succ < M := c.hs.lt succ ⟨nds, c.hgs, c.hcs⟩

/-- going clockwise from the predecessor one meets `l`, then the successor -/
theorem gap_sum (c : Ctx net l pre succ nd ndp nds) (hne : pre ≠ succ) :
    dist pre succ = dist pre l + dist l succ := by
  obtain ⟨s', hs', _, hsmin⟩ := c.hs.succ l nd c.hg c.hc
  rw [c.hsu] at hs'; injection hs' with hs'; subst hs'
  have hlM := c.lM; have hpM := c.pM; have hsM := c.sM
  have h3 := (hsmin _ ⟨ndp, c.hgp, c.hcp⟩).1
  have := dist_pos l pre hlM hpM (Ne.symm c.hpl)
  have := dist_anti l pre hlM hpM (Ne.symm c.hpl)
  have := dist_anti pre succ hpM hsM hne
  have := dist_add l succ pre hlM hsM hpM
  omega

/-- once `l` is gone nobody lies strictly between its predecessor and its successor -/
theorem gap (c : Ctx net l pre succ nd ndp nds) (q : Nat) (hq : Mem net q) (hql : q ≠ l) :
    ¬ (0 < dist pre q ∧ dist pre q < dist pre succ) ∧ (pre = succ → q = succ) := by
  obtain ⟨p', hp', _, hpmin⟩ := c.hs.pred l nd c.hg c.hc
  rw [c.hp] at hp'; injection hp' with hp'; subst hp'
  obtain ⟨s', hs', _, hsmin⟩ := c.hs.succ l nd c.hg c.hc
  rw [c.hsu] at hs'; injection hs' with hs'; subst hs'
  have hqM := c.hs.lt q hq
  have hlM := c.lM; have hpM := c.pM; have hsM := c.sM
  have h1 := (hpmin q hq).1
  have h2 := (hsmin q hq).1
  have hlq := dist_pos l q hlM hqM (Ne.symm hql)
  have hadd := dist_add pre l q hpM hlM hqM
  constructor
  · intro ⟨a, b⟩
    have hne : pre ≠ succ := by
      intro e; rw [← e, dist_self pre hpM] at b; omega
    have := c.gap_sum hne
    omega
  · intro e
    subst e
    apply Classical.byContradiction
    intro hne
    have := dist_pos pre q hpM hqM (Ne.symm hne)
    have := dist_anti pre l hpM hlM c.hpl
    have := dist_lt pre q
    omega

theorem between_l (c : Ctx net l pre succ nd ndp nds) : between pre l succ false = true := by
  have hlM := c.lM; have hpM := c.pM; have hsM := c.sM
  rw [between_open_iff pre l succ hpM hlM hsM]
  have := dist_pos pre l hpM hlM c.hpl
  have := dist_pos l succ hlM hsM (Ne.symm c.hsl)
  by_cases hne : pre = succ
  · exact ⟨by omega, Or.inr hne⟩
  · have := c.gap_sum hne
    exact ⟨by omega, Or.inl (by omega)⟩

/-- only the successor has `l` as predecessor -/
theorem pred_l_unique (c : Ctx net l pre succ nd ndp nds) (m : Nat) (x : Node) (hx : net.get m = some x)
    (hcx : checkNodeState x false = none) (h : x.pred = some l) : m = succ := by
  have := pred_succ_inverse net c.hs m l x nd hx hcx h c.hg c.hc
  rw [c.hsu] at this; injection this with this; exact this.symm

/-- only the predecessor has `l` as first successor -/
theorem succ_l_unique (c : Ctx net l pre succ nd ndp nds) (m : Nat) (x : Node) (hx : net.get m = some x)
    (hcx : checkNodeState x false = none) (h : x.succs.head? = some l) : m = pre := by
  have := succ_pred_inverse net c.hs m l x nd hx hcx h c.hg c.hc
  rw [c.hp] at this; injection this with this; exact this.symm

end Ctx

/-! ### the ring right after the leave -/

/-- node transformer of a completed leave (`F` = the finger table the predecessor rebuilt) -/
abbrev leftT (l pre succ : Nat) (nd : Node) (F : List (Option Nat)) : Nat → Node → Node :=
  tr l pre succ .left .active (rangeKeys nd.store 0 0) true (some (advisedList l pre nd)) (some F)

section after
variable {net : Net} {l pre succ : Nat} {nd ndp nds : Node}

/-- a surviving node after the leave: everything but store (successor), successor-list tail and fingers
(predecessor) is as before -/
theorem left_fields (c : Ctx net l pre succ nd ndp nds) (F : List (Option Nat)) (m : Nat) (x : Node)
    (hx : net.get m = some x) (hm : m ≠ l) :
    (leftT l pre succ nd F m x).state = x.state ∧ (leftT l pre succ nd F m x).crashed = x.crashed ∧
    (leftT l pre succ nd F m x).pred = x.pred ∧ (leftT l pre succ nd F m x).surrogate = x.surrogate ∧
    (leftT l pre succ nd F m x).succs.head? = x.succs.head? ∧
    (leftT l pre succ nd F m x).fingers = (if m = pre then F else x.fingers) := by
  have hst : (if m = succ then St.active else x.state) = x.state := by
    by_cases e : m = succ
    · subst e; rw [c.hgs] at hx; injection hx with hx; subst hx; simp [c.s_active.1]
    · simp [e]
  have hhd : (if m = pre then advisedList l pre nd else x.succs).head? = x.succs.head? := by
    by_cases e : m = pre
    · subst e; rw [c.hgp] at hx; injection hx with hx; subst hx; simp [advisedList_head, c.p_succ]
    · simp [e]
  refine ⟨?_, rfl, rfl, ?_, ?_, ?_⟩
  · simpa [tr, hm] using hst
  · simp [tr, hm]
  · simpa [tr] using hhd
  · simp [tr]

theorem left_live (c : Ctx net l pre succ nd ndp nds) (F : List (Option Nat)) (m : Nat) (x : Node)
    (hx : net.get m = some x) (hm : m ≠ l) (b : Bool) :
    checkNodeState (leftT l pre succ nd F m x) b = checkNodeState x b := by
  obtain ⟨h1, h2, _⟩ := left_fields c F m x hx hm
  unfold checkNodeState; rw [h1, h2]

theorem left_dead (F : List (Option Nat)) (x : Node) (b : Bool) :
    ∃ e, checkNodeState (leftT l pre succ nd F l x) b = some e := by
  unfold checkNodeState
  by_cases hcr : x.crashed = true
  · exact ⟨.unreachable, by simp [tr, hcr]⟩
  · exact ⟨.gone, by simp [tr, hcr]⟩

/-- membership after the leave: the old members without the leaver -/
theorem after_mem (c : Ctx net l pre succ nd ndp nds) (F : List (Option Nat)) (net' : Net)
    (h : Shape net net' (leftT l pre succ nd F)) (m : Nat) : Mem net' m ↔ (Mem net m ∧ m ≠ l) := by
  unfold Mem
  rw [h m]
  cases hx : net.get m with
  | none => simp
  | some x =>
    by_cases e : m = l
    · subst e
      obtain ⟨err, he⟩ := left_dead (l := m) (pre := pre) (succ := succ) (nd := nd) F x false
      simp [he]
    · simp [left_live c F m x hx e, e]

theorem after_quiescent (c : Ctx net l pre succ nd ndp nds) (F : List (Option Nat)) (net' : Net)
    (h : Shape net net' (leftT l pre succ nd F)) : Quiescent net' := by
  have key : ∀ m y, net'.get m = some y → checkNodeState y false = none →
      ∃ x, net.get m = some x ∧ checkNodeState x false = none ∧ m ≠ l ∧ y = leftT l pre succ nd F m x := by
    intro m y hy hcy
    rw [h m] at hy
    cases hx : net.get m with
    | none => simp [hx] at hy
    | some x =>
      simp [hx] at hy
      have hml : m ≠ l := by
        intro e; subst e
        obtain ⟨err, he⟩ := left_dead (l := m) (pre := pre) (succ := succ) (nd := nd) F x false
        rw [← hy, he] at hcy; simp at hcy
      exact ⟨x, rfl, by rw [← left_live c F m x hx hml false, hy]; exact hcy, hml, hy.symm⟩
  constructor
  · intro m y hy hcy
    obtain ⟨x, hx, hcx, hml, rfl⟩ := key m y hy hcy
    obtain ⟨h1, h2, _⟩ := left_fields c F m x hx hml
    rw [h1, h2]; exact c.hq.active m x hx hcx
  · intro m y hy hcy
    obtain ⟨x, hx, hcx, hml, rfl⟩ := key m y hy hcy
    obtain ⟨_, _, h3, h4, _⟩ := left_fields c F m x hx hml
    rw [h3, h4]; exact c.hq.surrogate m x hx hcx

end after

end Specter.C02
