// C21 correspondence: the REAL kv/aof store on random mutation histories with clean stop/reopen cycles
// (aof.New → Start → mutations → Stop → aof.New …) against the Lean model (submit / replay) and the
// property oracle "the data after the restart equals the data before the stop".
package main

import (
	"errors"
	"os"
	"strings"

	"go.miragespace.co/specter/kv/aof"
	"verif/harness/cmd/c21/aofh"
	"verif/harness/hlib"
)

type session struct {
	r   *hlib.Run
	dir string
	kv  *aof.DiskKV
}

func (s *session) reset() {
	s.close()
	s.dir = aofh.TempDir("c21-")
	kv, err := aofh.Open(s.dir)
	if err != nil {
		panic(err)
	}
	s.kv = kv
	s.r.Raw("reset")
}

func (s *session) close() {
	if s.kv != nil {
		s.kv.Stop()
		s.kv = nil
	}
	if s.dir != "" {
		os.RemoveAll(s.dir)
		s.dir = ""
	}
}

func (s *session) do(o aofh.Op) {
	if s.kv == nil {
		return
	}
	line := o.Line()
	res := aofh.Exec(s.kv, o)
	s.r.Emit(line, res)
	s.r.Count("op:" + o.Kind)
	if res != "ok" {
		s.r.Count("result:" + o.Kind + ":" + res)
	}
}

func (s *session) snap(keys [][]byte) {
	if s.kv == nil {
		return
	}
	s.r.Emit("snap "+aofh.ListTok(keys), aofh.Snapshot(s.kv, keys))
}

// restart = clean Stop, then the real aof.New on the same directory
func (s *session) reopen(keys [][]byte) {
	if s.kv == nil {
		return
	}
	s.kv.Stop()
	s.kv = nil
	s.r.Count(hlib.F("segments-at-restart:%d", aofh.Segments(s.dir)))
	kv, err := safeOpen(s.dir)
	if err != nil {
		s.r.Emit("reopen "+aofh.ListTok(keys), err.Error())
		s.r.Count("restart-failed:" + err.Error())
		return
	}
	s.kv = kv
	s.r.Emit("reopen "+aofh.ListTok(keys), aofh.Snapshot(kv, keys))
	s.r.Count("restart")
}

// safeOpen = aof.New; a failure is "error", a panic during replay is "panic"
func safeOpen(dir string) (kv *aof.DiskKV, err error) {
	defer func() {
		if p := recover(); p != nil {
			kv, err = nil, errors.New("panic")
		}
	}()
	kv, err = aofh.Open(dir)
	if err != nil {
		err = errors.New("error")
	}
	return
}

func main() {
	r := hlib.Start()
	r.Rule = "random mutation histories on the real aof store (puts, deletes, prefix append/remove over 4 children so conflicts are frequent, imports with overlapping/duplicate keys and lease tokens, key removals; 6 keys incl. the empty key), 1..4 clean Stop/aof.New cycles at random positions incl. back-to-back restarts, large values that cycle WAL segments; non-trivial = distinct history with at least one restart after a non-empty log"
	rng := hlib.NewRng(r.Seed)
	s := &session{r: r}
	defer s.close()

	if r.Replay != "" {
		for _, t := range r.ReplayLines() {
			switch t[0] {
			case "reset":
				s.reset()
			case "snap":
				s.snap(aofh.UnListTok(t[1]))
			case "reopen":
				s.reopen(aofh.UnListTok(t[1]))
			default:
				if o, ok := aofh.ParseOp(t); ok {
					s.do(o)
				}
			}
		}
		s.close()
		r.Finish()
		return
	}

	cases, maxOps, bigCases := 80, 50, 1
	if r.Thorough() {
		cases, maxOps, bigCases = 4000, 120, 25
	}
	for c := 0; c < cases+bigCases; c++ {
		cfg := aofh.GenCfg{N: 1 + rng.Intn(maxOps), EmptyKey: rng.Chance(50)}
		if c >= cases {
			cfg.Big = true
			cfg.N = 30 + rng.Intn(30)
		}
		if c < 3 {
			cfg.N = c // empty and tiny histories
		}
		ops := aofh.Gen(rng, cfg)
		keys := aofh.Universe(ops)
		s.reset()
		restarts := 1 + rng.Intn(4)
		at := map[int]int{}
		for i := 0; i < restarts-1; i++ {
			at[rng.Intn(len(ops)+1)]++
		}
		var key strings.Builder
		for i, o := range ops {
			for ; at[i] > 0; at[i]-- {
				s.snap(keys)
				s.reopen(keys)
				key.WriteString("R;")
			}
			s.do(o)
			key.WriteString(o.Line() + ";")
			if rng.Chance(5) {
				s.snap(keys)
			}
		}
		s.snap(keys)
		s.reopen(keys)
		if rng.Chance(30) { // back-to-back restart
			s.snap(keys)
			s.reopen(keys)
		}
		if len(ops) > 0 {
			r.Case(key.String())
		} else {
			r.Case("")
		}
		r.Count(hlib.F("history-len:%d", (len(ops)+9)/10*10))
		s.close()
	}
	r.Finish()
}
