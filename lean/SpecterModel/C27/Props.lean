import SpecterModel.C27.Model
/-!
# C27 — Gateway connections reach only a client published for the hostname

Theorems over the model of `DialClient` / `getConn` / `handleProxyConn` (Model.lean), for ALL slot
lists, route lists and environments. The model is tied to tun/server/server.go differentially
(harness/cmd/c27: all 16^3 lookup/behaviour combinations against the real code).
-/
namespace Specter.C27

/-! ### route order produced by the cache loader -/

theorem foldl_order (rs acc : List Route) :
    rs.foldl (fun acc r => if r.isLocal then r :: acc else acc ++ [r]) acc
      = (rs.filter (·.isLocal)).reverse ++ acc ++ rs.filter (fun r => !r.isLocal) := by
  induction rs generalizing acc with
  | nil => simp
  | cons r rs ih =>
    rw [List.foldl_cons, ih]
    cases h : r.isLocal <;> simp [h]

/-- locals (latest first) in front, remote routes behind in their lookup order -/
theorem order_eq (rs : List Route) :
    order rs = (rs.filter (·.isLocal)).reverse ++ rs.filter (fun r => !r.isLocal) := by
  unfold order; rw [foldl_order]; simp

theorem mem_order {rs : List Route} {r : Route} : r ∈ order rs ↔ r ∈ rs := by
  rw [order_eq]; simp only [List.mem_append, List.mem_reverse, List.mem_filter]
  cases r.isLocal <;> simp

/-- **local first**: the ordered routes split into a block of local routes followed by a block of
remote routes; remote routes keep the lookup order. -/
theorem local_first (rs : List Route) :
    ∃ ls rm, order rs = ls ++ rm ∧ (∀ r ∈ ls, r.isLocal = true) ∧ (∀ r ∈ rm, r.isLocal = false)
      ∧ rm = rs.filter (fun r => !r.isLocal) ∧ ls.Perm (rs.filter (·.isLocal)) := by
  refine ⟨(rs.filter (·.isLocal)).reverse, rs.filter (fun r => !r.isLocal), order_eq rs, ?_, ?_, rfl,
    List.reverse_perm _⟩
  · intro r hr; simpa using (List.mem_filter.mp (List.mem_reverse.mp hr)).2
  · intro r hr; simpa using (List.mem_filter.mp hr).2

theorem mem_slotRoutes {slots : List Slot} {r : Route} :
    r ∈ slotRoutes slots ↔ slots[r.idx]? = some (.route r.isLocal r.client) := by
  unfold slotRoutes
  rw [List.mem_filterMap]
  constructor
  · rintro ⟨⟨s, i⟩, hm, hs⟩
    have := List.mem_zipIdx_iff_getElem?.mp hm
    cases s <;> simp [slotRoute] at hs
    subst hs; simpa using this
  · intro h
    exact ⟨(.route r.isLocal r.client, r.idx), List.mem_zipIdx_iff_getElem?.mpr h, by simp [slotRoute]⟩

/-! ### the route loop -/

def ok (env : Nat → Env) (r : Route) : Prop := tryRoute r.isLocal (env r.idx) = .ok
def noDirect (env : Nat → Env) (r : Route) : Prop := tryRoute r.isLocal (env r.idx) = .noDirect

theorem loop_found {env : Nat → Env} {t : Nat} {rs : List Route} {nr : Bool} {k : Nat}
    (h : (loop env t rs nr).outcome = .found k) :
    ∃ pre r post, rs = pre ++ r :: post ∧ r.idx = k ∧ ok env r ∧ (∀ p ∈ pre, ¬ ok env p)
      ∧ (loop env t rs nr).tried = (pre ++ [r]).map (·.idx) := by
  induction rs generalizing nr with
  | nil => simp only [loop] at h; split at h <;> cases h
  | cons r rs ih =>
    simp only [loop] at h ⊢
    cases ht : tryRoute r.isLocal (env r.idx) with
    | ok =>
      simp only [ht] at h ⊢
      exact ⟨[], r, rs, rfl, by injection h, ht, by simp, by simp⟩
    | noDirect =>
      simp only [ht] at h ⊢
      obtain ⟨pre, r', post, e, hk, hok, hpre, htr⟩ := ih h
      refine ⟨r :: pre, r', post, by simp [e], hk, hok, ?_, by simp [htr]⟩
      intro p hp; rcases List.mem_cons.mp hp with rfl | hp
      · simp [ok, ht]
      · exact hpre p hp
    | hard c =>
      simp only [ht] at h ⊢
      obtain ⟨pre, r', post, e, hk, hok, hpre, htr⟩ := ih h
      refine ⟨r :: pre, r', post, by simp [e], hk, hok, ?_, by simp [htr]⟩
      intro p hp; rcases List.mem_cons.mp hp with rfl | hp
      · simp [ok, ht]
      · exact hpre p hp

/-- without a success every route is tried, in order, and the verdict is the final classification -/
theorem loop_fail {env : Nat → Env} {t : Nat} {rs : List Route} {nr : Bool}
    (h : ∀ r ∈ rs, ¬ ok env r) :
    (loop env t rs nr).outcome
        = (if nr || decide (∃ r ∈ rs, tryRoute r.isLocal (env r.idx) = .noDirect) || decide (t > 0)
           then .notConnected else .notFound)
      ∧ (loop env t rs nr).tried = rs.map (·.idx) := by
  induction rs generalizing nr with
  | nil => simp [loop]
  | cons r rs ih =>
    have hr : ¬ ok env r := h r (List.mem_cons_self ..)
    have hrs : ∀ r ∈ rs, ¬ ok env r := fun x hx => h x (List.mem_cons_of_mem _ hx)
    simp only [loop]
    cases ht : tryRoute r.isLocal (env r.idx) with
    | ok => exact absurd ht hr
    | noDirect =>
      obtain ⟨h1, h2⟩ := ih (nr := true) hrs
      simp only [h1, h2]; simp [ht]
    | hard c =>
      obtain ⟨h1, h2⟩ := ih (nr := nr) hrs
      simp only [h1, h2]; simp [ht]

theorem loop_some_ok {env : Nat → Env} {t : Nat} {rs : List Route} {nr : Bool}
    (h : ∃ r ∈ rs, ok env r) : ∃ k, (loop env t rs nr).outcome = .found k := by
  induction rs generalizing nr with
  | nil => simp at h
  | cons r rs ih =>
    simp only [loop]
    cases ht : tryRoute r.isLocal (env r.idx) with
    | ok => exact ⟨_, rfl⟩
    | noDirect =>
      obtain ⟨x, hx, hox⟩ := h
      rcases List.mem_cons.mp hx with rfl | hx
      · simp [ok, ht] at hox
      · exact ih ⟨x, hx, hox⟩
    | hard c =>
      obtain ⟨x, hx, hox⟩ := h
      rcases List.mem_cons.mp hx with rfl | hx
      · simp [ok, ht] at hox
      · exact ih ⟨x, hx, hox⟩

/-! ### property theorems about `DialClient` -/

theorem lookup_routes {slots : List Slot} {rs : List Route} (h : lookup slots = .routes rs) :
    rs = order (slotRoutes slots) := by
  unfold lookup at h; split at h
  · cases h
  · split at h
    · cases h
    · injection h with h; exact h.symm

/-- **only a published client**: a connection is only ever handed out for a slot that holds a route of
the hostname, and that route's client accepted the stream and the link frame (`tryRoute = ok`:
`getConn` produced a connection and `rpc.Send(conn, link)` succeeded). -/
theorem only_published_client (slots : List Slot) (env : Nat → Env) (k : Nat)
    (h : (dialClient slots env).outcome = .found k) :
    ∃ l c, slots[k]? = some (.route l c) ∧ tryRoute l (env k) = .ok := by
  unfold dialClient at h
  cases hl : lookup slots with
  | notFound => simp [hl] at h
  | failed => simp [hl] at h
  | routes rs =>
    simp only [hl] at h
    obtain ⟨pre, r, post, e, hk, hok, -, -⟩ := loop_found h
    have hm : r ∈ slotRoutes slots := by
      rw [← mem_order, ← lookup_routes hl, e]; simp
    have := mem_slotRoutes.mp hm
    subst hk
    exact ⟨r.isLocal, r.client, this, hok⟩

/-- **first success in order**: the winner is the first route, in the local-first order, whose client
is reachable; exactly the routes before it and itself were dialled, in that order. -/
theorem first_success_in_order (slots : List Slot) (env : Nat → Env) (k : Nat)
    (h : (dialClient slots env).outcome = .found k) :
    ∃ pre r post, order (slotRoutes slots) = pre ++ r :: post ∧ r.idx = k ∧ ok env r
      ∧ (∀ p ∈ pre, ¬ ok env p) ∧ (dialClient slots env).tried = (pre ++ [r]).map (·.idx) := by
  unfold dialClient at h ⊢
  cases hl : lookup slots with
  | notFound => simp [hl] at h
  | failed => simp [hl] at h
  | routes rs =>
    simp only [hl] at h ⊢
    rw [← lookup_routes hl]
    exact loop_found h

/-- the dialled slots are always a prefix of the local-first route order (success or not) -/
theorem tried_prefix (slots : List Slot) (env : Nat → Env) (rs : List Route)
    (hl : lookup slots = .routes rs) :
    (dialClient slots env).tried <+: rs.map (·.idx) := by
  unfold dialClient; simp only [hl]
  by_cases hs : ∃ r ∈ rs, ok env r
  · obtain ⟨k, hk⟩ := loop_some_ok (env := env) (t := rs.length) (nr := false) hs
    obtain ⟨pre, r, post, e, -, -, -, htr⟩ := loop_found hk
    rw [htr, e]; exact ⟨post.map (·.idx), by simp⟩
  · have : ∀ r ∈ rs, ¬ ok env r := fun r hr ho => hs ⟨r, hr, ho⟩
    rw [(loop_fail (t := rs.length) (nr := false) this).2]; exact List.prefix_refl _

/-- **found iff some published client is reachable** -/
theorem found_iff (slots : List Slot) (env : Nat → Env) :
    (∃ k, (dialClient slots env).outcome = .found k)
      ↔ ∃ rs, lookup slots = .routes rs ∧ ∃ r ∈ rs, ok env r := by
  unfold dialClient
  cases hl : lookup slots with
  | notFound => simp
  | failed => simp
  | routes rs =>
    simp only [Lookup.routes.injEq, exists_eq_left']
    constructor
    · rintro ⟨k, hk⟩
      obtain ⟨pre, r, post, e, -, hok, -, -⟩ := loop_found hk
      exact ⟨r, by simp [e], hok⟩
    · exact loop_some_ok

/-- **not connected**: the hostname has routes (the lookup produced a non-empty route list) but no
client could be reached — whatever the kind of failure (no-direct, hard error, link not sent). -/
theorem not_connected_iff (slots : List Slot) (env : Nat → Env) :
    (dialClient slots env).outcome = .notConnected
      ↔ ∃ rs, lookup slots = .routes rs ∧ rs ≠ [] ∧ ∀ r ∈ rs, ¬ ok env r := by
  unfold dialClient
  cases hl : lookup slots with
  | notFound => simp
  | failed => simp
  | routes rs =>
    simp only [Lookup.routes.injEq, exists_eq_left']
    by_cases hs : ∃ r ∈ rs, ok env r
    · obtain ⟨k, hk⟩ := loop_some_ok (env := env) (t := rs.length) (nr := false) hs
      rw [hk]; simp only [reduceCtorEq, false_iff, not_and]
      intro _ hall; obtain ⟨r, hr, ho⟩ := hs; exact hall r hr ho
    · have hall : ∀ r ∈ rs, ¬ ok env r := fun r hr ho => hs ⟨r, hr, ho⟩
      rw [(loop_fail (t := rs.length) (nr := false) hall).1]
      cases rs with
      | nil => simp
      | cons a as => simpa using hall

/-- **not found**: no routes — every lookup slot empty, or a mix of empty / failed slots that yields no route. -/
theorem not_found_iff (slots : List Slot) (env : Nat → Env) :
    (dialClient slots env).outcome = .notFound
      ↔ lookup slots = .notFound ∨ lookup slots = .routes [] := by
  unfold dialClient
  cases hl : lookup slots with
  | notFound => simp
  | failed => simp
  | routes rs =>
    cases rs with
    | nil => simp [loop]
    | cons a as =>
      simp only [reduceCtorEq, Lookup.routes.injEq, false_or, iff_false]
      by_cases hs : ∃ r ∈ (a :: as), ok env r
      · obtain ⟨k, hk⟩ := loop_some_ok (env := env) (t := (a :: as).length) (nr := false) hs
        rw [hk]; simp
      · have hall : ∀ r ∈ (a :: as), ¬ ok env r := fun r hr ho => hs ⟨r, hr, ho⟩
        rw [(loop_fail (t := (a :: as).length) (nr := false) hall).1]; simp

/-- property wording, first half: H has no routes (all slots empty) ⇒ not-found -/
theorem no_routes_not_found (slots : List Slot) (env : Nat → Env) (h : ∀ s ∈ slots, s = .empty) :
    (dialClient slots env).outcome = .notFound := by
  rw [not_found_iff]; left
  unfold lookup
  have : slots.countP (· == .empty) = slots.length :=
    List.countP_eq_length.mpr (fun a ha => by simp [h a ha])
  simp [this]

/-- property wording, second half: some slot holds a route and no route's client is reachable ⇒ not-connected -/
theorem routes_unreachable_not_connected (slots : List Slot) (env : Nat → Env) (i : Nat) (l : Bool) (c : Nat)
    (hr : slots[i]? = some (.route l c))
    (hun : ∀ j l c, slots[j]? = some (.route l c) → tryRoute l (env j) ≠ .ok) :
    (dialClient slots env).outcome = .notConnected := by
  have hmem : (⟨i, l, c⟩ : Route) ∈ slotRoutes slots := mem_slotRoutes.mpr hr
  have hlen : i < slots.length := by
    rcases Nat.lt_or_ge i slots.length with h | h
    · exact h
    · simp [List.getElem?_eq_none h] at hr
  have hget : slots[i]'hlen = .route l c := by
    have := List.getElem?_eq_getElem hlen; rw [this] at hr; exact Option.some.inj hr
  rw [not_connected_iff]
  refine ⟨order (slotRoutes slots), ?_, ?_, ?_⟩
  · unfold lookup
    have h1 : slots.length ≠ slots.countP (· == .empty) := by
      intro e
      have := (List.countP_eq_length.mp e.symm) (slots[i]'hlen) (List.getElem_mem hlen)
      simp [hget] at this
    have h2 : slots.length ≠ slots.countP isErrSlot := by
      intro e
      have := (List.countP_eq_length.mp e.symm) (slots[i]'hlen) (List.getElem_mem hlen)
      simp [hget, isErrSlot] at this
    simp [h1, h2]
  · intro e; have := mem_order.mpr hmem; simp [e] at this
  · intro r hr' ho
    exact hun r.idx r.isLocal r.client (mem_slotRoutes.mp (mem_order.mp hr')) ho

/-! ### no route recorded (absent and/or failed lookups only) -/

theorem slotRoutes_nil {slots : List Slot} (h : ∀ s ∈ slots, isRoute s = false) : slotRoutes slots = [] := by
  apply List.eq_nil_iff_forall_not_mem.mpr
  intro r hr
  have hs := mem_slotRoutes.mp hr
  have hm := List.mem_of_getElem? hs
  have := h _ hm
  simp [isRoute] at this

/-- what the loader hands to `DialClient` when no lookup returned a route: not-found (all absent),
lookup-failed (all failed), or — the mixed case — an EMPTY route list, never a non-empty one -/
theorem lookup_no_route (slots : List Slot) (h : ∀ s ∈ slots, isRoute s = false) :
    lookup slots = .notFound ∨ lookup slots = .failed ∨ lookup slots = .routes [] := by
  unfold lookup
  split
  · exact Or.inl rfl
  · split
    · exact Or.inr (Or.inl rfl)
    · right; right; rw [slotRoutes_nil h]; rfl

/-- **no routes ⇒ never "has routes"**: when no lookup returned a route for H — whatever mix of absent,
failed and undecodable lookups — nothing is dialled and the outcome is not-found or lookup-failed;
in particular never not-connected ("H has routes but no client reachable") and never a connection. -/
theorem no_route_never_connected (slots : List Slot) (env : Nat → Env)
    (h : ∀ s ∈ slots, isRoute s = false) :
    ((dialClient slots env).outcome = .notFound ∨ (dialClient slots env).outcome = .lookupFailed)
      ∧ (dialClient slots env).tried = [] := by
  unfold dialClient
  rcases lookup_no_route slots h with hl | hl | hl <;> simp [hl, loop]

theorem lookup_failed_iff_slots (slots : List Slot) :
    lookup slots = .failed ↔ slots ≠ [] ∧ ∀ s ∈ slots, isErrSlot s = true := by
  unfold lookup
  by_cases h1 : slots.length = slots.countP (· == .empty)
  · rw [if_pos h1]
    simp only [reduceCtorEq, false_iff, not_and]
    intro hne' hall
    cases slots with
    | nil => exact hne' rfl
    | cons a as =>
      have ha := (List.countP_eq_length.mp h1.symm) a (List.mem_cons_self ..)
      have hb := hall a (List.mem_cons_self ..)
      cases a <;> simp_all [isErrSlot]
  · rw [if_neg h1]
    by_cases h2 : slots.length = slots.countP isErrSlot
    · rw [if_pos h2]
      simp only [true_iff]
      refine ⟨?_, fun s hs => (List.countP_eq_length.mp h2.symm) s hs⟩
      rintro rfl; simp at h1
    · rw [if_neg h2]
      simp only [reduceCtorEq, false_iff, not_and]
      intro _ hall
      exact h2 (List.countP_eq_length.mpr hall).symm

/-- **lookup-failed** is reported exactly when there are lookups and every one of them failed -/
theorem lookup_failed_iff (slots : List Slot) (env : Nat → Env) :
    (dialClient slots env).outcome = .lookupFailed ↔ slots ≠ [] ∧ ∀ s ∈ slots, isErrSlot s = true := by
  have hne : ∀ rs nr, (loop env rs.length rs nr).outcome ≠ .lookupFailed := by
    intro rs nr hc
    by_cases hs : ∃ r ∈ rs, ok env r
    · obtain ⟨k, hk⟩ := loop_some_ok (env := env) (t := rs.length) (nr := nr) hs
      rw [hk] at hc; cases hc
    · have hall : ∀ r ∈ rs, ¬ ok env r := fun r hr ho => hs ⟨r, hr, ho⟩
      rw [(loop_fail (t := rs.length) (nr := nr) hall).1] at hc
      split at hc <;> cases hc
  rw [← lookup_failed_iff_slots]
  unfold dialClient
  cases hl : lookup slots with
  | notFound => simp
  | failed => simp
  | routes rs => simpa using hne rs false

/-- **partial lookup failure, no route ⇒ not-found**: no lookup returned a route and at least one
lookup did not fail (it found the key absent) — some other lookups may have failed — ⇒ not-found.
Together with `no_routes_not_found` (all absent) this is "not-found when H has no routes" under lookup errors. -/
theorem partial_lookup_failure_not_found (slots : List Slot) (env : Nat → Env)
    (h : ∀ s ∈ slots, isRoute s = false) (he : ∃ s ∈ slots, s = .empty) :
    (dialClient slots env).outcome = .notFound := by
  rcases (no_route_never_connected slots env h).1 with hn | hf
  · exact hn
  · obtain ⟨s, hs, rfl⟩ := he
    have := ((lookup_failed_iff slots env).mp hf).2 _ hs
    simp [isErrSlot] at this

/-- converse direction for not-connected: it is only ever reported for a hostname with a recorded route -/
theorem not_connected_has_route (slots : List Slot) (env : Nat → Env)
    (h : (dialClient slots env).outcome = .notConnected) : ∃ (i : Nat) (l : Bool) (c : Nat), slots[i]? = some (Slot.route l c) := by
  obtain ⟨rs, hl, hne, -⟩ := (not_connected_iff slots env).mp h
  cases rs with
  | nil => exact absurd rfl hne
  | cons r rs' =>
    have hm : r ∈ slotRoutes slots := by rw [← mem_order, ← lookup_routes hl]; simp
    exact ⟨r.idx, r.isLocal, r.client, mem_slotRoutes.mp hm⟩

/-! ### status frame / remote side -/

/-- **wrong destination rejected**: a proxy stream whose route names another tunnel node (or carries no
usable route) never reaches a client and is answered with a non-OK status. -/
theorem proxy_wrong_destination_rejected (c : Nat) (d : DialRes) :
    (handleProxy (.route false c) d).dialed = none ∧ (handleProxy (.route false c) d).status ≠ 0
      ∧ (handleProxy (.route false c) d).piped = false
      ∧ (handleProxy .bad d).dialed = none ∧ (handleProxy .bad d).status ≠ 0 := by
  simp [handleProxy]

/-- the remote node only ever dials the client named in a route addressed to itself, and pipes only
after that client's stream opened -/
theorem proxy_dials_only_route_client (r : Recv) (d : DialRes) (x : Nat) :
    ((handleProxy r d).dialed = some x → r = .route true x)
      ∧ ((handleProxy r d).piped = true → d = .conn ∧ (handleProxy r d).status = 0 ∧ ∃ c, r = .route true c) := by
  cases r with
  | bad => simp [handleProxy]
  | route m c => cases m <;> cases d <;> simp [handleProxy, statusOf]

/-- **status round trip**: a remote route served by a correct remote node (`handleProxy` on a route
addressed to it) classifies exactly like a direct dial of the client on that node. -/
theorem proxied_equiv_direct (c : Nat) (d : DialRes) (lf sf : Bool) (st : Option Nat) :
    getConn false ⟨.conn, false, some (handleProxy (.route true c) d).status, lf⟩
      = getConn true ⟨d, sf, st, lf⟩ := by
  cases d <;> simp [getConn, handleProxy, statusOf, decodeStatus]

/-- only status OK opens a proxied connection; NO_DIRECT is the only code counted as "not connected" -/
theorem decodeStatus_spec (n : Nat) :
    (decodeStatus n = .conn ↔ n = 0) ∧ (decodeStatus n = .noDirect ↔ n = 2) := by
  unfold decodeStatus; split <;> simp_all

/-! ### non-vacuity -/

def envEx : Nat → Env
  | 0 => ⟨.conn, false, some 1, false⟩     -- remote answers UNKNOWN_ERROR
  | 1 => ⟨.err, false, none, false⟩        -- local dial fails hard
  | _ => ⟨.conn, false, some 0, false⟩     -- remote OK

example : dialClient [.route false 11, .route true 22, .route false 33] envEx = ⟨.found 2, [1, 0, 2], []⟩ := by decide
example : (dialClient [.route false 11, .route true 22, .empty] envEx).outcome = .notConnected := by decide
example : (dialClient [.empty, .lookupErr, .empty] envEx).outcome = .notFound := by decide
example : (dialClient [.undecodable, .lookupErr, .lookupErr] envEx).outcome = .lookupFailed := by decide
-- partial lookup failure without any route (hypotheses of partial_lookup_failure_not_found / no_route_never_connected hold)
example : (∀ s ∈ [Slot.lookupErr, .empty, .undecodable], isRoute s = false) ∧ (∃ s ∈ [Slot.lookupErr, .empty, .undecodable], s = .empty)
    ∧ lookup [.lookupErr, .empty, .undecodable] = .routes []
    ∧ dialClient [.lookupErr, .empty, .undecodable] envEx = ⟨.notFound, [], []⟩ := by decide
example : (dialClient [.route false 11, .route true 22, .lookupErr] envEx).outcome = .notConnected
    ∧ ∃ (i : Nat) (l : Bool) (c : Nat), [Slot.route false 11, .route true 22, .lookupErr][i]? = some (Slot.route l c) := ⟨by decide, 0, false, 11, rfl⟩
example : order [⟨0, false, 1⟩, ⟨1, true, 2⟩, ⟨2, true, 3⟩] = [⟨2, true, 3⟩, ⟨1, true, 2⟩, ⟨0, false, 1⟩] := by decide
example : handleProxy (.route true 5) .conn = ⟨0, some 5, true⟩ ∧ handleProxy (.route false 5) .conn = ⟨1, none, false⟩ := by decide

end Specter.C27
