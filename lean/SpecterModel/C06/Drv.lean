import SpecterModel.C01.Sim
import SpecterModel.C06.Props
/-! C06 driver: ring model + SPEC: (1) a node that holds a membership change never grants another one,
(2) refusals are retryable, (3) a refused / failed attempt leaves every node's lifecycle state as before. -/
namespace Specter.C06
open Specter.Util Specter.Ring

/-- lifecycle states in an implementation dump `id:State:… ; id:State:…` -/
def dumpStates (d : String) : List (Nat × String) :=
  (d.splitOn " ; ").filterMap fun part =>
    match part.splitOn ":" with
    | id :: st :: _ => id.trimAscii.toString.toNat?.map (·, st)
    | _ => none

def modelStates (net : Net) : List (Nat × String) :=
  (net.toArray.qsort (fun a b => a.1 < b.1)).toList.map fun (id, nd) => (id, nd.state.name)

def retryableNames : List String :=
  ["err:ErrJoinInvalidState", "err:ErrJoinInvalidSuccessor", "err:ErrJoinTransferFailure",
   "err:ErrLeaveInvalidState", "err:ErrLeaveTransferFailure"]

def lookupErrorNames : List String :=
  ["err:ErrNodeNotStarted", "err:ErrNodeGone", "err:ErrNodeNoSuccessor", "err:Unreachable", "err:ErrDuplicateJoinerID"]

def busy (net : Net) (n : Nat) : Bool :=
  match net.get n with
  | some nd => (nd.state == .joining || nd.state == .transferring || nd.state == .leaving) && !nd.crashed
  | none => false

def spec (rhsOf : String → String) (net _net' : Net) (toks : List String) (ires : String) : Option String :=
  let isMembership := match toks with
    | "reqjoin" :: _ | "reqleave" :: _ | "execleave" :: _ | "joinbegin" :: _ => true
    | _ => false
  if !isMembership then none else
  let dumpAfter := rhsOf ires
  -- (3) failed attempt restores every lifecycle state
  if ires.startsWith "err:" && dumpAfter != "" && dumpStates dumpAfter != modelStates net then
    some s!"failed attempt ({ires}) did not restore lifecycle states: before {modelStates net}, after {dumpStates dumpAfter}"
  else
  match toks with
  | ["reqleave", s] =>
    match s.toNat? with
    | some s =>
      if busy net s && ires != "err:ErrLeaveInvalidState" then some s!"busy node {s} answered leave request with {ires}" else none
    | none => none
  | ["reqjoin", s, j] =>
    match s.toNat?, j.toNat? with
    | some s, some j =>
      match findSucc net FUEL s j with
      | .found h =>
        if h != j && busy net h && ires.startsWith "ok:" then
          some s!"busy node {h} granted a second membership change: {ires}"
        else if h != j && busy net h && !(retryableNames.contains ires) && !(lookupErrorNames.contains ires) then
          some s!"busy node {h} answered join request with {ires}" else none
      | _ => none
    | _, _ => none
  | ["execleave", l] =>
    match l.toNat? with
    | some l =>
      let succBusy := match net.get l with
        | some nd => (match nd.succs.head? with | some s => s != l && busy net s | none => false)
        | none => false
      if (busy net l || succBusy) && !(ires.startsWith "err:") then
        some s!"leave of {l} proceeded although it or its successor holds a membership change"
      else if ires.startsWith "err:" && !(retryableNames.contains ires) && ires != "err:NilPredecessor" && ires != "err:ErrNodeNoSuccessor" then
        some s!"leave attempt failed with non-retryable {ires}"
      else none
    | none => none
  | _ => none

/-- the spec needs the implementation's dump: thread the whole rhs through -/
def step (net : Net) (toks : List String) (rhs : String) : Net × Verdict :=
  let d := (splitRhs rhs).2
  ringStep (spec (fun _ => d)) net toks rhs

def main : IO Unit := runLoop ([] : Net) step

end Specter.C06
