import SpecterModel.C03.Refine
/-!
# C03 / C05 — a complete sequential history on a concrete ring (non-vacuity of `history_refines`)

Separate module only to keep build times low: every fact below is decided by kernel evaluation of the
ring model on `Refine.dataRing`.
-/
namespace Specter.C03.Refine
open Specter.Ring Specter.C01 Specter.C03 Specter.C05 Specter.C09 Specter.C02

/-- a history: put through node 0 (served by 5) — node 3 joins (the key moves to it) — read through node
2^48-1 — node 5 leaves (its remaining data goes to 2^48-1; three finger repairs make the ring stable again) —
read through node 3 -/
def e1 : Net := (kvAt dataRing FUEL 0 "abc" (H0 "abc") (.put "new")).1
def e2 : Net := (join e1 3 0).1
def e3 : Net := (kvAt e2 FUEL (2^48-1) "abc" (H0 "abc") .get).1
def rep5 : List Specter.C07.Task := [.fixFinger 0, .fixFinger 3, .fixFinger (2^48-1)]
def e4 : Net := rep5.foldl Specter.C07.runTask (stabilize (leave e3 5).1 (Specter.C02.Leave.predOf e3 5))
def e5 : Net := (kvAt e4 FUEL 3 "abcd" (H0 "abcd") .get).1

def demoOps : List Op :=
  [.kv 0 "abc" (.put "new"), .join 3 0, .kv (2^48-1) "abc" .get, .leave 5 rep5, .kv 3 "abcd" .get]

/-- **Witness: the hypothesis `hno` of `leave_then_stabilize_stable` fails** right after `Leave()` and the
predecessor's `stabilize`: the predecessor (node 3) still holds a finger to the leaver (node 5), written
by the advisory's `fixFinger` while the leaver was still answering; the ring is not `Stable` until fingers
are repaired (here three `fixFinger` runs: `stableB e4` in `demo_checks4`). This is why the leave step of a
history includes repair. -/
theorem hno_fails :
    ((stabilize (leave e3 5).1 (Specter.C02.Leave.predOf e3 5)).get 3).map (·.fingers.contains (some 5)) = some true ∧
    stableB (stabilize (leave e3 5).1 (Specter.C02.Leave.predOf e3 5)) = false := by
  decide +kernel

/-- the side conditions of the history, decided by evaluation (grouped to evaluate each net once) -/
theorem demo_checks1 :
    (memB dataRing 0 && freshB e1 3 && (Specter.C07.storeOf e1 3 == some []) && ((join e1 3 0).2 == none) &&
      memB e2 (2^48-1)) = true := by decide +kernel
theorem demo_checks3 : (memB e3 5 && memB e3 3 && ((leave e3 5).2 == none)) = true := by decide +kernel
theorem demo_checks4 : (stableB e4 && quiescentB e4 && memB e4 3) = true := by decide +kernel

theorem demo_exec : Exec H0 dataRing demoOps
    [(kvAt dataRing FUEL 0 "abc" (H0 "abc") (.put "new")).2, (kvAt e2 FUEL (2^48-1) "abc" (H0 "abc") .get).2,
     (kvAt e4 FUEL 3 "abcd" (H0 "abcd") .get).2] e5 := by
  have c1 := demo_checks1
  have c3 := demo_checks3
  have c4 := demo_checks4
  simp only [Bool.and_eq_true, beq_iff_eq] at c1 c3 c4
  obtain ⟨⟨⟨⟨a1, a2⟩, a3⟩, a4⟩, a5⟩ := c1
  obtain ⟨⟨b1, b2⟩, b3⟩ := c3
  obtain ⟨⟨d1, d2⟩, d3⟩ := c4
  exact
    Exec.kv dataRing 0 "abc" (.put "new") _ _ e5 (mem_of_memB a1) <|
    Exec.join e1 3 0 e2 _ _ e5 (by decide) (fresh_of_freshB _ _ a2) (empty_of_storeOf _ _ a3) (eq_of_snd_none _ a4) <|
    Exec.kv e2 (2^48-1) "abc" .get _ _ e5 (mem_of_memB a5) <|
    Exec.leave e3 5 rep5 (leave e3 5).1 _ _ e5 (mem_of_memB b1) ⟨3, mem_of_memB b2, by decide⟩ (eq_of_snd_none _ b3)
      (stable_of_stableB _ d1) (quiescent_of_quiescentB _ d2) <|
    Exec.kv e4 3 "abcd" .get _ _ e5 (mem_of_memB d3) <|
    Exec.nil e5

/-- the answers of the sequential specification for this history: ok, "new" (read after the join, through
another node), "w" (read after the leave) -/
theorem demo_outputs :
    (specRun (absGet H0 dataRing) demoOps).2 = [.unit, .value (some "new"), .value (some "w")] := by decide +kernel

/-- `history_refines` applies: the ring's answers are those, and the final ring satisfies `Inv` -/
theorem demo_refines :
    [(kvAt dataRing FUEL 0 "abc" (H0 "abc") (.put "new")).2, (kvAt e2 FUEL (2^48-1) "abc" (H0 "abc") .get).2,
     (kvAt e4 FUEL 3 "abcd" (H0 "abcd") .get).2] = [.unit, .value (some "new"), .value (some "w")] ∧ Inv H0 e5 :=
  have h := history_refines H0 H0_lt dataRing demoOps _ e5 demo_exec 5 dataRing_inv (sized_length _) (by decide)
  ⟨h.1.trans demo_outputs, h.2.1⟩

end Specter.C03.Refine
