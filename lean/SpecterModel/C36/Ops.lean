/-! C36: vocabulary shared by the generated decision chain of `errorHandler` and the model. -/
namespace Specter.C36

/-- The innermost error of a chain (what `errors.Is` finally compares with a sentinel). -/
inductive Kind where
  | notFound      -- tun.ErrDestinationNotFound
  | notConnected  -- tun.ErrTunnelClientNotConnected
  | noDirect      -- transport.ErrNoDirect
  | canceled      -- context.Canceled
  | eof           -- io.EOF
  | deadline      -- context.DeadlineExceeded (a net.Error with Timeout() = true)
  | netTimeout    -- any other net.Error with Timeout() = true (os.ErrDeadlineExceeded, quic idle timeout, …)
  | netOther      -- a net.Error with Timeout() = false
  | other         -- anything else
  deriving DecidableEq, Repr

/-- One wrapping layer. All implement `Unwrap`, so `errors.Is` looks through them. -/
inductive Wrap where
  | fmt   -- fmt.Errorf("…: %w", err): NOT a net.Error
  | op    -- &net.OpError{Err: err}: a net.Error whose Timeout() asks the DIRECT inner error
  | url   -- &url.Error{Err: err} (what http.Client / RoundTrip failures arrive as): a net.Error, Timeout() likewise
  deriving DecidableEq, Repr

/-- the layer is itself a `net.Error` (`errors.As(err, &netErr)` stops at it) -/
def Wrap.isNet : Wrap → Bool
  | .fmt => false
  | .op | .url => true

/-- An error value: wrappers outermost first, then the innermost error. -/
structure Err where
  wraps : List Wrap
  leaf : Kind
  deriving DecidableEq, Repr

inductive Cond where
  | isAny (ks : List Kind)   -- errors.Is(e, k₁) || errors.Is(e, k₂) || …
  | isTimeout                -- tun.IsTimeout(e)
  deriving Repr

inductive Act where
  | status (code : Nat)      -- w.WriteHeader(code) (+ body)
  | silent                   -- return without writing anything
  deriving DecidableEq, Repr

end Specter.C36
